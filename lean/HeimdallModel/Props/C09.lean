import HeimdallModel.Lemmas.ReqView
import HeimdallModel.Gen.ReqView
/-!
# C09 — forwarded headers from untrusted peers never influence a decision

Theorems about the request-view model (`Model/NetAddr.lean`, `Model/ReqView.lean`; tied to the decision and proxy
services by the correspondence check and by the header tables measured on them, `Gen/ReqView.lean`).  Every statement
quantifies over all `trusted_proxies` lists (valid, invalid, empty), all `RemoteAddr` strings, all requests, all header
lines (any number, any casing, repeated), and every behaviour of `url.Parse` on `X-Forwarded-Uri` (`parse`).

The model of the entry parser is the code with `fixes/C09-1.patch` (in /repo as commit 7f0f8a0); `c09_unpatched_trusts_unparsable_peer` states the
defect of the unpatched code.
-/
namespace Heimdall.Props.C09
open Heimdall.Fwd

/-! ## the tables of the model are the tables of the running code (measured on every run)

`Gen/ReqView.lean` is written by the check from the current tree: the deleted / influential names are *measured* on the
real decision and proxy services (each candidate name alone and all together from an unlisted peer; each candidate
alone with every kind of value from a listed peer), the inventory of forwarding-like names is syntactic but
shape-independent. -/

/-- the names both services delete for unlisted peers are the model's `stripSet` -/
theorem c09_gen_strip_set :
    sameNames Heimdall.Gen.ReqView.stripDecision stripSet ∧ sameNames Heimdall.Gen.ReqView.stripProxy stripSet := by
  decide

/-- the names that influence the view (decision, proxy) or the forwarded headers sent upstream (proxy) for a listed
    peer are the model's `readKeys` -/
theorem c09_gen_read_set :
    sameNames Heimdall.Gen.ReqView.readDecision readKeys ∧ sameNames Heimdall.Gen.ReqView.readProxy readKeys := by
  decide

/-- no string that looks like a forwarding header occurs in the trusted-proxy, request-context, proxy or decision
    package — as literal or constant, read from a header map or not — without being deleted for unlisted peers -/
theorem c09_gen_every_forwarding_name_is_stripped :
    (∀ k ∈ Heimdall.Gen.ReqView.mentioned, k ∈ stripSet) ∧ (∀ k ∈ Heimdall.Gen.ReqView.astReads, k ∈ stripSet) := by
  decide

/-! ## who is trusted -/

/-- **Trusted = listed.** The middleware keeps the forwarded headers exactly when the peer has an address and some
entry of `trusted_proxies` is a valid address equal to it or a valid range containing it (IPv4 and IPv4-mapped IPv6
identified, no IPv4 address in an IPv6 range and vice versa).  Invalid entries list nothing; a peer whose address
cannot be parsed is never trusted. -/
theorem c09_trusted_iff_listed (proxies : List String) (remoteAddr : String) :
    trustedPeer proxies remoteAddr = true ↔ Listed proxies remoteAddr :=
  trustedPeer_iff_listed proxies remoteAddr

instance (proxies : List String) (remoteAddr : String) : Decidable (Listed proxies remoteAddr) :=
  decidable_of_iff _ (c09_trusted_iff_listed proxies remoteAddr)

example : Listed ["foo", "10.0.0.0/8"] "10.255.255.255:4711" := by decide
example : ¬ Listed ["foo", "10.0.0.0/8"] "11.0.0.0:4711" := by decide
example : Listed ["::ffff:192.168.1.0/120"] "192.168.1.77:1" ∧ ¬ Listed ["::/0"] "192.168.1.77:1" := by decide
example : Listed ["2001:DB8:0:0::/56"] "[2001:db8:0:ff::1]:443" ∧ ¬ Listed ["2001:db8::/56"] "[2001:db8:0:100::1]:443" := by
  decide

/-- **Invalid entries list nothing.** A `trusted_proxies` list that is empty or consists only of entries that are
neither an IP address nor a CIDR range trusts nobody. -/
theorem c09_invalid_entries_list_nothing (proxies : List String) (hinv : ∀ s ∈ proxies, parseEntry s = none)
    (remoteAddr : String) : ¬ Listed proxies remoteAddr := by
  intro ⟨_, _, s, hs, e, he, _⟩
  rw [hinv s hs] at he
  cases he

example : ∀ s ∈ ["traefik", "", "10.0.0.256", "10.0.0.0/33", "fe80::1%eth0", "::1/129", "1.2.3.4/", " 10.0.0.1"],
    parseEntry s = none := by decide

/-- **The defect of the unpatched code** (fixes/C09-1.patch): an entry that is not an IP address is kept as a `nil`
address, which equals the `nil` of a peer address that cannot be parsed (IPv6 with zone): such a peer is trusted
although nothing lists it. -/
theorem c09_unpatched_trusts_unparsable_peer :
    trustedPeerUnpatched ["traefik"] "[fe80::1%eth0]:51234" = true ∧ ¬ Listed ["traefik"] "[fe80::1%eth0]:51234" := by
  decide

/-! ## header-name casing -/

/-- **Any casing.** A header line is filed under the family name `K` by the HTTP reader exactly when its name equals
`K` up to ASCII case — so the deletion hits every spelling, and only those. -/
theorem c09_casing (K : String) (hK : K ∈ stripSet) (name : String) :
    canonKey name = K ↔ eqIgnoreCase name K = true := by
  obtain ⟨hv, hc⟩ := stripSet_canonical K hK
  exact canonKey_eq_iff K hv hc name

example : canonKey "x-FORWARDED-meThod" = "X-Forwarded-Method" ∧ canonKey "X_Forwarded_Method" ≠ "X-Forwarded-Method" := by
  decide

/-! ## untrusted peers -/

/-- **Lifting lemma.** Whatever list `names` the first middleware deletes: if it covers every header name the
request context and the proxy read (`readKeys`), then for a peer that is not listed the view is the actual request,
the upstream gets exactly one `Forwarded` element describing the real connection, and no deleted name is shown to
mechanisms. -/
theorem c09_untrusted_of_cover (names : List String) (hcover : ∀ k ∈ readKeys, k ∈ names) (hHost : "Host" ∉ names)
    (parse : UriParse) (proxies : List String) (r : Req) (hu : ¬ Listed proxies r.remoteAddr) :
    (serveWith names parse proxies r).view = actualView r ∧
      (serveWith names parse proxies r).upstream = [("Forwarded", ownForwarded r)] ∧
      ∀ kv ∈ (serveWith names parse proxies r).shown, kv.1 ∉ names := by
  have ht : trustedPeer proxies r.remoteAddr = false := by
    cases h : trustedPeer proxies r.remoteAddr with
    | false => rfl
    | true => exact absurd ((c09_trusted_iff_listed _ _).mp h) hu
  have hno : ∀ k ∈ readKeys, hget (strip names (canonHeaders r.wire)) k = "" :=
    fun k hk => hget_strip_of_mem names _ k (hcover k hk)
  simp only [serveWith, effective, ht, Bool.false_eq_true, if_false]
  refine ⟨viewOf_of_no_read parse _ r hno, ?_, mechHeaders_keys names _ r hHost⟩
  rw [upstreamFwd_eq, hvalues_strip_of_mem names _ _ (hcover "X-Forwarded-For" (by decide)),
    hvalues_strip_of_mem names _ _ (hcover "Forwarded" (by decide))]
  simp [joinList, hno "X-Forwarded-Host" (by decide), hno "X-Forwarded-Proto" (by decide), ownForwarded, peerIP]

/-- **Untrusted ⇒ only the actual request counts.** For a peer that is not listed in `trusted_proxies`: method,
scheme, host, path, query and the client address list are those of the connection and the request line; the upstream
of the proxy receives no forwarded header but one `Forwarded` element naming the real peer; mechanisms are shown no
header of the family, under whatever spelling they ask for it. -/
theorem c09_untrusted_actual_only (parse : UriParse) (proxies : List String) (r : Req)
    (hu : ¬ Listed proxies r.remoteAddr) :
    (serve parse proxies r).view = actualView r ∧
      (serve parse proxies r).upstream = [("Forwarded", ownForwarded r)] ∧
      (∀ kv ∈ (serve parse proxies r).shown, kv.1 ∉ stripSet) ∧
      ∀ name, isFamilyName name = true → mechHeader (effective stripSet proxies r) r name = "" := by
  obtain ⟨h1, h2, h3⟩ := c09_untrusted_of_cover stripSet (by decide) (by decide) parse proxies r hu
  refine ⟨h1, h2, h3, ?_⟩
  intro name hn
  have ht : trustedPeer proxies r.remoteAddr = false := by
    cases h : trustedPeer proxies r.remoteAddr with
    | false => rfl
    | true => exact absurd ((c09_trusted_iff_listed _ _).mp h) hu
  have hmem : canonKey name ∈ stripSet := by
    rw [← stripSet_contains_canonKey] at hn
    exact List.contains_iff_mem.mp hn
  have hne : canonKey name ≠ "Host" := by
    intro h; rw [h] at hmem; revert hmem; decide
  simp only [mechHeader, effective, ht, Bool.false_eq_true, if_false, if_neg hne]
  rw [hvalues_strip_of_mem stripSet _ _ hmem]
  rfl

/-- **Matching sees the actual request only.** Whatever function of the view selects the rule (routes, methods,
scheme, hosts …): for an unlisted peer it selects what it selects for the actual request. -/
theorem c09_untrusted_matching {α : Type} (select : View → α) (parse : UriParse) (proxies : List String) (r : Req)
    (hu : ¬ Listed proxies r.remoteAddr) : select (serve parse proxies r).view = select (actualView r) := by
  rw [(c09_untrusted_actual_only parse proxies r hu).1]

/-- **Non-interference.** Two requests from the same unlisted peer that differ only in header lines of the forwarded
family (any spelling, any number of lines, any values) are indistinguishable: same view (hence the same matched rule
for every matcher), same headers shown to mechanisms, same forwarded headers sent upstream. -/
theorem c09_untrusted_noninterference (parse : UriParse) (proxies : List String) (r : Req) (wire' : Headers)
    (hu : ¬ Listed proxies r.remoteAddr) (hsame : nonFamily r.wire = nonFamily wire') :
    serve parse proxies { r with wire := wire' } = serve parse proxies r := by
  have ht : trustedPeer proxies r.remoteAddr = false := by
    cases h : trustedPeer proxies r.remoteAddr with
    | false => rfl
    | true => exact absurd ((c09_trusted_iff_listed _ _).mp h) hu
  simp only [serve, serveWith, effective, ht, Bool.false_eq_true, if_false, strip_canonHeaders, hsame]
  rfl

/-- the hypotheses are met by a request carrying the whole family, in mixed spellings and repeated -/
example :
    let r : Req := ⟨"GET", "svc.local", "", "/public/x", "a=1", false, "203.0.113.9:40000",
      [("x-forwarded-method", "DELETE"), ("X-FORWARDED-URI", "/admin/x"), ("X-Forwarded-Proto", "https"),
       ("x-Forwarded-Host", "trusted.example.com"), ("Forwarded", "for=10.0.0.1"), ("x-forwarded-for", "10.0.0.1"),
       ("X-Forwarded-For", "10.0.0.2"), ("X-Forwarded-Path", "/admin"), ("Accept", "*/*")]⟩
    ¬ Listed ["10.0.0.0/8", "not-an-ip"] r.remoteAddr ∧
      nonFamily r.wire = nonFamily [("Accept", "*/*")] ∧
      (serve (fun _ => some ⟨"", "/admin/x", ""⟩) ["10.0.0.0/8", "not-an-ip"] r).view =
        ⟨"GET", "http", "svc.local", "/public/x", "a=1", ["203.0.113.9"]⟩ := by
  decide

/-! ## trusted peers -/

/-- **Trusted ⇒ each present header overrides exactly its component, absent ones fall back.** For a listed peer the
view is `overriddenView`: the method is the first `X-Forwarded-Method` line if non-empty, else the request's; likewise
scheme / `X-Forwarded-Proto`, host / `X-Forwarded-Host`, path and query / those of `X-Forwarded-Uri` **as received**
(path: `escapedPath`, query: `RawQuery` of what `url.Parse` accepts; each falling back separately when empty or not
parsable); the client addresses are those announced by `Forwarded`
(else `X-Forwarded-For`) followed by the real peer.  Lines are found under any spelling; the first line wins. -/
theorem c09_trusted_override (parse : UriParse) (proxies : List String) (r : Req)
    (ht : Listed proxies r.remoteAddr) :
    (serve parse proxies r).view = overriddenView parse r := by
  have ht' := (c09_trusted_iff_listed _ _).mpr ht
  simp only [serve, serveWith, effective, ht', if_true]
  exact viewOf_canonHeaders parse r

/-- **Exactly its component.** Changing, adding or removing the lines of one family header `K` of a trusted request
leaves every component of the view that belongs to another header untouched. -/
theorem c09_trusted_header_touches_only_its_component (parse : UriParse) (proxies : List String) (r : Req)
    (wire' : Headers) (K : String) (ht : Listed proxies r.remoteAddr)
    (hsame : (r.wire.filter fun kv => !eqIgnoreCase kv.1 K) = wire'.filter fun kv => !eqIgnoreCase kv.1 K) :
    let v := (serve parse proxies r).view
    let v' := (serve parse proxies { r with wire := wire' }).view
    (eqIgnoreCase K "X-Forwarded-Method" = false → v'.method = v.method) ∧
    (eqIgnoreCase K "X-Forwarded-Proto" = false → v'.scheme = v.scheme) ∧
    (eqIgnoreCase K "X-Forwarded-Host" = false → v'.host = v.host) ∧
    (eqIgnoreCase K "X-Forwarded-Uri" = false → v'.rawPath = v.rawPath ∧ v'.query = v.query) ∧
    (eqIgnoreCase K "Forwarded" = false → eqIgnoreCase K "X-Forwarded-For" = false → v'.ips = v.ips) := by
  have key : ∀ K', eqIgnoreCase K K' = false → firstCI wire' K' = firstCI r.wire K' := by
    intro K' hne
    rw [← firstCI_filter_other wire' K K' hne, ← firstCI_filter_other r.wire K K' hne, hsame]
  have e1 := c09_trusted_override parse proxies r ht
  have e2 := c09_trusted_override parse proxies { r with wire := wire' } ht
  simp only [e1, e2, overriddenView, specUri, specAnnounced, peerIP, proto, Req.path]
  refine ⟨fun h => by rw [key _ h], fun h => by rw [key _ h], fun h => by rw [key _ h],
    fun h => by rw [key _ h]; exact ⟨rfl, rfl⟩, fun h1 h2 => by rw [key _ h1, key _ h2]⟩

example :
    let r : Req := ⟨"GET", "svc.local", "", "/public/x", "a=1", true, "10.1.2.3:40000",
      [("x-forwarded-method", "DELETE"), ("X-Forwarded-Method", "POST"), ("X-FORWARDED-URI", "/admin/x?z"),
       ("Forwarded", "for=1.1.1.1;proto=http, by=x;for=2.2.2.2"), ("x-forwarded-for", "9.9.9.9")]⟩
    Listed ["10.0.0.0/8"] r.remoteAddr ∧
      (serve (fun v => if v = "/admin/x?z" then some ⟨"", "/admin/x", "z"⟩ else none) ["10.0.0.0/8"] r).view =
        ⟨"DELETE", "https", "svc.local", "/admin/x", "z", ["1.1.1.1", "2.2.2.2", "10.1.2.3"]⟩ := by
  decide

/-- the path is shown as received — for the request line and for a believed `X-Forwarded-Uri` alike: escapes of the
client are kept (`%2F`, `%41`), only octets that may not stand in a path are encoded; the query of the header is taken
as received (`a=b=c;d`, no re-encoding, nothing dropped) -/
example :
    let r : Req := ⟨"GET", "svc.local", "/p%2Fq/%41 b", "/p%2Fq/%41%20b", "k=v", false, "10.1.2.3:40000",
      [("X-Forwarded-Uri", "/a%2fb/<c>?a=b=c;d")]⟩
    (serve (fun _ => none) [] r).view.rawPath = "/p%2Fq/%41%20b" ∧
      (serve (fun _ => some ⟨"/a%2fb/<c>", "/a%2Fb/%3Cc%3E", "a=b=c;d"⟩) ["10.1.2.3"] r).view =
        ⟨"GET", "http", "svc.local", "/a%2fb/%3Cc%3E", "a=b=c;d", ["10.1.2.3"]⟩ := by
  decide

/-! ## the upstream of the proxy -/

/-- **Never passed on as received.** For every peer, trusted or not, and every header set: of the forwarded family
the upstream receives only what rewriteRequest creates — `X-Forwarded-For` (all received lines joined, extended by the
real peer), `-Proto`, `-Host` (first line, else the real connection) when one of them arrived, otherwise one
`Forwarded` header (all received lines joined) ending in the element for the real connection.
`X-Forwarded-Method`, `-Uri`, `-Path` are never forwarded. -/
theorem c09_upstream_recreated (h : Headers) (r : Req) :
    upstreamFwd h r =
      if joinList (hvalues h "X-Forwarded-For") ≠ "" ∨ hget h "X-Forwarded-Proto" ≠ "" ∨
          hget h "X-Forwarded-Host" ≠ "" then
        [("X-Forwarded-For", if joinList (hvalues h "X-Forwarded-For") = "" then ipFromHostPort r.remoteAddr
            else joinList (hvalues h "X-Forwarded-For") ++ ", " ++ ipFromHostPort r.remoteAddr),
         ("X-Forwarded-Proto", orElse (hget h "X-Forwarded-Proto") (proto r)),
         ("X-Forwarded-Host", orElse (hget h "X-Forwarded-Host") r.host)]
      else
        [("Forwarded", if joinList (hvalues h "Forwarded") = "" then
            "for=" ++ ipFromHostPort r.remoteAddr ++ ";host=" ++ r.host ++ ";proto=" ++ proto r
          else joinList (hvalues h "Forwarded") ++ ", " ++
            ("for=" ++ ipFromHostPort r.remoteAddr ++ ";host=" ++ r.host ++ ";proto=" ++ proto r))] :=
  upstreamFwd_eq h r

/-- **Trusted ⇒ the received lists are extended by the peer.** For a listed peer the upstream receives
`extendedUpstream`: every `X-Forwarded-For` line (any spelling, in order of arrival, joined with `", "`) followed by
the real peer address, together with `X-Forwarded-Proto` / `-Host` (first line, else the real connection) — or, when
none of the three arrived, every `Forwarded` line followed by the element for the real connection. -/
theorem c09_trusted_upstream_extended (parse : UriParse) (proxies : List String) (r : Req)
    (ht : Listed proxies r.remoteAddr) :
    (serve parse proxies r).upstream = extendedUpstream r := by
  have ht' := (c09_trusted_iff_listed _ _).mpr ht
  simp only [serve, serveWith, effective, ht', if_true]
  exact upstreamFwd_canonHeaders r

example :
    let r : Req := ⟨"GET", "svc.local", "", "/x", "", false, "10.1.2.3:40000",
      [("x-forwarded-for", "9.9.9.9, 8.8.8.8"), ("Accept", "*/*"), ("X-FORWARDED-FOR", "1.1.1.1"),
       ("Forwarded", "for=7.7.7.7")]⟩
    Listed ["10.1.2.3"] r.remoteAddr ∧
      (serve (fun _ => none) ["10.1.2.3"] r).upstream =
        [("X-Forwarded-For", "9.9.9.9, 8.8.8.8, 1.1.1.1, 10.1.2.3"), ("X-Forwarded-Proto", "http"),
         ("X-Forwarded-Host", "svc.local")] ∧
      (serve (fun _ => none) ["10.1.2.3"] { r with wire := [("forwarded", "for=7.7.7.7"), ("Forwarded", "for=6.6.6.6")] }).upstream =
        [("Forwarded", "for=7.7.7.7, for=6.6.6.6, for=10.1.2.3;host=svc.local;proto=http")] := by
  decide

end Heimdall.Props.C09
