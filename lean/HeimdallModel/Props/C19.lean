import HeimdallModel.Lemmas.Loaders
import HeimdallModel.Gen.LoaderGuards
/-!
# C19 — no reloadable or remote input can crash the process

Theorems about the model of heimdall's run-time readers (`Model/Loaders.lean`): key stores and trust stores (any
list of PEM blocks, any truncation of it, any key sizes, any certificates and issuer relations), rule sets (any
untyped value in any position the rule factory and the scopes hook look at, pipelines of any length, any mechanism
catalogue), the background goroutines that apply them (any sequence of notifications), the request goroutines, and the
credentials file of the redis cache (whatever the YAML decoder finds in it, any history of reloads and re-connects).

The model is parameterised by `Guards`: one flag per check in the code.  The theorems say for **every** flag
combination whether the guarantee holds (`… ↔ …`), so they cover the code as it is (`Guards.head`, all checks) and
the code as it was (`Guards.original`) alike; the correspondence run establishes which of the two the working tree
behaves like, on concrete files.
-/
namespace Heimdall.Props.C19
open Heimdall Heimdall.Loaders

/-! ## key stores -/

/-- **The certificate walk ends.** With the visited check `buildChain` needs at most one call per certificate of
the file, and the chain it returns starts at the certificate of the key and consists of certificates of the file. -/
theorem c19_chain_walk_ends (g : Guards) (hg : g.chainVisited = true) (certs : List Cert) (c : Cert) :
    ∃ chain, buildChain g (certs.length + 1) [] c certs = some chain ∧ [c] <+: chain ∧
      ∀ x ∈ chain, x = c ∨ x ∈ certs := by
  have hlt : (unvisited ([] ++ [c]) certs).length < certs.length + 1 := by
    have := List.length_filter_le (fun x => !visited ([] ++ [c]) x) certs
    simp only [unvisited]
    omega
  have hsome := buildChain_isSome g hg certs (certs.length + 1) [] c hlt
  cases hb : buildChain g (certs.length + 1) [] c certs with
  | none => simp [hb] at hsome
  | some chain =>
    obtain ⟨hpre, hin⟩ := buildChain_spec g certs _ _ _ _ hb
    refine ⟨chain, rfl, by simpa using hpre, ?_⟩
    intro x hx
    rcases hin x hx with h | h
    · left; simpa using h
    · right; exact h

example : Guards.head.chainVisited = true := rfl

/-- **… and without the check it does not.** A certificate and its renewal (same subject, same key; likewise two
authorities that certify each other) send the walk back and forth for ever: no amount of stack suffices. -/
theorem c19_chain_walk_diverges (g : Guards) (hg : g.chainVisited = false) (fuel : Nat) (done : List Cert) :
    buildChain g fuel done (Witness.selfSigned 10 4 "me")
        [Witness.selfSigned 10 4 "me", Witness.selfSigned 11 4 "me"] = none ∧
      buildChain g fuel done (Witness.selfSigned 11 4 "me")
        [Witness.selfSigned 10 4 "me", Witness.selfSigned 11 4 "me"] = none := by
  induction fuel generalizing done with
  | zero => exact ⟨rfl, rfl⟩
  | succ n ih =>
    constructor
    · have : nextIssuer g done (Witness.selfSigned 10 4 "me")
          [Witness.selfSigned 10 4 "me", Witness.selfSigned 11 4 "me"] = some (Witness.selfSigned 11 4 "me") := by
        simp [nextIssuer, isIssuerOf, Witness.selfSigned, hg]
      simp only [buildChain, this]
      exact (ih _).2
    · have : nextIssuer g done (Witness.selfSigned 11 4 "me")
          [Witness.selfSigned 10 4 "me", Witness.selfSigned 11 4 "me"] = some (Witness.selfSigned 10 4 "me") := by
        simp [nextIssuer, isIssuerOf, Witness.selfSigned, hg]
      simp only [buildChain, this]
      exact (ih _).1

example : Guards.original.chainVisited = false := rfl

/-- **The guard has to be the whole chain.** Remembering only the certificate the walk came from ends every cycle
of two, but three generations of one certificate (likewise three authorities certifying each other in a circle) send
it round for ever: `a → b → c → a → …`, for every amount of fuel, from the start and from every point of the circle. -/
theorem c19_predecessor_guard_insufficient (fuel : Nat) :
    let a := Witness.selfSigned 10 4 "me"
    let b := Witness.selfSigned 11 4 "me"
    let c := Witness.selfSigned 12 4 "me"
    ∀ done : List Cert,
      ((done.getLast? = none ∨ done.getLast? = some c) → buildChainPrev fuel done a [a, b, c] = none) ∧
      (done.getLast? = some a → buildChainPrev fuel done b [a, b, c] = none) ∧
      (done.getLast? = some b → buildChainPrev fuel done c [a, b, c] = none) := by
  intro a b c
  induction fuel with
  | zero => intro done; exact ⟨fun _ => rfl, fun _ => rfl, fun _ => rfl⟩
  | succ n ih =>
    intro done
    refine ⟨?_, ?_, ?_⟩
    · intro h
      have hn : nextIssuerPrev done a [a, b, c] = some b := by
        rcases h with h | h <;> simp [nextIssuerPrev, isIssuerOf, Witness.selfSigned, h, a, b, c]
      simp only [buildChainPrev, hn]
      exact (ih (done ++ [a])).2.1 (by simp)
    · intro h
      have hn : nextIssuerPrev done b [a, b, c] = some c := by
        simp [nextIssuerPrev, isIssuerOf, Witness.selfSigned, h, a, b, c]
      simp only [buildChainPrev, hn]
      exact (ih (done ++ [b])).2.2 (by simp)
    · intro h
      have hn : nextIssuerPrev done c [a, b, c] = some a := by
        simp [nextIssuerPrev, isIssuerOf, Witness.selfSigned, h, a, b, c]
      simp only [buildChainPrev, hn]
      exact (ih (done ++ [c])).1 (Or.inr (by simp))

/-- the same weaker guard ends on two generations (which is why a pool with cycles of two cannot tell the guards
apart), the full guard ends on three -/
example : buildChainPrev 3 [] (Witness.selfSigned 10 4 "me")
    [Witness.selfSigned 10 4 "me", Witness.selfSigned 11 4 "me"] =
      some [Witness.selfSigned 10 4 "me", Witness.selfSigned 11 4 "me"] := by decide
example : buildChain Guards.head 4 [] (Witness.selfSigned 10 4 "me")
    [Witness.selfSigned 10 4 "me", Witness.selfSigned 11 4 "me", Witness.selfSigned 12 4 "me"] =
      some [Witness.selfSigned 10 4 "me", Witness.selfSigned 11 4 "me", Witness.selfSigned 12 4 "me"] := by decide

/-- **Key material never crashes a loader — exactly under the four checks.** For every component, key id and list
of PEM blocks the load returns (new material or an error) if and only if the walk is bounded, the loaders ask
whether the store has a key before taking the first one, reject keys without JOSE algorithm, and the HTTP message
signer knows the size the store reports for P-521. -/
theorem c19_material_returns_iff (g : Guards) :
    (∀ (c : Consumer) (keyId : String) (blocks : List Block), (load g c keyId blocks).returns = true) ↔
      (g.chainVisited && g.materialSafe) = true := by
  constructor
  · intro h
    simp only [Guards.materialSafe, Bool.and_eq_true]
    refine ⟨?_, ⟨?_, ?_⟩, ?_⟩
    · cases hg : g.chainVisited
      · have := h .tls "" Witness.renewed; rw [renewed_fatal g hg] at this; simp at this
      · rfl
    · cases hg : g.selectKey
      · have := h .jwt "" []; rw [empty_store_panics g hg] at this; simp at this
      · rfl
    · cases hg : g.joseCheck
      · have := h .jwt "" [Witness.keyBlock Witness.rsa1024]; rw [small_key_panics g hg] at this; simp at this
      · rfl
    · cases hg : g.p521
      · have := h .httpsig "" [Witness.keyBlock Witness.ec521]; rw [p521_panics g hg] at this; simp at this
      · rfl
  · intro h c keyId blocks
    simp only [Bool.and_eq_true] at h
    exact load_returns g h.1 h.2 c keyId blocks

example : (Guards.head.chainVisited && Guards.head.materialSafe) = true := by decide
example : (Guards.original.chainVisited && Guards.original.materialSafe) = false := by decide

/-- what a usable key store loads to, per component -/
example : load Guards.head .jwt "" Witness.good = .ok ⟨"3f5128b1", "PS256", ["3f5128b1"], "", 0⟩ := by decide
example : load Guards.head .tls "" Witness.good = .ok ⟨"3f5128b1", "", [], "12", 1⟩ := by decide

/-- the inputs of the findings, before and after -/
example : load Guards.original .jwt "" [] = .panic ∧ load Guards.head .jwt "" [] = .err .noKeys := by decide
example : load Guards.original .jwt "" [Witness.keyBlock Witness.rsa1024] = .panic ∧
    load Guards.head .jwt "" [Witness.keyBlock Witness.rsa1024] = .err .unsupportedKeySize := by decide
example : load Guards.original .httpsig "" [Witness.keyBlock Witness.ec521] = .panic ∧
    (load Guards.head .httpsig "" [Witness.keyBlock Witness.ec521]).isOk = true := by decide
example : load Guards.original .tls "" Witness.renewed = .fatal ∧
    load Guards.head .tls "" Witness.renewed = .err .chainInvalid := by decide

/-- **Every truncation.** Whatever prefix of the blocks of a file a loader finds while the file is being written,
the load returns; and a prefix without a complete key (in particular the empty file and a file of certificates
only) is never taken over, so the material in use stays. -/
theorem c19_truncations (g : Guards) (hg : (g.chainVisited && g.materialSafe) = true) (c : Consumer)
    (keyId : String) (blocks : List Block) (t : List Block) (_ht : t ∈ truncations blocks) :
    (load g c keyId t).returns = true ∧
      ((∀ b ∈ t, ∀ k, b.content ≠ .key k) → ∀ st, (reload g c keyId st t).2 = st) := by
  refine ⟨(c19_material_returns_iff g).mpr hg c keyId t, ?_⟩
  intro hno st
  have := load_no_keys g c keyId t hno
  simp only [reload]
  cases hl : load g c keyId t with
  | ok s => exact absurd hl (this s)
  | _ => rfl

example : [Witness.keyBlock Witness.rsa2048 .rsaKey] ∈ truncations Witness.good := by decide
example : ([] : List Block) ∈ truncations Witness.good := by decide

/-- **A reload keeps or replaces, nothing in between.** For every flag combination: new material is in effect
exactly after a successful load and is determined by the file alone; after an error — and even after a panic or a
fatal error — the material in use is the previous one. -/
theorem c19_reload_keeps_state (g : Guards) (c : Consumer) (keyId : String) (st : Option Loaded)
    (blocks : List Block) :
    (∀ s, load g c keyId blocks = .ok s → reload g c keyId st blocks = (.ok (), some s)) ∧
      ((load g c keyId blocks).isOk = false → (reload g c keyId st blocks).2 = st) := by
  simp only [reload]
  cases load g c keyId blocks <;> simp [Out.isOk]

/-- the judgement the check applies to what it observes is met by the model exactly when the load returns -/
theorem c19_reload_admissible_iff (g : Guards) (c : Consumer) (keyId : String) (st : Option Loaded)
    (blocks : List Block) :
    reloadAdmissible st (reload g c keyId st blocks).1 (reload g c keyId st blocks).2 = true ↔
      (load g c keyId blocks).returns = true := by
  simp only [reload]
  cases load g c keyId blocks <;> simp [reloadAdmissible, Out.returns]

/-! ## trust stores -/

/-- **Trust stores**: reading returns for every file (any blocks, anything or nothing after the last complete
block, strict or not) if and only if `ReadPEM` stops at the end of the PEM data. -/
theorem c19_trust_returns_iff (g : Guards) :
    (∀ (strict : Bool) (f : PemFile), (loadTrust g strict f).returns = true) ↔ g.pemEnd = true := by
  constructor
  · intro h
    cases hg : g.pemEnd
    · have := h true ⟨[], false⟩; rw [empty_trust_panics g hg] at this; simp at this
    · rfl
  · intro h strict f
    exact loadTrust_returns g h strict f

/-- with the check, a trust store that is accepted holds at least one certificate: an empty or not yet written
file is rejected, not turned into "trust nobody" silently -/
theorem c19_trust_never_empty (g : Guards) (hg : g.pemEnd = true) (strict : Bool) (f : PemFile) (cs : List Cert)
    (h : loadTrust g strict f = .ok cs) : cs ≠ [] := by
  unfold loadTrust at h
  cases ht : trustEntries strict f.blocks with
  | error r => simp [ht] at h
  | ok cs' =>
    simp only [ht, hg, Bool.not_true, Bool.false_eq_true, if_false, Bool.true_and] at h
    intro hcs
    subst hcs
    split at h
    · split at h
      · simp at h
      · cases h; simp_all
    · split at h
      · simp at h
      · cases h; simp_all

example : loadTrust Guards.original true ⟨[Witness.certBlock (Witness.selfSigned 1 1 "ca")], true⟩ = .panic ∧
    loadTrust Guards.head true ⟨[Witness.certBlock (Witness.selfSigned 1 1 "ca")], true⟩ =
      .ok [Witness.selfSigned 1 1 "ca"] := by decide
example : loadTrust Guards.head false ⟨[Witness.keyBlock Witness.rsa2048], false⟩ = .err .emptyTrustStore := by decide

/-! ## rule sets -/

/-- **The scopes hook** returns for every value if and only if it checks types instead of asserting them. -/
theorem c19_scopes_returns_iff (g : Guards) :
    (∀ v : Val, (decodeScopes g v).returns = true) ↔ g.scopeTypes = true := by
  constructor
  · intro h
    cases hg : g.scopeTypes
    · have := h (.list [.num 1])
      simp [decodeScopes, scopeValues, hg] at this
    · rfl
  · intro h v
    have := decodeScopes_within g v
    rw [h] at this
    simpa [Out.within_false] using this

/-- **Type-confused rule sets never crash the loader — exactly under the checks.** For every mechanism catalogue,
every CEL compiler and every rule set document (any number of rules, `execute` / `on_error` of any shape, steps with
any value under any key) loading returns if and only if the factory and the scopes hook check types, or the rule
set processor recovers. -/
theorem c19_ruleset_returns_iff (g : Guards) :
    (∀ (env : Env) (d : RuleSetDoc), (loadRuleSet g env d).returns = true) ↔
      (g.factorySafe || g.processorRecover) = true := by
  constructor
  · intro h
    cases hp : g.processorRecover
    · simp only [Bool.or_false, Guards.factorySafe, Bool.and_eq_true]
      cases hr : g.refTypes
      · have := h Witness.env Witness.confusedReference
        rw [confused_reference_panics g hr hp] at this; simp at this
      · refine ⟨rfl, ?_⟩
        cases hs : g.scopeTypes
        · have := h Witness.env Witness.confusedScopes
          rw [confused_scopes_panics g hs hp] at this; simp at this
        · rfl
    · simp
  · intro h env d
    have := loadRuleSet_within g env d
    rw [h] at this
    simpa [Out.within_false] using this

example : (Guards.head.factorySafe || Guards.head.processorRecover) = true := by decide
example : (Guards.original.factorySafe || Guards.original.processorRecover) = false := by decide

/-- the inputs of the findings, before and after; a well-formed rule set is accepted by both -/
example : loadRuleSet Guards.original Witness.env Witness.confusedReference = .panic ∧
    loadRuleSet Guards.head Witness.env Witness.confusedReference = .err .badReferenceType := by
  constructor <;> rfl
example : loadRuleSet Guards.original Witness.env Witness.confusedConfig = .panic ∧
    loadRuleSet Guards.head Witness.env Witness.confusedConfig = .err .badConfigType := by
  constructor <;> rfl
example : loadRuleSet Guards.original Witness.env Witness.confusedScopes = .panic ∧
    loadRuleSet Guards.head Witness.env Witness.confusedScopes = .err .scopesShape := by
  constructor <;> rfl
example : loadRuleSet Guards.original Witness.env Witness.wellFormed = .ok ["r1"] ∧
    loadRuleSet Guards.head Witness.env Witness.wellFormed = .ok ["r1"] := by
  constructor <;> rfl

/-- **All or nothing.** For every flag combination, catalogue and document: if a rule set is accepted, the rules that
come into force for its file are all the rules of the document, in order — never a part of them, never none. -/
theorem c19_accepted_ruleset_is_complete (g : Guards) (env : Env) (d : RuleSetDoc) (ids : List String)
    (h : loadRuleSet g env d = .ok ids) : ids = d.rules.map (·.id) ∧ ids ≠ [] := by
  have hids := loadRuleSet_ids g env d ids h
  refine ⟨hids, ?_⟩
  intro hnil
  unfold loadRuleSet at h
  split at h
  · simp at h
  · rename_i hne
    rw [hids] at hnil
    simp at hnil
    simp [hnil] at hne

example : loadRuleSet Guards.head Witness.env Witness.wellFormed = .ok ["r1"] := rfl

/-- **A rejected rule file changes nothing.** For every flag combination: the rules in force for a file change only
when its content is taken over (a document that loads; an empty or vanished file, which means "no rules"); content that is
unparsable, type-confused or even crashing leaves them as they were. -/
theorem c19_rulefile_keeps_state (g : Guards) (env : Env) (st : Option (List String)) (content : FileContent) :
    (fileChanged g env st content).2 = orKeep (ruleLoads g env content) st ∧
      ((fileChanged g env st content).1.isOk = false → (fileChanged g env st content).2 = st) := by
  refine ⟨fileChanged_state g env st content, ?_⟩
  cases content with
  | empty => simp [fileChanged, Out.isOk]
  | unparsable => simp [fileChanged]
  | vanished d =>
    simp only [fileChanged]
    split
    · simp
    · split
      · simp
      · split <;> simp [Out.isOk]
  | doc d =>
    simp only [fileChanged]
    cases loadRuleSet g env d <;> simp [Out.isOk]

/-! ## goroutines -/

/-- **Watchers go on.** A background loop whose handlers end within what the loop recovers from survives every
sequence of notifications, handles every single one of them (it is not stopped), and ends in the state the
handlers leave one after the other. -/
theorem c19_watcher_goes_on {σ : Type} (guard : Bool) (hs : List (σ → Out Unit × σ)) (p : Proc σ)
    (hp : p.alive = true) (hw : ∀ h ∈ hs, ∀ s, (h s).1.within guard = true) :
    (run guard hs p).alive = true ∧ (run guard hs p).handled = p.handled + hs.length ∧
      (run guard hs p).state = hs.foldl (fun s h => (h s).2) p.state := by
  obtain ⟨h1, h2⟩ := run_alive guard hs p hw
  exact ⟨h1.trans hp, h2 hp, run_state guard hs p hp hw⟩

/-- the hypothesis is met by a recovering loop whose handlers reload key material (bounded walk) -/
example (g : Guards) (hv : g.chainVisited = true) (c : Consumer) (keyId : String) (blocks : List Block)
    (s : Option Loaded) : (reload g c keyId s blocks).1.within true = true := by
  rw [reload_outcome]
  exact within_weaken (load_within g hv c keyId blocks) (fun _ => rfl)

/-- a recovering loop over a panicking and a succeeding handler: both handled, the second one's state in effect -/
example : (run true [fun s => (.panic, s), fun _ => (.ok (), 7)] (⟨true, 0, 0⟩ : Proc Nat)).alive = true ∧
    (run true [fun s => (.panic, s), fun _ => (.ok (), 7)] (⟨true, 0, 0⟩ : Proc Nat)).handled = 2 ∧
    (run true [fun s => (.panic, s), fun _ => (.ok (), 7)] (⟨true, 0, 0⟩ : Proc Nat)).state = 7 := by decide

/-- **… and die of one unrecovered panic.** Without `recover` a single panicking handler ends the process; no
later notification is handled. -/
theorem c19_unrecovered_panic_ends_process {σ : Type} (h : σ → Out Unit × σ) (later : List (σ → Out Unit × σ))
    (p : Proc σ) (hp : p.alive = true) (hpanic : (h p.state).1 = .panic) :
    (run false (h :: later) p).alive = false ∧ (run false (h :: later) p).handled = p.handled := by
  have hd : deliver false h p = ⟨false, (h p.state).2, p.handled⟩ := by
    unfold deliver
    simp only [hp, Bool.not_true, Bool.false_eq_true, if_false]
    generalize h p.state = r at hpanic
    obtain ⟨o, s⟩ := r
    simp only at hpanic
    subst hpanic
    rfl
  simp only [run, List.foldl_cons]
  have := run_dead false later (deliver false h p) (by rw [hd])
  simp only [run] at this
  rw [this, hd]
  exact ⟨rfl, rfl⟩

/-- **Requests.** With the recovery middleware and interceptor in place, a request whose handler panics is answered
with an error response on both kinds of servers and the process lives; without them the client of an HTTP service
loses its connection and a panic in the gRPC service ends the process. -/
theorem c19_requests (g : Guards) :
    ((∀ srv, serve g srv .panic = (true, .errorResponse)) ↔ (g.httpRecovery && g.grpcRecovery) = true) ∧
      (∀ srv r, serve g srv (.err r) = (true, .errorResponse)) ∧
      (g.grpcRecovery = false → serve g .grpc .panic = (false, .connectionDropped)) := by
  refine ⟨⟨?_, ?_⟩, fun srv r => rfl, fun h => by simp [serve, h]⟩
  · intro h
    have h1 := h .http
    have h2 := h .grpc
    cases hh : g.httpRecovery <;> cases hg : g.grpcRecovery <;> simp [serve, hh, hg] at h1 h2 ⊢
  · intro h srv
    simp only [Bool.and_eq_true] at h
    cases srv <;> simp [serve, h.1, h.2]

/-! ## the process -/

/-- **No history of inputs ends the process, and what was loaded last stays in effect.** Under a sound combination
of checks (`Sound`: bounded walk; each panic source checked or below a `recover`), for every catalogue, every
configured key id, every start state and every sequence of key-file changes, rule-file changes and requests (none
of whose handlers dies of something unrecoverable): the process is alive at the end, every component works with
the material of the last key file that loaded (the initial material if none did), and the rules in force are those
of the last rule file content that was taken over. -/
theorem c19_process_survives (g : Guards) (hs : Sound g = true) (env : Env) (keyId : Consumer → String)
    (s : System) (es : List Event) (ha : s.alive = true) (hreq : noFatalRequest es = true) :
    (steps g env keyId s es).alive = true ∧
      (∀ c, (steps g env keyId s es).material c =
        lastGood (materialLoads g c (keyId c)) (s.material c) (keyFilesOf c es)) ∧
      (steps g env keyId s es).rules = lastGood (ruleLoads g env) s.rules (ruleFilesOf es) :=
  steps_sound g hs env keyId es s ha hreq

example : Sound Guards.head = true := by decide

/-- a history mixing every kind of hostile input with good ones -/
def hostile : List Event :=
  [.keyFile .jwt Witness.good, .keyFile .jwt [], .keyFile .tls Witness.renewed,
   .keyFile .httpsig [Witness.keyBlock Witness.ec521], .keyFile .jwt [Witness.keyBlock Witness.rsa1024],
   .ruleFile (.doc Witness.wellFormed), .ruleFile (.doc Witness.confusedReference),
   .ruleFile (.doc Witness.confusedScopes), .ruleFile .unparsable,
   .request .grpc .panic, .request .http .panic, .request .http (.ok 200)]

example : noFatalRequest hostile = true := by decide
example : (steps Guards.head Witness.env (fun _ => "") ⟨true, none, none, none, none⟩ hostile).alive = true ∧
    (steps Guards.head Witness.env (fun _ => "") ⟨true, none, none, none, none⟩ hostile).jwt =
      some ⟨"3f5128b1", "PS256", ["3f5128b1"], "", 0⟩ ∧
    (steps Guards.head Witness.env (fun _ => "") ⟨true, none, none, none, none⟩ hostile).rules = some ["r1"] := by
  refine ⟨by decide, by decide, by decide⟩

/-- **Soundness is necessary.** If the combination of checks is not sound, some history ends the process: the
five conjuncts of `Sound` each have a witness (renewed certificate; empty, small-key or P-521 key store; reference
or scopes of the wrong type; a file that vanishes; a panicking gRPC handler). -/
theorem c19_unsound_crashes (g : Guards) (hs : Sound g = false) :
    ∃ (es : List Event), noFatalRequest es = true ∧
      (steps g Witness.env (fun _ => "") ⟨true, none, none, none, none⟩ es).alive = false := by
  have key : ∀ (c : Consumer) (blocks : List Block) (o : Out Loaded), load g c "" blocks = o →
      survives g.listenerRecover (match o with | .ok _ => .ok () | .err r => .err r | .panic => .panic | .fatal => .fatal) = false →
      (steps g Witness.env (fun _ => "") ⟨true, none, none, none, none⟩ [.keyFile c blocks]).alive = false := by
    intro c blocks o ho hsv
    simp only [steps, List.foldl_cons, List.foldl_nil, step, Bool.not_true, Bool.false_eq_true, if_false, reload, ho]
    cases o <;> cases c <;> simpa [System.setMaterial] using hsv
  have rule : ∀ (content : FileContent),
      survives g.providerRecover (fileChanged g Witness.env none content).1 = false →
      (steps g Witness.env (fun _ => "") ⟨true, none, none, none, none⟩ [.ruleFile content]).alive = false := by
    intro content hsv
    simpa [steps, step] using hsv
  cases hv : g.chainVisited with
  | false => exact ⟨[.keyFile .tls Witness.renewed], rfl, key _ _ _ (renewed_fatal g hv .tls) rfl⟩
  | true =>
  cases hg : g.grpcRecovery with
  | false => exact ⟨[.request .grpc .panic], rfl, by simp [steps, step, serve, hg]⟩
  | true =>
  by_cases hmat : (g.materialSafe || g.listenerRecover) = true
  · by_cases hstat : (g.statChecked || g.providerRecover) = true
    · have hfac : (g.factorySafe || g.processorRecover || g.providerRecover) = false := by
        simp only [Sound, hv, hg, hmat, hstat, Bool.true_and, Bool.and_true] at hs
        exact hs
      simp only [Bool.or_eq_false_iff] at hfac
      obtain ⟨⟨hfs, hpr⟩, hp⟩ := hfac
      cases hr : g.refTypes with
      | false =>
        refine ⟨[.ruleFile (.doc Witness.confusedReference)], rfl, rule _ ?_⟩
        simp [fileChanged, confused_reference_panics g hr hpr, survives, hp]
      | true =>
        have hsc : g.scopeTypes = false := by simpa [Guards.factorySafe, hr] using hfs
        refine ⟨[.ruleFile (.doc Witness.confusedScopes)], rfl, rule _ ?_⟩
        simp [fileChanged, confused_scopes_panics g hsc hpr, survives, hp]
    · simp only [Bool.or_eq_true, not_or, Bool.not_eq_true] at hstat
      obtain ⟨hst, hp⟩ := hstat
      refine ⟨[.ruleFile (.vanished Witness.wellFormed)], rfl, rule _ ?_⟩
      simp [fileChanged, Witness.wellFormed, Witness.ruleSet, decodeRule, decodeExecute, decodeOnError, hst, hp,
        survives, bind, Except.bind, pure, Except.pure]
  · simp only [Bool.or_eq_true, not_or, Bool.not_eq_true] at hmat
    obtain ⟨hms, hl⟩ := hmat
    cases h1 : g.selectKey with
    | false => exact ⟨[.keyFile .jwt []], rfl, key _ _ _ (empty_store_panics g h1 .jwt) (by simp [survives, hl])⟩
    | true =>
    cases h2 : g.joseCheck with
    | false =>
      exact ⟨[.keyFile .jwt [Witness.keyBlock Witness.rsa1024]], rfl,
        key _ _ _ (small_key_panics g h2) (by simp [survives, hl])⟩
    | true =>
      have h3 : g.p521 = false := by simpa [Guards.materialSafe, h1, h2] using hms
      exact ⟨[.keyFile .httpsig [Witness.keyBlock Witness.ec521]], rfl,
        key _ _ _ (p521_panics g h3) (by simp [survives, hl])⟩

example : Sound Guards.original = false := by decide

/-- the two together: the process survives every history exactly under the sound flag combinations -/
theorem c19_survives_iff_sound (g : Guards) :
    (∀ (env : Env) (keyId : Consumer → String) (s : System) (es : List Event), s.alive = true →
      noFatalRequest es = true → (steps g env keyId s es).alive = true) ↔ Sound g = true := by
  constructor
  · intro h
    cases hs : Sound g
    · obtain ⟨es, hreq, hdead⟩ := c19_unsound_crashes g hs
      have := h Witness.env (fun _ => "") ⟨true, none, none, none, none⟩ es rfl hreq
      rw [hdead] at this
      exact absurd this (by simp)
    · rfl
  · intro hs env keyId s es ha hreq
    exact (c19_process_survives g hs env keyId s es ha hreq).1

/-! ## the credentials file of the redis cache

`internal/cache/redis/config.go`: `fileCredentials` is read when the configuration is decoded and again, on the
watcher goroutine, whenever the file is written; the redis client asks for the credentials (`get`, through
`AuthCredentialsFn`) on goroutines of its own whenever it connects or re-connects.  The recover layer read off the
source (`Gen/LoaderGuards.lean`) has an entry for the goroutine that reloads (`w.notify`) and — that goroutine being
one of the redis client library — none for the one that asks: there a panic ends the process.  A file is abstracted
to what the YAML decoder finds in it (`CredDoc`): no document, not YAML, a null document (only `---` so far, `---`
and comments, `null`, `~`), a scalar, a sequence, or a mapping with any keys and values in any order.  `byValue` is
the one thing about `load` the guarantees depend on: the document is decoded into a `staticCredentials` value (the
code) and not into a pointer the decoder would have to allocate. -/

/-- **No content of the credentials file panics the reload.** Whatever the decoder finds — for either way of
decoding — `load` returns (new credentials or an error), and so does `OnChanged`. -/
theorem c19_redis_credentials_load_returns (byValue : Bool) (st : Option Creds) (d : CredDoc) :
    (loadCreds byValue d).returns = true ∧ (reloadCreds byValue st d).1.returns = true :=
  ⟨loadCreds_returns byValue d, reloadCreds_outcome_returns byValue st d⟩

/-- **A rejected reload keeps the previous credentials.** What `c.creds` points to is replaced exactly after a
successful load, by something the file alone determines; after an error it is what it was. The model meets the
judgement the check applies to what it observes (`reloadAdmissible`) on every content. -/
theorem c19_redis_credentials_rejected_reload_keeps (byValue : Bool) (st : Option Creds) (d : CredDoc) :
    (∀ s, loadCreds byValue d = .ok s → reloadCreds byValue st d = (.ok (), s)) ∧
      ((loadCreds byValue d).isOk = false → (reloadCreds byValue st d).2 = st) ∧
      reloadAdmissible (some st) (reloadCreds byValue st d).1 (some (reloadCreds byValue st d).2) = true := by
  have hr := loadCreds_returns byValue d
  simp only [reloadCreds]
  cases h : loadCreds byValue d <;> simp_all [Out.isOk, reloadAdmissible]

/-- the classes of the task: a complete file, a file with the password only, an empty file, a null document, an
unknown field, a value of the wrong type, a key written twice, something that is not YAML -/
example : loadCreds true (.map [("username", .scalar "foo"), ("password", .scalar "bar")]) =
    .ok (some ⟨"foo", "bar"⟩) := by decide
example : loadCreds true (.map [("password", .scalar "bar")]) = .ok (some ⟨"", "bar"⟩) := by decide
example : loadCreds true .none = .err .decodeError ∧ loadCreds true .malformed = .err .unparsable := by decide
example : loadCreds true .null = .ok (some ⟨"", ""⟩) ∧ loadCreds false .null = .ok none := by decide
example : loadCreds true (.map [("username", .scalar "a"), ("extra", .scalar "1")]) = .err .decodeError := by decide
example : loadCreds true (.map [("username", .collection)]) = .err .decodeError := by decide
example : loadCreds true (.map [("username", .scalar "a"), ("username", .scalar "b")]) = .err .decodeError := by
  decide
/-- what a reader finds while `---\nusername: foo\npassword: bar\n` is being written: nothing, a sequence (`-`), a
scalar (`--`), a null document (`---`), a scalar (`---\nusern`), a user without name (`---\nusername:`), half a name,
not YAML (`…\npassw`), a user without password, the complete file -/
example : [CredDoc.none, .seq, .scalar, .null, .scalar, .map [("username", .null)], .map [("username", .scalar "fo")],
      .malformed, .map [("username", .scalar "foo"), ("password", .null)],
      .map [("username", .scalar "foo"), ("password", .scalar "bar")]].map
        (fun d => (reloadCreds true (some ⟨"old", "pw"⟩) d).2) =
    [some ⟨"old", "pw"⟩, some ⟨"old", "pw"⟩, some ⟨"old", "pw"⟩, some ⟨"", ""⟩, some ⟨"old", "pw"⟩, some ⟨"", ""⟩,
      some ⟨"fo", ""⟩, some ⟨"old", "pw"⟩, some ⟨"foo", ""⟩, some ⟨"foo", "bar"⟩] := by decide

/-- **The model accepts exactly what means credentials.** Decoding into a value with `KnownFields(true)`, entry by
entry in file order with the keys seen so far, accepts a document if and only if it is a credentials file in the
sense of the specification (`credsOf`: null, or a mapping with pairwise distinct keys among `username` / `password`
and scalar or null values — any number of entries, any order), and stores exactly the credentials it means. -/
theorem c19_redis_credentials_model_is_spec (d : CredDoc) : credsLoads true d = (credsOf d).map some :=
  loadCreds_eq_credsOf d

example : credsOf (.map [("password", .scalar "bar"), ("username", .null)]) = some ⟨"", "bar"⟩ := by decide
example : credsOf (.map [("password", .scalar "a"), ("password", .scalar "b")]) = none := by decide

/-- **After any history the redis client is handed the last accepted credentials.** Decoding into a value: for
every history of file contents (complete, half-written, null, hostile, in any order and number) reloaded one after
the other, `get` returns — it never panics — and what it returns are the credentials of the last content that was
accepted (= that means credentials, `credsOf`), the initial ones if none was. By induction over the history. -/
theorem c19_redis_credentials_get_after_history (init : Creds) (ds : List CredDoc) :
    ∃ c, credsGet (credsAfter true (some init) ds) = .ok c ∧
      some c = lastGood (credsLoads true) (some init) ds ∧
      some c = lastGood (fun d => (credsOf d).map some) (some init) ds := by
  have hs := credsAfter_value_some (some init) rfl ds
  have hl := credsAfter_eq_lastGood true (some init) ds
  have hspec : credsLoads true = fun d => (credsOf d).map some := funext loadCreds_eq_credsOf
  cases h : credsAfter true (some init) ds with
  | none => simp [h] at hs
  | some c => exact ⟨c, rfl, by rw [← hl, h], by rw [← hspec, ← hl, h]⟩

example : credsGet (credsAfter true (some ⟨"foo", "bar"⟩)
    [.null, .none, .map [("username", .scalar "baz"), ("password", .scalar "zab")], .malformed, .scalar]) =
      .ok ⟨"baz", "zab"⟩ := by decide

/-- **… exactly when the document is decoded into a value.** Decoding into a pointer, one null document (a writer
that has flushed just the leading `---`) followed by a (re-)connect of the redis client is a nil dereference. -/
theorem c19_redis_credentials_never_panic_iff (byValue : Bool) :
    (∀ (init : Creds) (ds : List CredDoc), (credsGet (credsAfter byValue (some init) ds)).returns = true) ↔
      byValue = true := by
  constructor
  · intro h
    cases byValue
    · have := h ⟨"", ""⟩ [.null]
      simp [credsAfter, reloadCreds, loadCreds, credsGet] at this
    · rfl
  · intro hb init ds
    subst hb
    obtain ⟨c, hc, _, _⟩ := c19_redis_credentials_get_after_history init ds
    rw [hc]; rfl

/-- **The process.** Decoding into a value, for every history of writes of the credentials file and (re-)connects of
the redis client, whether or not the watcher goroutine recovers: the process is alive at the end and the client
works with the credentials of the last accepted content. -/
theorem c19_redis_credentials_process_survives (watcherRecovers : Bool) (init : Creds) (es : List CredsEvent) :
    (credsSteps true watcherRecovers ⟨true, some init⟩ es).alive = true ∧
      (credsSteps true watcherRecovers ⟨true, some init⟩ es).creds =
        lastGood (credsLoads true) (some init) (credFilesOf es) := by
  obtain ⟨h1, _, h3⟩ := credsSteps_value watcherRecovers es ⟨true, some init⟩ rfl rfl
  exact ⟨h1, h3⟩

/-- **… and the recover layer cannot stand in for it.** The goroutine that reloads is the watcher's (`w.notify`, below
a `recover` according to the table read off the source), the one that asks for the credentials is the redis
client's: decoding into a pointer, the history "null document, re-connect" ends the process although every
goroutine of heimdall's own recovers; so survival of all histories is equivalent to decoding into a value. -/
theorem c19_redis_credentials_survives_iff (byValue : Bool) :
    (∀ (init : Creds) (es : List CredsEvent),
      (credsSteps byValue (extractedLayer Gen.LoaderGuards.listenerGoroutines Gen.LoaderGuards.providerEventCalls
        Gen.LoaderGuards.processorRecovers Gen.LoaderGuards.decisionChain Gen.LoaderGuards.proxyChain
        Gen.LoaderGuards.grpcUnaryInterceptors).listener ⟨true, some init⟩ es).alive = true) ↔ byValue = true := by
  constructor
  · intro h
    cases byValue
    · have := h ⟨"", ""⟩ [.file .null, .connect]
      simp [credsSteps, credsStep, reloadCreds, loadCreds, credsGet, survives] at this
    · rfl
  · intro hb init es
    subst hb
    exact (c19_redis_credentials_process_survives _ init es).1

/-- the history of the seeded defect: good credentials, the file observed with only `---` in it, a re-connect, the
rest of the file, another re-connect -/
example : (credsSteps false true ⟨true, some ⟨"foo", "bar"⟩⟩ [.file .null, .connect]).alive = false := by decide
example : credsSteps true true ⟨true, some ⟨"foo", "bar"⟩⟩
    [.file .null, .connect, .file (.map [("username", .scalar "baz"), ("password", .scalar "zab")]), .connect] =
      ⟨true, some ⟨"baz", "zab"⟩⟩ := by decide

/-! ## the recover layer, read off the source on every run -/

/-- **The tie for the `recover`s.** What `/verif/extract/guards` finds in the working tree (goroutines started by
`watcher.fireOnChange`, calls handed an event in `Provider.watchFiles`, `ruleSetProcessor.loadRules`, the
middleware chains of the decision and proxy services, the interceptors of the gRPC service) is the recover layer of
`Guards.head`. -/
theorem c19_gen_recover_layer :
    extractedLayer Gen.LoaderGuards.listenerGoroutines Gen.LoaderGuards.providerEventCalls
        Gen.LoaderGuards.processorRecovers Gen.LoaderGuards.decisionChain Gen.LoaderGuards.proxyChain
        Gen.LoaderGuards.grpcUnaryInterceptors = Guards.head.recoverLayer := by decide

/-- **Defence in depth.** The extracted recover layer alone, together with the bounded certificate walk, is sound:
whatever becomes of the individual type and emptiness checks, no history of inputs ends the process. -/
theorem c19_recover_layer_suffices (g : Guards) (hv : g.chainVisited = true)
    (h : g.recoverLayer = Guards.head.recoverLayer) : Sound g = true := by
  have h' : g.listenerRecover = true ∧ g.providerRecover = true ∧ g.processorRecover = true ∧
      g.httpRecovery = true ∧ g.grpcRecovery = true := by
    simp only [Guards.recoverLayer, Guards.head, RecoverLayer.mk.injEq] at h
    exact h
  simp [Sound, hv, h'.1, h'.2.1, h'.2.2.2.2]

/-- the recover layer and the bounded walk, none of the other checks -/
example : (⟨false, false, false, true, false, false, false, true, true, true, false, true, true⟩ : Guards).recoverLayer =
    Guards.head.recoverLayer := by decide

/-- the original code and the shortest histories that end it -/
example : (steps Guards.original Witness.env (fun _ => "") ⟨true, none, none, none, none⟩
    [.keyFile .jwt Witness.good, .keyFile .jwt []]).alive = false := by decide
example : (steps Guards.original Witness.env (fun _ => "") ⟨true, none, none, none, none⟩
    [.ruleFile (.doc Witness.wellFormed), .ruleFile (.doc Witness.confusedReference)]).alive = false := by decide

/-! ## the watcher over several watched files

`internal/watcher`: ONE goroutine (`startWatching`) serves all watched files — the TLS key stores, the key store of
the JWT signer and of the HTTP message signatures, the redis credentials.  fsnotify binds a watch to the file that is
at the path when it is registered; when that file is removed, replaced by a rename or moved away the watch is gone
and the loop receives a Remove / Rename event.  `WatchLoop` says what the loop does with it: the code ignores it
(`WatchLoop.head`); a loop that registers the path again and `return`s when that fails (the file is still absent:
`rm` then `cp`, a file moved away) has left the loop for good. -/

/-- **No history of file operations stops the watcher, and a change of any other watched file is still delivered.**
For every loop that does not leave on a failed renewal (the code's in particular), every state of the files and every
history of writes, truncations, permission changes, removals, replacements by rename, re-creations and further
registrations: the goroutine is in its loop afterwards; and every file `y` that was watched and is not itself taken
away by the history is still watched, and a change of it is handed to its listener. By induction over the history. -/
theorem c19_watcher_survives_file_removal (l : WatchLoop) (hl : (l.renew && l.returnOnFailedRenewal) = false)
    (w : Watcher) (hw : w.alive = true) (ops : List FileOp) :
    (watchRun l w ops).alive = true ∧
      ∀ y, y ∈ w.watched → y ∈ w.present → (∀ op ∈ ops, op.displaces y = false) →
        y ∈ (watchRun l w ops).watched ∧
          (watchRun l w (ops ++ [.written y])).delivered = (watchRun l w ops).delivered ++ [y] := by
  have ha : (watchRun l w ops).alive = true := (watchRun_alive l hl ops w).trans hw
  refine ⟨ha, ?_⟩
  intro y hyw hyp hd
  obtain ⟨h1, h2⟩ := watchRun_keeps l ops w y hd hyw hyp
  refine ⟨h1, ?_⟩
  rw [watchRun_append]
  simp only [watchRun, List.foldl_cons, List.foldl_nil, watchStep]
  have c1 : y ∈ (List.foldl (watchStep l) w ops).present := by simpa [watchRun] using h2
  have c2 : y ∈ (List.foldl (watchStep l) w ops).watched := by simpa [watchRun] using h1
  have c3 : (List.foldl (watchStep l) w ops).alive = true := by simpa [watchRun] using ha
  simp [c1, c2, c3]

example : (WatchLoop.head.renew && WatchLoop.head.returnOnFailedRenewal) = false := rfl

/-- three watched files; the first is removed and created again, the second replaced by a rename, the third gets new
permissions: changes of the first two are no longer noticed (the watch went with the old file; their previous
contents stay in effect), a change of the third is delivered, the goroutine is alive -/
example : watchRun .head ⟨true, [0, 1, 2], [0, 1, 2], [0, 1, 2], []⟩
    [.fileRemoved 0, .fileBack 0, .written 0, .fileReplaced 1, .written 1, .attrib 2, .written 2] =
      ⟨true, [0, 1, 2], [0, 1, 2], [2], [2]⟩ := by decide

/-- **A loop that returns on a failed re-registration dies of one removed file.** The watched file `x` is absent
when its Remove / Rename event is handled: the goroutine has ended, and whatever happens afterwards — to `x` or to any
other watched file — no listener is told any more. -/
theorem c19_watcher_returning_loop_dies (w : Watcher) (hw : w.alive = true) (x : Nat) (hx : x ∈ w.watched)
    (later : List FileOp) :
    (watchRun ⟨true, true⟩ w (.fileRemoved x :: later)).alive = false ∧
      (watchRun ⟨true, true⟩ w (.fileRemoved x :: later)).delivered = w.delivered := by
  have hstep : (watchStep ⟨true, true⟩ w (.fileRemoved x)).alive = false ∧
      (watchStep ⟨true, true⟩ w (.fileRemoved x)).delivered = w.delivered := by
    simp [watchStep, hx, hw]
  simp only [watchRun, List.foldl_cons]
  have := watchRun_dead ⟨true, true⟩ later (watchStep ⟨true, true⟩ w (.fileRemoved x)) hstep.1
  simp only [watchRun] at this
  exact ⟨this.1, this.2.trans hstep.2⟩

/-- the history of the seeded defect: key store 1 is removed, key store 2 is written — under the code's loop the
listener of key store 2 is told, under the returning loop nobody is; the same loop does follow a file that is replaced
by a rename (which is why ordinary use does not show the difference) -/
example : (watchRun .head ⟨true, [1, 2], [1, 2], [1, 2], []⟩ [.fileRemoved 1, .written 2]).delivered = [2] ∧
    (watchRun ⟨true, true⟩ ⟨true, [1, 2], [1, 2], [1, 2], []⟩ [.fileRemoved 1, .written 2]).delivered = [] ∧
    (watchRun ⟨true, true⟩ ⟨true, [1, 2], [1, 2], [1, 2], []⟩ [.fileReplaced 1, .written 1, .written 2]).delivered =
      [1, 1, 2] := by decide

/-- the two together: the watcher goroutine survives every history exactly if its loop has no such exit -/
theorem c19_watcher_survives_iff (l : WatchLoop) :
    (∀ (w : Watcher) (ops : List FileOp), w.alive = true → (watchRun l w ops).alive = true) ↔
      (l.renew && l.returnOnFailedRenewal) = false := by
  constructor
  · intro h
    cases hr : l.renew <;> cases hf : l.returnOnFailedRenewal <;> try rfl
    have hl : l = ⟨true, true⟩ := by cases l; simp_all
    have := h ⟨true, [0], [0], [0], []⟩ [.fileRemoved 0] rfl
    rw [hl] at this
    exact absurd this (by decide)
  · intro hl w ops hw
    exact (c19_watcher_survives_file_removal l hl w hw ops).1

/-- **… and the previous state stays in effect.** Under the code's loop listeners are started by changes of a file's
content only: removals, replacements, re-creations, permission changes and registrations reload nothing, so every
component keeps working with what it loaded last. -/
theorem c19_watcher_removal_reloads_nothing (w : Watcher) (ops : List FileOp)
    (h : ∀ op ∈ ops, op.isWrite = false) : (watchRun .head w ops).delivered = w.delivered := by
  induction ops generalizing w with
  | nil => rfl
  | cons op ops ih =>
    simp only [watchRun, List.foldl_cons]
    have := ih (watchStep .head w op) (fun op' h' => h op' (by simp [h']))
    simp only [watchRun] at this
    rw [this, watchStep_head_delivered w op (h op (by simp))]

example : ∀ op ∈ [FileOp.fileRemoved 0, .fileBack 0, .fileReplaced 1, .attrib 2, .register 3], op.isWrite = false := by
  decide

/-- **The tie for the loop.** What `/verif/extract/guards` finds in `startWatching` of the working tree — the
statements that leave the `for { select { … } }` loop other than the two "channel closed" returns — is what the
code's loop of the model has: none. -/
theorem c19_gen_watcher_loop_never_leaves :
    loopLeaves Gen.LoaderGuards.watcherLoopExits =
      (WatchLoop.head.renew && WatchLoop.head.returnOnFailedRenewal) := by decide

/-! ## rule sets polled from an HTTP endpoint

`internal/rules/provider/httpendpoint`: the provider keeps the rule set it has only when the fetch fails with an
internal or configuration error; every other failure of the fetch means "the rule set is gone" to it.  So the kind of
error a body that breaks off on the way ends in decides whether a PARTIALLY RECEIVED rule set is a rejected reload or
the end of all rules of the endpoint.  The code hands the body to the decoder as it arrives: the failed read is a
decoding error (`FetchErr.internal`). -/

/-- **A rule set that arrives in part is a rejected reload.** Whatever the rules in force from the endpoint and
whatever the bytes that did arrive: the provider leaves everything as it is. -/
theorem c19_partial_response_keeps_rules (st : Option (List String)) (c : EndpointContent) :
    pollEndpoint .internal st (.body .brokenOff c) = (.kept, st) := rfl

/-- **… exactly if the failed read is an internal or configuration error.** Reported as anything else
(a communication error, say) one broken transfer removes the rules loaded before. -/
theorem c19_partial_response_keeps_iff (k : FetchErr) :
    (∀ (st : Option (List String)) (c : EndpointContent), (pollEndpoint k st (.body .brokenOff c)).2 = st) ↔
      (k = .internal ∨ k = .configuration) := by
  constructor
  · intro h
    have := h (some ["r"]) .empty
    cases k <;> simp_all [pollEndpoint, fetchRuleSet]
  · rintro (rfl | rfl) st c <;> rfl

example : pollEndpoint .communication (some ["foo", "bar"]) (.body .brokenOff (.ruleSet ["foo", "bar"] true)) =
    (.deleted, none) := by decide

/-- **After any history of polls** — complete and partial responses, error statuses, an endpoint that does not
answer, rule sets that are refused, in any order and number — the rules in force from the endpoint are those of the
last poll that MEANS something (`endpointLoads`: a complete acceptable rule set, or "no rule set here"); polls whose
body broke off, whose bytes are no rule set or whose rule set is refused leave no trace. In particular any number of
such polls in a row leaves the rules exactly as they were. By induction over the history. -/
theorem c19_endpoint_history (st : Option (List String)) (rs : List Polled) :
    pollRun .internal st rs = lastGood endpointLoads st rs ∧
      ((∀ r ∈ rs, endpointLoads r = none) → pollRun .internal st rs = st) := by
  have h1 : ∀ (rs : List Polled) (st : Option (List String)),
      pollRun .internal st rs = lastGood endpointLoads st rs := by
    intro rs
    induction rs with
    | nil => intro st; rfl
    | cons r rs ih =>
      intro st
      simp only [pollRun, lastGood, List.foldl_cons] at ih ⊢
      rw [pollEndpoint_state]
      exact ih _
  refine ⟨h1 rs st, ?_⟩
  intro hnone
  rw [h1]
  induction rs generalizing st with
  | nil => rfl
  | cons r rs ih =>
    simp only [lastGood, List.foldl_cons, hnone r (by simp), orKeep]
    exact ih st (fun r' h' => hnone r' (by simp [h']))

/-- a rule set, then the same endpoint answering with half of the next version three times, with garbage, with a
rule set the factory refuses, and at last with the next version: the first one stays until the last poll -/
example : [[], [Polled.body .complete (.ruleSet ["a"] true)],
      [.body .complete (.ruleSet ["a"] true), .body .brokenOff (.ruleSet ["b"] true), .body .brokenOff .empty,
        .body .brokenOff .unparsable, .body .complete .unparsable, .body .complete (.ruleSet ["x"] false)],
      [.body .complete (.ruleSet ["a"] true), .body .brokenOff (.ruleSet ["b"] true),
        .body .complete (.ruleSet ["b"] true)],
      [.body .complete (.ruleSet ["a"] true), .status 503]].map (pollRun .internal none) =
    [none, some ["a"], some ["a"], some ["b"], none] := by decide

example : endpointLoads (.body .brokenOff (.ruleSet ["b"] true)) = none ∧
    endpointLoads (.body .complete .unparsable) = none := ⟨rfl, rfl⟩

/-! ## the status of a RuleSet resource (kubernetes provider)

The handlers of the kubernetes provider run on the informer's goroutine; client-go logs a panic there and panics
again (`HandleCrash`), nothing of heimdall recovers: the recover layer read off the source has no entry for it.
Each handler ends with `updateStatus`, which reads `status.activeIn` of the resource — a value anybody with access to
the status subresource (or another version of the controller) may have written — and the error of the PATCH. -/

/-- **The status update returns on every resource and every answer — exactly under the two checks.** For every
number of parts "/" splits `status.activeIn` into and every sequence of answers of the API server (accepted, refused
with any status code, conflicts that make it start over, no usable answer at all). -/
theorem c19_ruleset_status_update_returns_iff (g : StatusGuards) :
    (∀ (parts : Nat) (answers : List PatchAnswer), (updateStatus g parts answers).returns = true) ↔
      (g.splitChecked && g.asChecked) = true := by
  constructor
  · intro h
    cases hs : g.splitChecked
    · have := h 1 []
      simp [updateStatus, hs, Out.returns] at this
    · cases ha : g.asChecked
      · have := h 2 [.noAnswer]
        simp [updateStatus, hs, ha, Out.returns] at this
      · rfl
  · intro h parts answers
    have hg : g = .head := by
      cases g
      simp only [Bool.and_eq_true] at h
      simp [StatusGuards.head, h.1, h.2]
    rw [hg]
    exact updateStatus_returns parts answers

example : (StatusGuards.head.splitChecked && StatusGuards.head.asChecked) = true := rfl

/-- the inputs of the finding, before and after: `status.activeIn: "x"`; an API server that cannot be reached when the
status is patched — also after a conflict; well-formed values and refusals are no problem for either -/
example : updateStatus .original 1 [.ok] = .panic ∧ updateStatus .head 1 [.ok] = .ok () := by decide
example : updateStatus .original 2 [.noAnswer] = .panic ∧ updateStatus .head 2 [.noAnswer] = .ok () := by decide
example : updateStatus .original 2 [.status 409, .noAnswer] = .panic ∧
    updateStatus .head 2 [.status 409, .noAnswer] = .ok () := by decide
example : updateStatus .original 2 [.status 409, .status 500] = .ok () ∧ updateStatus .original 3 [.ok] = .ok () := by
  decide

/-- **The informer goes on.** With the two checks, for every history of RuleSet events (each with any `activeIn`
and any answers to its status update) the goroutine of the informer — which nothing recovers on — handles every one
of them and is alive afterwards; without them the first such resource ends the process. -/
theorem c19_informer_survives_status_updates (evs : List (Nat × List PatchAnswer)) (p : Proc Nat)
    (hp : p.alive = true) :
    (run false (evs.map fun e => ruleSetEvent .head e.1 e.2) p).alive = true ∧
      (run false (evs.map fun e => ruleSetEvent .head e.1 e.2) p).handled = p.handled + evs.length := by
  have := c19_watcher_goes_on false (evs.map fun e => ruleSetEvent .head e.1 e.2) p hp (by
    intro h hh s
    obtain ⟨e, _, rfl⟩ := List.mem_map.mp hh
    simp only [ruleSetEvent, Out.within_false]
    exact updateStatus_returns e.1 e.2)
  exact ⟨this.1, by simpa using this.2.1⟩

example : (run false [ruleSetEvent .original 2 [.ok], ruleSetEvent .original 1 [.ok], ruleSetEvent .original 2 [.ok]]
    (⟨true, 0, 0⟩ : Proc Nat)).alive = false ∧
    (run false [ruleSetEvent .head 2 [.ok], ruleSetEvent .head 1 [.ok], ruleSetEvent .head 2 [.noAnswer]]
      (⟨true, 0, 0⟩ : Proc Nat)).alive = true ∧
    (run false [ruleSetEvent .head 2 [.ok], ruleSetEvent .head 1 [.ok], ruleSetEvent .head 2 [.noAnswer]]
      (⟨true, 0, 0⟩ : Proc Nat)).handled = 3 := by decide

/-! ### The content of a RuleSet resource

`updateStatus` deep-copies the resource (twice) on the informer's goroutine before it patches the status; the copy
walks the `config` of every mechanism reference: an untyped object, any JSON value the API server delivers. -/

/-- **The copy of a mechanism config returns on every value and yields that very value** (the JSON round trip of
`MechanismConfig.DeepCopyInto`): nulls as map values and as list elements at any depth, empty and nested lists and
maps, scalars of every kind. -/
theorem c19_config_copy_is_total (v : Val) : copyVal true v = .ok v := copyVal_id v

/-- **… exactly when a null element of a list is copied as null**: a copy that dereferences every element panics on
`[null]`, so no such copy is acceptable on this goroutine. -/
theorem c19_config_copy_returns_iff (nullElem : Bool) :
    (∀ v : Val, (copyVal nullElem v).returns = true) ↔ nullElem = true := by
  constructor
  · intro h
    cases nullElem
    · have := h (.list [.null])
      simp [copyVal, copyList, Val.isNull, Out.bind, Out.returns] at this
    · rfl
  · intro h v
    subst h
    simp [c19_config_copy_is_total, Out.returns]

/-- the input of the seeded change: `audience: [foo, null]` below `assertions` -/
example : copyVal false (.map [("assertions", .map [("audience", .list [.str "foo", .null])])]) = .panic ∧
    copyVal true (.map [("assertions", .map [("audience", .list [.str "foo", .null])])]) =
      .ok (.map [("assertions", .map [("audience", .list [.str "foo", .null])])]) ∧
    copyVal false (.map [("a", .null), ("b", .list []), ("c", .list [.list [], .map []])]) =
      .ok (.map [("a", .null), ("b", .list []), ("c", .list [.list [], .map []])]) := by
  simp [copyVal, copyList, copyFields, Val.isNull, Out.bind]

/-- **The informer goes on, whatever the resources hold.** For every history of RuleSet events — each with any
mechanism configs (any JSON values), any `status.activeIn` and any answers to its status update — the informer's
goroutine handles every one of them and is alive afterwards. -/
theorem c19_informer_survives_ruleset_contents (evs : List (List Val × Nat × List PatchAnswer)) (p : Proc Nat)
    (hp : p.alive = true) :
    (run false (evs.map fun e => ruleSetEventWith .head true e.1 e.2.1 e.2.2) p).alive = true ∧
      (run false (evs.map fun e => ruleSetEventWith .head true e.1 e.2.1 e.2.2) p).handled =
        p.handled + evs.length := by
  have := c19_watcher_goes_on false (evs.map fun e => ruleSetEventWith .head true e.1 e.2.1 e.2.2) p hp (by
    intro h hh s
    obtain ⟨e, _, rfl⟩ := List.mem_map.mp hh
    simp only [ruleSetEventWith, Out.within_false, copyConfigs_ok, Out.bind]
    exact updateStatus_returns e.2.1 e.2.2)
  exact ⟨this.1, by simpa using this.2.1⟩

/-- without it the first resource with a null list element ends the process -/
example : (run false [ruleSetEventWith .head false [.map [("x", .list [.null])]] 2 [.ok]]
    (⟨true, 0, 0⟩ : Proc Nat)).alive = false ∧
    (run false [ruleSetEventWith .head true [.map [("x", .list [.null])]] 2 [.ok]]
      (⟨true, 0, 0⟩ : Proc Nat)).alive = true := by
  simp [run, deliver, ruleSetEventWith, copyConfigs, copyVal, copyList, copyFields, Val.isNull, Out.bind,
    updateStatus, StatusGuards.head]

end Heimdall.Props.C19
