import HeimdallModel.Lemmas.ProxyFwdMain
import HeimdallModel.Lemmas.ProxyFwdList
/-!
# C15 — proxy mode forwards exactly the rewritten request, pipeline headers win

`ProxyFwd.forward c` is the model of the whole way of one request through heimdall's proxy entry point
(`Model/ProxyFwd.lean`; it is what the correspondence check runs against the real proxy service, rule and upstream
test server).  `c : Case` ranges over all trusted-proxy lists, peers, listeners (plain / TLS), rules
(`forward_to.host`, `rewrite`, `allow_encoded_slashes`), pipeline results (headers in any casing and multiplicity,
cookies) and client requests (any method, request target, header lines incl. `Connection` and the forwarding headers,
body).  The "original URL" is the one of the request line, or the `X-Forwarded-Uri` of a trusted proxy
(`Spec.origTarget`).  The statements below say that whatever `forward` hands to the upstream meets the specification
`Spec/ProxyFwd.lean`; `c15_model_meets_spec_up_to_known_deviations` collects them into the oracle that the check also
evaluates on what the real upstream received.  Three clauses of the specification are *not* met by the implementation
(recorded findings, `Spec.deviations`); they are stated, the matching theorems carry the suffix `_partial` with the
decidable side condition, and the failure is proved at a concrete witness.
-/
namespace Heimdall.Props.C15
open Heimdall Heimdall.ProxyFwd

/-- A request that exercises every part at once (used as the witness that the hypotheses of the statements below can
be met): TLS listener, trusted peer with two `X-Forwarded-For` lines, an `X-Forwarded-Path` and an `X-Forwarded-Uri`
whose path has a raw `"` next to an encoded slash in lower-case hex and whose query has a listed parameter in another
spelling next to a malformed pair, a `Connection` header naming a client header and the pipeline's header, a pipeline
header colliding with a client header in another casing, strip and add prefix. -/
def witness : Case :=
  ⟨[b!"127.0.0.2"],
   ⟨.noDecode, b!"up:8080", some ⟨[], b!"/api", b!"/v%2F1", [b!"secret"]⟩⟩,
   ⟨[(b!"x-USER", b!"alice")], []⟩,
   ⟨b!"POST", b!"/ignored?z=1", b!"h",
    [(b!"X-uSeR", b!"mallory"), (b!"X-Forwarded-For", b!"1.1.1.1"), (b!"x-forwarded-for", b!"2.2.2.2"),
     (b!"X-Forwarded-Path", b!"/evil"), (b!"X-Forwarded-Uri", b!"/api/a\"%2fb?se%63ret=1&x=%zz"),
     (b!"Connection", b!"x-hop, X-User"), (b!"X-Hop", b!"1"), (b!"Keep-Alive", b!"timeout=5")],
    b!"body", b!"127.0.0.2", true⟩⟩

set_option maxRecDepth 100000 in
/-- the witness is forwarded — `forward c = .forwarded …`, the hypothesis of every statement, is satisfiable — and this
is what the upstream reads -/
example : forward witness = .forwarded true b!"up:8080"
    ⟨b!"POST", b!"/v%2F1/a%22%2fb", b!"x=%zz", b!"up:8080",
     [(b!"Accept-Encoding", b!"gzip"), (b!"X-Forwarded-For", b!"1.1.1.1, 2.2.2.2, 127.0.0.2"),
      (b!"X-Forwarded-Host", b!"h"), (b!"X-Forwarded-Proto", b!"https"), (b!"X-User", b!"alice")], b!"body"⟩ := by
  decide

set_option maxRecDepth 100000 in
example : Spec.addEncoded witness = true ∧ Spec.addDecodable witness = true ∧ Spec.mustForward witness = true ∧
    Spec.xFamily witness = true ∧ Spec.stripNames witness ≠ [] ∧ Spec.usesForwardedUri witness = true ∧
    Spec.addrSafe witness = true ∧ Spec.pipeSingleValued witness = true ∧
    Spec.pipeAvoidsContinued witness = true := by decide

/-! ## Where the request goes -/

/-- **Sent to `forward_to.host`.**  The connection goes to `forward_to.host` whatever the rewrite, the client's `Host`
or the pipeline say; the `Host` header names `forward_to.host` unless the pipeline produced a non-empty `Host` header
(any casing), which wins. -/
theorem c15_forward_to_host (c : Case) (tls : Bool) (dial : Bytes) (up : UpReq)
    (h : forward c = .forwarded tls dial up) :
    dial = c.rule.host ∧ up.host = Spec.expectedHost c := by
  obtain ⟨path, raw, t, _, _, ht, _, _, hdial, hup⟩ := forward_forwarded c tls dial up h
  refine ⟨by rw [hdial]; exact ruleTarget_host _ _ _ ht, ?_⟩
  rw [hup]
  show (rewriteHeaders (inHeaders c) c.pipe c.req.peer c.req.host c.rule.host (listenerProto c.req.tls)).1 =
    Spec.expectedHost c
  unfold rewriteHeaders Spec.expectedHost Spec.pipeValues
  simp only
  unfold pipeFirst
  rw [get_firstOfEach, firstValue_canonHeaders, firstOr_eq, List.head?_map]

/-- **Original scheme unless rewritten.**  TLS is spoken to the upstream exactly when the scheme is `https`, where the
scheme is `rewrite.scheme` if configured and otherwise the scheme of the original request: what `X-Forwarded-Proto`
says if a trusted proxy sent it, else the scheme of the listener the request arrived on. -/
theorem c15_scheme (c : Case) (tls : Bool) (dial : Bytes) (up : UpReq) (h : forward c = .forwarded tls dial up) :
    tls = decide (Spec.expectedScheme c = b!"https") := by
  obtain ⟨path, raw, t, _, _, ht, _, htls, _, _⟩ := forward_forwarded c tls dial up h
  obtain ⟨hte, _⟩ := ruleTarget_some _ _ _ ht
  rw [htls, hte, createURL_scheme]
  have : (extractURL c.req.tls (inHeaders c) (srv c path raw)).scheme = Spec.origScheme c := by
    unfold Spec.origScheme
    rw [firstOr_eq, ← get_inHeaders_fwd c _ xfproto_untrusted]
    rfl
  unfold Spec.expectedScheme
  cases c.rule.rewrite <;> simp only [this]

example : Spec.expectedScheme
    ⟨[], ⟨.off, b!"up:80", none⟩, ⟨[], []⟩, ⟨b!"GET", b!"/", b!"h", [], [], b!"127.0.0.9", true⟩⟩ = b!"https" := by
  decide

/-! ## Path -/

/-- **The path is rewritten on its original spelling, nothing else changes.**  Provided `add_path_prefix` is itself a
proper encoding, the path in the request line is, byte for byte, `add_path_prefix ++ (original path without
strip_path_prefix)` (`/` if that is empty).  The original path is taken in `Spec.seenPath`: unit by unit the client's
own spelling — every `%XX` as written, hex digits in their case, every octet that may stand in a path as it is, any
other octet percent-encoded — unless the rule asks for decoding (`on`). -/
theorem c15_path_exact (c : Case) (tls : Bool) (dial : Bytes) (up : UpReq) (h : forward c = .forwarded tls dial up)
    (ha : Spec.addEncoded c = true) :
    up.path = Spec.expectedPath c := by
  obtain ⟨path, u, hdec, hhead, hu, hraw, _, hpath⟩ := target_path c tls dial up h
  rw [hpath]
  unfold Spec.expectedPath Spec.rewrittenPath
  cases hrw : c.rule.rewrite with
  | none => rfl
  | some rw =>
    simp only
    congr 1
    unfold Spec.addEncoded Spec.addDecodable Spec.addPrefix at ha
    simp only [hrw, Option.map_some, Option.getD_some, Bool.and_eq_true] at ha
    obtain ⟨hadd, hall⟩ := ha
    have hsd : (pathUnescapeL (Spec.seenPath c)).isSome = true := by rw [seenPath_decodes c path hdec]; rfl
    have hdecR : (pathUnescapeL (transformPath rw u.escapedPath)).isSome = true := by
      rw [hu]; exact transformPath_decodable rw _ hadd hsd
    by_cases hon : c.rule.slashes = .on
    · simp only [hon, if_true] at hraw hall
      have := rewrite_exact_noraw rw u hraw (by
        rw [hu]
        unfold transformPath
        rw [List.all_append, hall, Bool.true_and]
        apply all_cutPrefix
        rw [seenPath_on c hon]
        exact escapePath_canon _) hdecR
      rw [this, hu]; rfl
    · simp only [hon, if_false] at hraw hall
      have hne : u.rawPath ≠ [] := by
        rw [hraw]
        apply escapeInvalid_ne_nil
        intro e
        rw [e] at hhead
        simp at hhead
      have := rewrite_exact_raw rw u hne (by
        rw [hu]
        unfold transformPath
        rw [validEncodedPath_append]
        have h1 : validEncodedPath rw.add = true := hall
        rw [h1, Bool.true_and]
        unfold validEncodedPath
        apply all_cutPrefix
        rw [seenPath_off c hon]
        exact escapeInvalid_valid _) hdecR
      rw [this, hu]; rfl

example : Spec.addEncoded
    ⟨[], ⟨.noDecode, b!"up", some ⟨[], b!"/api", b!"/v%2F1", []⟩⟩, ⟨[], []⟩,
     ⟨b!"GET", b!"/api/a%2fb", b!"h", [], [], b!"127.0.0.1", false⟩⟩ = true := by decide

/-- **No double encoding.**  Provided `add_path_prefix` can be decoded at all, decoding once what is written in the
request line gives exactly the decoding of the rewritten original path — for every `allow_encoded_slashes` setting.
(Had an already escaped path been escaped again, one decoding would give back the escaped path, not the decoded
one.) -/
theorem c15_path_decodes_once (c : Case) (tls : Bool) (dial : Bytes) (up : UpReq)
    (h : forward c = .forwarded tls dial up) (ha : Spec.addDecodable c = true) :
    pathUnescapeL up.path = pathUnescapeL (Spec.expectedPath c) ∧ (pathUnescapeL up.path).isSome = true := by
  obtain ⟨path, u, hdec, _, hu, _, _, hpath⟩ := target_path c tls dial up h
  rw [hpath]
  unfold Spec.expectedPath Spec.rewrittenPath
  have hsd : pathUnescapeL (Spec.seenPath c) = some path := seenPath_decodes c path hdec
  cases hrw : c.rule.rewrite with
  | none => exact orSlash_decodes _ _ rfl (by rw [hsd]; rfl)
  | some rw =>
    simp only
    unfold Spec.addDecodable Spec.addPrefix at ha
    simp only [hrw, Option.map_some, Option.getD_some] at ha
    have hR := transformPath_decodable rw (Spec.seenPath c) ha (by rw [hsd]; rfl)
    cases hd : pathUnescapeL (transformPath rw (Spec.seenPath c)) with
    | none => simp [hd] at hR
    | some d =>
      have h1 : pathUnescapeL (rw.apply u).escapedPath = some d := rewrite_decodes rw u d (by rw [hu]; exact hd)
      exact orSlash_decodes _ _ (by rw [h1]; exact hd.symm) (by rw [h1]; rfl)

/-- the spelling that is forwarded decodes to the same path as the client's -/
theorem c15_seen_path_same_path (c : Case) (path : Bytes) (h : pathUnescapeL (Spec.origRawPath c) = some path) :
    pathUnescapeL (Spec.seenPath c) = some path := seenPath_decodes c path h

/-- **Percent-encoding preserved.**  With a rule that does not decode (`off`, `no_decode`) and does not rewrite the
path, the path of the request line is the client's spelling in which only the octets that may not stand in a path are
encoded — and the client's, byte for byte, when it is a valid encoding. -/
theorem c15_encoding_preserved (c : Case) (tls : Bool) (dial : Bytes) (up : UpReq)
    (h : forward c = .forwarded tls dial up) (hs : c.rule.slashes ≠ .on)
    (hr : ∀ rw, c.rule.rewrite = some rw → rw.strip = [] ∧ rw.add = []) :
    up.path = escapeInvalid (Spec.origRawPath c) ∧
      (validEncodedPath (Spec.origRawPath c) = true → up.path = Spec.origRawPath c) := by
  obtain ⟨_, _, _, hhead, _, _, _, _⟩ := target_path c tls dial up h
  have hne : escapeInvalid (Spec.origRawPath c) ≠ [] := by
    apply escapeInvalid_ne_nil
    intro e
    rw [e] at hhead
    simp at hhead
  have ha : Spec.addEncoded c = true := by
    unfold Spec.addEncoded Spec.addDecodable Spec.addPrefix
    cases hrw : c.rule.rewrite with
    | none => simp [pathUnescapeL]
    | some rw => simp [(hr rw hrw).2, pathUnescapeL]
  have hp : up.path = escapeInvalid (Spec.origRawPath c) := by
    rw [c15_path_exact c tls dial up h ha]
    unfold Spec.expectedPath Spec.rewrittenPath orSlash
    rw [seenPath_off c hs]
    cases hrw : c.rule.rewrite with
    | none => simp [hne]
    | some rw =>
      obtain ⟨h1, h2⟩ := hr rw hrw
      simp [h1, h2, cutPrefix, hne]
  exact ⟨hp, fun hv => by rw [hp, escapeInvalid_id _ hv]⟩

example : escapeInvalid b!"/a\"%2fb/%7e%41!" = b!"/a%22%2fb/%7e%41!" := by decide

/-- **An encoded slash stays encoded** unless the rule says `on`: if the original path contains `%2F` or `%2f` and no
prefix is stripped, so does the path the upstream reads — also when the client's spelling contains octets Go does not
accept in a path (raw `"`, `|`, `^`, non-ASCII …). -/
theorem c15_encoded_slash_kept (c : Case) (tls : Bool) (dial : Bytes) (up : UpReq)
    (h : forward c = .forwarded tls dial up) (ha : Spec.addEncoded c = true) (hs : c.rule.slashes ≠ .on)
    (hst : Spec.stripPrefix c = []) (hsl : containsEncodedSlashL (Spec.origRawPath c) = true) :
    containsEncodedSlashL up.path = true := by
  rw [c15_path_exact c tls dial up h ha]
  have hseen : containsEncodedSlashL (Spec.seenPath c) = true := by
    rw [seenPath_off c hs, containsEncodedSlashL_escapeInvalid]; exact hsl
  have happ : ∀ a b : Bytes, containsEncodedSlashL b = true → containsEncodedSlashL (a ++ b) = true := by
    intro a b hb
    induction a with
    | nil => exact hb
    | cons x t ih => rw [List.cons_append, containsEncodedSlashL_cons, ih]; simp
  have hne : ∀ s : Bytes, containsEncodedSlashL s = true → orSlash s = s := by
    intro s hc
    unfold orSlash
    cases s with
    | nil => simp [containsEncodedSlashL] at hc
    | cons _ _ => simp
  unfold Spec.expectedPath Spec.rewrittenPath
  unfold Spec.stripPrefix at hst
  cases hrw : c.rule.rewrite with
  | none => simp only; rw [hne _ hseen]; exact hseen
  | some rw =>
    simp only [hrw, Option.map_some, Option.getD_some] at hst
    have : containsEncodedSlashL (rw.add ++ cutPrefix rw.strip (Spec.seenPath c)) = true := by
      apply happ
      rw [hst]
      simpa [cutPrefix] using hseen
    simp only
    rw [hne _ this]; exact this

example : containsEncodedSlashL (Spec.origRawPath
    ⟨[], ⟨.noDecode, b!"up", none⟩, ⟨[], []⟩, ⟨b!"GET", b!"/a\"%2Fb", b!"h", [], [], b!"127.0.0.1", false⟩⟩) = true := by
  decide

/-! ## Query -/

/-- **Query untouched without `strip_query_parameters`** — byte for byte, malformed pairs included, also when it is
the query of a trusted `X-Forwarded-Uri`. -/
theorem c15_query_untouched (c : Case) (tls : Bool) (dial : Bytes) (up : UpReq)
    (h : forward c = .forwarded tls dial up) (hn : Spec.stripNames c = []) :
    up.query = Spec.origQuery c := by
  rw [target_query c tls dial up h, hn]
  simp [removeParams]

/-- **Exactly the listed parameters are removed.**  The `&`-separated pieces of the forwarded query — empty ones
included — are the pieces of the original query, as written and in their order, without those whose (decoded) name is
listed in `strip_query_parameters`, also when other pieces are malformed; if no piece is left there is no query. -/
theorem c15_query_only_listed_removed (c : Case) (tls : Bool) (dial : Bytes) (up : UpReq)
    (h : forward c = .forwarded tls dial up) :
    if Spec.keptPieces c = [] then up.query = [] else splitOn '&' up.query = Spec.keptPieces c := by
  rw [target_query c tls dial up h]
  exact splitOn_removeParams _ _

/-- **No listed parameter reaches the upstream, in any spelling**, and every other parameter keeps its values and
their order, as `url.ParseQuery` reads the two queries. -/
theorem c15_query_semantics (c : Case) (tls : Bool) (dial : Bytes) (up : UpReq)
    (h : forward c = .forwarded tls dial up) :
    parseQueryPairs up.query =
      (parseQueryPairs (Spec.origQuery c)).filter (fun kv => !(Spec.stripNames c).contains kv.1) := by
  rw [target_query c tls dial up h]
  exact parseQueryPairs_removeParams _ _

example : Spec.named [b!"secret"] b!"se%63ret=1" = true ∧ Spec.named [b!"secret"] b!"%zz=1" = false := by decide

/-! ## Method and body -/

/-- **Method and body untouched.**  The body is the client's for every request; the method is the client's unless a
trusted proxy supplied `X-Forwarded-Method`. -/
theorem c15_method_body (c : Case) (tls : Bool) (dial : Bytes) (up : UpReq) (h : forward c = .forwarded tls dial up) :
    up.body = c.req.body ∧ up.method = Spec.expectedMethod c ∧
      (Spec.believed c hXFMethod = [] → up.method = c.req.method) := by
  obtain ⟨path, raw, t, _, _, _, _, _, _, hup⟩ := forward_forwarded c tls dial up h
  have hm : up.method = Spec.expectedMethod c := by
    rw [hup]
    show extractMethod (inHeaders c) (srv c path raw) = _
    unfold extractMethod Spec.expectedMethod
    rw [firstOr_eq, get_inHeaders_fwd c _ xfmethod_untrusted]
    rfl
  refine ⟨by rw [hup], hm, fun hb => ?_⟩
  rw [hm]
  unfold Spec.expectedMethod
  rw [hb]; rfl

example : Spec.believed
    ⟨[b!"10.0.0.0/8"], ⟨.off, b!"up", none⟩, ⟨[], []⟩,
     ⟨b!"GET", b!"/", b!"h", [(b!"X-Forwarded-Method", b!"DELETE")], [], b!"127.0.0.1", false⟩⟩ hXFMethod = [] := by
  decide

/-! ## Headers -/

/-- **Every header name carries exactly what the specification says** (`Spec.expectedValues`): the value computed by
heimdall for `X-Forwarded-Proto` and `-Host` when it continues that family; else what the pipeline produced under that name
(in any casing); else nothing for the seven forwarding headers and for hop-by-hop headers (the standard ones and those
the client lists in `Connection`); else the client's values in their order — each value as the upstream reads it
(`Spec.asRead`: Go writes a value without the blanks and tabs around it, so a value of blanks only is read as the empty
value).  Partial: for names under which the pipeline produced one value at most, and which are not the forwarding header
heimdall continues (`Spec.deviations`). -/
theorem c15_headers_partial (c : Case) (tls : Bool) (dial : Bytes) (up : UpReq)
    (h : forward c = .forwarded tls dial up) (k : Bytes) (vs : List Bytes)
    (he : Spec.expectedValues c k = some vs) (hr : Spec.repeatedPipeName c k = false)
    (hpc : Spec.pipeContinued c k = false) : values up.headers k = Spec.asRead vs := by
  obtain ⟨path, raw, t, _, _, _, _, _, _, hup⟩ := forward_forwarded c tls dial up h
  unfold Spec.expectedValues at he
  by_cases hg : (Spec.transportOwned k || decide (k = Spec.continuedName c) || decide (k = hTe) ||
      decide (k = hConnection) || decide (k = hUpgrade)) = true
  · simp [hg] at he
  · simp only [hg, Bool.false_eq_true, if_false] at he
    simp only [Bool.or_eq_true, decide_eq_true_eq, not_or, Bool.not_eq_true] at hg
    obtain ⟨⟨⟨⟨hto, hcn⟩, h1⟩, h2⟩, h3⟩ := hg
    have hH : k ≠ hHost := by
      intro e; subst e; revert hto; decide
    have hlen : (Spec.pipeValues c k).length ≤ 1 := by
      unfold Spec.repeatedPipeName at hr
      simp only [ge_iff_le, decide_eq_false_iff_not, Nat.not_le] at hr
      omega
    have hC : k ≠ hCookie ∨ c.pipe.cookies = [] := by
      by_cases hk : k = hCookie
      · right
        by_cases hcs : c.pipe.cookies = []
        · exact hcs
        · exfalso
          subst hk
          have e2 : (hCookie = hXFProto) = False := by decide
          have e3 : (hCookie = hXFHost) = False := by decide
          simp [e2, e3, hcs] at he
      · exact Or.inl hk
    have hmv := model_values c k hH hC h1 h2 h3 hcn
    rw [hup]
    show values (wireHeaders _ (rewriteHeaders (inHeaders c) c.pipe c.req.peer c.req.host c.rule.host
      (listenerProto c.req.tls)).2) k = Spec.asRead vs
    -- the forwarding headers heimdall continues
    by_cases hxp : (Spec.xFamily c && decide (k = hXFProto)) = true
    · simp only [hxp, if_true, Option.some.injEq] at he
      have hk : k = hXFProto := by
        simp only [Bool.and_eq_true, decide_eq_true_eq] at hxp; exact hxp.2
      have hne : ¬ (Spec.xFamily c && decide (k = hXFHost)) = true := by
        subst hk
        have : (hXFProto = hXFHost) = False := by decide
        simp [this]
      rw [values_wireHeaders _ _ _ hto (by subst hk; decide) (Or.inl (by subst hk; decide)), hmv]
      simp only [hne, if_false, hxp, if_true]
      rw [he]
      simp
    · simp only [hxp, Bool.false_eq_true, if_false] at he
      by_cases hxh : (Spec.xFamily c && decide (k = hXFHost)) = true
      · simp only [hxh, if_true, Option.some.injEq] at he
        have hk : k = hXFHost := by
          simp only [Bool.and_eq_true, decide_eq_true_eq] at hxh; exact hxh.2
        rw [values_wireHeaders _ _ _ hto (by subst hk; decide) (Or.inl (by subst hk; decide)), hmv]
        simp only [hxh, if_true]
        rw [he]
      · simp only [hxh, Bool.false_eq_true, if_false] at he
        simp only [hxh, hxp, Bool.false_eq_true, if_false] at hmv
        have hck : (decide (k = hCookie) && decide (c.pipe.cookies ≠ [])) = false := by
          rcases hC with e | e
          · simp [e]
          · simp [e]
        simp only [hck, Bool.false_eq_true, if_false] at he
        -- what the pipeline produced, else what the client sent end to end
        have hsrc : oneOr (Spec.pipeValues c k).head? (Spec.endToEnd c k) =
            (if Spec.pipeValues c k ≠ [] then Spec.pipeValues c k else Spec.endToEnd c k) := by
          unfold oneOr
          cases hpv : Spec.pipeValues c k with
          | nil => simp
          | cons v rest =>
            have : rest = [] := by
              rw [hpv] at hlen
              simp only [List.length_cons] at hlen
              exact List.eq_nil_of_length_eq_zero (by omega)
            subst this
            simp
        rw [hsrc] at hmv
        by_cases hua : k = hUserAgent
        · subst hua
          simp only [if_true, Option.some.injEq] at he
          rw [values_wireHeaders_ua, hmv, ← he]
          cases (if Spec.pipeValues c hUserAgent ≠ [] then Spec.pipeValues c hUserAgent
              else Spec.endToEnd c hUserAgent) with
          | nil => rfl
          | cons v rest => by_cases hv : v = [] <;> simp [hv, Spec.asRead]
        · simp only [hua, if_false] at he
          by_cases hae : k = hAcceptEncoding
          · subst hae
            simp only [if_true] at he
            cases hsv : (if Spec.pipeValues c hAcceptEncoding ≠ [] then Spec.pipeValues c hAcceptEncoding
                else Spec.endToEnd c hAcceptEncoding) with
            | nil => simp [hsv] at he
            | cons v rest =>
              simp only [hsv] at he
              by_cases hv : v = []
              · simp [hv] at he
              · simp only [hv, if_false, Option.some.injEq] at he
                rw [hsv] at hmv
                have hgne : ProxyFwd.get (rewriteHeaders (inHeaders c) c.pipe c.req.peer c.req.host c.rule.host
                    (listenerProto c.req.tls)).2 hAcceptEncoding ≠ [] := by
                  unfold ProxyFwd.get
                  rw [hmv]
                  simpa using hv
                rw [values_wireHeaders _ _ _ hto hua (Or.inr hgne), hmv, he]
          · simp only [hae, if_false] at he
            rw [values_wireHeaders _ _ _ hto hua (Or.inl hae), hmv]
            by_cases hpv : Spec.pipeValues c k = []
            · simp only [hpv, ne_eq, not_true_eq_false, if_false, Option.some.injEq] at he ⊢
              rw [he]
            · simp only [hpv, ne_eq, not_false_eq_true, if_true, Option.some.injEq] at he ⊢
              rw [he]

/-- **Pipeline headers win.**  If the pipeline produced one header whose canonical name is `k` — in whatever casing,
and whatever the client sent under that name in whatever casing and however often, whether or not the client lists
the name in `Connection` — the upstream reads exactly one line for `k`, carrying the pipeline's value (without
surrounding blanks).  `v` is arbitrary: when the template of a `header` finalizer rendered the **empty** string (or
blanks only) the upstream reads one line with an empty value and none of the client's.  (Not for
`Host`, see `c15_forward_to_host`; `User-Agent` / `Accept-Encoding` see below; not for framing headers, for the
forwarding header heimdall continues, for `Te`/`Connection`/`Upgrade`, and for `Cookie` when the pipeline produced
cookies, which are appended.) -/
theorem c15_pipeline_header_wins (c : Case) (tls : Bool) (dial : Bytes) (up : UpReq)
    (h : forward c = .forwarded tls dial up) (k v : Bytes) (hv : Spec.pipeValues c k = [v])
    (h1 : Spec.transportOwned k = false) (h2 : Spec.continued c k = false)
    (h3 : k ≠ hCookie ∨ c.pipe.cookies = [])
    (h4 : k ≠ hTe ∧ k ≠ hConnection ∧ k ≠ hUpgrade ∧ k ≠ hUserAgent ∧ k ≠ hAcceptEncoding) :
    values up.headers k = [trimOWS v] := by
  show values up.headers k = Spec.asRead [v]
  apply c15_headers_partial c tls dial up h k [v]
  · unfold Spec.expectedValues Spec.continuedName
    unfold Spec.continued at h2
    have hck : (decide (k = hCookie) && decide (c.pipe.cookies ≠ [])) = false := by
      rcases h3 with e | e
      · simp [e]
      · simp [e]
    obtain ⟨n1, n2, n3, n4, n5⟩ := h4
    have hck' : k = hCookie → c.pipe.cookies = [] := by
      intro e
      rcases h3 with e' | e'
      · exact absurd e e'
      · exact e'
    by_cases hX : Spec.xFamily c = true
    · simp only [hX, if_true, Bool.or_eq_false_iff, decide_eq_false_iff_not] at h2
      simpa [h1, hX, h2.1.1, h2.1.2, h2.2, hv, n1, n2, n3, n4, n5] using hck'
    · have hX' : Spec.xFamily c = false := by simpa using hX
      simp only [hX', Bool.false_eq_true, if_false, decide_eq_false_iff_not] at h2
      simpa [h1, hX', h2, hv, n1, n2, n3, n4, n5] using hck'
  · simp [Spec.repeatedPipeName, hv]
  · simp [Spec.pipeContinued, h2]

example : Spec.pipeValues
    ⟨[], ⟨.off, b!"up", none⟩, ⟨[(b!"x-USER", b!"alice")], []⟩,
     ⟨b!"GET", b!"/", b!"h", [(b!"X-uSeR", b!"mallory"), (b!"x-user", b!"eve"), (b!"Connection", b!"x-user")], [],
      b!"127.0.0.1", false⟩⟩
    b!"X-User" = [b!"alice"] := by decide

set_option maxRecDepth 100000 in
/-- a value of blanks only (what `{{ .Subject.Attributes.role }}` renders for the attribute `" "`) is read as the empty
value, and replaces the client's lines all the same; blanks around a value are not read -/
example : (match forward
    ⟨[], ⟨.off, b!"up", none⟩, ⟨[(b!"x-user-ROLE", b!" \t"), (b!"X-Id", b!" 42 ")], []⟩,
     ⟨b!"GET", b!"/", b!"h", [(b!"X-User-Role", b!"admin"), (b!"x-id", b!"0")], [], b!"127.0.0.1", false⟩⟩ with
    | .forwarded _ _ up => (values up.headers b!"X-User-Role", values up.headers b!"X-Id")
    | _ => ([], [])) = ([[]], [b!"42"]) := by decide

/-- **The pipeline also wins for `User-Agent` and `Accept-Encoding`**, the two names Go's HTTP client writes itself: a
non-empty value the pipeline produced is the only one the upstream reads. -/
theorem c15_pipeline_wins_library_headers (c : Case) (tls : Bool) (dial : Bytes) (up : UpReq)
    (h : forward c = .forwarded tls dial up) (k v : Bytes) (hk : k = hUserAgent ∨ k = hAcceptEncoding)
    (hv : Spec.pipeValues c k = [v]) (hne : v ≠ []) : values up.headers k = [trimOWS v] := by
  show values up.headers k = Spec.asRead [v]
  apply c15_headers_partial c tls dial up h k [v]
  · unfold Spec.expectedValues Spec.continuedName
    rcases hk with e | e <;> subst e
    · have e0 : Spec.transportOwned hUserAgent = false := by decide
      have e1 : (hUserAgent = hXFFor) = False := by decide
      have e2 : (hUserAgent = hForwarded) = False := by decide
      have e3 : (hUserAgent = hXFProto) = False := by decide
      have e4 : (hUserAgent = hXFHost) = False := by decide
      have e5 : (hUserAgent = hCookie) = False := by decide
      have e6 : (hUserAgent = hTe) = False := by decide
      have e7 : (hUserAgent = hConnection) = False := by decide
      have e8 : (hUserAgent = hUpgrade) = False := by decide
      cases Spec.xFamily c <;> simp [e0, e1, e2, e3, e4, e5, e6, e7, e8, hv, hne]
    · have e0 : Spec.transportOwned hAcceptEncoding = false := by decide
      have e1 : (hAcceptEncoding = hXFFor) = False := by decide
      have e2 : (hAcceptEncoding = hForwarded) = False := by decide
      have e3 : (hAcceptEncoding = hXFProto) = False := by decide
      have e4 : (hAcceptEncoding = hXFHost) = False := by decide
      have e5 : (hAcceptEncoding = hCookie) = False := by decide
      have e6 : (hAcceptEncoding = hTe) = False := by decide
      have e7 : (hAcceptEncoding = hConnection) = False := by decide
      have e8 : (hAcceptEncoding = hUpgrade) = False := by decide
      have e9 : (hAcceptEncoding = hUserAgent) = False := by decide
      cases Spec.xFamily c <;> simp [e0, e1, e2, e3, e4, e5, e6, e7, e8, e9, hv, hne]
  · simp [Spec.repeatedPipeName, hv]
  · unfold Spec.pipeContinued Spec.continued
    have a1 : (hUserAgent = hXFFor) = False := by decide
    have a2 : (hUserAgent = hForwarded) = False := by decide
    have a3 : (hUserAgent = hXFProto) = False := by decide
    have a4 : (hUserAgent = hXFHost) = False := by decide
    have b1 : (hAcceptEncoding = hXFFor) = False := by decide
    have b2 : (hAcceptEncoding = hForwarded) = False := by decide
    have b3 : (hAcceptEncoding = hXFProto) = False := by decide
    have b4 : (hAcceptEncoding = hXFHost) = False := by decide
    rcases hk with e | e <;> subst e <;> cases Spec.xFamily c <;> simp [a1, a2, a3, a4, b1, b2, b3, b4]

/-- **Nothing the client sent survives under a name the pipeline produced** — the property's "every header produced by
the pipeline replaces any same-named header sent by the client" as a safety statement.  If the pipeline produced a
header under the canonical name `k`, with whatever value (the **empty** string a template renders for a subject
without the attribute and values of blanks only included), in whatever casing and however often, then every value the
upstream reads under `k` is one of the values the pipeline produced (as read: without surrounding blanks) — or, for
`Accept-Encoding`, the `gzip` line Go's HTTP client adds itself.  No hypothesis on the client's header lines: same
name in any casing, any number of lines, listed in `Connection` or not.  (`Spec.pipelineOwned` leaves out `Host` and the
framing headers, the forwarding header heimdall continues, `Te`/`Connection`/`Upgrade`, and `Cookie` when the pipeline
produced cookies too.) -/
theorem c15_client_value_replaced (c : Case) (tls : Bool) (dial : Bytes) (up : UpReq)
    (h : forward c = .forwarded tls dial up) (k : Bytes) (hk : Spec.pipelineOwned c k = true) :
    Spec.clientReplaced c up k = true := by
  obtain ⟨path, raw, t, _, _, _, _, _, _, hup⟩ := forward_forwarded c tls dial up h
  unfold Spec.pipelineOwned at hk
  simp only [Bool.and_eq_true, Bool.not_eq_true', decide_eq_true_eq, decide_eq_false_iff_not, ne_eq,
    Bool.and_eq_false_iff, Bool.not_eq_eq_eq_not, Bool.not_true] at hk
  obtain ⟨⟨⟨⟨⟨⟨hpv, hto⟩, hco⟩, h1⟩, h2⟩, h3⟩, hck⟩ := hk
  have hH : k ≠ hHost := by
    intro e; subst e; revert hto; decide
  have hC : k ≠ hCookie ∨ c.pipe.cookies = [] := by
    rcases hck with e | e
    · exact Or.inl e
    · exact Or.inr (by simpa using e)
  have hcn : k ≠ Spec.continuedName c := by
    unfold Spec.continued at hco
    unfold Spec.continuedName
    cases hX : Spec.xFamily c
    · simpa [hX] using hco
    · simp only [hX, if_true, Bool.or_eq_false_iff, decide_eq_false_iff_not] at hco
      simpa using hco.1.1
  have hxh : (Spec.xFamily c && decide (k = hXFHost)) = false := by
    unfold Spec.continued at hco
    cases hX : Spec.xFamily c
    · rfl
    · simp only [hX, if_true, Bool.or_eq_false_iff, decide_eq_false_iff_not] at hco
      simp [hco.2]
  have hxp : (Spec.xFamily c && decide (k = hXFProto)) = false := by
    unfold Spec.continued at hco
    cases hX : Spec.xFamily c
    · rfl
    · simp only [hX, if_true, Bool.or_eq_false_iff, decide_eq_false_iff_not] at hco
      simp [hco.1.2]
  have hmv := model_values c k hH hC h1 h2 h3 hcn
  simp only [hxh, hxp, Bool.false_eq_true, if_false] at hmv
  cases hp : Spec.pipeValues c k with
  | nil => exact absurd hp hpv
  | cons v0 rest =>
    rw [hp] at hmv
    simp only [List.head?_cons, oneOr] at hmv
    have hin : (Spec.asRead (v0 :: rest)).contains (trimOWS v0) = true := by
      simp [Spec.asRead]
    unfold Spec.clientReplaced
    rw [hup, hp]
    show ((values (wireHeaders _ (rewriteHeaders (inHeaders c) c.pipe c.req.peer c.req.host c.rule.host
      (listenerProto c.req.tls)).2) k).all _) = true
    by_cases hua : k = hUserAgent
    · subst hua
      rw [values_wireHeaders_ua, hmv]
      by_cases hv : v0 = []
      · simp [hv]
      · simp only [hv, if_false, List.all_cons, List.all_nil, Bool.and_true, hin, Bool.true_or]
    · rw [values_wireHeaders_gzip _ _ _ hto hua, hmv, List.all_append, Bool.and_eq_true]
      refine ⟨?_, ?_⟩
      · show ([trimOWS v0].all _) = true
        simp only [List.all_cons, List.all_nil, Bool.and_true, hin, Bool.true_or]
      · rw [List.all_eq_true]
        intro w hw
        obtain ⟨e1, e2⟩ := values_gzipLine_mem _ _ _ _ hw
        simp [e1, e2]

example : Spec.pipelineOwned
    ⟨[], ⟨.off, b!"up", none⟩, ⟨[(b!"x-user-ROLE", [])], []⟩,
     ⟨b!"GET", b!"/", b!"h", [(b!"X-User-Role", b!"admin"), (b!"x-user-role", b!"root")], [], b!"127.0.0.1", false⟩⟩
    b!"X-User-Role" = true := by decide

set_option maxRecDepth 100000 in
/-- a header the pipeline rendered empty replaces the client's lines: the upstream reads the name with an empty value -/
example : (match forward
    ⟨[], ⟨.off, b!"up", none⟩, ⟨[(b!"x-user-ROLE", [])], []⟩,
     ⟨b!"GET", b!"/", b!"h", [(b!"X-User-Role", b!"admin"), (b!"x-user-role", b!"root")], [], b!"127.0.0.1", false⟩⟩ with
    | .forwarded _ _ up => values up.headers b!"X-User-Role"
    | _ => [b!"?"]) = [[]] := by decide

/-- **`X-Forwarded-Method`, `-Uri`, `-Path` cannot be passed through** — from no peer, trusted or not, in no casing:
the upstream reads these names only with a value the pipeline produced. -/
theorem c15_no_forwarded_passthrough (c : Case) (tls : Bool) (dial : Bytes) (up : UpReq)
    (h : forward c = .forwarded tls dial up) (k : Bytes) (hk : k = hXFMethod ∨ k = hXFUri ∨ k = hXFPath)
    (hp : Spec.pipeValues c k = []) : values up.headers k = [] := by
  apply c15_headers_partial c tls dial up h k []
  · unfold Spec.expectedValues Spec.continuedName Spec.endToEnd
    rcases hk with e | e | e <;> subst e
    · have e0 : Spec.transportOwned hXFMethod = false := by decide
      have e1 : (hXFMethod = hXFFor) = False := by decide
      have e2 : (hXFMethod = hXFProto) = False := by decide
      have e3 : (hXFMethod = hXFHost) = False := by decide
      have e4 : (hXFMethod = hForwarded) = False := by decide
      have e5 : (hXFMethod = hCookie) = False := by decide
      have e6 : untrustedHeaders.contains hXFMethod = true := by decide
      have e12 : hXFMethod ∈ untrustedHeaders := by decide
      have e7 : (hXFMethod = hTe) = False := by decide
      have e8 : (hXFMethod = hConnection) = False := by decide
      have e9 : (hXFMethod = hUpgrade) = False := by decide
      have e10 : (hXFMethod = hUserAgent) = False := by decide
      have e11 : (hXFMethod = hAcceptEncoding) = False := by decide
      cases Spec.xFamily c <;> simp [e0, e1, e2, e3, e4, e5, e6, e7, e8, e9, e10, e11, e12, hp]
    · have e0 : Spec.transportOwned hXFUri = false := by decide
      have e1 : (hXFUri = hXFFor) = False := by decide
      have e2 : (hXFUri = hXFProto) = False := by decide
      have e3 : (hXFUri = hXFHost) = False := by decide
      have e4 : (hXFUri = hForwarded) = False := by decide
      have e5 : (hXFUri = hCookie) = False := by decide
      have e6 : untrustedHeaders.contains hXFUri = true := by decide
      have e12 : hXFUri ∈ untrustedHeaders := by decide
      have e7 : (hXFUri = hTe) = False := by decide
      have e8 : (hXFUri = hConnection) = False := by decide
      have e9 : (hXFUri = hUpgrade) = False := by decide
      have e10 : (hXFUri = hUserAgent) = False := by decide
      have e11 : (hXFUri = hAcceptEncoding) = False := by decide
      cases Spec.xFamily c <;> simp [e0, e1, e2, e3, e4, e5, e6, e7, e8, e9, e10, e11, e12, hp]
    · have e0 : Spec.transportOwned hXFPath = false := by decide
      have e1 : (hXFPath = hXFFor) = False := by decide
      have e2 : (hXFPath = hXFProto) = False := by decide
      have e3 : (hXFPath = hXFHost) = False := by decide
      have e4 : (hXFPath = hForwarded) = False := by decide
      have e5 : (hXFPath = hCookie) = False := by decide
      have e6 : untrustedHeaders.contains hXFPath = true := by decide
      have e12 : hXFPath ∈ untrustedHeaders := by decide
      have e7 : (hXFPath = hTe) = False := by decide
      have e8 : (hXFPath = hConnection) = False := by decide
      have e9 : (hXFPath = hUpgrade) = False := by decide
      have e10 : (hXFPath = hUserAgent) = False := by decide
      have e11 : (hXFPath = hAcceptEncoding) = False := by decide
      cases Spec.xFamily c <;> simp [e0, e1, e2, e3, e4, e5, e6, e7, e8, e9, e10, e11, e12, hp]
  · simp [Spec.repeatedPipeName, hp]
  · simp [Spec.pipeContinued, hp]

/-- **Everything else as the client sent it, hop-by-hop headers excepted.**  A header name that the pipeline did not
produce and that is none of the forwarding headers reaches the upstream with the client's values, all of them, in
order — unless it is hop-by-hop for this request (a standard hop-by-hop name, or listed in the client's `Connection`
header), in which case the upstream does not read it at all. -/
theorem c15_other_headers (c : Case) (tls : Bool) (dial : Bytes) (up : UpReq)
    (h : forward c = .forwarded tls dial up) (k : Bytes) (h1 : Spec.transportOwned k = false)
    (h2 : untrustedHeaders.contains k = false) (h3 : Spec.pipeValues c k = [])
    (h4 : k ≠ hCookie ∨ c.pipe.cookies = [])
    (h5 : k ≠ hTe ∧ k ≠ hConnection ∧ k ≠ hUpgrade ∧ k ≠ hUserAgent ∧ k ≠ hAcceptEncoding) :
    values up.headers k = Spec.asRead (if Spec.hopByHop c k then [] else values (Spec.clientHeaders c) k) := by
  apply c15_headers_partial c tls dial up h
  · unfold Spec.expectedValues Spec.continuedName Spec.endToEnd
    have hn := (not_congr (untrusted_iff k)).mp (by simpa using h2)
    simp only [not_or] at hn
    obtain ⟨n1, n2, n3, n4, _, _, _⟩ := hn
    obtain ⟨m1, m2, m3, m4, m5⟩ := h5
    have hck : (decide (k = hCookie) && decide (c.pipe.cookies ≠ [])) = false := by
      rcases h4 with e | e
      · simp [e]
      · simp [e]
    have hck' : k = hCookie → c.pipe.cookies = [] := by
      intro e
      rcases h4 with e' | e'
      · exact absurd e e'
      · exact e'
    have h2' : ¬ k ∈ untrustedHeaders := by
      intro hm
      have : untrustedHeaders.contains k = true := by simpa using hm
      rw [h2] at this
      exact Bool.noConfusion this
    cases Spec.xFamily c <;> simpa [h1, n1, n2, n3, n4, h3, h2', m1, m2, m3, m4, m5] using hck'
  · simp [Spec.repeatedPipeName, h3]
  · simp [Spec.pipeContinued, h3]

example : Spec.hopByHop
    ⟨[], ⟨.off, b!"up", none⟩, ⟨[], []⟩,
     ⟨b!"GET", b!"/", b!"h", [(b!"connection", b!"close , x-custom"), (b!"X-Custom", b!"1")], [], b!"127.0.0.1",
      false⟩⟩ b!"X-Custom" = true := by decide

/-- **`X-Forwarded-For` or `Forwarded` is extended by the peer address.**  If a trusted peer used the `X-Forwarded-*`
family, the upstream reads one `X-Forwarded-For` line whose elements are all elements received from that peer (every
header line, in order) followed by the peer's address.  Otherwise it reads one `Forwarded` line whose elements are all
`Forwarded` elements received from a trusted peer followed by one element with the parameter `for=<peer>`.  What an
untrusted peer sent under these names is not part of either, and a pipeline header of that name does not change it.
Partial: for peer addresses and `Host` values free of `,` `;` `"` and blanks (`Spec.addrSafe`, deviation `devHost`). -/
theorem c15_forwarded_extended_partial (c : Case) (tls : Bool) (dial : Bytes) (up : UpReq)
    (h : forward c = .forwarded tls dial up) (hs : Spec.addrSafe c = true) : Spec.extendedByPeer c up = true := by
  obtain ⟨path, raw, t, _, _, _, _, _, _, hup⟩ := forward_forwarded c tls dial up h
  have hs' : (c.req.peer ++ c.req.host).all cleanChar = true := by
    unfold Spec.addrSafe at hs
    rw [← hs]
    congr 1
  rw [List.all_append, Bool.and_eq_true] at hs'
  obtain ⟨hpeerOK, hpeerSemi⟩ := elemOK_of_clean c.req.peer hs'.1
  obtain ⟨hhostOK, _⟩ := elemOK_of_clean c.req.host hs'.2
  have hpeer : ',' ∉ c.req.peer ∧ ';' ∉ c.req.peer ∧ ∀ ch ∈ c.req.peer, isOWS ch = false :=
    ⟨hpeerOK.1, hpeerSemi, hpeerOK.2⟩
  have hxf : xFam (inHeaders c) = Spec.xFamily c := by
    unfold xFam Spec.xFamily Spec.priorFor
    rw [values_inHeaders_fwd c _ xffor_untrusted, firstOr_nil, firstOr_nil,
      get_inHeaders_fwd c _ xfproto_untrusted, get_inHeaders_fwd c _ xfhost_untrusted]
  unfold Spec.extendedByPeer Spec.continuedName
  rw [hup]
  show (match values (wireHeaders _ (rewriteHeaders (inHeaders c) c.pipe c.req.peer c.req.host c.rule.host
      (listenerProto c.req.tls)).2) (if Spec.xFamily c = true then hXFFor else hForwarded) with
    | [v] => _
    | _ => false) = true
  by_cases hX : Spec.xFamily c = true
  · simp only [hX, if_true]
    rw [values_wireHeaders _ _ _ (by decide) (by decide) (Or.inl (by decide)),
      values_rewriteHeaders _ _ _ _ _ _ _ (by decide) (Or.inl (by decide)) (by decide) (by decide) (by decide), hxf]
    have e1 : (hXFFor = hXFHost) = False := by decide
    have e2 : (hXFFor = hXFProto) = False := by decide
    simp only [hX, Bool.true_and, e1, e2, decide_false, Bool.false_eq_true, if_false, decide_true, if_true]
    rw [values_inHeaders_fwd c _ xffor_untrusted]
    show decide (listElems _ = Spec.priorElems (Spec.priorFor c) ++ [c.req.peer]) = true
    unfold Spec.priorElems Spec.priorFor
    by_cases hp : commaJoin (Spec.believed c hXFFor) = []
    · simp only [hp, if_true, List.nil_append, decide_eq_true_eq]
      rw [listElems_trimOWS]
      exact listElems_single _ hpeer.1 hpeer.2.2
    · simp only [hp, if_false, decide_eq_true_eq]
      rw [listElems_trimOWS]
      exact listElems_extend _ _ hpeer.1 hpeer.2.2
  · have hX' : Spec.xFamily c = false := by simpa using hX
    simp only [hX', Bool.false_eq_true, if_false]
    rw [values_wireHeaders _ _ _ (by decide) (by decide) (Or.inl (by decide)),
      values_rewriteHeaders _ _ _ _ _ _ _ (by decide) (Or.inl (by decide)) (by decide) (by decide) (by decide), hxf]
    simp only [hX', Bool.false_and, Bool.false_eq_true, if_false, Bool.not_false, Bool.true_and, decide_true,
      if_true]
    rw [values_inHeaders_fwd c _ forwarded_untrusted]
    -- the element heimdall appends
    have hprotoOK : elemOK (listenerProto c.req.tls) := by
      unfold listenerProto
      cases c.req.tls
      · exact elemOK_of_all _ (by decide)
      · exact elemOK_of_all _ (by decide)
    have he : ',' ∉ forwardedElem c.req.peer c.req.host (listenerProto c.req.tls) ∧
        ∀ ch ∈ forwardedElem c.req.peer c.req.host (listenerProto c.req.tls), isOWS ch = false := by
      unfold forwardedElem
      exact elemOK_append _ _ (elemOK_append _ _ (elemOK_append _ _ (elemOK_append _ _
        (elemOK_append _ _ (elemOK_of_all _ (by decide)) hpeerOK) (elemOK_of_all _ (by decide))) hhostOK)
        (elemOK_of_all _ (by decide))) hprotoOK
    have hfor : ((splitOn ';' (forwardedElem c.req.peer c.req.host (listenerProto c.req.tls))).map trimOWS).contains
        (b!"for=" ++ c.req.peer) = true := by
      have hfp : ';' ∉ (b!"for=" ++ c.req.peer) := by
        intro hm
        rcases List.mem_append.mp hm with e | e
        · revert e; decide
        · exact hpeer.2.1 e
      have : forwardedElem c.req.peer c.req.host (listenerProto c.req.tls) =
          (b!"for=" ++ c.req.peer) ++ ';' :: (b!"host=" ++ c.req.host ++ b!";proto=" ++ listenerProto c.req.tls) := by
        simp [forwardedElem]
      have htr : trimOWS (b!"for=" ++ c.req.peer) = b!"for=" ++ c.req.peer :=
        trimOWS_clean _ (elemOK_append _ _ (elemOK_of_all _ (by decide)) hpeerOK).2
      have hmem : (b!"for=" ++ c.req.peer) ∈
          (splitOn ';' (forwardedElem c.req.peer c.req.host (listenerProto c.req.tls))).map trimOWS := by
        rw [this, splitOn_append_no_sep ';' _ hfp, List.map_cons, htr]
        exact List.mem_cons_self
      simpa using hmem
    unfold Spec.priorElems Spec.priorForwarded
    by_cases hp : commaJoin (Spec.believed c hForwarded) = []
    · simp only [hp, if_true, Spec.asRead, List.map_cons, List.map_nil]
      rw [listElems_trimOWS, listElems_single _ he.1 he.2]
      simpa using hfor
    · simp only [hp, if_false, Spec.asRead, List.map_cons, List.map_nil]
      rw [listElems_trimOWS, listElems_extend _ _ he.1 he.2]
      simpa using hfor

set_option maxRecDepth 100000 in
/-- the deviation `devHost` at a witness: the `Host` of an untrusted client adds an element to `Forwarded`, the last
element no longer names the peer -/
example : Spec.violations
    ⟨[], ⟨.noDecode, b!"up", none⟩, ⟨[], []⟩, ⟨b!"GET", b!"/", b!"a,for=6.6.6.6;x", [], [], b!"127.0.0.1", false⟩⟩
    (forward ⟨[], ⟨.noDecode, b!"up", none⟩, ⟨[], []⟩,
      ⟨b!"GET", b!"/", b!"a,for=6.6.6.6;x", [], [], b!"127.0.0.1", false⟩⟩) = [Spec.devHost] := by decide

/-! ## Which requests are forwarded at all -/

/-- **An encoded slash is refused when the rule says `off`** (the default): `%2F` and `%2f` alike, wherever they
stand in the original path and whatever other octets that path contains, before anything is sent to the upstream. -/
theorem c15_refuses_encoded_slash (c : Case) (h : Spec.mustRefuse c = true) : forward c = .rejected 400 := by
  unfold Spec.mustRefuse at h
  simp only [Bool.and_eq_true, decide_eq_true_eq] at h
  obtain ⟨⟨hw, hoff⟩, hsl⟩ := h
  obtain ⟨path, raw, hsp, hset, hf⟩ := forward_wellFormed c hw
  obtain ⟨_, _, _, hurl⟩ := extractURL_view c path raw hsp hset
  rw [hf, hurl]
  unfold ruleTarget
  simp [hoff, containsEncodedSlashL_escapeInvalid, hsl]

example : Spec.mustRefuse
    ⟨[], ⟨.off, b!"up", none⟩, ⟨[], []⟩, ⟨b!"GET", b!"/a|%2fb", b!"h", [], [], b!"127.0.0.1", false⟩⟩ = true := by
  decide

/-- **Everything else that is well-formed is forwarded**: a request line in origin form whose path can be decoded, no
encoded slash under `off`, scheme `http` or `https`. -/
theorem c15_accepts (c : Case) (h : Spec.mustForward c = true) : ∃ tls dial up, forward c = .forwarded tls dial up := by
  unfold Spec.mustForward at h
  simp only [Bool.and_eq_true, Bool.not_eq_true', Bool.or_eq_true, decide_eq_true_eq] at h
  obtain ⟨⟨hw, hsl⟩, hsch⟩ := h
  obtain ⟨path, raw, hsp, hset, hf⟩ := forward_wellFormed c hw
  obtain ⟨_, _, _, hurl⟩ := extractURL_view c path raw hsp hset
  have hrt : ∃ t, ruleTarget c.rule (extractURL c.req.tls (inHeaders c) (srv c path raw)) = some t := by
    rw [hurl]
    unfold ruleTarget
    cases hs : c.rule.slashes with
    | on => exact ⟨_, rfl⟩
    | noDecode => exact ⟨_, rfl⟩
    | off =>
      simp only [hs, decide_true, Bool.true_and] at hsl
      simp only [containsEncodedSlashL_escapeInvalid, hsl, Bool.false_eq_true, if_false]
      exact ⟨_, rfl⟩
  obtain ⟨t, ht⟩ := hrt
  rw [ht] at hf
  obtain ⟨hte, _⟩ := ruleTarget_some _ _ _ ht
  have hts : t.scheme = Spec.expectedScheme c := by
    rw [hte, createURL_scheme]
    have : (extractURL c.req.tls (inHeaders c) (srv c path raw)).scheme = Spec.origScheme c := by rw [hurl]
    unfold Spec.expectedScheme
    cases c.rule.rewrite <;> simp only [this]
  have : (t.scheme ≠ b!"http" && t.scheme ≠ b!"https") = false := by
    rw [hts]
    rcases hsch with e | e <;> rw [e] <;> decide
  simp only [this, Bool.false_eq_true, if_false] at hf
  exact ⟨_, _, _, hf⟩

example : Spec.mustForward
    ⟨[], ⟨.noDecode, b!"up", some ⟨b!"https", [], [], []⟩⟩, ⟨[], []⟩,
     ⟨b!"GET", b!"/a%2fb?x=%zz", b!"h", [], [], b!"127.0.0.1", false⟩⟩ = true := by decide

/-! ## The oracle -/

/-- what a violated clause can be: one of the recorded deviations, and then the case belongs to its input class -/
theorem c15_violated_clause_is_deviation (c : Case) (tls : Bool) (dial : Bytes) (up : UpReq) (hf : forward c = .forwarded tls dial up)
    (cl : Spec.Clause) (hcl : cl ∈ Spec.clauses) (happ : cl.applies c = true) (hnot : cl.holds c up = false) :
    cl.name ∈ Spec.deviations ∧
      ¬ (Spec.pipeSingleValued c = true ∧ Spec.pipeAvoidsContinued c = true ∧ Spec.addrSafe c = true) := by
  simp only [Spec.clauses, List.mem_cons, List.mem_nil_iff, or_false] at hcl
  rcases hcl with e | e | e | e | e | e | e | e | e | e | e | e | e | e <;> subst e <;> dsimp only at happ hnot
  · exfalso
    have := (c15_forward_to_host c tls dial up hf).2
    simp [this] at hnot
  · exfalso
    have := c15_path_exact c tls dial up hf happ
    simp [this] at hnot
  · exfalso
    have := c15_path_decodes_once c tls dial up hf happ
    simp [this.1, this.2] at hnot
    have h2 := this.2
    rw [this.1, hnot] at h2
    exact Bool.noConfusion h2
  · exfalso
    simp only [Bool.and_eq_true, decide_eq_true_eq] at happ
    have := c15_encoded_slash_kept c tls dial up hf happ.1.1.1 happ.1.1.2 happ.1.2 happ.2
    rw [this] at hnot; exact Bool.noConfusion hnot
  · exfalso
    have := c15_query_untouched c tls dial up hf (by simpa using happ)
    simp [this] at hnot
  · exfalso
    have := c15_query_only_listed_removed c tls dial up hf
    by_cases hk : Spec.keptPieces c = []
    · simp only [hk, if_true] at this hnot
      simp [this] at hnot
    · simp only [hk, if_false] at this hnot
      simp [this] at hnot
  · exfalso
    have := c15_query_semantics c tls dial up hf
    simp [this] at hnot
  · exfalso
    have := c15_method_body c tls dial up hf
    simp [this.1, this.2.1] at hnot
  · exfalso
    have := c15_forwarded_extended_partial c tls dial up hf happ
    rw [this] at hnot; exact Bool.noConfusion hnot
  · exfalso
    have hall : ((Spec.namesOf c up).all fun k =>
        Spec.repeatedPipeName c k || Spec.pipeContinued c k || Spec.headerOK c up k) = true := by
      rw [List.all_eq_true]
      intro k _
      by_cases hr : Spec.repeatedPipeName c k = true
      · simp [hr]
      · by_cases hp : Spec.pipeContinued c k = true
        · simp [hp]
        · have hr' : Spec.repeatedPipeName c k = false := by simpa using hr
          have hp' : Spec.pipeContinued c k = false := by simpa using hp
          simp only [hr', hp', Bool.false_or]
          unfold Spec.headerOK
          cases he : Spec.expectedValues c k with
          | none => rfl
          | some vs => simpa using c15_headers_partial c tls dial up hf k vs he hr' hp'
    rw [hall] at hnot; exact Bool.noConfusion hnot
  · exfalso
    have hall : ((Spec.namesOf c up).all fun k => !Spec.pipelineOwned c k || Spec.clientReplaced c up k) = true := by
      rw [List.all_eq_true]
      intro k _
      by_cases ho : Spec.pipelineOwned c k = true
      · simp [ho, c15_client_value_replaced c tls dial up hf k ho]
      · simp [ho]
    rw [hall] at hnot; exact Bool.noConfusion hnot
  · refine ⟨by simp [Spec.deviations], fun ⟨h1, _, _⟩ => ?_⟩
    have hall : ((Spec.namesOf c up).all fun k =>
        !Spec.repeatedPipeName c k || Spec.pipeContinued c k || Spec.headerOK c up k) = true := by
      rw [List.all_eq_true]
      intro k _
      simp [single_valued c h1 k]
    rw [hall] at hnot; exact Bool.noConfusion hnot
  · refine ⟨by simp [Spec.deviations], fun ⟨_, h2, _⟩ => ?_⟩
    have hall : ((Spec.namesOf c up).all fun k =>
        !Spec.pipeContinued c k || decide (values up.headers k = Spec.asRead (Spec.pipeValues c k))) = true := by
      rw [List.all_eq_true]
      intro k _
      simp [avoids_continued c h2 k]
    rw [hall] at hnot; exact Bool.noConfusion hnot
  · refine ⟨by simp [Spec.deviations], fun ⟨_, _, h3⟩ => ?_⟩
    simp [h3] at happ

theorem c15_violations_forwarded (c : Case) (tls : Bool) (dial : Bytes) (up : UpReq)
    (hf : forward c = .forwarded tls dial up) (v : String) (hv : v ∈ Spec.violations c (.forwarded tls dial up)) :
    ∃ cl ∈ Spec.clauses, cl.applies c = true ∧ cl.holds c up = false ∧ cl.name = v := by
  have h0 : Spec.mustRefuse c = false := by
    by_cases h : Spec.mustRefuse c = true
    · have := c15_refuses_encoded_slash c h
      rw [hf] at this
      exact Outcome.noConfusion this
    · simpa using h
  have h1 := (c15_forward_to_host c tls dial up hf).1
  have h2 := c15_scheme c tls dial up hf
  unfold Spec.violations at hv
  simp only [List.mem_append] at hv
  rcases hv with ((hv | hv) | hv) | hv
  · simp [h0] at hv
  · simp [h1] at hv
  · simp [h2] at hv
  · simp only [List.mem_map, List.mem_filter, Bool.and_eq_true, Bool.not_eq_true'] at hv
    obtain ⟨cl, ⟨hcl, happ, hnot⟩, hname⟩ := hv
    exact ⟨cl, hcl, happ, hnot, hname⟩

/-- a refused request never violates a clause -/
theorem c15_violations_rejected (c : Case) (st : Nat) (hf : forward c = .rejected st) :
    Spec.violations c (.rejected st) = [] := by
  unfold Spec.violations
  have h1 : Spec.mustForward c = false := by
    by_cases h : Spec.mustForward c = true
    · obtain ⟨tls, dial, up, hh⟩ := c15_accepts c h
      rw [hf] at hh
      exact Outcome.noConfusion hh
    · simpa using h
  by_cases hr : Spec.mustRefuse c = true
  · have := c15_refuses_encoded_slash c hr
    rw [hf] at this
    simp only [Outcome.rejected.injEq] at this
    simp [h1, this]
  · simp [h1, hr]

/-- **The model meets the specification up to the recorded deviations**: for every case, the only clauses of
`Spec.violations` — the very function the check evaluates on what the real upstream test server received — that what
the model forwards or refuses can violate are the three `Spec.deviations`. -/
theorem c15_model_meets_spec_up_to_known_deviations (c : Case) :
    ∀ v ∈ Spec.violations c (forward c), v ∈ Spec.deviations := by
  intro v hv
  cases hf : forward c with
  | unmodelled => rw [hf] at hv; simp [Spec.violations] at hv
  | rejected st => rw [hf, c15_violations_rejected c st hf] at hv; simp at hv
  | forwarded tls dial up =>
    rw [hf] at hv
    obtain ⟨cl, hcl, happ, hnot, hname⟩ := c15_violations_forwarded c tls dial up hf v hv
    rw [← hname]
    exact (c15_violated_clause_is_deviation c tls dial up hf cl hcl happ hnot).1

/-- **Outside the three recorded input classes the model meets every clause**: the pipeline produced at most one value
per name, none under the name of the forwarding header heimdall continues, and peer address and `Host` are free of
list delimiters. -/
theorem c15_model_meets_spec_partial (c : Case) (h1 : Spec.pipeSingleValued c = true)
    (h2 : Spec.pipeAvoidsContinued c = true) (h3 : Spec.addrSafe c = true) :
    Spec.violations c (forward c) = [] := by
  cases hf : forward c with
  | unmodelled => rfl
  | rejected st => exact c15_violations_rejected c st hf
  | forwarded tls dial up =>
    apply List.eq_nil_iff_forall_not_mem.mpr
    intro v hv
    obtain ⟨cl, hcl, happ, hnot, _⟩ := c15_violations_forwarded c tls dial up hf v hv
    exact (c15_violated_clause_is_deviation c tls dial up hf cl hcl happ hnot).2 ⟨h1, h2, h3⟩

set_option maxRecDepth 100000 in
/-- the deviations `devRepeated` and `devContinued` at a witness: the second value the pipeline produced under one name
is dropped; a `Forwarded` header produced by the pipeline is replaced by heimdall's own -/
example : Spec.violations
    ⟨[], ⟨.noDecode, b!"up", none⟩, ⟨[(b!"X-Groups", b!"a"), (b!"x-groups", b!"b"), (b!"Forwarded", b!"for=9.9.9.9")], []⟩,
     ⟨b!"GET", b!"/", b!"h", [], [], b!"127.0.0.1", false⟩⟩
    (forward ⟨[], ⟨.noDecode, b!"up", none⟩,
      ⟨[(b!"X-Groups", b!"a"), (b!"x-groups", b!"b"), (b!"Forwarded", b!"for=9.9.9.9")], []⟩,
      ⟨b!"GET", b!"/", b!"h", [], [], b!"127.0.0.1", false⟩⟩) = [Spec.devRepeated, Spec.devContinued] := by decide

end Heimdall.Props.C15
