import HeimdallModel.Lemmas.ProxyFwdMain
/-!
# C15 — proxy mode forwards exactly the rewritten request, pipeline headers win

`ProxyFwd.forward c` is the model of the whole way of one request through heimdall's proxy entry point
(`Model/ProxyFwd.lean`; it is what the correspondence check runs against the real proxy service, rule and upstream
test server).  `c : Case` ranges over all trusted-proxy lists, peers, rules (`forward_to.host`, `rewrite`,
`allow_encoded_slashes`), pipeline results (headers in any casing and multiplicity, cookies) and client requests
(any method, request target, header lines, body).  The statements below say that whatever `forward` hands to the
upstream meets the specification `Spec/ProxyFwd.lean`; `c15_model_meets_spec` collects them into the oracle that the
check also evaluates on what the real upstream received.
-/
namespace Heimdall.Props.C15
open Heimdall Heimdall.ProxyFwd

/-- A request that exercises every part at once (used as the witness that the hypotheses of the statements below can
be met): trusted peer with two `X-Forwarded-For` lines and an `X-Forwarded-Path`, a path with an encoded slash in
lower-case hex, a listed query parameter in a different spelling next to a malformed pair, a pipeline header colliding
with a client header in another casing, strip and add prefix. -/
def witness : Case :=
  ⟨[b!"127.0.0.2"],
   ⟨.noDecode, b!"up:8080", some ⟨[], b!"/api", b!"/v%2F1", [b!"secret"]⟩⟩,
   ⟨[(b!"x-USER", b!"alice")], []⟩,
   ⟨b!"POST", b!"/api/a%2fb?se%63ret=1&x=%zz", b!"h",
    [(b!"X-uSeR", b!"mallory"), (b!"X-Forwarded-For", b!"1.1.1.1"), (b!"x-forwarded-for", b!"2.2.2.2"),
     (b!"X-Forwarded-Path", b!"/evil")], b!"body", b!"127.0.0.2"⟩⟩

set_option maxRecDepth 100000 in
/-- the witness is forwarded — `forward c = .forwarded …`, the hypothesis of every statement, is satisfiable — and this
is what the upstream reads -/
example : forward witness = .forwarded false b!"up:8080"
    ⟨b!"POST", b!"/v%2F1/a%2fb", b!"x=%zz", b!"up:8080",
     [(b!"Accept-Encoding", b!"gzip"), (b!"X-Forwarded-For", b!"1.1.1.1, 2.2.2.2, 127.0.0.2"),
      (b!"X-Forwarded-Host", b!"h"), (b!"X-Forwarded-Proto", b!"http"), (b!"X-User", b!"alice")], b!"body"⟩ := by
  decide

example : Spec.plainUrl witness = true ∧ Spec.addEncoded witness = true ∧ Spec.addDecodable witness = true ∧
    Spec.mustForward witness = true ∧ Spec.xFamily witness = true ∧ Spec.stripNames witness ≠ [] := by decide

/-! ## Where the request goes -/

/-- **Sent to `forward_to.host`.**  The connection goes to `forward_to.host` whatever the rewrite says; the `Host`
header names `forward_to.host` unless the pipeline produced a non-empty `Host` header (any casing), which wins. -/
theorem c15_forward_to_host (c : Case) (tls : Bool) (dial : Bytes) (up : UpReq)
    (h : forward c = .forwarded tls dial up) :
    dial = c.rule.host ∧ up.host = Spec.expectedHost c := by
  obtain ⟨path, raw, t, _, _, ht, _, _, hdial, hup⟩ := forward_forwarded c tls dial up h
  refine ⟨by rw [hdial]; exact ruleTarget_host _ _ _ ht, ?_⟩
  rw [hup]
  show (rewriteHeaders (inHeaders c) c.pipe c.req.peer c.req.host c.rule.host).1 = Spec.expectedHost c
  unfold rewriteHeaders Spec.expectedHost Spec.pipeValue
  simp only
  unfold pipeFirst
  rw [get_firstOfEach, firstValue_canonHeaders, firstOr_eq]
  cases ((c.pipe.headers.filter fun x => canonicalKey x.1 = hHost).head?).map (·.2) with
  | none => simp
  | some v => by_cases hv : v = [] <;> simp [hv]

/-- **Original scheme unless rewritten.**  TLS is spoken to the upstream exactly when the scheme is `https`, where the
scheme is `rewrite.scheme` if configured and otherwise the scheme of the original request (`http` on this listener;
what `X-Forwarded-Proto` says if a trusted proxy sent it). -/
theorem c15_scheme (c : Case) (tls : Bool) (dial : Bytes) (up : UpReq) (h : forward c = .forwarded tls dial up) :
    tls = decide (Spec.expectedScheme c = b!"https") := by
  obtain ⟨path, raw, t, _, _, ht, _, htls, _, _⟩ := forward_forwarded c tls dial up h
  obtain ⟨hte, _⟩ := ruleTarget_some _ _ _ ht
  rw [htls, hte, createURL_scheme]
  have : (extractURL (inHeaders c) (srv c path raw)).scheme = Spec.origScheme c := by
    unfold Spec.origScheme
    rw [firstOr_eq, ← get_inHeaders_fwd c _ xfproto_untrusted]
    rfl
  unfold Spec.expectedScheme
  cases c.rule.rewrite <;> simp only [this]

example : Spec.expectedScheme
    ⟨[b!"127.0.0.2"], ⟨.off, b!"up:80", none⟩, ⟨[], []⟩,
     ⟨b!"GET", b!"/", b!"h", [(b!"x-forwarded-proto", b!"https")], [], b!"127.0.0.2"⟩⟩ = b!"https" := by decide

/-! ## Path -/

/-- **The path is rewritten on its original spelling, nothing else changes.**  Unless a trusted proxy supplied
`X-Forwarded-Uri`, and provided `add_path_prefix` is itself a proper encoding, the path in the request line is, byte
for byte, `add_path_prefix ++ (original path without strip_path_prefix)` (`/` if that is empty), where the original
path is taken in the client's own spelling — every percent-escape as written, hex digits in their case — whenever
that spelling is a valid encoding and the rule does not ask for decoding (`Spec.seenPath`). -/
theorem c15_path_exact (c : Case) (tls : Bool) (dial : Bytes) (up : UpReq) (h : forward c = .forwarded tls dial up)
    (hp : Spec.plainUrl c = true) (ha : Spec.addEncoded c = true) :
    up.path = Spec.expectedPath c := by
  obtain ⟨path, u, hdec, hu, hraw, hpath⟩ := target_path c tls dial up h hp
  rw [hpath]
  unfold Spec.expectedPath Spec.rewrittenPath
  cases hrw : c.rule.rewrite with
  | none => rfl
  | some rw =>
    simp only
    congr 1
    unfold Spec.addEncoded Spec.addDecodable Spec.addPrefix at ha
    simp only [hrw, Option.map_some, Option.getD_some, Bool.and_eq_true] at ha
    obtain ⟨hadd, hall⟩ := ha
    have hsd : (pathUnescapeL (Spec.seenPath c)).isSome = true := by rw [seenPath_decodes c path hdec]; rfl
    have hdecR : (pathUnescapeL (transformPath rw u.escapedPath)).isSome = true := by
      rw [hu]; exact transformPath_decodable rw _ hadd hsd
    by_cases hon : c.rule.slashes = .on
    · simp only [hon, if_true] at hraw hall
      have := rewrite_exact_noraw rw u hraw (by
        rw [hu]
        unfold transformPath
        rw [List.all_append, hall, Bool.true_and]
        apply all_cutPrefix
        rw [seenPath_on c hon]
        exact escapePath_canon _) hdecR
      rw [this, hu]; rfl
    · simp only [hon, if_false] at hraw hall
      have hne : u.rawPath ≠ [] := by
        rw [hraw]
        refine normPath_ne_nil _ path ?_ hdec
        intro e
        rw [e] at hdec
        simp only [pathUnescapeL, Option.some.injEq] at hdec
        have hm := (forward_forwarded c tls dial up h).choose_spec.choose_spec.choose_spec.1
        have := before_head _ (modelledTarget_head _ hm)
        unfold Spec.origRawPath at e
        rw [e] at this
        simp at this
      have := rewrite_exact_raw rw u hne (by
        rw [hu]
        unfold transformPath
        rw [validEncodedPath_append]
        have h1 : validEncodedPath rw.add = true := hall
        rw [h1, Bool.true_and]
        unfold validEncodedPath
        apply all_cutPrefix
        rw [seenPath_off c hon]
        exact normPath_valid _) hdecR
      rw [this, hu]; rfl

example : Spec.addEncoded
    ⟨[], ⟨.noDecode, b!"up", some ⟨[], b!"/api", b!"/v%2F1", []⟩⟩, ⟨[], []⟩,
     ⟨b!"GET", b!"/api/a%2fb", b!"h", [], [], b!"127.0.0.1"⟩⟩ = true := by decide

/-- **No double encoding.**  Unless a trusted proxy supplied `X-Forwarded-Uri`, and provided `add_path_prefix` can be
decoded at all, decoding once what is written in the request line gives exactly the decoding of the rewritten original
path — for every `allow_encoded_slashes` setting and for client spellings that are not valid encodings as well.  (Had
an already escaped path been escaped again, one decoding would give back the escaped path, not the decoded one.) -/
theorem c15_path_decodes_once (c : Case) (tls : Bool) (dial : Bytes) (up : UpReq)
    (h : forward c = .forwarded tls dial up) (hp : Spec.plainUrl c = true) (ha : Spec.addDecodable c = true) :
    pathUnescapeL up.path = pathUnescapeL (Spec.expectedPath c) ∧ (pathUnescapeL up.path).isSome = true := by
  obtain ⟨path, u, hdec, hu, _, hpath⟩ := target_path c tls dial up h hp
  rw [hpath]
  unfold Spec.expectedPath Spec.rewrittenPath
  have hsd : pathUnescapeL (Spec.seenPath c) = some path := seenPath_decodes c path hdec
  cases hrw : c.rule.rewrite with
  | none => exact orSlash_decodes _ _ rfl (by rw [hsd]; rfl)
  | some rw =>
    simp only
    unfold Spec.addDecodable Spec.addPrefix at ha
    simp only [hrw, Option.map_some, Option.getD_some] at ha
    have hR := transformPath_decodable rw (Spec.seenPath c) ha (by rw [hsd]; rfl)
    cases hd : pathUnescapeL (transformPath rw (Spec.seenPath c)) with
    | none => simp [hd] at hR
    | some d =>
      have h1 : pathUnescapeL (rw.apply u).escapedPath = some d := rewrite_decodes rw u d (by rw [hu]; exact hd)
      exact orSlash_decodes _ _ (by rw [h1]; exact hd.symm) (by rw [h1]; rfl)

/-- the spelling that is forwarded decodes to the same path as the client's -/
theorem c15_seen_path_same_path (c : Case) (path : Bytes) (h : pathUnescapeL (Spec.origRawPath c) = some path) :
    pathUnescapeL (Spec.seenPath c) = some path := seenPath_decodes c path h

/-- **Percent-encoding preserved.**  With a rule that does not decode (`off`, `no_decode`) and does not rewrite the
path, the path of the request line is the client's, byte for byte, for every valid encoding. -/
theorem c15_encoding_preserved (c : Case) (tls : Bool) (dial : Bytes) (up : UpReq)
    (h : forward c = .forwarded tls dial up) (hp : Spec.plainUrl c = true) (hs : c.rule.slashes ≠ .on)
    (hv : validEncodedPath (Spec.origRawPath c) = true)
    (hr : ∀ rw, c.rule.rewrite = some rw → rw.strip = [] ∧ rw.add = []) :
    up.path = Spec.origRawPath c := by
  have hne : Spec.origRawPath c ≠ [] := by
    have hm := (forward_forwarded c tls dial up h).choose_spec.choose_spec.choose_spec.1
    have := before_head _ (modelledTarget_head _ hm)
    intro e
    unfold Spec.origRawPath at e
    rw [e] at this
    simp at this
  have hseen : Spec.seenPath c = Spec.origRawPath c := by
    unfold Spec.seenPath
    simp [hs, hv]
  have ha : Spec.addEncoded c = true := by
    unfold Spec.addEncoded Spec.addDecodable Spec.addPrefix
    cases hrw : c.rule.rewrite with
    | none => simp [pathUnescapeL]
    | some rw => simp [(hr rw hrw).2, pathUnescapeL]
  rw [c15_path_exact c tls dial up h hp ha]
  unfold Spec.expectedPath Spec.rewrittenPath orSlash
  cases hrw : c.rule.rewrite with
  | none => simp [hseen, hne]
  | some rw =>
    obtain ⟨h1, h2⟩ := hr rw hrw
    simp [h1, h2, cutPrefix, hseen, hne]

example : validEncodedPath b!"/a%2fb/%7e%41!" = true ∧ ¬ validEncodedPath b!"/a\"b" = true := by decide

/-! ## Query -/

/-- **Query untouched without `strip_query_parameters`** — byte for byte, malformed pairs included. -/
theorem c15_query_untouched (c : Case) (tls : Bool) (dial : Bytes) (up : UpReq)
    (h : forward c = .forwarded tls dial up) (hp : Spec.plainUrl c = true) (hn : Spec.stripNames c = []) :
    up.query = Spec.origQuery c := by
  rw [target_query c tls dial up h hp, hn]
  simp [removeParams]

/-- **Exactly the listed parameters are removed.**  The `&`-separated pieces of the forwarded query are the pieces of
the original query, as written and in their order, without those whose (decoded) name is listed in
`strip_query_parameters` — also when other pieces of the query are malformed. -/
theorem c15_query_only_listed_removed (c : Case) (tls : Bool) (dial : Bytes) (up : UpReq)
    (h : forward c = .forwarded tls dial up) (hp : Spec.plainUrl c = true) :
    Spec.queryPairs up.query = (Spec.queryPairs (Spec.origQuery c)).filter (fun p => !Spec.named (Spec.stripNames c) p) := by
  rw [target_query c tls dial up h hp]
  exact queryPairs_removeParams _ _

/-- **No listed parameter reaches the upstream, in any spelling**, and every other parameter keeps its values and
their order, as `url.ParseQuery` reads the two queries. -/
theorem c15_query_semantics (c : Case) (tls : Bool) (dial : Bytes) (up : UpReq)
    (h : forward c = .forwarded tls dial up) (hp : Spec.plainUrl c = true) :
    parseQueryPairs up.query =
      (parseQueryPairs (Spec.origQuery c)).filter (fun kv => !(Spec.stripNames c).contains kv.1) := by
  rw [target_query c tls dial up h hp]
  exact parseQueryPairs_removeParams _ _

example : Spec.named [b!"secret"] b!"se%63ret=1" = true ∧ Spec.named [b!"secret"] b!"%zz=1" = false := by decide

/-! ## Method and body -/

/-- **Method and body untouched.**  The body is the client's for every request; the method is the client's unless a
trusted proxy supplied `X-Forwarded-Method`. -/
theorem c15_method_body (c : Case) (tls : Bool) (dial : Bytes) (up : UpReq) (h : forward c = .forwarded tls dial up) :
    up.body = c.req.body ∧ up.method = Spec.expectedMethod c ∧
      (Spec.believed c hXFMethod = [] → up.method = c.req.method) := by
  obtain ⟨path, raw, t, _, _, _, _, _, _, hup⟩ := forward_forwarded c tls dial up h
  have hm : up.method = Spec.expectedMethod c := by
    rw [hup]
    show extractMethod (inHeaders c) (srv c path raw) = _
    unfold extractMethod Spec.expectedMethod
    rw [firstOr_eq, get_inHeaders_fwd c _ xfmethod_untrusted]
    rfl
  refine ⟨by rw [hup], hm, fun hb => ?_⟩
  rw [hm]
  unfold Spec.expectedMethod
  rw [hb]; rfl

example : Spec.believed
    ⟨[b!"10.0.0.0/8"], ⟨.off, b!"up", none⟩, ⟨[], []⟩,
     ⟨b!"GET", b!"/", b!"h", [(b!"X-Forwarded-Method", b!"DELETE")], [], b!"127.0.0.1"⟩⟩ hXFMethod = [] := by
  decide

/-! ## Headers -/

/-- **Every header name carries exactly what the specification says** (`Spec.expectedValues`): the value computed by
heimdall for the forwarding headers it continues, else the first value the pipeline produced under that name (in any
casing), else nothing for the seven forwarding headers, else the client's values in their order. -/
theorem c15_headers (c : Case) (tls : Bool) (dial : Bytes) (up : UpReq) (h : forward c = .forwarded tls dial up)
    (k : Bytes) (vs : List Bytes) (he : Spec.expectedValues c k = some vs) : values up.headers k = vs := by
  obtain ⟨path, raw, t, _, _, _, _, _, _, hup⟩ := forward_forwarded c tls dial up h
  unfold Spec.expectedValues at he
  by_cases hto : Spec.transportOwned k = true
  · simp [hto] at he
  · have hto' : Spec.transportOwned k = false := by simpa using hto
    simp only [hto', Bool.false_eq_true, if_false] at he
    have hH : k ≠ hHost := by
      intro e; subst e; revert hto'; decide
    have hxf : xFam (inHeaders c) = Spec.xFamily c := by
      unfold xFam Spec.xFamily Spec.priorFor
      rw [values_inHeaders_fwd c _ xffor_untrusted, firstOr_nil, firstOr_nil,
        get_inHeaders_fwd c _ xfproto_untrusted, get_inHeaders_fwd c _ xfhost_untrusted]
    have hC : k ≠ hCookie ∨ c.pipe.cookies = [] := by
      by_cases hk : k = hCookie
      · right
        by_cases hcs : c.pipe.cookies = []
        · exact hcs
        · exfalso
          subst hk
          have e1 : (hCookie = hXFFor) = False := by decide
          have e2 : (hCookie = hXFProto) = False := by decide
          have e3 : (hCookie = hXFHost) = False := by decide
          have e4 : (hCookie = hForwarded) = False := by decide
          simp [e1, e2, e3, e4, hcs] at he
      · exact Or.inl hk
    rw [hup]
    show values (wireHeaders _ (rewriteHeaders (inHeaders c) c.pipe c.req.peer c.req.host c.rule.host).2) k = vs
    rw [values_wireHeaders _ _ _ hto', values_rewriteHeaders _ _ _ _ _ _ hH hC, hxf]
    have hpv : firstValue (canonHeaders c.pipe.headers) k = Spec.pipeValue c k := by
      rw [firstValue_canonHeaders]; rfl
    rw [hpv]
    by_cases hX : Spec.xFamily c = true
    · simp only [hX, Bool.true_and, Bool.not_true, Bool.false_and, Bool.false_eq_true, if_false, decide_eq_true_eq] at he ⊢
      by_cases h1 : k = hXFFor
      · subst h1
        have e2 : (hXFFor = hXFProto) = False := by decide
        have e3 : (hXFFor = hXFHost) = False := by decide
        simp only [if_true, Option.some.injEq] at he
        simp only [e2, e3, if_false, if_true]
        rw [← he, values_inHeaders_fwd c _ xffor_untrusted]
        unfold Spec.extend Spec.priorFor
        rfl
      · simp only [h1, if_false] at he ⊢
        by_cases h2 : k = hXFProto
        · subst h2
          have e3 : (hXFProto = hXFHost) = False := by decide
          simp only [if_true, Option.some.injEq] at he
          simp only [e3, if_false, if_true]
          rw [← he, firstOr_eq, get_inHeaders_fwd c _ xfproto_untrusted]
          by_cases hg : (Spec.believed c hXFProto).head?.getD [] = [] <;> simp [hg]
        · simp only [h2, if_false] at he ⊢
          by_cases h3 : k = hXFHost
          · subst h3
            simp only [if_true, Option.some.injEq] at he ⊢
            rw [← he, firstOr_eq, get_inHeaders_fwd c _ xfhost_untrusted]
            by_cases hg : (Spec.believed c hXFHost).head?.getD [] = [] <;> simp [hg]
          · simp only [h3, if_false] at he ⊢
            have hck : (k = hCookie ∧ c.pipe.cookies ≠ []) = False := by
              simp only [eq_iff_iff, iff_false, not_and, ne_eq, Decidable.not_not]
              intro e
              rcases hC with h | h
              · exact absurd e h
              · exact h
            simp only [Bool.and_eq_true, decide_eq_true_eq, hck, if_false] at he
            cases hp : Spec.pipeValue c k with
            | some v => simp only [hp, Option.some.injEq] at he ⊢; exact he
            | none =>
              simp only [hp] at he ⊢
              by_cases hu : untrustedHeaders.contains k = true
              · simp only [hu, if_true, Option.some.injEq] at he ⊢; exact he
              · simp only [hu, Bool.false_eq_true, if_false, Option.some.injEq] at he ⊢
                rw [← he]
                exact values_inHeaders_other c k (by simpa using hu)
    · have hX' : Spec.xFamily c = false := by simpa using hX
      simp only [hX', Bool.false_and, Bool.false_eq_true, if_false, Bool.not_false, Bool.true_and,
        decide_eq_true_eq] at he ⊢
      by_cases h1 : k = hForwarded
      · subst h1
        simp only [if_true, Option.some.injEq] at he ⊢
        rw [← he, values_inHeaders_fwd c _ forwarded_untrusted]
        unfold Spec.extend Spec.priorForwarded
        rfl
      · simp only [h1, if_false] at he ⊢
        have hck : (k = hCookie ∧ c.pipe.cookies ≠ []) = False := by
          simp only [eq_iff_iff, iff_false, not_and, ne_eq, Decidable.not_not]
          intro e
          rcases hC with h | h
          · exact absurd e h
          · exact h
        simp only [Bool.and_eq_true, decide_eq_true_eq, hck, if_false] at he
        cases hp : Spec.pipeValue c k with
        | some v => simp only [hp, Option.some.injEq] at he ⊢; exact he
        | none =>
          simp only [hp] at he ⊢
          by_cases hu : untrustedHeaders.contains k = true
          · simp only [hu, if_true, Option.some.injEq] at he ⊢; exact he
          · simp only [hu, Bool.false_eq_true, if_false, Option.some.injEq] at he ⊢
            rw [← he]
            exact values_inHeaders_other c k (by simpa using hu)

/-- **Pipeline headers win.**  If the pipeline produced a header whose canonical name is `k` — in whatever casing, and
whatever the client sent under that name in whatever casing and however often — the upstream reads exactly one line
for `k`, carrying the first value the pipeline produced.  (Not for names owned by the HTTP client library, for the
forwarding header heimdall continues, and for `Cookie` when the pipeline produced cookies, which are appended.) -/
theorem c15_pipeline_header_wins (c : Case) (tls : Bool) (dial : Bytes) (up : UpReq)
    (h : forward c = .forwarded tls dial up) (k v : Bytes) (hv : Spec.pipeValue c k = some v)
    (h1 : Spec.transportOwned k = false) (h2 : Spec.continued c k = false)
    (h3 : k ≠ hCookie ∨ c.pipe.cookies = []) :
    values up.headers k = [v] := by
  apply c15_headers c tls dial up h k [v]
  unfold Spec.expectedValues
  unfold Spec.continued at h2
  have hck : (k = hCookie ∧ c.pipe.cookies ≠ []) = False := by
    simp only [eq_iff_iff, iff_false, not_and, ne_eq, Decidable.not_not]
    intro e
    rcases h3 with h | h
    · exact absurd e h
    · exact h
  by_cases hX : Spec.xFamily c = true
  · simp only [hX, if_true, Bool.or_eq_false_iff, decide_eq_false_iff_not] at h2
    simp [h1, hX, h2.1.1, h2.1.2, h2.2, hck, hv]
  · have hX' : Spec.xFamily c = false := by simpa using hX
    simp only [hX', Bool.false_eq_true, if_false, decide_eq_false_iff_not] at h2
    simp [h1, hX', h2, hck, hv]

example : Spec.pipeValue
    ⟨[], ⟨.off, b!"up", none⟩, ⟨[(b!"x-USER", b!"alice"), (b!"X-User", b!"bob")], []⟩,
     ⟨b!"GET", b!"/", b!"h", [(b!"X-uSeR", b!"mallory"), (b!"x-user", b!"eve")], [], b!"127.0.0.1"⟩⟩
    b!"X-User" = some b!"alice" := by decide

/-- **`X-Forwarded-Method`, `-Uri`, `-Path` cannot be passed through** — from no peer, trusted or not, in no casing:
the upstream reads these names only with a value the pipeline produced. -/
theorem c15_no_forwarded_passthrough (c : Case) (tls : Bool) (dial : Bytes) (up : UpReq)
    (h : forward c = .forwarded tls dial up) (k : Bytes) (hk : k = hXFMethod ∨ k = hXFUri ∨ k = hXFPath) :
    values up.headers k = (Spec.pipeValue c k).toList := by
  apply c15_headers c tls dial up h k
  unfold Spec.expectedValues
  rcases hk with e | e | e <;> subst e
  · have e0 : Spec.transportOwned hXFMethod = false := by decide
    have e1 : (hXFMethod = hXFFor) = False := by decide
    have e2 : (hXFMethod = hXFProto) = False := by decide
    have e3 : (hXFMethod = hXFHost) = False := by decide
    have e4 : (hXFMethod = hForwarded) = False := by decide
    have e5 : (hXFMethod = hCookie) = False := by decide
    have e6 : untrustedHeaders.contains hXFMethod = true := by decide
    simp only [e0, e1, e2, e3, e4, e5, e6, Bool.false_eq_true, if_false, decide_false, Bool.and_false, if_true]
    cases Spec.pipeValue c hXFMethod <;> rfl
  · have e0 : Spec.transportOwned hXFUri = false := by decide
    have e1 : (hXFUri = hXFFor) = False := by decide
    have e2 : (hXFUri = hXFProto) = False := by decide
    have e3 : (hXFUri = hXFHost) = False := by decide
    have e4 : (hXFUri = hForwarded) = False := by decide
    have e5 : (hXFUri = hCookie) = False := by decide
    have e6 : untrustedHeaders.contains hXFUri = true := by decide
    simp only [e0, e1, e2, e3, e4, e5, e6, Bool.false_eq_true, if_false, decide_false, Bool.and_false, if_true]
    cases Spec.pipeValue c hXFUri <;> rfl
  · have e0 : Spec.transportOwned hXFPath = false := by decide
    have e1 : (hXFPath = hXFFor) = False := by decide
    have e2 : (hXFPath = hXFProto) = False := by decide
    have e3 : (hXFPath = hXFHost) = False := by decide
    have e4 : (hXFPath = hForwarded) = False := by decide
    have e5 : (hXFPath = hCookie) = False := by decide
    have e6 : untrustedHeaders.contains hXFPath = true := by decide
    simp only [e0, e1, e2, e3, e4, e5, e6, Bool.false_eq_true, if_false, decide_false, Bool.and_false, if_true]
    cases Spec.pipeValue c hXFPath <;> rfl

/-- **`X-Forwarded-For` or `Forwarded` is extended by the peer address.**  If a trusted peer used the `X-Forwarded-*`
family, the upstream reads one `X-Forwarded-For` line: all values received from that peer (every header line, in
order) followed by the peer's address.  Otherwise it reads one `Forwarded` line: all `Forwarded` values received from
a trusted peer, followed by `for=<peer>;host=<Host of the request>;proto=http`.  What an untrusted peer sent under
these names is not part of either. -/
theorem c15_forwarded_extended (c : Case) (tls : Bool) (dial : Bytes) (up : UpReq)
    (h : forward c = .forwarded tls dial up) :
    (Spec.xFamily c = true → values up.headers hXFFor = [Spec.extend (Spec.priorFor c) c.req.peer]) ∧
    (Spec.xFamily c = false →
      values up.headers hForwarded = [Spec.extend (Spec.priorForwarded c) (forwardedElem c.req.peer c.req.host)]) := by
  constructor
  · intro hX
    apply c15_headers c tls dial up h
    unfold Spec.expectedValues
    have e0 : Spec.transportOwned hXFFor = false := by decide
    simp [e0, hX]
  · intro hX
    apply c15_headers c tls dial up h
    unfold Spec.expectedValues
    have e0 : Spec.transportOwned hForwarded = false := by decide
    have e1 : (hForwarded = hXFFor) = False := by decide
    have e2 : (hForwarded = hXFProto) = False := by decide
    have e3 : (hForwarded = hXFHost) = False := by decide
    simp [e0, hX, e1, e2, e3]

example : Spec.priorFor
    ⟨[b!"127.0.0.2"], ⟨.off, b!"up", none⟩, ⟨[], []⟩,
     ⟨b!"GET", b!"/", b!"h", [(b!"X-Forwarded-For", b!"1.1.1.1"), (b!"x-forwarded-for", b!"2.2.2.2")], [],
      b!"127.0.0.2"⟩⟩ = b!"1.1.1.1, 2.2.2.2" := by decide

/-- **Everything else as the client sent it.**  A header name that the pipeline did not produce and that is none of
the forwarding headers reaches the upstream with the client's values, all of them, in order. -/
theorem c15_other_headers_untouched (c : Case) (tls : Bool) (dial : Bytes) (up : UpReq)
    (h : forward c = .forwarded tls dial up) (k : Bytes) (h1 : Spec.transportOwned k = false)
    (h2 : untrustedHeaders.contains k = false) (h3 : Spec.pipeValue c k = none)
    (h4 : k ≠ hCookie ∨ c.pipe.cookies = []) :
    values up.headers k = values (Spec.clientHeaders c) k := by
  apply c15_headers c tls dial up h
  unfold Spec.expectedValues
  have hn := (not_congr (untrusted_iff k)).mp (by simpa using h2)
  simp only [not_or] at hn
  obtain ⟨n1, n2, n3, n4, _, _, _⟩ := hn
  have hck : (k = hCookie ∧ c.pipe.cookies ≠ []) = False := by
    simp only [eq_iff_iff, iff_false, not_and, ne_eq, Decidable.not_not]
    intro e
    rcases h4 with h | h
    · exact absurd e h
    · exact h
  have h2' : ¬ k ∈ untrustedHeaders := by
    intro hm
    have : untrustedHeaders.contains k = true := by simpa using hm
    rw [h2] at this
    exact Bool.noConfusion this
  simp [h1, n1, n2, n3, n4, hck, h3, h2']


/-! ## Which requests are forwarded at all -/

/-- **An encoded slash is refused when the rule says `off`** (the default), `%2F` and `%2f` alike, before anything is
sent to the upstream. -/
theorem c15_refuses_encoded_slash (c : Case) (h : Spec.mustRefuse c = true) : forward c = .rejected 400 := by
  unfold Spec.mustRefuse at h
  simp only [Bool.and_eq_true, decide_eq_true_eq] at h
  obtain ⟨⟨⟨hw, hp⟩, hoff⟩, hsl⟩ := h
  obtain ⟨path, raw, hset, hf⟩ := forward_plain c hw hp
  unfold Spec.wellFormed at hw
  simp only [Bool.and_eq_true] at hw
  obtain ⟨_, hurl⟩ := extractURL_plain c path raw hp hw.1 hset
  rw [hf, hurl]
  have hne : c.rule.slashes ≠ .on := by rw [hoff]; decide
  rw [seenPath_off c hne] at hsl
  unfold ruleTarget
  simp [hoff, hsl]

example : Spec.mustRefuse
    ⟨[], ⟨.off, b!"up", none⟩, ⟨[], []⟩, ⟨b!"GET", b!"/a%2fb", b!"h", [], [], b!"127.0.0.1"⟩⟩ = true := by decide

/-- **Everything else that is well-formed is forwarded**: a request line in origin form whose path can be decoded, no
believed `X-Forwarded-Uri`, no encoded slash under `off`, scheme `http` or `https`. -/
theorem c15_accepts (c : Case) (h : Spec.mustForward c = true) : ∃ tls dial up, forward c = .forwarded tls dial up := by
  unfold Spec.mustForward at h
  simp only [Bool.and_eq_true, Bool.not_eq_true', Bool.or_eq_true, decide_eq_true_eq] at h
  obtain ⟨⟨⟨hw, hp⟩, hsl⟩, hsch⟩ := h
  obtain ⟨path, raw, hset, hf⟩ := forward_plain c hw hp
  have hw' := hw
  unfold Spec.wellFormed at hw'
  simp only [Bool.and_eq_true] at hw'
  obtain ⟨_, hurl⟩ := extractURL_plain c path raw hp hw'.1 hset
  have hrt : ∃ t, ruleTarget c.rule (extractURL (inHeaders c) (srv c path raw)) = some t := by
    rw [hurl]
    unfold ruleTarget
    cases hs : c.rule.slashes with
    | on => exact ⟨_, rfl⟩
    | noDecode => exact ⟨_, rfl⟩
    | off =>
      have hne : c.rule.slashes ≠ .on := by rw [hs]; decide
      rw [seenPath_off c hne] at hsl
      simp only [hs, decide_true, Bool.true_and] at hsl
      simp only [hsl, Bool.false_eq_true, if_false]
      exact ⟨_, rfl⟩
  obtain ⟨t, ht⟩ := hrt
  rw [ht] at hf
  obtain ⟨hte, _⟩ := ruleTarget_some _ _ _ ht
  have hts : t.scheme = Spec.expectedScheme c := by
    rw [hte, createURL_scheme]
    have : (extractURL (inHeaders c) (srv c path raw)).scheme = Spec.origScheme c := by rw [hurl]
    unfold Spec.expectedScheme
    cases c.rule.rewrite <;> simp only [this]
  have : (t.scheme ≠ b!"http" && t.scheme ≠ b!"https") = false := by
    rw [hts]
    rcases hsch with e | e <;> rw [e] <;> decide
  simp only [this, Bool.false_eq_true, if_false] at hf
  exact ⟨_, _, _, hf⟩

example : Spec.mustForward
    ⟨[], ⟨.noDecode, b!"up", some ⟨b!"https", [], [], []⟩⟩, ⟨[], []⟩,
     ⟨b!"GET", b!"/a%2fb?x=%zz", b!"h", [], [], b!"127.0.0.1"⟩⟩ = true := by decide

/-! ## The oracle -/

/-- **The model meets the specification**: for every case, no clause of `Spec.violations` — the very function the check
evaluates on what the real upstream test server received — is violated by what the model forwards or refuses. -/
theorem c15_model_meets_spec (c : Case) : Spec.violations c (forward c) = [] := by
  cases hf : forward c with
  | unmodelled => rfl
  | rejected st =>
    unfold Spec.violations
    have h1 : Spec.mustForward c = false := by
      by_cases h : Spec.mustForward c = true
      · obtain ⟨tls, dial, up, hh⟩ := c15_accepts c h
        rw [hf] at hh
        exact Outcome.noConfusion hh
      · simpa using h
    have h2 : Spec.mustRefuse c = true → st = 400 := by
      intro h
      have := c15_refuses_encoded_slash c h
      rw [hf] at this
      simpa using this
    simp [h1]
    exact h2
  | forwarded tls dial up =>
    unfold Spec.violations
    have h0 : Spec.mustRefuse c = false := by
      by_cases h : Spec.mustRefuse c = true
      · have := c15_refuses_encoded_slash c h
        rw [hf] at this
        exact Outcome.noConfusion this
      · simpa using h
    have h1 := (c15_forward_to_host c tls dial up hf).1
    have h2 := c15_scheme c tls dial up hf
    have hcl : (Spec.clauses.filter fun cl => cl.applies c && !cl.holds c up) = [] := by
      rw [List.filter_eq_nil_iff]
      intro cl hcl
      simp only [Spec.clauses, List.mem_cons, List.mem_nil_iff, or_false] at hcl
      rcases hcl with e | e | e | e | e | e | e | e <;> subst e <;>
        simp only [Bool.and_eq_true, Bool.not_eq_true', not_and, Bool.not_eq_false]
      · intro _
        simpa using (c15_forward_to_host c tls dial up hf).2
      · intro ha
        simpa using c15_path_exact c tls dial up hf ha.1 ha.2
      · intro ha
        have := c15_path_decodes_once c tls dial up hf ha.1 ha.2
        simp [this.1, this.2]
        rw [← this.1]; exact this.2
      · intro ha
        have h2' : Spec.stripNames c = [] := by simpa using ha.2
        simpa using c15_query_untouched c tls dial up hf ha.1 h2'
      · intro ha
        simpa using c15_query_only_listed_removed c tls dial up hf ha
      · intro ha
        simpa using c15_query_semantics c tls dial up hf ha
      · intro _
        have := c15_method_body c tls dial up hf
        simp [this.1, this.2.1]
      · intro _
        rw [List.all_eq_true]
        intro k _
        cases he : Spec.expectedValues c k with
        | none => rfl
        | some vs => simpa using c15_headers c tls dial up hf k vs he
    simp [h0, h1, h2, hcl]

end Heimdall.Props.C15
