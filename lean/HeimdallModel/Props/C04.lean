import HeimdallModel.Lemmas.Authn
import HeimdallModel.Gen.AuthnSites
/-!
# C04 — authenticators fall back only on missing credentials or explicit opt-in

*Authenticators are tried in the configured order and the subject is the one produced by the first that succeeds; a
later authenticator is consulted only if every earlier one either found no usable credentials of its kind in the
request or explicitly allows fallback on error. If an authenticator found credentials and rejected them and does not
allow fallback, authentication fails even when a later authenticator such as `anonymous` would have succeeded.*

`Model/Authn.lean` says what the code does (error chains, extractors, the ladders of the six authenticators, the loop
of the composite); `Spec/Authn.lean` says what the property demands in terms of *credentials* (`usable`, `passesOn`,
`authenticate`, `judge`). The theorems hold for chains of any length over all six authenticator types, all source
lists, all fallback settings (definition and rule-level override), all requests and all worlds (what lies outside
heimdall: which strings are JWTs, what signature / assertion / introspection / identity checks say).

The last two sections cover credentials in a body parameter (which media types make the body readable:
`c04_body_decoder_by_media_type`, `c04_body_credential_is_found`, `c04_body_credential_rejected_is_final`) and the
endpoint's own authentication failing after the client's credential was found
(`c04_endpoint_authentication_failure_is_no_argument_error`, `c04_failed_endpoint_authentication_is_final`).

Hypotheses, all decidable, all with a witness below:
* `w.wf` — the verdicts of the world name places of the source reached after a credential was found, and the run-time
  errors of other packages handed to `CausedBy` there contain no argument error (extracted fact behind it:
  `Gen.argumentMentionsElsewhere = 0`);
* `chain.all Authn.wf` — no authenticator has an empty list of sources (the Go code panics on those).
-/
namespace Heimdall.Props.C04
open Heimdall.Authn Heimdall.Authn.Spec

/-! ## witnesses -/

/-- a typical chain: JWT, then Basic, then anonymous -/
def wChain : List Authn :=
  [ { id := "jwt", typ := .jwt defaultSources },
    { id := "basic", typ := .basic "user" "secret" },
    { id := "anon", typ := .anonymous "" } ]

/-- the same chain with fallback allowed for the JWT authenticator by the rule -/
def wChainOptIn : List Authn :=
  [ { id := "jwt", typ := .jwt defaultSources, override := some true },
    { id := "basic", typ := .basic "user" "secret" },
    { id := "anon", typ := .anonymous "" } ]

/-- `head.body.sign` is a JWT (ES256) with a bad signature, `dXNlcjpwdw==` is `user:pw` -/
def wWorld : World :=
  { basic := [("dXNlcjpwdw==", ["user", "pw"]), ("dXNlcjpzZWNyZXQ=", ["user", "secret"])],
    headerAlg := [("head.body.sign", .ES256)],
    jwt := [(("jwt", "head.body.sign"), .fail .signature .foreign)] }

def wReqBadJwt : Req := { headers := [("authorization", "Bearer head.body.sign")] }
def wReqOpaque : Req := { headers := [("Authorization", "Bearer opaque")] }
def wReqNone : Req := {}
def wReqWrongPassword : Req := { headers := [("Authorization", "Basic dXNlcjpwdw==")] }
def wReqGoodPassword : Req := { headers := [("Authorization", "Basic dXNlcjpzZWNyZXQ=")] }

example : wWorld.wf = true ∧ wChain.all Authn.wf = true ∧ wChainOptIn.all Authn.wf = true := by decide

/-! ## the tie to the source: regenerated facts -/

/-- The source of today, file by file: `Execute` of each authenticator constructs exactly the error values of the
model, in the model's order (missing credentials: the extractor's error attached to an authentication error; JWT
parse failure: authentication + argument error; …); whatever the rest of each authenticator file constructs — any
number of expressions, in any order — writes no argument error; every error the four extractors construct is
exactly the argument error; the composite extractor reports nothing but the collected errors (and argument errors). -/
theorem c04_gen_sites :
    Gen.anonymous.authenticatorOk [] = true ∧ Gen.unauthorized.authenticatorOk Facts.unauthorizedEntry = true ∧
    Gen.basic.authenticatorOk Facts.basicEntry = true ∧ Gen.jwt.authenticatorOk Facts.jwtEntry = true ∧
    Gen.introspection.authenticatorOk Facts.introspectionEntry = true ∧
    Gen.generic.authenticatorOk Facts.genericEntry = true ∧
    Gen.headerExtractor.extractorOk = true ∧ Gen.queryExtractor.extractorOk = true ∧
    Gen.cookieExtractor.extractorOk = true ∧ Gen.bodyExtractor.extractorOk = true ∧
    Gen.compositeExtractor.compositeExtractorOk = true := by decide

/-- a file like today's introspection authenticator (the witnesses below do not depend on the generated facts) -/
def wFile : FileFacts :=
  { entry := Facts.introspectionEntry,
    others := [[.k .configuration], [.k .authentication, .dyn], [.k .authentication, .dyn], [.k .communication]],
    loose := [] }

/-- the obligations are not vacuous: they hold for such a file, in whatever order its helpers stand; an argument
error written into a verification helper breaks them, and so does an `Execute` that no longer attaches the
extractor's error -/
example : wFile.authenticatorOk Facts.introspectionEntry = true ∧
    ({ wFile with others := wFile.others.reverse } : FileFacts).authenticatorOk Facts.introspectionEntry = true ∧
    ({ wFile with others := [.k .authentication, .k .argument, .dyn] :: wFile.others } :
      FileFacts).authenticatorOk Facts.introspectionEntry = false ∧
    ({ wFile with entry := [.k .authentication] :: wFile.entry.drop 1 } :
      FileFacts).authenticatorOk Facts.introspectionEntry = false := by decide

/-- an additional guard in `Execute` that writes no argument error (e.g. a length limit answering with an
authentication error) does not disturb the obligation; a guard with a run-time cause in front of the extraction, or
one that writes an argument error, does -/
example : ({ wFile with entry := wFile.entry ++ [[.k .authentication]] } :
      FileFacts).authenticatorOk Facts.introspectionEntry = true ∧
    ({ wFile with entry := [.k .internal, .dyn] :: wFile.entry } :
      FileFacts).authenticatorOk Facts.introspectionEntry = false ∧
    ({ wFile with entry := wFile.entry ++ [[.k .authentication, .k .argument]] } :
      FileFacts).authenticatorOk Facts.introspectionEntry = false := by decide

/-- the composite extractor: today's shape passes, also with a guard that fails closed; masking the collected
errors with another sentinel does not -/
example : (⟨[[.dyn]], [], [.dyn]⟩ : FileFacts).compositeExtractorOk = true ∧
    (⟨[[.k .configuration], [.dyn]], [], [.dyn]⟩ : FileFacts).compositeExtractorOk = true ∧
    (⟨[[.k .authentication]], [], []⟩ : FileFacts).compositeExtractorOk = false ∧
    (⟨[[.k .authentication, .dyn]], [], []⟩ : FileFacts).compositeExtractorOk = false ∧
    (⟨[[.dyn]], [], [.k .internal]⟩ : FileFacts).compositeExtractorOk = false := by decide

/-- the extractors: any number of argument errors, nothing else -/
example : (⟨[[.k .argument], [.k .argument]], [], []⟩ : FileFacts).extractorOk = true ∧
    (⟨[[.k .argument], [.k .authentication]], [], []⟩ : FileFacts).extractorOk = false ∧
    (⟨[], [], []⟩ : FileFacts).extractorOk = false := by decide

/-- **Every error value that the authenticator files of today's source construct outside `Execute`** (signature,
key, assertion, introspection — fresh or served from the cache —, session, endpoint, response, … failures; however
many there are and wherever they stand) **is no argument error**, whatever argument-free run-time error is attached
to it. -/
theorem c04_source_rejection_sites_are_argument_free (c : Err) (hc : c.is .argument = false) :
    ∀ s ∈ Gen.basic.others ++ Gen.jwt.others ++ Gen.introspection.others ++ Gen.generic.others ++
        Gen.unauthorized.others ++ Gen.anonymous.others,
      (s.build c).is .argument = false := by
  intro s hs
  have h := c04_gen_sites
  simp only [FileFacts.authenticatorOk, Bool.and_eq_true, List.all_eq_true] at h
  obtain ⟨h0, h1, h2, h3, h4, h5, _⟩ := h
  simp only [List.mem_append] at hs
  apply argFree_build s _ c hc
  rcases hs with ((((hs | hs) | hs) | hs) | hs) | hs
  · exact h2.1.2 s hs
  · exact h3.1.2 s hs
  · exact h4.1.2 s hs
  · exact h5.1.2 s hs
  · exact h1.1.2 s hs
  · exact h0.1.2 s hs

/-- `jwt.ParseSigned` is told to accept exactly the signature algorithms the model knows as supported (as sets): a
token naming one of them is a credential of the `jwt` authenticator, whatever happens to it afterwards. -/
theorem c04_gen_supported_algorithms :
    Gen.supportedAlgorithms.all supportedAlgs.contains = true ∧
    supportedAlgs.all Gen.supportedAlgorithms.contains = true := by decide

/-- The loop of the composite goes on exactly on `errors.Is(err, ErrArgument) || IsFallbackOnErrorAllowed()`, and no
other file of the packages the authenticators call into mentions `heimdall.ErrArgument`. -/
theorem c04_gen_composite_guard :
    Gen.compositeGuard = compositeGuard ∧ Gen.argumentMentionsElsewhere = 0 := by decide

/-! ## classification: argument error ⇔ no usable credentials -/

/-- `errors.Is(err, sentinel)` holds exactly if the sentinel occurs somewhere in the error value, however deeply
error chains are nested in it ("an argument error anywhere in the chain" is what drives the fallback). -/
theorem c04_is_iff_leaf (e : Err) (k : Kind) : e.is k = true ↔ k ∈ leaves e :=
  is_iff_leaf e k

example : leaves (.chain [.kind .authentication, .chain [.chain [.kind .argument], .foreign]]) =
    [.authentication, .argument] := by decide

/-- If none of an authenticator's sources (any non-empty list, in any order) carries a value, the error of the
composite extractor matches `ErrArgument` and no other sentinel; otherwise the value is the credential of the
specification. -/
theorem c04_extraction (ss : List Strategy) (r : Req) (hne : ss ≠ []) :
    (∃ v, extract ss r = .ok v ∧ credential ss r = some v) ∨
    (∃ e, extract ss r = .error e ∧ credential ss r = none ∧ ∀ k, e.is k = (k == .argument)) :=
  extract_cases ss r hne

example : extract defaultSources wReqNone = .error (.chain [argErr, argErr, argErr]) := by decide
example : extract defaultSources wReqBadJwt = .ok "head.body.sign" := by decide

/-- No error value of the model's vocabulary constructed after a credential was found (bad signature, unknown key, failed assertion, inactive
token, wrong password, undecodable Basic value, unreachable endpoint, unusable response, missing subject, …) is an
argument error, whatever argument-free run-time error is attached to it. -/
theorem c04_rejection_is_never_an_argument_error (c : Err) (hc : c.is .argument = false) :
    (∀ s : JwtSite, s.verifies = true → (s.shape.build c).is .argument = false) ∧
    (∀ s : IntroSite, s.verifies = true → (s.shape.build c).is .argument = false) ∧
    (∀ s : GenSite, s.verifies = true → (s.shape.build c).is .argument = false) ∧
    (∀ s : BasicSite, s ≠ .noHeader → (s.shape.build c).is .argument = false) ∧
    (unauthorizedShape.build c).is .argument = false :=
  ⟨fun s hs => jwt_site_arg_free s hs c hc, fun s hs => intro_site_arg_free s hs c hc,
   fun s hs => gen_site_arg_free s hs c hc,
   fun s hs => by cases s <;> simp_all [BasicSite.shape, build_is],
   by simp [unauthorizedShape, build_is]⟩

example : (Err.chain [.kind .communication, .foreign]).is .argument = false := by decide

/-- **An authenticator's error is an argument error exactly if it found no usable credentials of its kind** — for
every authenticator type, source list, request and world. -/
theorem c04_argument_error_iff_no_usable_credentials (w : World) (a : Authn) (r : Req) (e : Err)
    (hw : w.wf = true) (ha : a.wf = true) (h : a.execute w r = .error e) :
    e.is .argument = true ↔ usable w a r = false := by
  rw [execute_error_argument w a r e hw ha h]
  cases usable w a r <;> simp

example : ∃ e, wChain[0].execute wWorld wReqBadJwt = .error e ∧ e.is .argument = false ∧
    usable wWorld wChain[0] wReqBadJwt = true :=
  ⟨_, rfl, by decide, by decide⟩

example : ∃ e, wChain[0].execute wWorld wReqOpaque = .error e ∧ e.is .argument = true ∧
    usable wWorld wChain[0] wReqOpaque = false :=
  ⟨_, rfl, by decide, by decide⟩

/-- An authenticator succeeds only on usable credentials of its kind. -/
theorem c04_success_needs_usable_credentials (w : World) (a : Authn) (r : Req) (s : String)
    (ha : a.wf = true) (h : a.execute w r = .ok s) : usable w a r = true :=
  execute_ok_usable w a r s ha h

/-- **Fallback on error is an opt-in**: without `allow_fallback_on_error` in the mechanism definition and in the
rule's step there is none; a setting of the rule's step overrides the definition in both directions; otherwise the
definition decides. -/
theorem c04_fallback_is_opt_in (a : Authn) :
    (a.allowFallback = none → a.override = none → a.fallback = false) ∧
    (∀ b, a.override = some b → a.fallback = true → b = true) ∧
    (∀ b, a.override = none → a.allowFallback = some b → a.fallback = true → b = true) ∧
    (a.fallback = true → a.override = some true ∨ (a.override = none ∧ a.allowFallback = some true)) := by
  obtain ⟨id, typ, af, ov, key⟩ := a
  cases typ <;> cases af <;> cases ov <;> simp [Authn.fallback]

example : ({ id := "a", typ := .jwt defaultSources } : Authn).fallback = false ∧
    ({ id := "a", typ := .jwt defaultSources, allowFallback := some true } : Authn).fallback = true ∧
    ({ id := "a", typ := .jwt defaultSources, allowFallback := some true, override := some false } : Authn).fallback
      = false ∧
    ({ id := "a", typ := .unauthorized, allowFallback := some true, override := some true } : Authn).fallback
      = false := by decide

/-- **What a JWT is**: the `jwt` authenticator found usable credentials exactly if the value at the first of its
sources carrying one is a *canonically spelled* JWS compact serialisation (three parts separated by dots, each the
one and only base64url encoding of its octets: URL-safe alphabet, no padding, no line breaks, unused bits zero) whose
header names a supported signature algorithm — whoever signed it, whatever it claims. Anything else (opaque tokens,
`alg: none`, unknown algorithms, a respelling of a valid JWT with a line break or with unused bits set) is no
credential of its kind and is passed on like an opaque token. -/
theorem c04_what_a_jwt_is (w : World) (a : Authn) (r : Req) (ss : List Strategy) (h : a.typ = .jwt ss) :
    usable w a r = true ↔
      ∃ tok, credential ss r = some tok ∧ isCompactJWS tok = true ∧
        ∃ p, w.headerAlg.find? (fun p => p.1 == tok) = some p ∧ p.2 ∈ supportedAlgs := by
  obtain ⟨id, typ, af, ov, key⟩ := a
  simp only at h
  subst h
  simp only [usable, World.parsesJWT]
  cases credential ss r with
  | none => simp
  | some tok =>
    cases hf : w.headerAlg.find? (fun p => p.1 == tok) with
    | none => simp [hf]
    | some p =>
      obtain ⟨t, alg⟩ := p
      simp only [hf, List.contains_iff_mem, Bool.and_eq_true, Option.some.injEq]
      constructor
      · rintro ⟨h1, h2⟩
        exact ⟨tok, rfl, h1, (t, alg), hf, h2⟩
      · rintro ⟨tok', rfl, h1, p, hp, h2⟩
        rw [hf] at hp
        cases hp
        exact ⟨h1, h2⟩

example : isCompactJWS "head.body.sign" = true ∧ isCompactJWS "opaque" = false ∧ isCompactJWS "a.b" = false ∧
    isCompactJWS "a.b.c.d" = false ∧ isCompactJWS "he+d.body.sign" = false ∧ isCompactJWS "h.body.sign" = false ∧
    isCompactJWS "eyJhbGciOiJub25lIn0.e30." = true := by decide

/-- other spellings of the same octets are no JWTs: unused bits of the last character of a segment set (`sg` and
`sh` decode to the same octet), line breaks inside a segment -/
example : isCompactJWS "head.body.sg" = true ∧ isCompactJWS "head.body.sh" = false ∧
    isCompactJWS "head.body.sigA" = true ∧ isCompactJWS "head.body.sig" = true ∧ isCompactJWS "head.body.sih" = false ∧
    isCompactJWS "head.bo\r\ndy.sign" = false ∧ isCompactJWS "head.body.sign\n" = false := by decide

/-- `alg: none`: of JWS form, but no supported algorithm — no credential of the `jwt` kind -/
example : wWorld.parsesJWT "eyJhbGciOiJub25lIn0.e30." = false ∧ wWorld.parsesJWT "head.body.sign" = true := by decide

/-- `anonymous` never fails; `unauthorized` always fails with an authentication error that is no argument error;
neither ever allows fallback, whatever the configuration says. -/
theorem c04_builtin_authenticators (w : World) (r : Req) (a : Authn) :
    (∀ s, a.typ = .anonymous s → (∃ sub, a.execute w r = .ok sub) ∧ a.fallback = false) ∧
    (a.typ = .unauthorized →
      (∃ e, a.execute w r = .error e ∧ e.is .authentication = true ∧ e.is .argument = false) ∧
      a.fallback = false) := by
  obtain ⟨id, typ, af, ov, key⟩ := a
  constructor
  · intro s h; subst h; exact ⟨⟨_, rfl⟩, rfl⟩
  · intro h; subst h
    exact ⟨⟨_, rfl, by simp [unauthorizedShape, build_is], by simp [unauthorizedShape, build_is]⟩, rfl⟩

/-! ## the composite -/

/-- **A later authenticator is consulted only if — and, there being one, if — every earlier one failed and either
found no usable credentials of its kind or allows fallback on error.** The authenticators consulted are always the
first `runConsulted` ones, in the configured order. -/
theorem c04_consulted_iff (w : World) (r : Req) (chain : List Authn) (k : Nat) (hw : w.wf = true)
    (hc : chain.all Authn.wf = true) :
    k < runConsulted w r chain ↔
      k < chain.length ∧ ∀ j, j < k → ∀ a, chain[j]? = some a →
        fails w r a = true ∧ (usable w a r = false ∨ a.fallback = true) := by
  have hg := map_goesOn w r chain hw hc
  simp only [runConsulted, lt_consulted_iff, List.length_map]
  constructor
  · rintro ⟨h1, h2⟩
    refine ⟨h1, fun j hj a ha => ?_⟩
    have := h2 j hj (a.step w r) (by simp [List.getElem?_map, ha])
    rw [hg a (List.mem_of_getElem? ha)] at this
    simpa [passesOn] using this
  · rintro ⟨h1, h2⟩
    refine ⟨h1, fun j hj s hs => ?_⟩
    simp only [List.getElem?_map, Option.map_eq_some_iff] at hs
    obtain ⟨a, ha, rfl⟩ := hs
    rw [hg a (List.mem_of_getElem? ha)]
    simpa [passesOn] using h2 j hj a ha

example : runConsulted wWorld wReqNone wChain = 3 ∧ runConsulted wWorld wReqBadJwt wChain = 1 ∧
    runConsulted wWorld wReqBadJwt wChainOptIn = 3 ∧ runConsulted wWorld wReqWrongPassword wChain = 2 := by decide

/-- **The subject is the one produced by the first authenticator that succeeds**, and it is produced exactly if
every authenticator before that one failed and passed the request on. -/
theorem c04_first_success (w : World) (r : Req) (chain : List Authn) (s : String) (hw : w.wf = true)
    (hc : chain.all Authn.wf = true) :
    run w r chain = .subject s ↔
      ∃ pre a post, chain = pre ++ a :: post ∧ a.execute w r = .ok s ∧
        ∀ b ∈ pre, fails w r b = true ∧ (usable w b r = false ∨ b.fallback = true) := by
  have hpass : ∀ b, passesOn w r b = true ↔ (fails w r b = true ∧ (usable w b r = false ∨ b.fallback = true)) := by
    intro b; simp [passesOn]
  constructor
  · intro h
    rw [(run_eq_authenticate w r chain hw hc).1] at h
    simp only [authenticate] at h
    cases hf : chain.find? (decisive w r) with
    | some a =>
      obtain ⟨pre, post, hsplit, hpre⟩ := List.find?_eq_some_iff_append.1 hf |>.2
      simp only [hf, resultOf] at h
      cases hx : a.execute w r with
      | ok s' =>
        simp only [hx, Result.subject.injEq] at h
        subst h
        refine ⟨pre, a, post, hsplit, hx, fun b hb => (hpass b).1 ?_⟩
        simpa [decisive] using hpre b hb
      | error e => simp [hx] at h
    | none =>
      simp only [hf] at h
      cases hl : chain.getLast? with
      | none => simp [hl] at h
      | some a =>
        simp only [hl, resultOf] at h
        have hmem : a ∈ chain := List.mem_of_getLast? hl
        have hnd : decisive w r a = false := by
          have := List.find?_eq_none.1 hf a hmem
          simpa using this
        cases hx : a.execute w r with
        | ok s' => simp [decisive, passesOn, fails, hx] at hnd
        | error e => simp [hx] at h
  · rintro ⟨pre, a, post, rfl, hx, hpre⟩
    have hg := map_goesOn w r (pre ++ a :: post) hw hc
    have h1 : ∀ p ∈ pre.map (Authn.step w r), p.goesOn = true := by
      intro p hp
      simp only [List.mem_map] at hp
      obtain ⟨b, hb, rfl⟩ := hp
      rw [hg b (by simp [hb])]
      exact (hpass b).2 (hpre b hb)
    have h2 : (a.step w r).goesOn = false := by simp [Authn.step, Step.goesOn, hx]
    have := (composite_decisive (pre.map (Authn.step w r)) (post.map (Authn.step w r)) (a.step w r) h1 h2).1
    simp only [run, List.map_append, List.map_cons]
    rw [this]
    simp [Authn.step, Step.result, hx]

example : run wWorld wReqNone wChain = .subject "anonymous" ∧
    run wWorld wReqGoodPassword wChain = .subject "user" ∧
    run wWorld wReqOpaque wChain = .subject "anonymous" := by decide

/-- **If an authenticator found usable credentials, rejected them and does not allow fallback, authentication fails
with its error, whatever authenticators follow** (e.g. `anonymous`), and none of them is consulted. -/
theorem c04_rejected_is_final (w : World) (r : Req) (pre post : List Authn) (a : Authn) (e : Err)
    (hw : w.wf = true) (hc : (pre ++ a :: post).all Authn.wf = true)
    (hpre : ∀ b ∈ pre, fails w r b = true ∧ (usable w b r = false ∨ b.fallback = true))
    (hx : a.execute w r = .error e) (hu : usable w a r = true) (hf : a.fallback = false) :
    run w r (pre ++ a :: post) = .failure e ∧ runConsulted w r (pre ++ a :: post) = pre.length + 1 := by
  have hg := map_goesOn w r (pre ++ a :: post) hw hc
  have h1 : ∀ p ∈ pre.map (Authn.step w r), p.goesOn = true := by
    intro p hp
    simp only [List.mem_map] at hp
    obtain ⟨b, hb, rfl⟩ := hp
    rw [hg b (by simp [hb])]
    simpa [passesOn] using hpre b hb
  have h2 : (a.step w r).goesOn = false := by
    rw [hg a (by simp)]
    simp [passesOn, hu, hf]
  have := composite_decisive (pre.map (Authn.step w r)) (post.map (Authn.step w r)) (a.step w r) h1 h2
  simp only [run, runConsulted, List.map_append, List.map_cons]
  rw [this.1, this.2]
  simp [Authn.step, Step.result, hx]

example : run wWorld wReqBadJwt wChain = .failure (.chain [.kind .authentication, .foreign]) ∧
    run wWorld wReqBadJwt [wChain[2]] = .subject "anonymous" ∧
    run wWorld wReqWrongPassword wChain = .failure (.chain [.kind .authentication]) := by decide

/-- with the opt-in, the same rejected JWT lets the request fall through to `anonymous` -/
example : run wWorld wReqBadJwt wChainOptIn = .subject "anonymous" := by decide

/-! ### found, verified, and rejected while the claims are decoded

A JWT signed by its issuer whose `exp` / `nbf` / `iat` lies outside of the years 1..9999 (an expiry in microseconds,
`1e300`), or an introspection response carrying such a date or an `aud` / `scope` of a wrong JSON type: the claim types
of `internal/rules/mechanisms/oauth2` (`NumericDate`, `Audience`, `Scopes`) report a *configuration* error, which the
`jwt` authenticator attaches to "failed to verify JWT signature" (`JwtSite.signature`) and the introspection
authenticator to "failed to unmarshal received introspection response" (`IntroSite.unmarshal`). -/

/-- the world of such credentials -/
def wWorldClaims : World :=
  { headerAlg := [("head.body.sign", .ES256)],
    jwt := [(("jwt", "head.body.sign"), .fail .signature (.chain [.kind .configuration]))],
    intro := [(("intro", "opaque"), .fail .unmarshal (.chain [.kind .configuration, .foreign]))] }

def wChainIntro : List Authn :=
  [ { id := "intro", typ := .introspection defaultSources }, { id := "anon", typ := .anonymous "" } ]

/-- they are within the hypotheses of the theorems, so `c04_rejected_is_final` applies: the rejection is no argument
error, it is final, `anonymous` is not consulted -/
example : wWorldClaims.wf = true ∧
    run wWorldClaims wReqBadJwt [wChain[0], wChain[2]] =
      .failure (.chain [.kind .authentication, .chain [.kind .configuration]]) ∧
    runConsulted wWorldClaims wReqBadJwt [wChain[0], wChain[2]] = 1 ∧
    run wWorldClaims wReqOpaque wChainIntro =
      .failure (.chain [.kind .internal, .chain [.kind .configuration, .foreign]]) ∧
    runConsulted wWorldClaims wReqOpaque wChainIntro = 1 := by decide

/-- The hypothesis `World.wf` is what carries this: were the claim decoder to report an *argument* error for a date
out of range (`errors.Is` walks the whole chain), the world would be outside the hypotheses and the very same loop
would hand the rejected token over to `anonymous` — `Gen.argumentMentionsElsewhere = 0` excludes it for today's
source, the correspondence run for the running code. -/
def wWorldArgumentCause : World :=
  { wWorldClaims with jwt := [(("jwt", "head.body.sign"), .fail .signature (.chain [.kind .argument]))] }

example : wWorldArgumentCause.wf = false ∧
    run wWorldArgumentCause wReqBadJwt [wChain[0], wChain[2]] = .subject "anonymous" := by decide

/-! ### found — and no request to the endpoint can be created for it

The URL of the identity / JWKS / introspection / metadata endpoint may be a template over the credential
(`…/sessions/{{ .AuthenticationData }}`) resp. over the issuer the token names (`…/realms/{{ .TokenIssuer }}/jwks`).
A session cookie `%zz`, an issuer `tenant-a%` or one containing a control character is *found* (and, for a token,
parsed), but `http.NewRequestWithContext` refuses the rendered URL: `endpoint.CreateRequest` reports an internal error
("failed to create a request instance"), which the authenticators attach to "failed creating request"
(`GenSite.requestFailed`, `JwtSite.requestFailed`, `IntroSite.requestFailed`; behind a metadata endpoint
`metadataFailed`). These sites are reached after the credential was found (`verifies`), so all theorems above cover
them. -/

/-- the world of such credentials -/
def wWorldUnmakable : World :=
  { headerAlg := [("head.body.sign", .ES256)],
    jwt := [(("jwt", "head.body.sign"), .fail .requestFailed (.chain [.kind .internal, .foreign]))],
    intro := [(("intro", "opaque"), .fail .metadataFailed (.chain [.kind .internal, .chain [.kind .internal, .foreign]]))],
    gen := [(("gen", "%zz"), .fail .requestFailed (.chain [.kind .internal, .foreign]))] }

def wChainGen : List Authn :=
  [ { id := "gen", typ := .generic [.cookie "session"] }, { id := "anon", typ := .anonymous "" } ]

def wReqBadSession : Req := { cookies := [("session", "%zz")] }

/-- the cookie is a credential of the `generic` kind, the failure is no argument error, it is final and `anonymous`
is not consulted; likewise for the token at the `jwt` and the `oauth2_introspection` authenticator -/
example : wWorldUnmakable.wf = true ∧ usable wWorldUnmakable wChainGen[0] wReqBadSession = true ∧
    run wWorldUnmakable wReqBadSession wChainGen =
      .failure (.chain [.kind .internal, .chain [.kind .internal, .foreign]]) ∧
    runConsulted wWorldUnmakable wReqBadSession wChainGen = 1 ∧
    runConsulted wWorldUnmakable wReqBadJwt [wChain[0], wChain[2]] = 1 ∧
    runConsulted wWorldUnmakable wReqOpaque wChainIntro = 1 ∧
    run wWorldUnmakable wReqNone wChainGen = .subject "anonymous" := by decide

/-- the judgement rejects a run that hands such a request over to `anonymous`, whatever sentinels the error of the
authenticator matches, and accepts the final rejection -/
example : judge wWorldUnmakable wReqBadSession wChainGen
    [("gen", .err [.argument, .internal]), ("anon", .ok "anonymous")] (some (.ok "anonymous")) = false ∧
    judge wWorldUnmakable wReqBadJwt [wChain[0], wChain[2]]
    [("jwt", .err [.argument, .internal]), ("anon", .ok "anonymous")] (some (.ok "anonymous")) = false ∧
    judge wWorldUnmakable wReqBadSession wChainGen [("gen", .err [.internal])] (some (.err [.internal])) = true := by
  decide

/-- were the endpoint helper to type "the rendered URL is unusable" as an *argument* error (a client error, HTTP 400
rather than 500 — which looks reasonable in that package), the world would be outside `World.wf` and the unchanged
loop of the composite would hand the request with the found, unverifiable credential over to `anonymous` -/
def wWorldUnmakableAsArgument : World :=
  { wWorldUnmakable with gen := [(("gen", "%zz"), .fail .requestFailed (.chain [.kind .argument, .foreign]))] }

example : wWorldUnmakableAsArgument.wf = false ∧
    run wWorldUnmakableAsArgument wReqBadSession wChainGen = .subject "anonymous" := by decide

/-- **The loop of the composite is the reference semantics of the specification**: the answer is that of the first
authenticator that succeeds or finally rejects, the failure of the last one if none does, and exactly the
authenticators up to that one are consulted. -/
theorem c04_model_meets_spec (w : World) (r : Req) (chain : List Authn) (hw : w.wf = true)
    (hc : chain.all Authn.wf = true) :
    run w r chain = authenticate w r chain ∧ runConsulted w r chain = Spec.consulted w r chain :=
  run_eq_authenticate w r chain hw hc

/-- The observable answer of the model (who was consulted, what each returned, what the composite returned) passes
the judgement by which the answers of the real code are judged. -/
theorem c04_model_answer_accepted (w : World) (r : Req) (chain : List Authn) (hw : w.wf = true)
    (hc : chain.all Authn.wf = true) :
    judge w r chain (answer w r chain).trace (answer w r chain).final = true :=
  judge_answer w r chain hw hc

/-- the judgement is not vacuous: it rejects a run that goes on to `anonymous` after a rejected JWT … -/
example : judge wWorld wReqBadJwt wChain
    [("jwt", .err [.authentication]), ("basic", .err [.argument, .authentication]), ("anon", .ok "anonymous")]
    (some (.ok "anonymous")) = false := by decide

/-- … likewise after a token whose claims cannot be decoded, whatever the error looks like … -/
example : judge wWorldClaims wReqBadJwt [wChain[0], wChain[2]]
    [("jwt", .err [.argument, .authentication]), ("anon", .ok "anonymous")] (some (.ok "anonymous")) = false ∧
    judge wWorldClaims wReqOpaque wChainIntro
    [("intro", .err [.argument, .internal]), ("anon", .ok "anonymous")] (some (.ok "anonymous")) = false ∧
    judge wWorldClaims wReqBadJwt [wChain[0], wChain[2]]
    [("jwt", .err [.authentication, .configuration])] (some (.err [.authentication, .configuration])) = true := by
  decide

/-- … and one that stops at the JWT authenticator although no token was sent -/
example : judge wWorld wReqNone wChain [("jwt", .err [.argument, .authentication])]
    (some (.err [.argument, .authentication])) = false := by decide

/-! ## credentials in the body: which media types are read -/

/-- **Which decoder reads the body of a request** — for every value of the `Content-Type` header (all its lines
joined by `,`): the JSON decoder exactly if the value contains `json` *anywhere* (so with parameters, with a
structured syntax suffix such as `application/vnd.api+json`, as one of several media types), else the form decoder
exactly if it contains `application/x-www-form-urlencoded`, else the YAML decoder exactly if it contains `yaml`, and
none otherwise. -/
theorem c04_body_decoder_by_media_type (ct : String) :
    (decoderFor ct = some .json ↔ ∃ p s : String, ct = p ++ "json" ++ s) ∧
    (decoderFor ct = some .form ↔
      (¬ ∃ p s : String, ct = p ++ "json" ++ s) ∧ ∃ p s : String, ct = p ++ "application/x-www-form-urlencoded" ++ s) ∧
    (decoderFor ct = some .yaml ↔
      (¬ ∃ p s : String, ct = p ++ "json" ++ s) ∧
      (¬ ∃ p s : String, ct = p ++ "application/x-www-form-urlencoded" ++ s) ∧ ∃ p s : String, ct = p ++ "yaml" ++ s) := by
  refine ⟨?_, ?_, ?_⟩
  · rw [decoderFor_json_iff, contains_iff]
  · rw [decoderFor_form_iff, ← contains_iff, ← contains_iff]; simp
  · rw [decoderFor_yaml_iff, ← contains_iff, ← contains_iff, ← contains_iff]; simp

example : decoderFor "application/vnd.api+json; charset=utf-8" = some .json ∧
    decoderFor "application/problem+json" = some .json ∧ decoderFor "text/plain,application/json" = some .json ∧
    decoderFor "application/x-www-form-urlencoded;charset=UTF-8" = some .form ∧
    decoderFor "application/vnd.oai.openapi+yaml" = some .yaml ∧ decoderFor "application/yaml+json" = some .json ∧
    decoderFor "APPLICATION/JSON" = none ∧ decoderFor "text/plain" = none ∧ decoderFor "" = none := by decide

/-- **A credential in a body parameter is a credential that was found, however the media type is spelled**: if the
decoder named by the `Content-Type` of the request reads the body as a map that holds one string under `name`, the
request carries authentication data at the source `body_parameter: name` — that string without surrounding space. If
the `Content-Type` names no decoder, or the decoder fails, the request carries none there. -/
theorem c04_body_credential_is_found (r : Req) (name : String) :
    (∀ f m v s, decoderFor (r.header "Content-Type") = some f → r.payload.readBy f = some m →
      m.find? (fun p => p.1 == name) = some (name, v) → single v = some s →
      present (.body name) r = true ∧ value (.body name) r = trimSpace s ∧
      (Strategy.body name).get r = .ok (trimSpace s)) ∧
    (decoderFor (r.header "Content-Type") = none → present (.body name) r = false) ∧
    (∀ f, decoderFor (r.header "Content-Type") = some f → r.payload.readBy f = none →
      present (.body name) r = false) := by
  refine ⟨fun f m v s hd hp hm hs => ?_, fun hd => ?_, fun f hd hp => ?_⟩
  · have hb := bodyParam_of_decoded r f m name hd hp
    rw [hm] at hb
    have h1 : present (.body name) r = true := by simp [present, hb, hs]
    have h2 : value (.body name) r = trimSpace s := by simp [value, hb, hs]
    exact ⟨h1, h2, by rw [get_eq, h1, h2]; rfl⟩
  · simp [present, bodyParam_no_decoder r name hd]
  · simp [present, Req.bodyParam, Req.body, hd, hp]

/-- a token in a JSON body announced as `application/vnd.api+json` (a structured syntax suffix, a parameter) -/
def wReqBodyToken : Req :=
  { headers := [("content-type", "application/vnd.api+json; charset=utf-8")],
    payload := { json := some [("data", .other), ("access_token", .str " head.body.sign ")] } }

example : present (.body "access_token") wReqBodyToken = true ∧
    credential defaultSources wReqBodyToken = some "head.body.sign" ∧
    usable wWorld wChain[0] wReqBodyToken = true ∧
    run wWorld wReqBodyToken [wChain[0], wChain[2]] = .failure (.chain [.kind .authentication, .foreign]) ∧
    runConsulted wWorld wReqBodyToken [wChain[0], wChain[2]] = 1 := by decide

/-- **A rejected credential from the body is final**: the authenticator's first source carrying a value is a body
parameter, the media type of the request names JSON *anywhere* in the `Content-Type` value (`p ++ "json" ++ s`: any
parameters, any structured syntax suffix, any further media types), the JSON decoder reads one string under that
name — then the authenticator found credentials of its kind (`jwt`: if the string is a JWT); if it fails on them and
does not allow fallback, authentication fails with its error whatever follows, the error is no argument error and no
later authenticator is consulted. -/
theorem c04_body_credential_rejected_is_final (w : World) (r : Req) (pre post : List Authn) (a : Authn) (e : Err)
    (ss : List Strategy) (name p sfx s : String) (m : List (String × BVal)) (v : BVal)
    (hw : w.wf = true) (hc : (pre ++ a :: post).all Authn.wf = true)
    (hpre : ∀ b ∈ pre, fails w r b = true ∧ (usable w b r = false ∨ b.fallback = true))
    (hct : r.header "Content-Type" = p ++ "json" ++ sfx) (hp : r.payload.json = some m)
    (hm : m.find? (fun q => q.1 == name) = some (name, v)) (hs : single v = some s)
    (hfirst : ss.find? (present · r) = some (.body name))
    (ht : a.typ = .introspection ss ∨ a.typ = .generic ss ∨ (a.typ = .jwt ss ∧ w.parsesJWT (trimSpace s) = true))
    (hx : a.execute w r = .error e) (hf : a.fallback = false) :
    usable w a r = true ∧ e.is .argument = false ∧
    run w r (pre ++ a :: post) = .failure e ∧ runConsulted w r (pre ++ a :: post) = pre.length + 1 := by
  have hd : decoderFor (r.header "Content-Type") = some .json :=
    (c04_body_decoder_by_media_type _).1.2 ⟨p, sfx, hct⟩
  have hval := ((c04_body_credential_is_found r name).1 .json m v s hd hp hm hs).2.1
  have hcred : credential ss r = some (trimSpace s) := by simp [credential, hfirst, hval]
  have hu : usable w a r = true := by
    obtain ⟨id, typ, af, ov, key⟩ := a
    simp only at ht
    rcases ht with ht | ht | ⟨ht, hj⟩ <;> subst ht <;> simp [usable, hcred]
    exact hj
  have ha : a.wf = true := by
    simp only [List.all_append, List.all_cons, Bool.and_eq_true] at hc
    exact hc.2.1
  have hfin := c04_rejected_is_final w r pre post a e hw hc hpre hx hu hf
  refine ⟨hu, ?_, hfin.1, hfin.2⟩
  have := (c04_argument_error_iff_no_usable_credentials w a r e hw ha hx)
  cases h : e.is .argument with
  | false => rfl
  | true => rw [this.1 h] at hu; cases hu

/-- the hypotheses are satisfiable: the request above at the chain `jwt, anonymous` -/
example : ∃ e, (wChain[0].execute wWorld wReqBodyToken = .error e) ∧
    wReqBodyToken.header "Content-Type" = "application/vnd.api+" ++ "json" ++ "; charset=utf-8" ∧
    defaultSources.find? (present · wReqBodyToken) = some (.body "access_token") ∧
    wWorld.parsesJWT (trimSpace " head.body.sign ") = true := ⟨_, rfl, by decide, by decide, by decide⟩

/-- the judgement rejects a run that takes such a request for one without credentials and hands it to `anonymous`
(what a decoder selection by exact media type would do to `application/vnd.api+json`) -/
example : judge wWorld wReqBodyToken [wChain[0], wChain[2]]
    [("jwt", .err [.argument, .authentication]), ("anon", .ok "anonymous")] (some (.ok "anonymous")) = false ∧
    judge wWorld wReqBodyToken [wChain[0], wChain[2]] [("jwt", .err [.authentication])]
      (some (.err [.authentication])) = true := by decide

/-- a `Content-Type` that names no decoder (the comparison is case-sensitive): the body is a string for the
extractors, the request carries no credentials and reaches `anonymous` -/
example : run wWorld { wReqBodyToken with headers := [("Content-Type", "APPLICATION/JSON")] } [wChain[0], wChain[2]] =
    .subject "anonymous" := by decide

/-! ## the endpoint's own authentication fails -/

/-- **Whatever the authorization server answers to heimdall's own token request** (`oauth2_client_credentials` of the
identity / JWKS / introspection / metadata endpoint: any status code, any error code of RFC 6749 or other, any body,
no answer at all) **the failure to authenticate the request to the endpoint is no argument error** — neither as
`Endpoint.CreateRequest` reports it, nor wrapped by `MetadataEndpoint.Get`, nor attached to the "failed creating
request" / "failed retrieving oauth2 server metadata" errors of the three authenticators. `api_key` and `basic_auth`
cannot fail at request time. -/
theorem c04_endpoint_authentication_failure_is_no_argument_error (auth : EndpointAuth) (e : Err)
    (h : auth.failure = some e) :
    (authenticationFailed e).is .argument = false ∧
    (metadataRequestFailed (authenticationFailed e)).is .argument = false ∧
    (Verdict.fail GenSite.requestFailed (authenticationFailed e)).wf GenSite.verifies = true ∧
    (Verdict.fail JwtSite.requestFailed (authenticationFailed e)).wf JwtSite.verifies = true ∧
    (Verdict.fail IntroSite.requestFailed (authenticationFailed e)).wf IntroSite.verifies = true ∧
    (Verdict.fail JwtSite.metadataFailed (metadataRequestFailed (authenticationFailed e))).wf JwtSite.verifies = true ∧
    (Verdict.fail IntroSite.metadataFailed (metadataRequestFailed (authenticationFailed e))).wf IntroSite.verifies
      = true ∧
    (auth = .apiKey ∨ auth = .basicAuth ∨ auth = .noAuth → False) := by
  have he := endpointAuth_failure_arg_free auth e h
  refine ⟨?_, ?_, ?_, ?_, ?_, ?_, ?_, ?_⟩ <;>
    first
    | (rintro (rfl | rfl | rfl) <;> simp [EndpointAuth.failure] at h)
    | simp [authenticationFailed, metadataRequestFailed, Verdict.wf, GenSite.verifies, JwtSite.verifies,
        IntroSite.verifies, he]

example : (EndpointAuth.clientCredentials (.badRequest (some "invalid_scope"))).failure =
      some (.chain [.kind .communication, .foreign]) ∧
    (EndpointAuth.clientCredentials (.status 503)).failure = some (.chain [.kind .communication]) ∧
    (EndpointAuth.clientCredentials .token).failure = none ∧ EndpointAuth.apiKey.failure = none := by decide

/-- **A credential that was found stays found when heimdall cannot authenticate its own request to the endpoint**:
the authenticator (`generic`, `oauth2_introspection`, `jwt`; directly or behind a metadata endpoint) found a
credential, the endpoint's `oauth2_client_credentials` strategy fails — for every answer of the authorization server
— and the authenticator does not allow fallback: authentication fails with "failed creating request", no argument
error, whatever follows (e.g. `anonymous`), and no later authenticator is consulted. -/
theorem c04_failed_endpoint_authentication_is_final (w : World) (r : Req) (pre post : List Authn) (a : Authn)
    (ss : List Strategy) (tok : String) (auth : EndpointAuth) (c : Err)
    (hw : w.wf = true) (hc : (pre ++ a :: post).all Authn.wf = true)
    (hpre : ∀ b ∈ pre, fails w r b = true ∧ (usable w b r = false ∨ b.fallback = true))
    (hauth : auth.failure = some c) (hcred : credential ss r = some tok)
    (ht : (a.typ = .generic ss ∧ w.genVerdict a.key tok = .fail .requestFailed (authenticationFailed c)) ∨
          (a.typ = .introspection ss ∧
            (w.introVerdict a.key tok = .fail .requestFailed (authenticationFailed c) ∨
             w.introVerdict a.key tok = .fail .metadataFailed (metadataRequestFailed (authenticationFailed c)))) ∨
          (a.typ = .jwt ss ∧ w.parsesJWT tok = true ∧
            (w.jwtVerdict a.key tok = .fail .requestFailed (authenticationFailed c) ∨
             w.jwtVerdict a.key tok = .fail .metadataFailed (metadataRequestFailed (authenticationFailed c)))))
    (hf : a.fallback = false) :
    ∃ e, a.execute w r = .error e ∧ e.is .internal = true ∧ e.is .argument = false ∧
      run w r (pre ++ a :: post) = .failure e ∧ runConsulted w r (pre ++ a :: post) = pre.length + 1 := by
  have hca := endpointAuth_failure_arg_free auth c hauth
  have hext : extract ss r = .ok tok := (extract_ok_iff ss r tok).2 hcred
  obtain ⟨id, typ, af, ov, key⟩ := a
  simp only at ht
  have hex : ∃ e, Authn.execute w ⟨id, typ, af, ov, key⟩ r = .error e ∧ e.is .internal = true ∧
      e.is .argument = false ∧ usable w ⟨id, typ, af, ov, key⟩ r = true := by
    rcases ht with ⟨ht, hv⟩ | ⟨ht, hv⟩ | ⟨ht, hj, hv⟩
    · subst ht
      refine ⟨_, by simp [Authn.execute, hext, hv, Verdict.outcome]; rfl, ?_, ?_, by simp [usable, hcred]⟩ <;>
        simp [GenSite.shape, build_is, authenticationFailed, hca]
    · subst ht
      rcases hv with hv | hv
      · refine ⟨_, by simp [Authn.execute, hext, hv, Verdict.outcome]; rfl, ?_, ?_, by simp [usable, hcred]⟩ <;>
          simp [IntroSite.shape, build_is, authenticationFailed, hca]
      · refine ⟨_, by simp [Authn.execute, hext, hv, Verdict.outcome]; rfl, ?_, ?_, by simp [usable, hcred]⟩ <;>
          simp [IntroSite.shape, build_is, authenticationFailed, metadataRequestFailed, hca]
    · subst ht
      rcases hv with hv | hv
      · refine ⟨_, by simp [Authn.execute, hext, hj, hv, Verdict.outcome]; rfl, ?_, ?_, by simp [usable, hcred, hj]⟩ <;>
          simp [JwtSite.shape, build_is, authenticationFailed, hca]
      · refine ⟨_, by simp [Authn.execute, hext, hj, hv, Verdict.outcome]; rfl, ?_, ?_, by simp [usable, hcred, hj]⟩ <;>
          simp [JwtSite.shape, build_is, authenticationFailed, metadataRequestFailed, hca]
  obtain ⟨e, hx, hi, ha, hu⟩ := hex
  have hfin := c04_rejected_is_final w r pre post _ e hw hc hpre hx hu hf
  exact ⟨e, hx, hi, ha, hfin.1, hfin.2⟩

/-- a session the identity endpoint would know — but heimdall's own token request to the authorization server is
answered with `400 invalid_scope` -/
def wWorldEndpointAuth : World :=
  { gen := [(("gen", "stolen-session"),
      .fail .requestFailed (authenticationFailed (.chain [.kind .communication, .foreign])))] }

def wReqStolenSession : Req := { cookies := [("session", "stolen-session")] }

/-- the hypotheses of the theorem are satisfiable; the failure is final, `anonymous` is not consulted, and the
judgement rejects a run that hands the request to `anonymous` -/
example : wWorldEndpointAuth.wf = true ∧
    (EndpointAuth.clientCredentials (.badRequest (some "invalid_scope"))).failure =
      some (.chain [.kind .communication, .foreign]) ∧
    credential [.cookie "session"] wReqStolenSession = some "stolen-session" ∧
    run wWorldEndpointAuth wReqStolenSession wChainGen =
      .failure (.chain [.kind .internal, .chain [.kind .internal, .chain [.kind .communication, .foreign]]]) ∧
    runConsulted wWorldEndpointAuth wReqStolenSession wChainGen = 1 ∧
    judge wWorldEndpointAuth wReqStolenSession wChainGen
      [("gen", .err [.argument, .communication, .internal]), ("anon", .ok "anonymous")] (some (.ok "anonymous")) = false ∧
    judge wWorldEndpointAuth wReqStolenSession wChainGen
      [("gen", .err [.communication, .internal])] (some (.err [.communication, .internal])) = true := by decide

/-- were the error document of the authorization server to *match* `ErrArgument` for the codes that blame the request
(`invalid_request`, `invalid_scope`, `unsupported_grant_type` — an `Is` method on that error type, written for the
benefit of error handlers), the model's assumption "it matches no heimdall sentinel" would be wrong, the world outside
`World.wf`, and the unchanged loop would serve the request with the stolen session as `anonymous` -/
def wWorldEndpointAuthAsArgument : World :=
  { gen := [(("gen", "stolen-session"),
      .fail .requestFailed (authenticationFailed (.chain [.kind .communication, .kind .argument])))] }

example : wWorldEndpointAuthAsArgument.wf = false ∧
    run wWorldEndpointAuthAsArgument wReqStolenSession wChainGen = .subject "anonymous" := by decide

end Heimdall.Props.C04
