import HeimdallModel.Model.MatcherSrc
/-!
# C03 — the route matchers *as they stand in the source* decide what the C03 model decides

`Gen/MatcherSrc.lean` is regenerated on every run by the Go → Lean translator `extract/go2lean` (`cmd/matchers`) from the
whole bodies of `compositeMatcher.Matches`, `anyOfMatcher.Matches`, `schemeMatcher.Matches`, `methodMatcher.Matches`,
`hostMatcher.Matches` and `pathParamMatcher.Matches`; the `for … range` loops are structurally recursive functions over
the list. The theorems below hold for condition lists of **any length** and every behaviour of the conditions:

* `compositeMatcher` accepts iff **every** condition accepts, reports the refusal of the **first** one that refuses and
  asks no later one;
* `anyOfMatcher` (the `hosts` of a rule) accepts iff it is **empty or some** element accepts;
* scheme / method / host / path-parameter conditions are `schemeOk` / `methodOk` / `TM.matches` / `ppOk` of
  `Model/Matcher.lean` (a path parameter is looked up by name, checked on the decoded value when the request has a raw
  path, refused under `off` when the raw path contains an encoded slash);
* assembled as `CreateRule` assembles them, they accept iff `routeMatches` of the model accepts (`c03_src_route`) - so
  the theorems of `Props/C03.lean` about `routeMatches` speak about the loops and guards of the current source.
How the parameters of the translation are filled: `Model/MatcherSrc.lean`.
-/
set_option linter.unusedSimpArgs false

namespace Heimdall.Props.C03
open Heimdall Heimdall.Matcher Heimdall.Matcher.SrcTie

/-- **The tie holds for this run:** `Gen/MatcherSrc.lean` is the result of translating the current source. -/
theorem c03_src_translated : Src.translationOk = true := by decide

section Generic
variable {A Err : Type}

/-- a condition that only looks (no effect on the context, no panic) -/
def look (f : A → Option Err) (a : A) : Go.M Unit Unit (Option Err) := Go.pure (f a)

/-- **`compositeMatcher.Matches` reports the first refusal** (`List.findSome?`), for lists of any length. -/
theorem c03_src_allOf_first_refusal (f : A → Option Err) (xs : List A) :
    Src.AllOf.Matches (look f) () xs () = .done (xs.findSome? f) () := by
  unfold Src.AllOf.Matches
  generalize (xs.length : Int) = n
  induction xs with
  | nil => simp [Src.AllOf.Matches_loop, Go.pure]
  | cons a xs ih =>
    unfold Src.AllOf.Matches_loop
    cases h : f a <;> simp_all [look, Go.bind, Go.pure, Go.cond_app, List.findSome?]

/-- **`compositeMatcher.Matches` accepts iff every condition accepts.** -/
theorem c03_src_allOf_accepts_iff_all (f : A → Option Err) (xs : List A) :
    accepts (Src.AllOf.Matches (look f) () xs) = some (xs.all fun a => (f a).isNone) := by
  unfold accepts
  rw [c03_src_allOf_first_refusal]
  simp only [Option.some.injEq]
  induction xs with
  | nil => simp
  | cons a xs ih => cases h : f a <;> simp [List.findSome?, h, ih]

/-- The loop of `anyOfMatcher.Matches` with `err` holding the refusal of the previous element: it returns, and it
accepts iff some element still to come accepts (or nothing is left and the previous refusal is none). -/
theorem c03_src_anyOf_loop (f : A → Option Err) (n : Int) (xs : List A) (err : Option Err) :
    ∃ r, Src.AnyOf.Matches_loop (look f) () n xs err () = .done r () ∧
      r.isNone = (xs.any (fun a => (f a).isNone) || (xs.isEmpty && err.isNone)) := by
  induction xs generalizing err with
  | nil => exact ⟨err, by simp [Src.AnyOf.Matches_loop, Go.pure], by simp⟩
  | cons a xs ih =>
    unfold Src.AnyOf.Matches_loop
    cases h : f a with
    | none => exact ⟨none, by simp [look, Go.bind, Go.pure, Go.cond_app, h], by simp [h]⟩
    | some e =>
      obtain ⟨r, hr, hn⟩ := ih (some e)
      exact ⟨r, by simp [look, Go.bind, Go.pure, Go.cond_app, h, hr], by simp [h, hn]⟩

/-- `anyOfMatcher.Matches` returns (no panic of its own) and **accepts iff it is empty or some element accepts**. -/
theorem c03_src_anyOf_returns (f : A → Option Err) (xs : List A) :
    ∃ r, Src.AnyOf.Matches (look f) () xs () = .done r () ∧
      r.isNone = (xs.isEmpty || xs.any fun a => (f a).isNone) := by
  cases xs with
  | nil => exact ⟨none, by simp [Src.AnyOf.Matches, Src.AnyOf.Matches_loop, Go.pure, Go.cond_app], by simp⟩
  | cons a xs =>
    unfold Src.AnyOf.Matches
    generalize hN : ((a :: xs).length : Int) = N
    have hN0 : ¬ (N = 0) := by simp at hN; omega
    obtain ⟨r, hr, hn⟩ := c03_src_anyOf_loop f N (a :: xs) none
    exact ⟨r, by simp [hr, hN0, Go.pure, Go.cond_app], by simp [hn]⟩

/-- **`anyOfMatcher.Matches` accepts iff it is empty or some element accepts**, for lists of any length. -/
theorem c03_src_anyOf_accepts_iff_any (f : A → Option Err) (xs : List A) :
    accepts (Src.AnyOf.Matches (look f) () xs) = some (xs.isEmpty || xs.any fun a => (f a).isNone) := by
  obtain ⟨r, hr, hn⟩ := c03_src_anyOf_returns f xs
  simp [accepts, hr, hn]

/-- **No condition behind the first refusal is asked**: with conditions that log their being asked into the context,
`compositeMatcher.Matches` leaves exactly the conditions up to and including the first refusing one in the log. -/
theorem c03_src_allOf_asks_prefix (f : A → Option Err) (xs : List A) (log : List A) :
    Src.AllOf.Matches (PV := Unit) (fun a c => .done (f a) (c ++ [a])) () xs log
      = .done (xs.findSome? f)
          (log ++ (match xs.findIdx? (fun a => (f a).isSome) with | some i => xs.take (i + 1) | none => xs)) := by
  unfold Src.AllOf.Matches
  generalize (xs.length : Int) = n
  induction xs generalizing log with
  | nil => simp [Src.AllOf.Matches_loop, Go.pure]
  | cons a xs ih =>
    unfold Src.AllOf.Matches_loop
    cases h : f a with
    | some e => simp [Go.bind, Go.pure, Go.cond_app, h, List.findSome?, List.findIdx?_cons]
    | none =>
      simp only [Go.bind, Go.cond_app, h, Option.isSome_none, Option.isNone_none, cond_false, cond_true, ih,
        List.findSome?, List.findIdx?_cons]
      cases hi : xs.findIdx? (fun a => (f a).isSome) <;> simp [hi]

/-- **A panicking condition is not swallowed**: when the conditions before it accept, the panic of a condition leaves
`compositeMatcher.Matches` as a panic (never as an acceptance). -/
theorem c03_src_allOf_panic_propagates {PV : Type} [DecidableEq A] (f : A → Option Err) (pre post : List A) (bad : A) (v : PV)
    (hpre : ∀ a ∈ pre, f a = none) (nd : PV) :
    Src.AllOf.Matches (Ctx := Unit) (fun a => if a = bad then Go.panic v else Go.pure (f a)) nd (pre ++ bad :: post) ()
      = .panic v () ∨ bad ∈ pre := by
  by_cases hb : bad ∈ pre
  · exact Or.inr hb
  left
  unfold Src.AllOf.Matches
  generalize ((pre ++ bad :: post).length : Int) = n
  induction pre with
  | nil => simp [Src.AllOf.Matches_loop, Go.bind, Go.panic]
  | cons a pre ih =>
    have hne : a ≠ bad := fun h => hb (by simp [h])
    have ha : f a = none := hpre a (by simp)
    simp only [List.cons_append, Src.AllOf.Matches_loop, Go.bind, Go.cond_app, hne, if_false, Go.pure, ha,
      Option.isSome_none, Option.isNone_none, cond_false, cond_true]
    exact ih (fun x hx => hpre x (by simp [hx])) (fun h => hb (by simp [h]))

end Generic

/-! ## The four kinds of condition -/

/-- `schemeMatcher.Matches` accepts iff no scheme is demanded or the request has it (`schemeOk`). -/
theorem c03_src_scheme (r : RouteM) (q : ReqView) : accepts (schemeSrc r q) = some (schemeOk r q) := by
  unfold accepts schemeSrc Src.Scheme.Matches schemeOk
  cases h1 : r.scheme.isEmpty <;> cases h2 : (r.scheme == q.scheme) <;> simp [Go.pure, h1, h2, bne]

/-- `methodMatcher.Matches` accepts iff the list is empty or contains the request's method (`methodOk`). -/
theorem c03_src_method (r : RouteM) (q : ReqView) : accepts (methodSrc r q) = some (methodOk r q) := by
  unfold accepts methodSrc Src.Method.Matches methodOk
  cases h1 : r.methods.isEmpty <;> cases h2 : r.methods.contains q.method <;> simp [Go.pure, h1, h2]

/-- `hostMatcher.Matches` accepts iff the expression matches the request's host. -/
theorem c03_src_host (q : ReqView) (h : TM) : accepts (hostSrc q h) = some (h.matches q.host) := by
  unfold accepts hostSrc Src.Host.Matches
  cases h1 : h.matches q.host <;> simp [Go.pure, h1]

/-- `slices.Index` + `values[idx]` is the model's lookup by name, given a value for every name -/
theorem c03_src_lookup (name : String) (keys caps : List String) (hlen : keys.length ≤ caps.length) :
    lookupKey keys caps name
      = if indexOf name keys = -1 then none else some (valueAt caps (indexOf name keys)) := by
  induction keys generalizing caps with
  | nil => simp [lookupKey, indexOf]
  | cons k ks ih =>
    cases caps with
    | nil => simp at hlen
    | cons c cs =>
      have hl : ks.length ≤ cs.length := by simpa using hlen
      have ih' := ih cs hl
      have hnn : 0 ≤ indexOf name ks ∨ indexOf name ks = -1 := by
        clear ih ih' hl hlen
        induction ks with
        | nil => simp [indexOf]
        | cons a as iha =>
          unfold indexOf
          split
          · simp
          · split <;> omega
      unfold lookupKey indexOf
      by_cases hk : k = name
      · simp [hk, valueAt]
      · simp only [hk, if_false, ih']
        by_cases hm : indexOf name ks = -1
        · simp [hm]
        · have h0 : 0 ≤ indexOf name ks := by omega
          have hne : indexOf name ks + 1 ≠ -1 := by omega
          simp only [hm, if_false, hne]
          have : (indexOf name ks + 1).toNat = (indexOf name ks).toNat + 1 := by omega
          simp [valueAt, this]

/-- `pathParamMatcher.Matches` accepts iff `ppOk` of the model: the named wildcard exists, under `off` the raw path has
no encoded slash, and the expression matches the value - decoded when the request has a raw path. -/
theorem c03_src_pp (esh : SlashHandling) (q : ReqView) (keys caps : List String) (pp : String × TM)
    (hlen : keys.length ≤ caps.length) :
    accepts (ppSrc esh q keys caps pp) = some (ppOk esh q keys caps pp) := by
  unfold accepts ppSrc Src.PathParam.Matches ppOk
  rw [c03_src_lookup pp.1 keys caps hlen]
  by_cases hi : indexOf pp.1 keys = -1
  · simp [hi, Go.pure]
  · simp only [hi, decide_false, cond_false, if_false]
    cases hr : q.rawPath.isEmpty <;> cases he : (esh == SlashHandling.off) <;>
      cases hs : containsEncodedSlash q.rawPath <;>
      cases hm1 : pp.2.matches (valueAt caps (indexOf pp.1 keys)) <;>
      cases hm2 : pp.2.matches (unescapeCapture esh (valueAt caps (indexOf pp.1 keys))) <;>
      simp_all [Go.pure]

/-! ## The matcher of a route -/

/-- what a condition that neither panics nor touches the context reported -/
def resOf {Err : Type} (m : Go.M Unit Unit (Option Err)) : Option Err :=
  match m () with
  | .done e _ => e
  | .panic _ _ => none

/-- what `hostMatcher.Matches` reports -/
def hostRes (q : ReqView) (h : TM) : Option Refusal := bif h.matches q.host then none else some Refusal.host

theorem hostSrc_look (q : ReqView) : hostSrc q = look (hostRes q) := by
  funext h
  simp only [hostSrc, Src.Host.Matches, look, hostRes]
  cases h.matches q.host <;> rfl

theorem c03_src_pp_returns (esh : SlashHandling) (q : ReqView) (keys caps : List String) (pp : String × TM) :
    ∃ e, ppSrc esh q keys caps pp () = .done e () := by
  unfold ppSrc Src.PathParam.Matches
  simp only [Bool.cond_eq_ite]
  repeat' split
  all_goals exact ⟨_, rfl⟩

/-- **The matcher `CreateRule` assembles from the translated functions accepts exactly when `routeMatches` does**:
scheme ∧ method ∧ (no hosts ∨ some host) ∧ every path parameter - for any number of hosts and path parameters. -/
theorem c03_src_route (r : RouteM) (q : ReqView) (keys caps : List String) (hlen : keys.length ≤ caps.length) :
    accepts (routeSrc r q keys caps) = some (routeMatches r q keys caps) := by
  have hs := c03_src_scheme r q
  have hm := c03_src_method r q
  have hh : accepts (Src.AnyOf.Matches (hostSrc q) () r.hosts) = some (hostOk r q) := by
    have hfun := hostSrc_look q
    rw [hfun, c03_src_anyOf_accepts_iff_any]
    unfold hostOk
    congr 2
    apply congrArg (fun f => r.hosts.any f)
    funext h
    simp only [hostRes]
    cases h.matches q.host <;> rfl
  have hp : accepts (Src.AllOf.Matches (ppSrc r.esh q keys caps) () r.pps)
      = some (r.pps.all (ppOk r.esh q keys caps)) := by
    have hfun : ppSrc r.esh q keys caps = look (fun pp => resOf (ppSrc r.esh q keys caps pp)) := by
      funext pp u
      cases u
      obtain ⟨e, he⟩ := c03_src_pp_returns r.esh q keys caps pp
      simp only [look, resOf, he, Go.pure]
    rw [hfun, c03_src_allOf_accepts_iff_all]
    congr 1
    apply List.all_congr rfl
    intro pp
    have := c03_src_pp r.esh q keys caps pp hlen
    obtain ⟨e, he⟩ := c03_src_pp_returns r.esh q keys caps pp
    simp only [accepts, he, Option.some.injEq] at this
    simp only [resOf, he, this]
  -- every one of the four conditions returns (no panic), so the outer loop is a plain conjunction
  have hs' : ∃ e, schemeSrc r q () = .done e () := by
    unfold schemeSrc Src.Scheme.Matches; simp only [Bool.cond_eq_ite]; repeat' split
    all_goals exact ⟨_, rfl⟩
  have hm' : ∃ e, methodSrc r q () = .done e () := by
    unfold methodSrc Src.Method.Matches; simp only [Bool.cond_eq_ite]; repeat' split
    all_goals exact ⟨_, rfl⟩
  have hh' : ∃ e, Src.AnyOf.Matches (hostSrc q) () r.hosts () = .done e () := by
    have hfun := hostSrc_look q
    rw [hfun]; obtain ⟨r, hr, _⟩ := c03_src_anyOf_returns (hostRes q) r.hosts; exact ⟨r, hr⟩
  have hp' : ∃ e, Src.AllOf.Matches (ppSrc r.esh q keys caps) () r.pps () = .done e () := by
    have hfun : ppSrc r.esh q keys caps = look (fun pp => resOf (ppSrc r.esh q keys caps pp)) := by
      funext pp u
      cases u
      obtain ⟨e, he⟩ := c03_src_pp_returns r.esh q keys caps pp
      simp only [look, resOf, he, Go.pure]
    rw [hfun]; exact ⟨_, c03_src_allOf_first_refusal _ _⟩
  obtain ⟨es, hes⟩ := hs'
  obtain ⟨em, hem⟩ := hm'
  obtain ⟨eh, heh⟩ := hh'
  obtain ⟨ep, hep⟩ := hp'
  simp only [accepts, hes, hem, heh, hep, Option.some.injEq] at hs hm hh hp
  unfold routeSrc Src.AllOf.Matches routeMatches
  simp only [accepts, Src.AllOf.Matches_loop, condSrc, ← hs, ← hm, ← hh, ← hp]
  cases es <;> cases em <;> cases eh <;> cases ep <;>
    simp [Go.pure, Go.bind, Go.cond_app, hes, hem, heh, hep]

/-- the hypotheses of `c03_src_route` are met by a route with two hosts and a path parameter, and the translated
matcher decides it as the model does (evaluated) -/
example :
    let r : RouteM := { scheme := "https", methods := ["GET", "POST"], hosts := [.exact "a.example", .exact "b.example"],
                        pps := [("id", .exact "4 2")], esh := .off }
    let q : ReqView := { method := "GET", scheme := "https", host := "b.example", rawPath := "/u/4%202", path := "/u/4 2" }
    accepts (routeSrc r q ["id"] ["4%202"]) = some true ∧ routeMatches r q ["id"] ["4%202"] = true
      ∧ accepts (routeSrc r { q with host := "c.example" } ["id"] ["4%202"]) = some false := by
  decide

end Heimdall.Props.C03
