import HeimdallModel.Lemmas.RTreeSim
/-!
# C02 / C06 on the byte-level radix tree

`Model/RTree.lean` is a byte-level transcription of `internal/x/radixtree/tree.go` (static children with shared
prefixes, prefix splitting, child priorities, node merging on delete), tied to the Go tree by a *structural*
correspondence check (complete tree dumps after every batch of operations).  The theorems below are the refinement
of that model to the token-level table model the other C02 / C06 theorems are about: the abstraction to a table is
no longer only validated by testing, it is proved.
-/
namespace Heimdall.Props.C02Byte
open Heimdall Heimdall.RTree

variable {V : Type}

/-- the empty tree is well formed -/
theorem c02_byte_wf_empty : WF (empty : RTree V) := wf_empty

/-- **Lookup refines the table model**: on every well-formed byte-level tree, for every path and matcher,
`findNode` returns exactly (same value, keys, captured values, backtracking flag) what the table model's `find`
returns on the abstraction of the tree. -/
theorem c02_byte_find_refines (t : RTree V) (h : t.WF) (m : V → List String → List String → Bool) (path : String) :
    findNode m t path.toList [] = Heimdall.find m t.abs (tokenize path) [] :=
  rtree_find_refines t h m path

/-- `Add` keeps the tree well formed and commutes with the abstraction (same success, same error, same nodes) -/
theorem c02_byte_add_refines (canAdd : List V → V → Bool) (t : RTree V) (h : t.WF) (expr : String) (v : V) (bt : Bool) :
    (∀ t', RTree.add canAdd t expr v bt = .ok t' → t'.WF) ∧
    match RTree.add canAdd t expr v bt, Heimdall.add canAdd t.abs expr v bt with
    | .ok t', .ok T' => ∀ p, getNode t'.abs p = getNode T' p
    | .error e, .error e' => e = e'
    | _, _ => False :=
  ⟨fun t' h' => add_wf canAdd t t' expr v bt h h', rtree_add_refines canAdd t h expr v bt⟩

/-- `Delete` keeps the tree well formed and commutes with the abstraction -/
theorem c02_byte_delete_refines (t : RTree V) (h : t.WF) (expr : String) (p : V → Bool) :
    (∀ t', RTree.delete t expr p = some t' → t'.WF) ∧
    match RTree.delete t expr p, Heimdall.del t.abs expr p with
    | some t', some T' => ∀ q, getNode t'.abs q = getNode T' q
    | none, none => True
    | _, _ => False :=
  ⟨fun t' h' => delete_wf t t' expr p h h', rtree_delete_refines t h expr p⟩

/-- **Every history of `Add` / `Delete` calls** (failed calls discarded, as the repository discards its clone): the
byte-level tree stays well formed and answers every lookup exactly as the table model after the same calls. -/
theorem c02_byte_history_refines (canAdd : List V → V → Bool) (ops : List (TOp V))
    (m : V → List String → List String → Bool) (path : String) :
    (runR canAdd empty ops).WF ∧
    findNode m (runR canAdd empty ops) path.toList [] = Heimdall.find m (runT canAdd [] ops) (tokenize path) [] ∧
    RTree.find m (runR canAdd empty ops) path = lookup m (runT canAdd [] ops) path :=
  rtree_history_refines canAdd ops m path

/-- **Most specific match wins, on the byte-level tree** -/
theorem c02_byte_most_specific (t : RTree V) (h : t.WF) (m : V → List String → List String → Bool) (path : String)
    (f : Found V) (hf : (findNode m t path.toList []).1 = some f) :
    ∃ n ∈ t.abs, matchCaps n.pat (tokenize path) = some f.caps ∧ f.keys = n.keys ∧
      n.values.find? (fun v => m v n.keys f.caps) = some f.value ∧
      ∀ n' ∈ t.abs, ∀ caps', matchCaps n'.pat (tokenize path) = some caps' → specLt n'.pat n.pat = true →
        accepts m n' caps' = false ∧ n'.bt = true :=
  rtree_most_specific t h m path f hf

example : exampleTree.WF := by decide

end Heimdall.Props.C02Byte
