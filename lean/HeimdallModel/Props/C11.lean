import HeimdallModel.Lemmas.CacheExec
import HeimdallModel.Lemmas.CacheReload
import HeimdallModel.Spec.CacheDeps
import HeimdallModel.Gen.CacheKeys
import HeimdallModel.Spec.CacheWitness
/-!
# C11 — cached results are reused exactly for requests equal in all they depend on

* Model: `Model/CacheKey.lean` (what a key function writes into its hash; the field lists are regenerated from the Go
  source into `Gen/CacheKeys.lean`), `Model/CacheExec.lean` (lookup / remote call / validation / store).
* Spec: `Spec/CacheReuse.lean` (`direct`, `Transparent`, `KeySoundOn`), `Spec/CacheDeps.lean` (what a fresh
  evaluation reads, per mechanism), `Spec/CacheWitness.lean` (concrete values used by the examples).

All statements hold for an arbitrary hash function `H`; where the code relies on SHA-256 being collision free the
statement says so explicitly (`NoCollisionOn`, or a disjunct exhibiting the colliding pre-images).
-/
namespace Heimdall.Props.C11
open Heimdall.CacheKey Heimdall.CacheExec Heimdall.CacheExec.Witness Heimdall.Gen.CacheKeys

/-! ## Keys: unique decoding, determinism -/

/-- A delimited field list (self-delimiting writes, at most one trailing plain value) determines every value written:
two evaluations that feed the same bytes into the hash agree on every field. Any number of fields, list entries, map
entries, any byte strings. -/
theorem c11_key_injective (fs : List Field) (hd : delimited fs = true) (env env' : Env)
    (hw : wt fs env = true) (hw' : wt fs env' = true) (h : encode fs env = encode fs env') :
    ∀ f ∈ fs, f.dep.view env = f.dep.view env' :=
  encode_inj fs hd env env' hw hw' h

set_option maxRecDepth 8000 in
/-- hypotheses of `c11_key_injective` hold for the remote authorizer of the current source and two requests that differ
only by a shifted key/value boundary — and the written bytes do differ -/
example : delimited remoteAuthorizer = true ∧ wt remoteAuthorizer envA = true ∧ wt remoteAuthorizer envB = true ∧
    encode remoteAuthorizer envA ≠ encode remoteAuthorizer envB := by decide

/-- without delimiters the hypothesis fails and so does the conclusion: client `ab`/secret `c`/scopes `[a, b]` and client
`a`/secret `bc`/scopes `[ab]` fed the same bytes into the hash of the original code -/
example : delimited legacyClientCredentials = false ∧
    encode legacyClientCredentials
      { str := fun s => if s = "c.ClientID" then [97, 98] else if s = "c.ClientSecret" then [99] else [],
        lst := fun s => if s = "c.Scopes" then [[97], [98]] else [] } =
    encode legacyClientCredentials
      { str := fun s => if s = "c.ClientID" then [97] else if s = "c.ClientSecret" then [98, 99] else [],
        lst := fun s => if s = "c.Scopes" then [[97, 98]] else [] } := by decide

/-- Equal keys mean equal inputs, or a collision of the hash function has been found. -/
theorem c11_key_separates (H : Bytes → Bytes) (fs : List Field) (hd : delimited fs = true) (env env' : Env)
    (hw : wt fs env = true) (hw' : wt fs env' = true) (h : key H fs env = key H fs env') :
    (∀ f ∈ fs, f.dep.view env = f.dep.view env') ∨
      (encode fs env ≠ encode fs env' ∧ H (encode fs env) = H (encode fs env')) := by
  by_cases he : encode fs env = encode fs env'
  · exact Or.inl (encode_inj fs hd env env' hw hw' he)
  · exact Or.inr ⟨he, h⟩

/-- A field list without a direct range over a Go map yields the same key whatever order the runtime iterates the maps
in (any number of headers / values). -/
theorem c11_key_deterministic (H : Bytes → Bytes) (fs : List Field) (ho : ordered fs = true) (env env' : Env)
    (hr : Reorder env env') (hn : env.nodupKeys) : key H fs env = key H fs env' := by
  simp only [key, encode_reorder ho hr hn]

/-- hypotheses of `c11_key_deterministic`: three values iterated in opposite orders -/
example : ordered remoteAuthorizer = true ∧ Reorder envA envA' ∧ envA.nodupKeys :=
  ⟨by decide, ⟨rfl, rfl, rfl, rfl, fun _ => (List.reverse_perm _).symm⟩,
   fun s => by by_cases h : s = "values" <;> simp [envA, h]⟩

/-- …and that condition is needed: a direct range over a map (as in the original `Endpoint.Hash` and
`calculateCacheKey`) makes the written bytes depend on the iteration order as soon as the map has two entries. -/
theorem c11_unordered_map_order_dependent (pre post : List Field) (s : String) (ho : ordered pre = true) :
    ∃ env env' : Env, Reorder env env' ∧ env.nodupKeys ∧
      encode (pre ++ .mapRaw s :: post) env ≠ encode (pre ++ .mapRaw s :: post) env' := by
  let m : List (Bytes × Bytes) := [([1], []), ([2], [])]
  let env : Env := { map := fun _ => m }
  let env' : Env := { map := fun _ => m.reverse }
  have hr : Reorder env env' := ⟨rfl, rfl, rfl, rfl, fun _ => (List.reverse_perm m).symm⟩
  have hm : (m.map Prod.fst).Nodup := by decide
  have hn : env.nodupKeys := fun _ => hm
  refine ⟨env, env', hr, hn, ?_⟩
  have hpre : encode pre env = encode pre env' := encode_reorder ho hr hn
  intro h
  have h' : encode pre env ++ ([1, 2] ++ encode post env) = encode pre env' ++ ([2, 1] ++ encode post env') := by
    simpa [encode, flat, encField, env, env', m] using h
  rw [hpre] at h'
  have := List.append_cancel_left h'
  simp at this

/-- the original `Endpoint.Hash` has that shape (`pre` = url and method), e.g. with the two default headers of the
introspection endpoint -/
example : legacyEndpoint = [.raw "e.URL", .raw "e.Method"] ++ .mapRaw "e.Headers" ::
    [.opt "e.AuthStrategy != nil" (.fixed 32 "e.AuthStrategy.Hash()")] ∧ ordered [.raw "e.URL", .raw "e.Method"] = true :=
  ⟨rfl, by decide⟩

/-! ## Mechanisms: enabling the cache never changes a decision -/

/-- **Transparency.** If a value read back from the cache is the value that was stored (`Lossless`), equal keys imply
equal fresh results, and the rule-level validation is either repeated on a hit or the same for requests with equal keys, then in every history (any length, any times, any mix of rules and requests)
every request observes exactly the decision it would get without a cache. -/
theorem c11_transparent {Req Resp : Type} (m : Mech Req Resp) (h : List (Nat × Req)) (hl : Lossless m)
    (hs : KeySoundOn m (h.map (·.2))) : Transparent m h :=
  run_sound m hl (h.map (·.2)) hs h Store.empty (inv_empty m _)
    (fun tr htr => List.mem_map.mpr ⟨tr, htr, rfl⟩)

/-- `KeySoundOn` holds for `demo true` on a history in which rule 5 asks for a token cached under rule 1, and the
decisions are those of the uncached mechanism (the third request is rejected although it hits) -/
example : Lossless (demo true) ∧ KeySoundOn (demo true) ([(0, (3, 1)), (1, (3, 1)), (2, (3, 5)), (3, (9, 5))].map (·.2)) ∧
    (run (demo true) Store.empty [(0, (3, 1)), (1, (3, 1)), (2, (3, 5)), (3, (9, 5))]).map (fun s => (s.out, s.hit)) =
      [(.ok 3, false), (.ok 3, true), (.rejected, true), (.ok 9, false)] := by
  refine ⟨fun _ => rfl, ?_, by decide⟩
  intro r _ r' _ hk
  have : r.1 = r'.1 := by simpa [demo] using congrArg List.length hk
  exact ⟨by simp [demo, this], Or.inl rfl⟩

/-- `Lossless` is needed: if the serialisation used for caching changes a value (the remote authorizer and the generic
contextualizer cached a YAML or form payload as JSON, see fixes/C11-7), the identical request is decided differently
once it is answered from the cache — with a sound key and validation repeated on every hit. -/
theorem c11_lossy_cache_changes_decision :
    KeySoundOn lossy ([(0, (3, 3)), (1, (3, 3))].map (·.2)) ∧ ¬ Transparent lossy [(0, (3, 3)), (1, (3, 3))] := by
  refine ⟨?_, by unfold Transparent; decide⟩
  intro r _ r' _ hk
  have : r.1 = r'.1 := by simpa [lossy, demo] using congrArg List.length hk
  exact ⟨by simp [lossy, demo, this], Or.inl rfl⟩

/-- Transparency for a mechanism whose key is `H` of a field list: decidable conditions on the (generated) field list,
the only assumption about `H` is that it does not collide on the byte strings of this history. -/
theorem c11_keyed_transparent {Resp : Type} (H : Bytes → Bytes) (fs : List Field) (deps : List Dep)
    (remote : List View → Option Resp) (accepts : Nat → Resp → Bool) (recheck : Bool) (h : List (Nat × KReq))
    (hd : delimited fs = true) (hc : covers deps fs = true)
    (hw : ∀ tr ∈ h, wt fs tr.2.env = true)
    (hH : NoCollisionOn H (h.map fun tr => encode fs tr.2.env))
    (hp : recheck = true ∨ ∀ p p' v, accepts p v = accepts p' v) :
    Transparent (keyed H fs deps remote accepts recheck) h := by
  apply c11_transparent _ _ (fun _ => rfl)
  apply keyed_sound H fs deps remote accepts recheck _ hd hc
  · intro r hr
    obtain ⟨tr, htr, rfl⟩ := List.mem_map.mp hr
    exact hw tr htr
  · simpa [List.map_map, Function.comp_def] using hH
  · exact hp

/-- hypotheses of `c11_keyed_transparent` for the introspection authenticator of the current source, `H` the identity:
the same token under two rules, then another token -/
example : ∃ h : List (Nat × KReq), h.length = 3 ∧ (∀ tr ∈ h, wt introspection tr.2.env = true) ∧
    NoCollisionOn id (h.map fun tr => encode introspection tr.2.env) ∧
    delimited introspection = true ∧ covers (deps "introspection") introspection = true := by
  let e (tok : Bytes) : Env := { str := fun s => if s = "token" then tok else if s = "id" then [105] else [] }
  refine ⟨[(0, ⟨e [116, 49], 0, true, 600⟩), (1, ⟨e [116, 49], 1, true, 600⟩), (2, ⟨e [116, 50], 1, true, 600⟩)], rfl,
    ?_, fun _ _ _ _ h => h, by decide, by decide⟩
  intro tr htr
  simp only [List.mem_cons, List.not_mem_nil, or_false] at htr
  rcases htr with rfl | rfl | rfl <;> decide

/-- The condition on validation is needed: a mechanism that neither repeats the rule-level validation on a hit nor
separates the rules by key (the original introspection authenticator and remote authorizer) hands a result accepted
under one rule to a request of a rule that rejects it. -/
theorem c11_policy_blind_reuse_changes_decision :
    (∀ r r', (demo false).key r = (demo false).key r' → (demo false).fresh r = (demo false).fresh r') ∧
      ¬ Transparent (demo false) [(0, (3, 1)), (1, (3, 5))] := by
  refine ⟨fun r r' hk => ?_, by unfold Transparent; decide⟩
  have : r.1 = r'.1 := by simpa [demo] using congrArg List.length hk
  simp [demo, this]

/-! ## Mechanisms: identical requests are answered from the cache -/

/-- **Reuse.** Once a request has been answered by the remote system and stored (cache enabled, lifetime `> 0`), then
in every continuation, every request mapped to the same key before the entry expires reaches the cache and causes no
remote call — whatever else happens in between. -/
theorem c11_reuse {Req Resp : Type} (m : Mech Req Resp) (st : Store Resp) (t : Nat) (r : Req) (v : Resp)
    (hmiss : (step m st t r).hit = false) (hok : (step m st t r).out = .ok v)
    (hen : m.enabled r = true) (httl : m.ttl r v > 0)
    (h : List (Nat × Req)) (hlive : ∀ tr ∈ h, tr.1 < t + m.ttl r v) :
    ∀ x ∈ (run m (step m st t r).store h).zip h, m.key x.2.2 = m.key r → m.enabled x.2.2 = true →
      x.1.calls = 0 ∧ x.1.hit = true :=
  run_keeps m (m.key r) ⟨v, t + m.ttl r v⟩ h _ (step_stores m st t r v hmiss hok hen httl) hlive

/-- hypotheses of `c11_reuse`: token 3 is fetched at time 0 (lifetime 10); at times 5 and 9 it is asked for again, once
under another rule — both are hits without a remote call -/
example : (step (demo true) Store.empty 0 (3, 1)).hit = false ∧ (step (demo true) Store.empty 0 (3, 1)).out = .ok 3 ∧
    (run (demo true) (step (demo true) Store.empty 0 (3, 1)).store [(5, (3, 1)), (9, (3, 2))]).map (fun s => (s.calls, s.hit)) =
      [(0, true), (0, true)] := by decide

/-- Identical requests hit: with an ordered field list a request carrying the same values — its maps iterated in any
other order — is mapped to the same key, hence answered from the cache within the lifetime. -/
theorem c11_identical_request_hits {Resp : Type} (H : Bytes → Bytes) (fs : List Field) (deps : List Dep)
    (remote : List View → Option Resp) (accepts : Nat → Resp → Bool) (recheck : Bool)
    (ho : ordered fs = true) (st : Store Resp) (t : Nat) (r : KReq) (v : Resp)
    (hmiss : (step (keyed H fs deps remote accepts recheck) st t r).hit = false)
    (hok : (step (keyed H fs deps remote accepts recheck) st t r).out = .ok v)
    (hen : r.enabled = true) (httl : r.ttl > 0) (hn : r.env.nodupKeys)
    (t' : Nat) (hlive : t' < t + r.ttl) (r' : KReq) (hr : Reorder r.env r'.env) (hen' : r'.enabled = true) :
    let m := keyed H fs deps remote accepts recheck
    (step m (step m st t r).store t' r').calls = 0 ∧ (step m (step m st t r).store t' r').hit = true := by
  intro m
  have hk : m.key r' = m.key r := (c11_key_deterministic H fs ho r.env r'.env hr hn).symm
  have hs := step_stores m st t r v hmiss hok hen httl
  exact (step_keeps m _ (m.key r) ⟨v, t + r.ttl⟩ hs t' hlive r').2 hk hen'

set_option maxRecDepth 8000 in
/-- hypotheses of `c11_identical_request_hits`: the remote authorizer of the current source, the request `envA` answered
at time 0 and repeated at time 7 with its values iterated in the opposite order -/
example :
    let m : Mech KReq (List View) := keyed id remoteAuthorizer (deps "remoteAuthorizer") some (fun _ _ => true) true
    (step m Store.empty 0 ⟨envA, 0, true, 600⟩).hit = false ∧
    (step m Store.empty 0 ⟨envA, 0, true, 600⟩).out = .ok ((deps "remoteAuthorizer").map (·.view envA)) ∧
    (step m (step m Store.empty 0 ⟨envA, 0, true, 600⟩).store 7 ⟨envA', 0, true, 600⟩).hit = true := by decide

/-! ## The key functions of the current source (regenerated on every run) -/

/-- every key function of the current source can be decoded uniquely -/
theorem c11_generated_keys_delimited : table.all (fun e => delimited e.2) = true := by decide

/-- no key function of the current source depends on map iteration order -/
theorem c11_generated_keys_ordered : table.all (fun e => ordered e.2) = true := by decide

/-- every key function of the current source writes everything a fresh evaluation reads -/
theorem c11_generated_keys_cover_deps : table.all (fun e => covers (deps e.1) e.2) = true := by decide

/-- no entry of the table lacks a dependency list (a missing clause of `deps` would make `covers` vacuous) -/
theorem c11_generated_keys_have_deps : table.all (fun e => !(deps e.1).isEmpty) = true := by decide

/-- mechanisms with rule-level assertions / expressions repeat them on every pass through the cache-hit path -/
theorem c11_generated_policy_rechecked_on_hit :
    rechecked.all (fun p => recheckOf hitPath p.1) = true := by decide

/-- validation that is not repeated on a hit precedes storing, under no other condition than the configuration of the
mechanism it belongs to -/
theorem c11_generated_validated_before_stored :
    validatedBeforeStored.all (fun p => (missPath.lookup p.1).any (before p.2)) = true := by decide

/-- every function of the current source that uses the cache of the request context is one of those covered here -/
theorem c11_generated_cache_sites_known : cacheSites.all (knownCacheSites.contains ·) = true := by decide

/-! ## One cache shared by all its users -/

/-- Key functions starting with different constants never feed the same bytes into the hash, whatever else they write
and whatever the values are. -/
theorem c11_distinct_tags_separate (a b : Bytes) (r r' : List Field) (env env' : Env) (hab : a ≠ b)
    (ha : a.length < limit) (hb : b.length < limit) :
    encode (.tag a :: r) env ≠ encode (.tag b :: r') env' := by
  intro h
  have h' : lpB a ++ encode r env = lpB b ++ encode r' env' := by simpa [encode, flat, encField] using h
  exact hab (sd_lpB a b _ _ ha hb h').1

/-- hypotheses of `c11_distinct_tags_separate`: the constant of the HTTP cache of the current source and another one -/
example : tagOf httpCache = some [82, 70, 67, 32, 55, 50, 51, 52] ∧ ([82, 70, 67, 32, 55, 50, 51, 52] : Bytes) ≠ [1] := by
  decide

/-- `usersSeparated` is satisfiable: every user of the cache starting with a constant of its own (the shape proposed by
fixes/C11-9) -/
example : usersSeparated taggedTable = true := by decide

/-- If every function whose result is used as a key of the shared cache starts with a constant of its own
(`usersSeparated`, decidable on the generated table and reported in the evidence as `key_users_domain_separated`; it
holds with fixes/C11-9 applied), two different users of the cache — mechanisms of different kinds with the same id,
endpoint and request included — get equal keys only by a collision of the hash function. Without such constants the
users are kept apart by the mechanism id and the shape of what they write only. -/
theorem c11_current_source_users_separate (table : List (String × List Field)) (hsep : usersSeparated table = true)
    (H : Bytes → Bytes) (n n' : String) (fs fs' : List Field) (env env' : Env)
    (hn : n ∈ keyUsers) (hn' : n' ∈ keyUsers) (hne : n ≠ n')
    (hf : table.lookup n = some fs) (hf' : table.lookup n' = some fs') (hk : key H fs env = key H fs' env') :
    encode fs env ≠ encode fs' env' ∧ H (encode fs env) = H (encode fs' env') := by
  refine ⟨?_, hk⟩
  have h1 := List.all_eq_true.mp (List.all_eq_true.mp hsep n hn) n' hn'
  simp only [Bool.or_eq_true, beq_iff_eq, hf, hf', Option.bind_some] at h1
  rcases h1 with h1 | h1
  · exact absurd h1 hne
  · cases ha : tagOf fs with
    | none => simp [ha] at h1
    | some a =>
      cases hb : tagOf fs' with
      | none => simp [ha, hb] at h1
      | some b =>
        simp only [ha, hb, Bool.and_eq_true, bne_iff_ne, ne_eq, decide_eq_true_eq] at h1
        obtain ⟨r, rfl⟩ := tagOf_some ha
        obtain ⟨r', rfl⟩ := tagOf_some hb
        exact c11_distinct_tags_separate a b r r' env env' h1.1.1 h1.1.2 h1.2

/-! ## Nested digests -/

/-- A digest written into a key stands for the object it was computed from: if the source `s` of the outer function
holds `H` of the bytes an inner (delimited) key function writes — `sub.Hash()`, `a.e.Hash()`, `f.signer.Hash()`,
template hashes — then equal outer keys mean that the inner objects agree on every field, or one of the two pairs of
byte strings is a collision of `H`. -/
theorem c11_nested_digest (H : Bytes → Bytes) (outer inner : List Field) (s : String) (env env' ei ei' : Env)
    (ho : delimited outer = true) (hi : delimited inner = true) (hs : Field.lp s ∈ outer)
    (hw : wt outer env = true) (hw' : wt outer env' = true) (hwi : wt inner ei = true) (hwi' : wt inner ei' = true)
    (hd : env.str s = key H inner ei) (hd' : env'.str s = key H inner ei')
    (hk : key H outer env = key H outer env') :
    (∀ f ∈ inner, f.dep.view ei = f.dep.view ei') ∨
      (encode outer env ≠ encode outer env' ∧ H (encode outer env) = H (encode outer env')) ∨
      (encode inner ei ≠ encode inner ei' ∧ H (encode inner ei) = H (encode inner ei')) := by
  rcases c11_key_separates H outer ho env env' hw hw' hk with h | h
  · have hv := h (.lp s) hs
    have hb : env.str s = env'.str s := by simpa [Field.dep, Dep.view] using hv
    rw [hd, hd'] at hb
    rcases c11_key_separates H inner hi ei ei' hwi hwi' hb with h2 | h2
    · exact Or.inl h2
    · exact Or.inr (Or.inr h2)
  · exact Or.inr (Or.inl h)

/-- hypotheses of `c11_nested_digest` with `H` the identity: an outer key writing the digest of a one-field object -/
example : ∃ (env env' ei ei' : Env),
    delimited [Field.lp "d", .lp "x"] = true ∧ delimited [Field.raw "o"] = true ∧
    wt [Field.lp "d", .lp "x"] env = true ∧ wt [Field.lp "d", .lp "x"] env' = true ∧
    env.str "d" = key id [Field.raw "o"] ei ∧ env'.str "d" = key id [Field.raw "o"] ei' ∧
    key id [Field.lp "d", .lp "x"] env = key id [Field.lp "d", .lp "x"] env' :=
  ⟨{ str := fun s => if s = "d" then [7, 8] else [1] }, { str := fun s => if s = "d" then [7, 8] else [1] },
   { str := fun _ => [7, 8] }, { str := fun _ => [7, 8] }, by decide, by decide, by decide, by decide, by decide,
   by decide, by decide⟩

/-- the nested digests of the current source: every `….Hash()` a mechanism key writes is a length-prefixed field, and
the function computing it is delimited (so `c11_nested_digest` applies to subject, endpoint, signer, strategies, templates) -/
example : Field.lp "subject" ∈ remoteAuthorizer ∧ Field.lp "endpoint" ∈ remoteAuthorizer ∧
    Field.lp "subject" ∈ jwtFinalizer ∧ Field.lp "signer" ∈ jwtFinalizer ∧
    delimited subject = true ∧ delimited endpoint = true ∧ delimited jwtSigner = true ∧ delimited template = true := by
  decide

/-! ## The mechanisms of the current source -/

/-- **Every key function of the current source**, used as the key of a caching mechanism that repeats its rule-level
validation on a hit exactly if the *extracted* hit path does so on every pass: in every history the decisions are those
of the uncached mechanism. (`name` ranges over the generated table: the six mechanisms, client credentials, the HTTP
cache.) If the source stops re-validating, `recheckOf hitPath name` becomes `false` and the statement only covers
validation that does not depend on the rule. -/
theorem c11_current_source_transparent {Resp : Type} (H : Bytes → Bytes) (name : String) (fs : List Field)
    (hf : table.lookup name = some fs) (remote : List View → Option Resp) (accepts : Nat → Resp → Bool)
    (h : List (Nat × KReq)) (hw : ∀ tr ∈ h, wt fs tr.2.env = true)
    (hH : NoCollisionOn H (h.map fun tr => encode fs tr.2.env))
    (hp : recheckOf hitPath name = true ∨ ∀ p p' v, accepts p v = accepts p' v) :
    Transparent (keyed H fs (deps name) remote accepts (recheckOf hitPath name)) h := by
  have hm := mem_of_lookup table name fs hf
  have hd := List.all_eq_true.mp c11_generated_keys_delimited _ hm
  have hc := List.all_eq_true.mp c11_generated_keys_cover_deps _ hm
  exact c11_keyed_transparent H fs _ remote accepts _ h hd hc hw hH hp

/-- The introspection authenticator of the current source: in every history over any rules (assertions), tokens and
endpoint configurations the decision with the cache equals the decision without it. -/
theorem c11_introspection_transparent {Resp : Type} (H : Bytes → Bytes) (remote : List View → Option Resp)
    (accepts : Nat → Resp → Bool) (h : List (Nat × KReq))
    (hw : ∀ tr ∈ h, wt introspection tr.2.env = true)
    (hH : NoCollisionOn H (h.map fun tr => encode introspection tr.2.env)) :
    Transparent (keyed H introspection (deps "introspection") remote accepts (recheckOf hitPath "introspection")) h :=
  c11_current_source_transparent H "introspection" introspection (by decide) remote accepts h hw hH (Or.inl (by decide))

/-- The remote authorizer of the current source, any rules (expressions, payloads, values), subjects and requests. -/
theorem c11_remote_authorizer_transparent {Resp : Type} (H : Bytes → Bytes) (remote : List View → Option Resp)
    (accepts : Nat → Resp → Bool) (h : List (Nat × KReq))
    (hw : ∀ tr ∈ h, wt remoteAuthorizer tr.2.env = true)
    (hH : NoCollisionOn H (h.map fun tr => encode remoteAuthorizer tr.2.env)) :
    Transparent (keyed H remoteAuthorizer (deps "remoteAuthorizer") remote accepts (recheckOf hitPath "remoteAuthorizer")) h :=
  c11_current_source_transparent H "remoteAuthorizer" remoteAuthorizer (by decide) remote accepts h hw hH (Or.inl (by decide))

/-! ## Reloadable state: what a key reads may change while the mechanism lives

The key store of the jwt finalizer's signer is watched; a change of the file replaces the signing key of the living
signer (`OnChanged → load`), the mechanism, its rule-level variants (they share the signer) and the cache stay. A history
is a list of requests and reloads (`Model/CacheReload.lean`). -/

/-- **Transparency across reloads.** If the key separates (state in force, request) pairs whose fresh evaluation or
validation could differ, then in every history of requests and reloads — any number of reloads, at any point, to any
state, roll-backs included — every request observes exactly the uncached decision *under the state in force when it is
made*: no request is handed a result computed under a state that has been replaced. -/
theorem c11_reload_transparent {St Req Resp : Type} (m : Mech (St × Req) Resp) (s₀ : St) (h : List (Event St Req))
    (hl : Lossless m) (hs : KeySoundOn m ((inForce s₀ h).map (·.2))) :
    (runEv m s₀ Store.empty h).map (·.out) = (inForce s₀ h).map fun x => direct m x.2 := by
  rw [runEv_eq_run]
  exact c11_transparent m _ hl hs

/-- hypotheses of `c11_reload_transparent` for `reloadDemo` (key and subject both written): subject 3 asks twice, reload
to key 2, asks again (a miss, token of key 2), roll-back to key 1, asks again (a hit: the entry of key 1 is still alive
and it is what a fresh evaluation would produce) -/
example : Lossless reloadDemo ∧ KeySoundOn reloadDemo ((inForce 1 reloadEvents).map (·.2)) ∧
    (runEv reloadDemo 1 Store.empty reloadEvents).map (fun x => (x.out, x.hit)) =
      [(.ok 13, false), (.ok 13, true), (.ok 23, false), (.ok 13, true)] := by
  refine ⟨fun _ => rfl, ?_, by decide⟩
  have hk : ∀ r ∈ (inForce 1 reloadEvents).map (·.2), ∀ r' ∈ (inForce 1 reloadEvents).map (·.2),
      reloadDemo.key r = reloadDemo.key r' → reloadDemo.fresh r = reloadDemo.fresh r' := by decide
  intro r hr r' hr' h
  exact ⟨hk r hr r' hr' h, Or.inl rfl⟩

/-- Transparency across reloads for a mechanism whose key is `H` of a field list, part of whose sources (`Overlay`:
the digest of the signer) is replaced by a reload: decidable conditions on the field list — the reloadable source is a
dependency like any other, so `covers` demands that it is written — and no collision of `H` on the byte strings of this
history. -/
theorem c11_reload_keyed_transparent {Resp : Type} (H : Bytes → Bytes) (fs : List Field) (deps : List Dep)
    (remote : List View → Option Resp) (accepts : Nat → Resp → Bool) (recheck : Bool) (s₀ : Overlay)
    (h : List (Event Overlay KReq)) (hd : delimited fs = true) (hc : covers deps fs = true)
    (hw : ∀ x ∈ inForce s₀ h, wt fs (x.2.2.env.withState x.2.1) = true)
    (hH : NoCollisionOn H ((inForce s₀ h).map fun x => encode fs (x.2.2.env.withState x.2.1)))
    (hp : recheck = true ∨ ∀ p p' v, accepts p v = accepts p' v) :
    (runEv (stateful (keyed H fs deps remote accepts recheck)) s₀ Store.empty h).map (·.out) =
      (inForce s₀ h).map fun x => direct (keyed H fs deps remote accepts recheck) (x.2.2.withState x.2.1) := by
  apply c11_reload_transparent (stateful (keyed H fs deps remote accepts recheck)) s₀ h (fun _ => rfl)
  apply stateful_sound
  apply keyed_sound H fs deps remote accepts recheck _ hd hc
  · intro r hr
    simp only [List.map_map, List.mem_map, Function.comp_apply] at hr
    obtain ⟨x, hx, rfl⟩ := hr
    exact hw x hx
  · simpa [List.map_map, Function.comp_def, KReq.withState] using hH
  · exact hp

/-- hypotheses of `c11_reload_keyed_transparent` for the jwt finalizer of the current source, `H` the identity: one
request, a reload replacing the digest of the signer, the same request again -/
example : ∃ (s₀ : Overlay) (h : List (Event Overlay KReq)), (inForce s₀ h).length = 2 ∧
    (∀ x ∈ inForce s₀ h, wt jwtFinalizer (x.2.2.env.withState x.2.1) = true) ∧
    NoCollisionOn id ((inForce s₀ h).map fun x => encode jwtFinalizer (x.2.2.env.withState x.2.1)) ∧
    delimited jwtFinalizer = true ∧ covers (deps "jwtFinalizer") jwtFinalizer = true := by
  let r : KReq := ⟨{ str := fun s => if s = "subject" then [117] else [] }, 0, true, 600⟩
  refine ⟨[("signer", [1])], [.req 0 r, .reload [("signer", [2])], .req 1 r], rfl, ?_, fun _ _ _ _ h => h,
    by decide, by decide⟩
  intro x hx
  simp only [inForce, List.mem_cons, List.not_mem_nil, or_false] at hx
  rcases hx with rfl | rfl <;> decide

/-- **A memoised state digest serves results of a replaced state.** Take any mechanism whose key function reads the
state through a value computed at first use and kept (`memoised`: a `sync.Once` around the digest of the signer), while
the evaluation itself reads the current state. Whenever a request `r` was answered `v` under state `s` and stored, and the
state is reloaded to `s'`, the same request within the lifetime is answered `v` from the cache — no remote call — whatever
a fresh evaluation under `s'` yields. -/
theorem c11_memoised_state_serves_stale_result {St Req Resp : Type} (m : Mech (St × Req) Resp) (hl : Lossless m)
    (s s' : St) (r : Req) (v : Resp) (t t' : Nat)
    (hf : m.fresh (s, r) = some v) (ha : m.accept (s, r) v = true)
    (hen : m.enabled (s, r) = true) (hen' : m.enabled (s', r) = true)
    (httl : m.ttl (s, r) v > 0) (hlive : t' < t + m.ttl (s, r) v)
    (hpass : m.recheck = false ∨ m.accept (s', r) v = true) :
    (runMemo m none s Store.empty [.req t r, .reload s', .req t' r]).map (fun x => (x.out, x.calls, x.hit)) =
      [(.ok v, 1, false), (.ok v, 0, true)] := by
  obtain ⟨h1, h2, h3, h4⟩ := memo_first m s r v t hf ha hen httl
  obtain ⟨h5, h6, h7⟩ := memo_hit m hl _ s s' r v t' _ h4 hlive hen' hpass
  simp [runMemo, h1, h2, h3, h5, h6, h7]

/-- …so such a mechanism is not transparent as soon as the reload changes what a fresh evaluation yields (another key
signs the token): the property needs the key to be derived from the state in force, `c11_reload_transparent`. -/
theorem c11_memoised_state_not_transparent {St Req Resp : Type} (m : Mech (St × Req) Resp) (hl : Lossless m)
    (s s' : St) (r : Req) (v : Resp) (t t' : Nat)
    (hf : m.fresh (s, r) = some v) (ha : m.accept (s, r) v = true)
    (hen : m.enabled (s, r) = true) (hen' : m.enabled (s', r) = true)
    (httl : m.ttl (s, r) v > 0) (hlive : t' < t + m.ttl (s, r) v)
    (hpass : m.recheck = false ∨ m.accept (s', r) v = true) (hstale : direct m (s', r) ≠ .ok v) :
    (runMemo m none s Store.empty [.req t r, .reload s', .req t' r]).map (·.out) ≠
      (inForce s [.req t r, .reload s', .req t' r]).map fun x => direct m x.2 := by
  have h := c11_memoised_state_serves_stale_result m hl s s' r v t t' hf ha hen hen' httl hlive hpass
  have h' : (runMemo m none s Store.empty [.req t r, .reload s', .req t' r]).map (·.out) = [.ok v, .ok v] := by
    have := congrArg (List.map Prod.fst) h
    simpa [List.map_map, Function.comp_def] using this
  rw [h']
  simp only [inForce, List.map_cons, List.map_nil]
  intro he
  have := (List.cons.inj (List.cons.inj he).2).1
  exact hstale this.symm

/-- hypotheses of `c11_memoised_state_not_transparent`: `reloadDemo` with a memoised key digest, subject 3 under key 1,
reload to key 2, subject 3 again: the token of key 1 is served where a fresh evaluation signs with key 2 -/
example : Lossless reloadDemo ∧ reloadDemo.fresh (1, 3) = some 13 ∧ direct reloadDemo (2, 3) ≠ .ok 13 ∧
    (runMemo reloadDemo none 1 Store.empty [.req 0 3, .reload 2, .req 1 3]).map (·.out) = [.ok 13, .ok 13] ∧
    (runEv reloadDemo 1 Store.empty [.req 0 3, .reload 2, .req 1 3]).map (·.out) = [.ok 13, .ok 23] := by
  refine ⟨fun _ => rfl, rfl, by decide, by decide, by decide⟩

/-- **Reuse across reloads.** Once a request has been answered and stored, then in every continuation of requests and
reloads (starting in any state), every request made before the entry expires whose key *under the state in force at its
time* equals the stored key is a hit without a remote call. In particular a reload that does not change what the key
reads (the file rewritten with the same key) or that restores an earlier state (roll-back) loses nothing. -/
theorem c11_reload_reuse {St Req Resp : Type} (m : Mech (St × Req) Resp) (st : Store Resp) (t : Nat) (s : St) (r : Req)
    (v : Resp) (hmiss : (step m st t (s, r)).hit = false) (hok : (step m st t (s, r)).out = .ok v)
    (hen : m.enabled (s, r) = true) (httl : m.ttl (s, r) v > 0)
    (s₁ : St) (h : List (Event St Req)) (hlive : ∀ x ∈ inForce s₁ h, x.1 < t + m.ttl (s, r) v) :
    ∀ x ∈ (runEv m s₁ (step m st t (s, r)).store h).zip (inForce s₁ h),
      m.key x.2.2 = m.key (s, r) → m.enabled x.2.2 = true → x.1.calls = 0 ∧ x.1.hit = true := by
  rw [runEv_eq_run]
  exact c11_reuse m st t (s, r) v hmiss hok hen httl (inForce s₁ h) hlive

/-- hypotheses of `c11_reload_reuse`: subject 3 answered under key 1 at time 0; reload to key 2, reload back to key 1,
subject 3 at time 5: a hit -/
example : (step reloadDemo Store.empty 0 (1, 3)).hit = false ∧ (step reloadDemo Store.empty 0 (1, 3)).out = .ok 13 ∧
    (runEv reloadDemo 1 (step reloadDemo Store.empty 0 (1, 3)).store [.reload 2, .reload 1, .req 5 3]).map
      (fun x => (x.calls, x.hit)) = [(0, true)] := by decide

/-- The digest of the signer of the current source (`jwtSigner.Hash`, regenerated) stands for the key material: two
signer states with the same digest agree on key id, algorithm, issuer and the thumbprint of the key — or the two byte
strings are a collision of `H`. A key store reloaded with another key under the same key id therefore changes the digest,
and with it (`c11_nested_digest`) the key of the finalizer. -/
theorem c11_signer_digest_determines_key_material (H : Bytes → Bytes) (es es' : Env)
    (hw : wt jwtSigner es = true) (hw' : wt jwtSigner es' = true) (hk : key H jwtSigner es = key H jwtSigner es') :
    (es.str "keyID" = es'.str "keyID" ∧ es.str "algorithm" = es'.str "algorithm" ∧ es.str "issuer" = es'.str "issuer" ∧
      es.str "thumbprint" = es'.str "thumbprint") ∨
    (encode jwtSigner es ≠ encode jwtSigner es' ∧ H (encode jwtSigner es) = H (encode jwtSigner es')) := by
  rcases c11_key_separates H jwtSigner (by decide) es es' hw hw' hk with h | h
  · refine Or.inl ⟨?_, ?_, ?_, ?_⟩
    · simpa [Field.dep, Dep.view] using h (.lp "keyID") (by decide)
    · simpa [Field.dep, Dep.view] using h (.lp "algorithm") (by decide)
    · simpa [Field.dep, Dep.view] using h (.lp "issuer") (by decide)
    · simpa [Field.dep, Dep.view] using h (.lp "thumbprint") (by decide)
  · exact Or.inr h

/-- hypotheses of `c11_signer_digest_determines_key_material` (`H` the identity): the same key id, another thumbprint -/
example : ∃ es es' : Env, wt jwtSigner es = true ∧ wt jwtSigner es' = true ∧ key id jwtSigner es ≠ key id jwtSigner es' :=
  ⟨{ str := fun s => if s = "thumbprint" then [1] else [107] }, { str := fun s => if s = "thumbprint" then [2] else [107] },
   by decide, by decide, by decide⟩

/-- **The key functions of the current source in histories with reloads**: any entry of the generated table used as the
key of a mechanism part of whose sources is reloadable — in every history of requests and reloads the decisions are
those of the uncached mechanism under the state in force. -/
theorem c11_current_source_reload_transparent {Resp : Type} (H : Bytes → Bytes) (name : String) (fs : List Field)
    (hf : table.lookup name = some fs) (remote : List View → Option Resp) (accepts : Nat → Resp → Bool)
    (s₀ : Overlay) (h : List (Event Overlay KReq))
    (hw : ∀ x ∈ inForce s₀ h, wt fs (x.2.2.env.withState x.2.1) = true)
    (hH : NoCollisionOn H ((inForce s₀ h).map fun x => encode fs (x.2.2.env.withState x.2.1)))
    (hp : recheckOf hitPath name = true ∨ ∀ p p' v, accepts p v = accepts p' v) :
    (runEv (stateful (keyed H fs (deps name) remote accepts (recheckOf hitPath name))) s₀ Store.empty h).map (·.out) =
      (inForce s₀ h).map fun x =>
        direct (keyed H fs (deps name) remote accepts (recheckOf hitPath name)) (x.2.2.withState x.2.1) := by
  have hm := mem_of_lookup table name fs hf
  have hd := List.all_eq_true.mp c11_generated_keys_delimited _ hm
  have hc := List.all_eq_true.mp c11_generated_keys_cover_deps _ hm
  exact c11_reload_keyed_transparent H fs _ remote accepts _ s₀ h hd hc hw hH hp

/-- The jwt finalizer of the current source (no rule-level validation): in every history of requests — any subjects,
outputs, claims, lifetimes — and key-store reloads, every request is handed a token a fresh evaluation under the signer
state in force would produce. -/
theorem c11_jwt_finalizer_transparent_across_reloads {Resp : Type} (H : Bytes → Bytes)
    (remote : List View → Option Resp) (s₀ : Overlay) (h : List (Event Overlay KReq))
    (hw : ∀ x ∈ inForce s₀ h, wt jwtFinalizer (x.2.2.env.withState x.2.1) = true)
    (hH : NoCollisionOn H ((inForce s₀ h).map fun x => encode jwtFinalizer (x.2.2.env.withState x.2.1))) :
    (runEv (stateful (keyed H jwtFinalizer (deps "jwtFinalizer") remote (fun _ _ => true)
        (recheckOf hitPath "jwtFinalizer"))) s₀ Store.empty h).map (·.out) =
      (inForce s₀ h).map fun x =>
        direct (keyed H jwtFinalizer (deps "jwtFinalizer") remote (fun _ _ => true) (recheckOf hitPath "jwtFinalizer"))
          (x.2.2.withState x.2.1) :=
  c11_current_source_reload_transparent H "jwtFinalizer" jwtFinalizer (by decide) remote _ s₀ h hw hH
    (Or.inr fun _ _ _ => rfl)

end Heimdall.Props.C11
