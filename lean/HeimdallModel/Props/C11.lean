import HeimdallModel.Lemmas.CacheExec
import HeimdallModel.Spec.CacheDeps
import HeimdallModel.Gen.CacheKeys
import HeimdallModel.Spec.CacheWitness
/-!
# C11 — cached results are reused exactly for requests equal in all they depend on

* Model: `Model/CacheKey.lean` (what a key function writes into its hash; the field lists are regenerated from the Go
  source into `Gen/CacheKeys.lean`), `Model/CacheExec.lean` (lookup / remote call / validation / store).
* Spec: `Spec/CacheReuse.lean` (`direct`, `Transparent`, `KeySoundOn`), `Spec/CacheDeps.lean` (what a fresh
  evaluation reads, per mechanism), `Spec/CacheWitness.lean` (concrete values used by the examples).

All statements hold for an arbitrary hash function `H`; where the code relies on SHA-256 being collision free the
statement says so explicitly (`NoCollisionOn`, or a disjunct exhibiting the colliding pre-images).
-/
namespace Heimdall.Props.C11
open Heimdall.CacheKey Heimdall.CacheExec Heimdall.CacheExec.Witness Heimdall.Gen.CacheKeys

/-! ## Keys: unique decoding, determinism -/

/-- A delimited field list (self-delimiting writes, at most one trailing plain value) determines every value written:
two evaluations that feed the same bytes into the hash agree on every field. Any number of fields, list entries, map
entries, any byte strings. -/
theorem c11_key_injective (fs : List Field) (hd : delimited fs = true) (env env' : Env)
    (hw : wt fs env = true) (hw' : wt fs env' = true) (h : encode fs env = encode fs env') :
    ∀ f ∈ fs, f.dep.view env = f.dep.view env' :=
  encode_inj fs hd env env' hw hw' h

/-- hypotheses of `c11_key_injective` hold for the remote authorizer of the current source and two requests that differ
only by a shifted key/value boundary — and the written bytes do differ -/
example : delimited remoteAuthorizer = true ∧ wt remoteAuthorizer envA = true ∧ wt remoteAuthorizer envB = true ∧
    encode remoteAuthorizer envA ≠ encode remoteAuthorizer envB := by decide

/-- without delimiters the hypothesis fails and so does the conclusion: client `ab`/secret `c`/scopes `[a, b]` and client
`a`/secret `bc`/scopes `[ab]` fed the same bytes into the hash of the original code -/
example : delimited legacyClientCredentials = false ∧
    encode legacyClientCredentials
      { str := fun s => if s = "c.ClientID" then [97, 98] else if s = "c.ClientSecret" then [99] else [],
        lst := fun s => if s = "c.Scopes" then [[97], [98]] else [] } =
    encode legacyClientCredentials
      { str := fun s => if s = "c.ClientID" then [97] else if s = "c.ClientSecret" then [98, 99] else [],
        lst := fun s => if s = "c.Scopes" then [[97, 98]] else [] } := by decide

/-- Equal keys mean equal inputs, or a collision of the hash function has been found. -/
theorem c11_key_separates (H : Bytes → Bytes) (fs : List Field) (hd : delimited fs = true) (env env' : Env)
    (hw : wt fs env = true) (hw' : wt fs env' = true) (h : key H fs env = key H fs env') :
    (∀ f ∈ fs, f.dep.view env = f.dep.view env') ∨
      (encode fs env ≠ encode fs env' ∧ H (encode fs env) = H (encode fs env')) := by
  by_cases he : encode fs env = encode fs env'
  · exact Or.inl (encode_inj fs hd env env' hw hw' he)
  · exact Or.inr ⟨he, h⟩

/-- A field list without a direct range over a Go map yields the same key whatever order the runtime iterates the maps
in (any number of headers / values). -/
theorem c11_key_deterministic (H : Bytes → Bytes) (fs : List Field) (ho : ordered fs = true) (env env' : Env)
    (hr : Reorder env env') (hn : env.nodupKeys) : key H fs env = key H fs env' := by
  simp only [key, encode_reorder ho hr hn]

/-- hypotheses of `c11_key_deterministic`: three values iterated in opposite orders -/
example : ordered remoteAuthorizer = true ∧ Reorder envA envA' ∧ envA.nodupKeys :=
  ⟨by decide, ⟨rfl, rfl, rfl, rfl, fun _ => (List.reverse_perm _).symm⟩,
   fun s => by by_cases h : s = "values" <;> simp [envA, h]⟩

/-- …and that condition is needed: a direct range over a map (as in the original `Endpoint.Hash` and
`calculateCacheKey`) makes the written bytes depend on the iteration order as soon as the map has two entries. -/
theorem c11_unordered_map_order_dependent (pre post : List Field) (s : String) (ho : ordered pre = true) :
    ∃ env env' : Env, Reorder env env' ∧ env.nodupKeys ∧
      encode (pre ++ .mapRaw s :: post) env ≠ encode (pre ++ .mapRaw s :: post) env' := by
  let m : List (Bytes × Bytes) := [([1], []), ([2], [])]
  let env : Env := { map := fun _ => m }
  let env' : Env := { map := fun _ => m.reverse }
  have hr : Reorder env env' := ⟨rfl, rfl, rfl, rfl, fun _ => (List.reverse_perm m).symm⟩
  have hm : (m.map Prod.fst).Nodup := by decide
  have hn : env.nodupKeys := fun _ => hm
  refine ⟨env, env', hr, hn, ?_⟩
  have hpre : encode pre env = encode pre env' := encode_reorder ho hr hn
  intro h
  have h' : encode pre env ++ ([1, 2] ++ encode post env) = encode pre env' ++ ([2, 1] ++ encode post env') := by
    simpa [encode, flat, encField, env, env', m] using h
  rw [hpre] at h'
  have := List.append_cancel_left h'
  simp at this

/-- the original `Endpoint.Hash` has that shape (`pre` = url and method), e.g. with the two default headers of the
introspection endpoint -/
example : legacyEndpoint = [.raw "e.URL", .raw "e.Method"] ++ .mapRaw "e.Headers" ::
    [.opt "e.AuthStrategy != nil" (.fixed 32 "e.AuthStrategy.Hash()")] ∧ ordered [.raw "e.URL", .raw "e.Method"] = true :=
  ⟨rfl, by decide⟩

/-! ## Mechanisms: enabling the cache never changes a decision -/

/-- **Transparency.** If equal keys imply equal fresh results, and the rule-level validation is either repeated on a hit
or the same for requests with equal keys, then in every history (any length, any times, any mix of rules and requests)
every request observes exactly the decision it would get without a cache. -/
theorem c11_transparent {Req Resp : Type} (m : Mech Req Resp) (h : List (Nat × Req))
    (hs : KeySoundOn m (h.map (·.2))) : Transparent m h :=
  run_sound m (h.map (·.2)) hs h Store.empty (inv_empty m _)
    (fun tr htr => List.mem_map.mpr ⟨tr, htr, rfl⟩)

/-- `KeySoundOn` holds for `demo true` on a history in which rule 5 asks for a token cached under rule 1, and the
decisions are those of the uncached mechanism (the third request is rejected although it hits) -/
example : KeySoundOn (demo true) ([(0, (3, 1)), (1, (3, 1)), (2, (3, 5)), (3, (9, 5))].map (·.2)) ∧
    (run (demo true) Store.empty [(0, (3, 1)), (1, (3, 1)), (2, (3, 5)), (3, (9, 5))]).map (fun s => (s.out, s.hit)) =
      [(.ok 3, false), (.ok 3, true), (.rejected, true), (.ok 9, false)] := by
  refine ⟨?_, by decide⟩
  intro r _ r' _ hk
  have : r.1 = r'.1 := by simpa [demo] using congrArg List.length hk
  exact ⟨by simp [demo, this], Or.inl rfl⟩

/-- Transparency for a mechanism whose key is `H` of a field list: decidable conditions on the (generated) field list,
the only assumption about `H` is that it does not collide on the byte strings of this history. -/
theorem c11_keyed_transparent {Resp : Type} (H : Bytes → Bytes) (fs : List Field) (deps : List Dep)
    (remote : List View → Option Resp) (accepts : Nat → Resp → Bool) (recheck : Bool) (h : List (Nat × KReq))
    (hd : delimited fs = true) (hc : covers deps fs = true)
    (hw : ∀ tr ∈ h, wt fs tr.2.env = true)
    (hH : NoCollisionOn H (h.map fun tr => encode fs tr.2.env))
    (hp : recheck = true ∨ ∀ p p' v, accepts p v = accepts p' v) :
    Transparent (keyed H fs deps remote accepts recheck) h := by
  apply c11_transparent
  apply keyed_sound H fs deps remote accepts recheck _ hd hc
  · intro r hr
    obtain ⟨tr, htr, rfl⟩ := List.mem_map.mp hr
    exact hw tr htr
  · simpa [List.map_map, Function.comp_def] using hH
  · exact hp

/-- hypotheses of `c11_keyed_transparent` for the introspection authenticator of the current source, `H` the identity:
the same token under two rules, then another token -/
example : ∃ h : List (Nat × KReq), h.length = 3 ∧ (∀ tr ∈ h, wt introspection tr.2.env = true) ∧
    NoCollisionOn id (h.map fun tr => encode introspection tr.2.env) ∧
    delimited introspection = true ∧ covers (deps "introspection") introspection = true := by
  let e (tok : Bytes) : Env := { str := fun s => if s = "token" then tok else if s = "a.id" then [105] else [] }
  refine ⟨[(0, ⟨e [116, 49], 0, true, 600⟩), (1, ⟨e [116, 49], 1, true, 600⟩), (2, ⟨e [116, 50], 1, true, 600⟩)], rfl,
    ?_, fun _ _ _ _ h => h, by decide, by decide⟩
  intro tr htr
  simp only [List.mem_cons, List.not_mem_nil, or_false] at htr
  rcases htr with rfl | rfl | rfl <;> decide

/-- The condition on validation is needed: a mechanism that neither repeats the rule-level validation on a hit nor
separates the rules by key (the original introspection authenticator and remote authorizer) hands a result accepted
under one rule to a request of a rule that rejects it. -/
theorem c11_policy_blind_reuse_changes_decision :
    (∀ r r', (demo false).key r = (demo false).key r' → (demo false).fresh r = (demo false).fresh r') ∧
      ¬ Transparent (demo false) [(0, (3, 1)), (1, (3, 5))] := by
  refine ⟨fun r r' hk => ?_, by unfold Transparent; decide⟩
  have : r.1 = r'.1 := by simpa [demo] using congrArg List.length hk
  simp [demo, this]

/-! ## Mechanisms: identical requests are answered from the cache -/

/-- **Reuse.** Once a request has been answered by the remote system and stored (cache enabled, lifetime `> 0`), then
in every continuation, every request mapped to the same key before the entry expires reaches the cache and causes no
remote call — whatever else happens in between. -/
theorem c11_reuse {Req Resp : Type} (m : Mech Req Resp) (st : Store Resp) (t : Nat) (r : Req) (v : Resp)
    (hmiss : (step m st t r).hit = false) (hok : (step m st t r).out = .ok v)
    (hen : m.enabled r = true) (httl : m.ttl r v > 0)
    (h : List (Nat × Req)) (hlive : ∀ tr ∈ h, tr.1 < t + m.ttl r v) :
    ∀ x ∈ (run m (step m st t r).store h).zip h, m.key x.2.2 = m.key r → m.enabled x.2.2 = true →
      x.1.calls = 0 ∧ x.1.hit = true :=
  run_keeps m (m.key r) ⟨v, t + m.ttl r v⟩ h _ (step_stores m st t r v hmiss hok hen httl) hlive

/-- hypotheses of `c11_reuse`: token 3 is fetched at time 0 (lifetime 10); at times 5 and 9 it is asked for again, once
under another rule — both are hits without a remote call -/
example : (step (demo true) Store.empty 0 (3, 1)).hit = false ∧ (step (demo true) Store.empty 0 (3, 1)).out = .ok 3 ∧
    (run (demo true) (step (demo true) Store.empty 0 (3, 1)).store [(5, (3, 1)), (9, (3, 2))]).map (fun s => (s.calls, s.hit)) =
      [(0, true), (0, true)] := by decide

/-- Identical requests hit: with an ordered field list a request carrying the same values — its maps iterated in any
other order — is mapped to the same key, hence answered from the cache within the lifetime. -/
theorem c11_identical_request_hits {Resp : Type} (H : Bytes → Bytes) (fs : List Field) (deps : List Dep)
    (remote : List View → Option Resp) (accepts : Nat → Resp → Bool) (recheck : Bool)
    (ho : ordered fs = true) (st : Store Resp) (t : Nat) (r : KReq) (v : Resp)
    (hmiss : (step (keyed H fs deps remote accepts recheck) st t r).hit = false)
    (hok : (step (keyed H fs deps remote accepts recheck) st t r).out = .ok v)
    (hen : r.enabled = true) (httl : r.ttl > 0) (hn : r.env.nodupKeys)
    (t' : Nat) (hlive : t' < t + r.ttl) (r' : KReq) (hr : Reorder r.env r'.env) (hen' : r'.enabled = true) :
    let m := keyed H fs deps remote accepts recheck
    (step m (step m st t r).store t' r').calls = 0 ∧ (step m (step m st t r).store t' r').hit = true := by
  intro m
  have hk : m.key r' = m.key r := (c11_key_deterministic H fs ho r.env r'.env hr hn).symm
  have hs := step_stores m st t r v hmiss hok hen httl
  exact (step_keeps m _ (m.key r) ⟨v, t + r.ttl⟩ hs t' hlive r').2 hk hen'

set_option maxRecDepth 8000 in
/-- hypotheses of `c11_identical_request_hits`: the remote authorizer of the current source, the request `envA` answered
at time 0 and repeated at time 7 with its values iterated in the opposite order -/
example :
    let m : Mech KReq (List View) := keyed id remoteAuthorizer (deps "remoteAuthorizer") some (fun _ _ => true) true
    (step m Store.empty 0 ⟨envA, 0, true, 600⟩).hit = false ∧
    (step m Store.empty 0 ⟨envA, 0, true, 600⟩).out = .ok ((deps "remoteAuthorizer").map (·.view envA)) ∧
    (step m (step m Store.empty 0 ⟨envA, 0, true, 600⟩).store 7 ⟨envA', 0, true, 600⟩).hit = true := by decide

/-! ## The key functions of the current source (regenerated on every run) -/

/-- every key function of the current source can be decoded uniquely -/
theorem c11_generated_keys_delimited : table.all (fun e => delimited e.2) = true := by decide

/-- no key function of the current source depends on map iteration order -/
theorem c11_generated_keys_ordered : table.all (fun e => ordered e.2) = true := by decide

/-- every key function of the current source writes everything a fresh evaluation reads -/
theorem c11_generated_keys_cover_deps : table.all (fun e => covers (deps e.1) e.2) = true := by decide

/-- mechanisms with rule-level assertions / expressions repeat them on the cache-hit path -/
theorem c11_generated_policy_rechecked_on_hit :
    rechecked.all (fun p => (hitPath.lookup p.1).any (·.contains p.2)) = true := by decide

/-- validation that is not repeated on a hit precedes storing -/
theorem c11_generated_validated_before_stored :
    validatedBeforeStored.all (fun p => (missPath.lookup p.1).any (before p.2 "Set")) = true := by decide

/-- **Every key function of the current source**, used as the key of a caching mechanism that repeats its rule-level
validation on a hit whenever the extracted hit path says so: in every history the decisions are those of the uncached
mechanism. (`name` ranges over the generated table: the six mechanisms, client credentials, the HTTP cache.) -/
theorem c11_current_source_transparent {Resp : Type} (H : Bytes → Bytes) (name : String) (fs : List Field)
    (hf : table.lookup name = some fs) (remote : List View → Option Resp) (accepts : Nat → Resp → Bool)
    (h : List (Nat × KReq)) (hw : ∀ tr ∈ h, wt fs tr.2.env = true)
    (hH : NoCollisionOn H (h.map fun tr => encode fs tr.2.env))
    (hp : (rechecked.any (·.1 == name)) = true ∨ ∀ p p' v, accepts p v = accepts p' v) :
    Transparent (keyed H fs (deps name) remote accepts (rechecked.any (·.1 == name))) h := by
  have hm := mem_of_lookup table name fs hf
  have hd := List.all_eq_true.mp c11_generated_keys_delimited _ hm
  have hc := List.all_eq_true.mp c11_generated_keys_cover_deps _ hm
  exact c11_keyed_transparent H fs _ remote accepts _ h hd hc hw hH hp

/-- The introspection authenticator of the current source: in every history over any rules (assertions), tokens and
endpoint configurations the decision with the cache equals the decision without it. -/
theorem c11_introspection_transparent {Resp : Type} (H : Bytes → Bytes) (remote : List View → Option Resp)
    (accepts : Nat → Resp → Bool) (h : List (Nat × KReq))
    (hw : ∀ tr ∈ h, wt introspection tr.2.env = true)
    (hH : NoCollisionOn H (h.map fun tr => encode introspection tr.2.env)) :
    Transparent (keyed H introspection (deps "introspection") remote accepts true) h :=
  c11_keyed_transparent H introspection _ remote accepts true h (by decide) (by decide) hw hH (Or.inl rfl)

/-- The remote authorizer of the current source, any rules (expressions, payloads, values), subjects and requests. -/
theorem c11_remote_authorizer_transparent {Resp : Type} (H : Bytes → Bytes) (remote : List View → Option Resp)
    (accepts : Nat → Resp → Bool) (h : List (Nat × KReq))
    (hw : ∀ tr ∈ h, wt remoteAuthorizer tr.2.env = true)
    (hH : NoCollisionOn H (h.map fun tr => encode remoteAuthorizer tr.2.env)) :
    Transparent (keyed H remoteAuthorizer (deps "remoteAuthorizer") remote accepts true) h :=
  c11_keyed_transparent H remoteAuthorizer _ remote accepts true h (by decide) (by decide) hw hH (Or.inl rfl)

end Heimdall.Props.C11
