import HeimdallModel.Model.JwtSrc
/-!
# C05 — the claim assertions *as they stand in the source* refuse what the C05 model refuses

`Gen/ClaimsSrc.lean` is regenerated on every run by the Go → Lean translator `extract/go2lean` (`cmd/claims`) from the
whole bodies of `Expectation.AssertValidity`, `AssertIssuanceTime`, `AssertIssuer`, `AssertAudience`, `AssertAlgorithm`
and `Claims.Validate` (`internal/rules/mechanisms/oauth2`). For **every** clock reading (in milliseconds), every claim
value and every whole-second leeway the theorems below show that the translated functions refuse exactly when
`notYetValid` / `expired` / `issuedInFuture` / `audienceOk` / `validate` of `Model/Jwt.lean` refuse: `now + leeway < nbf`,
`now - leeway ≥ exp`, the default leeway of 10 s when none is configured, a claim that is absent never refuses, an
unnamed issuer is never trusted, the order issuer → audience → validity → issuance time → scopes. The theorems of
`Props/C05.lean` (accept ⇔ specification) are stated over those model functions, so they speak about the comparisons
of the current source. How the parameters of the translation are filled: `Model/JwtSrc.lean`.
-/
set_option linter.unusedSimpArgs false

namespace Heimdall.Props.C05
open Heimdall Heimdall.Jwt Heimdall.Jwt.SrcTie

/-- splits every `if` / `bif` of a translated body (whatever their nesting and order - early returns, nested guards,
extra locals all end up as such a tree) and closes the leaves by linear integer arithmetic -/
macro "src_arith" : tactic =>
  `(tactic| (simp only [Option.isSome_none, Option.isSome_some, Option.getD_none, Option.getD_some, Bool.cond_eq_ite,
      Go.ite_app, Go.pure] <;> (repeat' split) <;> simp_all <;> omega))

/-- **The tie holds for this run:** `Gen/ClaimsSrc.lean` is the result of translating the current source. -/
theorem c05_src_translated : Src.translationOk = true := by decide

/-- a leeway of `ls` whole seconds: the model's leeway in seconds is `ls`, or the default of 10 s for 0 -/
theorem c05_src_leeway_seconds (e : Expectation) (ls : Int) (h : e.leeway = 1000 * ls) :
    e.leewaySec = if ls ≠ 0 then ls else 10 := by
  unfold Expectation.leewaySec Expectation.leewayMs
  by_cases hz : ls = 0
  · subst hz; simp [h]
  · have : e.leeway ≠ 0 := by omega
    have h' : ¬ (1000 * ls = 0) := by omega
    simp only [hz, ne_eq, not_false_eq_true, if_true, h, h']
    exact Int.mul_tdiv_cancel_left ls (by decide : (1000 : Int) ≠ 0)

theorem c05_src_leeway_millis (e : Expectation) (ls : Int) (h : e.leeway = 1000 * ls) :
    e.leewayMs = 1000 * (if ls ≠ 0 then ls else 10) := by
  unfold Expectation.leewayMs
  by_cases hz : ls = 0
  · subst hz; simp [h]
  · have : e.leeway ≠ 0 := by omega
    simp [this, hz, h]

/-- **`AssertValidity` refuses iff the token is not yet valid or has expired** (`now + leeway < nbf`,
`now - leeway ≥ exp`; an absent claim never refuses), for every clock reading, claim value and leeway. -/
theorem c05_src_validity (e : Expectation) (ls nowMs : Int) (nbf exp : Option Int) (h : e.leeway = 1000 * ls) :
    validitySrc ls nowMs nbf exp () =
      .done (if notYetValid e nbf nowMs || expired e exp nowMs then some Why.notYetValid else none) () := by
  unfold validitySrc Src.Validity.AssertValidity notYetValid expired
  rw [c05_src_leeway_seconds e ls h]
  cases nbf <;> cases exp <;> src_arith

/-- **`AssertIssuanceTime` refuses iff the token was issued in the future** beyond the leeway; the whole-second
comparison of the source agrees with the millisecond comparison of the model at every clock reading. -/
theorem c05_src_issued_at (e : Expectation) (ls nowMs : Int) (iat : Option Int) (h : e.leeway = 1000 * ls) :
    issuedSrc ls nowMs iat () = .done (if issuedInFuture e iat nowMs then some Why.issuedInFuture else none) () := by
  unfold issuedSrc Src.IssuedAt.AssertIssuanceTime issuedInFuture
  rw [c05_src_leeway_millis e ls h]
  cases iat <;> src_arith

/-- **`AssertIssuer`: a token that names no issuer is refused whatever the list of trusted issuers contains**; a named
issuer is accepted iff it is listed. -/
theorem c05_src_issuer (e : Expectation) (iss : String) :
    issuerSrc e iss () = .done (if iss == "" || !e.issuers.contains iss then some Why.issuer else none) () := by
  unfold issuerSrc Src.Issuer.AssertIssuer
  cases (iss == "") <;> cases e.issuers.contains iss <;> rfl

/-- **`AssertAudience`** accepts iff no audience is expected or one of the expected ones is among the token's. -/
theorem c05_src_audience (e : Expectation) (aud : List String) :
    audienceSrc e aud () = .done (if audienceOk e aud then none else some Why.audience) () := by
  unfold audienceSrc Src.Audience.AssertAudience audienceOk
  cases e.audiences.isEmpty <;> cases e.audiences.any (aud.contains ·) <;> rfl

/-- **`AssertAlgorithm`** accepts iff the algorithm is among the allowed ones. -/
theorem c05_src_algorithm (e : Expectation) (alg : String) :
    algorithmSrc e alg () = .done (if e.algs.contains alg then none else some Why.algNotAllowed) () := by
  unfold algorithmSrc Src.Algorithm.AssertAlgorithm
  cases e.algs.contains alg <;> rfl

/-- **`Claims.Validate` assembled from the translated assertions is `validate` of the model**: the same verdict and the
same first refusing assertion (issuer, audience, validity, issuance time, scopes in that order), for every expectation,
claim set and clock reading. -/
theorem c05_src_validate (e : Expectation) (ls : Int) (c : Claims) (nowMs : Int) (h : e.leeway = 1000 * ls) :
    validateSrc e ls c nowMs () = .done (refusalOf (validate e c nowMs)) () := by
  unfold validateSrc Src.Claims.Validate
  simp only [resOf, c05_src_issuer, c05_src_audience, c05_src_validity e ls nowMs c.nbf c.exp h,
    c05_src_issued_at e ls nowMs c.iat h]
  unfold validate
  generalize (c.iss == "" || !e.issuers.contains c.iss) = b1
  generalize audienceOk e c.aud = b2
  generalize notYetValid e c.nbf nowMs = b3
  generalize expired e c.exp nowMs = b4
  generalize issuedInFuture e c.iat nowMs = b5
  generalize e.scopesOk c.granted = b6
  cases b1 <;> cases b2 <;> cases b3 <;> cases b4 <;> cases b5 <;> cases b6 <;> rfl

/-- **A token is accepted by the translated `Validate` iff the model accepts it.** -/
theorem c05_src_accepts_iff (e : Expectation) (ls : Int) (c : Claims) (nowMs : Int) (h : e.leeway = 1000 * ls) :
    resOf (validateSrc e ls c nowMs) = none ↔ validate e c nowMs = .ok () := by
  simp only [resOf, c05_src_validate e ls c nowMs h]
  cases validate e c nowMs <;> simp [refusalOf]

/-- the hypothesis is met by a leeway of 5 s; a token that expired 5 s ago is refused at that very instant and was
accepted one second earlier (evaluated on the translated function) -/
example :
    let e : Expectation := { issuers := ["i"], leeway := 5000 }
    e.leeway = 1000 * 5 ∧
      resOf (validitySrc 5 100005000 none (some 100000)) = some Why.notYetValid ∧
      resOf (validitySrc 5 100004999 none (some 100000)) = none ∧
      resOf (validitySrc 0 100009999 none (some 100000)) = none ∧
      resOf (validitySrc 0 100010000 none (some 100000)) = some Why.notYetValid := by
  decide

end Heimdall.Props.C05
