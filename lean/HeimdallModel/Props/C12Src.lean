import HeimdallModel.Model.ErrMapSrc
/-!
# C12 — the classification switches *as they stand in the source* take the branch the C12 model takes

`Gen/ErrSwitchSrc.lean` is regenerated on every run by the Go → Lean translator `extract/go2lean` (`cmd/errswitch`) from
the whole bodies of `(*interceptor).intercept` (gRPC / Envoy ext_authz) and `(*errorHandler).HandleError` (HTTP decision
and proxy). For **every** error value - trees of wrappers, joins and chains of any depth and width - both are proved to
take exactly the branch `classify switchCases (.respond .internal)` of `Model/ErrMap.lean` names: authentication before
authorization before communication (timeout or communication) before argument before no-rule before redirect, internal
otherwise. The theorems of `Props/C12.lean` (precedence, never success, HTTP ≡ gRPC, …) are stated over that table, so
they speak about the order and the tests of the `case`s of the current source. A handler that succeeded is passed
through by `intercept` untouched. How the parameters of the translation are filled: `Model/ErrMapSrc.lean`.
-/
set_option linter.unusedSimpArgs false

namespace Heimdall.Props.C12
open Heimdall Heimdall.ErrMap Heimdall.ErrMap.SrcTie

/-- **The tie holds for this run:** `Gen/ErrSwitchSrc.lean` is the result of translating the current source. -/
theorem c12_src_translated : Src.translationOk = true := by decide

/-- the model's classification by the shared case table, spelled out -/
theorem c12_src_classify_unfolded (e : Err) :
    classify switchCases (.respond .internal) e =
      if e.is .authentication then .respond .authn
      else if e.is .authorization then .respond .authz
      else if e.is .timeout || e.is .communication then .respond .comm
      else if e.is .argument then .respond .precond
      else if e.is .noRule then .respond .noRule
      else if e.isRedirect then .redirect
      else .respond .internal := by
  simp only [switchCases, classify, List.any_cons, List.any_nil, Test.eval, Bool.or_false]
  repeat' split
  all_goals simp_all

/-- **gRPC: `intercept` answers a failed handler from the branch the model's `classify` names**, for every error
value; nothing of the handler's result is passed on and the interceptor itself reports no error. -/
theorem c12_src_grpc_takes_model_branch (res : Option Action) (e : Err) :
    grpcSrc res (some e) = .done (some (classify grpc.cases grpc.dflt e), none) () := by
  show grpcSrc res (some e) = .done (some (classify switchCases (.respond .internal) e), none) ()
  rw [c12_src_classify_unfolded]
  unfold grpcSrc Src.Grpc.intercept
  simp only [Go.bind, Go.pure, Option.isNone_some, cond_false, Option.any_some, built, Go.cond_app]
  cases e.is .authentication <;> cases e.is .authorization <;> cases e.is .timeout <;> cases e.is .communication <;>
    cases e.is .argument <;> cases e.is .noRule <;> cases e.isRedirect <;> rfl

/-- **gRPC: a handler that succeeded is passed through untouched.** -/
theorem c12_src_grpc_passes_success (res : Option Action) : grpcSrc res none = .done (res, none) () := by
  unfold grpcSrc Src.Grpc.intercept
  simp [Go.bind, Go.pure]

/-- **HTTP: `HandleError` writes exactly one response, from the branch the model's `classify` names**, for every
error value. -/
theorem c12_src_http_takes_model_branch (e : Err) :
    httpSrc (some e) = .done () [classify http.cases http.dflt e] := by
  show httpSrc (some e) = .done () [classify switchCases (.respond .internal) e]
  rw [c12_src_classify_unfolded]
  unfold httpSrc Src.Http.HandleError
  simp only [Option.any_some]
  cases e.is .authentication <;> cases e.is .authorization <;> cases e.is .timeout <;> cases e.is .communication <;>
    cases e.is .argument <;> cases e.is .noRule <;> cases e.isRedirect <;> rfl

/-- **The two translators of the source take the same branch** for every error value (the source-level core of
`c12_http_eq_grpc`). -/
theorem c12_src_http_and_grpc_take_the_same_branch (res : Option Action) (e : Err) :
    ∃ a, httpSrc (some e) = .done () [a] ∧ grpcSrc res (some e) = .done (some a, none) () :=
  ⟨classify switchCases (.respond .internal) e, c12_src_http_takes_model_branch e, c12_src_grpc_takes_model_branch res e⟩

/-- **No error value is answered from a "success" branch**: whatever the error, the branch taken is one of the six
error classes or the redirect (there is no other constructor) and it is the internal class unless a test holds. -/
theorem c12_src_unclassified_is_internal (e : Err) (h1 : e.is .authentication = false) (h2 : e.is .authorization = false)
    (h3 : e.is .timeout = false) (h4 : e.is .communication = false) (h5 : e.is .argument = false)
    (h6 : e.is .noRule = false) (h7 : e.isRedirect = false) :
    httpSrc (some e) = .done () [.respond .internal] := by
  rw [c12_src_http_takes_model_branch]
  show Go.Res.done () [classify switchCases (.respond .internal) e] = _
  rw [c12_src_classify_unfolded]
  simp [h1, h2, h3, h4, h5, h6, h7]

/-- the premises of `c12_src_unclassified_is_internal` are met by a foreign error wrapped twice, and a chain whose head
is a configuration error over an authorization cause is answered from the authorization branch by both translators
(evaluated) -/
example :
    httpSrc (some (.wrap (.wrap .foreign))) = .done () [.respond .internal] ∧
    httpSrc (some (.chain [.kind .configuration, .kind .authorization])) = .done () [.respond .authz] ∧
    grpcSrc none (some (.join [.kind .argument, .redirect 302 "x", .kind .timeout])) = .done (some (.respond .comm), none) () := by
  refine ⟨?_, ?_, ?_⟩ <;>
    simp [c12_src_http_takes_model_branch, c12_src_grpc_takes_model_branch, http, grpc, c12_src_classify_unfolded,
      Err.is, Err.isAny, Err.isRedirect, Err.isRedirectAny]

end Heimdall.Props.C12
