import HeimdallModel.Model.AuthnSrc
/-!
# C04 — `compositeSubjectCreator.Execute` *as it stands in the source* is the `composite` of the C04 model

`Gen/CompositeSrc.lean` is regenerated on every run by the Go → Lean translator `extract/go2lean` (`cmd/composite`) from
the whole body of `compositeSubjectCreator.Execute`; the `for idx, a := range ca` loop is a structurally recursive
function over the list. `c04_src_composite` proves, for chains of **any length** and **every** outcome / fallback setting
of the authenticators, that it returns exactly what `Heimdall.Authn.composite` returns (`Model/Authn.lean`) — so
`c04_fallback_only_on_argument_or_optin`, `c04_consulted_prefix` and the other theorems of `Props/C04.lean` about
`composite` / `run` speak about the loop of the current source: which disjuncts the fallback condition has, that
`continue` / `break` / `return` sit where they sit, that the last error is what is returned. The guard
`idx < len(ca)` is shown to hold in every iteration (`c04_src_creator_loop` carries `idx + remaining = len`), and the
translated function never panics on a nil subject. How the parameters of the translation are filled: `Model/AuthnSrc.lean`.
-/
set_option linter.unusedSimpArgs false

namespace Heimdall.Props.C04
open Heimdall Heimdall.Authn Heimdall.Rules Heimdall.Authn.SrcTie

macro "src_cases" : tactic =>
  `(tactic| ((try simp only [Bool.cond_eq_ite] at *) <;> (repeat' split) <;>
      (try simp_all [Go.pure, Go.bind, Go.panic, Go.ite_app, Go.cond_app, ofResult, lastOf]) <;> (try grind)))

/-- **The tie holds for this run:** `Gen/CompositeSrc.lean` is the result of translating the current source. -/
theorem c04_src_translated : Src.translationOk = true := by decide

/-- The loop started at position `idx` of a slice of length `n` with the steps `ss` still to come (`idx + |ss| = n`) and
`err` holding the error of the previous iteration: it is `compositeFrom ss` from that last result. -/
theorem c04_src_creator_loop (n : Int) (ss : List Step) :
    ∀ (idx : Int) (sub : Option String) (err : Option Err),
      idx + (ss.length : Nat) = n →
      Src.SubjectCreator.Execute_loop stepExec (·.fallback) (·.is .argument) () n idx ss sub err ()
        = .done (ofResult (compositeFrom ss (lastOf err))) () := by
  induction ss with
  | nil => intro idx sub err _; cases err <;> simp [Src.SubjectCreator.Execute_loop, compositeFrom, Go.pure, ofResult, lastOf]
  | cons s ss ih =>
    intro idx sub err h
    have hlt : idx < n := by simp at h; omega
    have h' : idx + 1 + ((ss.length : Nat) : Int) = n := by simp at h ⊢; omega
    unfold compositeFrom Src.SubjectCreator.Execute_loop
    cases hs : s.out <;>
      simp only [Go.bind, Go.cond_app, stepExec, hs, ih (idx + 1) _ _ h'] <;>
      simp [Go.bind, Go.pure, Go.panic, Go.cond_app, ofResult, lastOf, hlt] <;> src_cases

/-- **`compositeSubjectCreator.Execute` is `composite`**, for every chain of steps: `(sub, nil)` of the first
authenticator that succeeds; the error of the first one that fails with something else than an argument error without
allowing fallback, or of the last one; `(nil, nil)` only for the empty chain. -/
theorem c04_src_composite (ss : List Step) :
    Src.SubjectCreator.Execute stepExec (·.fallback) (·.is .argument) () ss ()
      = .done (ofResult (composite ss)) () := by
  unfold Src.SubjectCreator.Execute composite
  exact c04_src_creator_loop _ ss 0 none none (by simp)

end Heimdall.Props.C04
