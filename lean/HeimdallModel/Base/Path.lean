/-!
# Paths, request tokens, path expressions

Request paths and path expressions as `internal/x/radixtree` sees them.  Strings are byte strings of the Go side
(each byte injected as the character with that code point), so equality of Lean strings is equality of Go strings.

* a request path is cut into `Tok`s: every `/` is a token of its own, every maximal run of other bytes is a segment
  (`Tree.findNode` walks exactly these units: static children are compared byte-wise, a wildcard takes the bytes up
  to the next `/`, a free wildcard the whole remainder);
* a path expression is cut the same way and each segment classified as `addNode` does:
  `:name` single wildcard, `*name` free wildcard (must be last), a leading `\` before `:`/`*`/`\` is dropped and
  the rest is a literal, everything else is a literal.
-/
namespace Heimdall

inductive Tok where
  | sep
  | seg (s : String)
deriving DecidableEq, Repr, Inhabited

inductive PTok where
  | lit (s : String)
  | wild
  | catchAll
deriving DecidableEq, Repr, Inhabited

def tokStr : Tok → String
  | .sep => "/"
  | .seg s => s

def render (ts : List Tok) : String := String.join (ts.map tokStr)

/-- flush the pending (reversed) segment -/
def flushSeg (acc : List Char) : List Tok :=
  if acc.isEmpty then [] else [.seg (String.ofList acc.reverse)]

def tokenizeAux : List Char → List Char → List Tok
  | [], acc => flushSeg acc
  | c :: cs, acc =>
    if c = '/' then flushSeg acc ++ .sep :: tokenizeAux cs [] else tokenizeAux cs (c :: acc)

/-- request path → tokens -/
def tokenize (p : String) : List Tok := tokenizeAux p.toList []

inductive PatErr where
  | slashAfterFreeWildcard
deriving DecidableEq, Repr

/-- classification of one segment of a path expression (`addNode`, `!inStaticToken` branch) -/
def classifySeg (s : String) : PTok × Option String :=
  match s.toList with
  | ':' :: r => (.wild, some (String.ofList r))
  | '*' :: r => (.catchAll, some (String.ofList r))
  | '\\' :: c :: r =>
    if c = '*' ∨ c = ':' ∨ c = '\\' then (.lit (String.ofList (c :: r)), none) else (.lit s, none)
  | _ => (.lit s, none)

/-- tokens of an expression → pattern and wildcard names; a free wildcard must be the last token -/
def parseToks : List Tok → Except PatErr (List PTok × List String)
  | [] => .ok ([], [])
  | .sep :: rest => do
    let (ps, ks) ← parseToks rest
    pure (.lit "/" :: ps, ks)
  | .seg s :: rest =>
    match classifySeg s with
    | (.catchAll, k) =>
      if rest.isEmpty then .ok ([.catchAll], k.toList) else .error .slashAfterFreeWildcard
    | (p, k) => do
      let (ps, ks) ← parseToks rest
      pure (p :: ps, k.toList ++ ks)

/-- the pattern `delNode` walks: as `parseToks`, but whatever follows a free wildcard is ignored -/
def parseDelToks : List Tok → List PTok
  | [] => []
  | .sep :: rest => .lit "/" :: parseDelToks rest
  | .seg s :: rest =>
    match (classifySeg s).1 with
    | .catchAll => [.catchAll]
    | p => p :: parseDelToks rest

def parseDel (e : String) : List PTok := parseDelToks (tokenize e)

def parsePat (e : String) : Except PatErr (List PTok × List String) := parseToks (tokenize e)

end Heimdall
