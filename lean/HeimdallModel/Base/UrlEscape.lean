/-!
# Percent-encoding of paths

Lean transcription of the parts of Go's `net/url` and of heimdall's own helpers that decide how a request path is
decoded: `url.PathUnescape`, heimdall's `normalizeUnreserved` (repository lookup) and `unescape` (captured values,
`internal/rules/rule_impl.go`).  Strings are byte strings (one character per byte).
-/
namespace Heimdall

def isHex (c : Char) : Bool :=
  ('0' ≤ c && c ≤ '9') || ('a' ≤ c && c ≤ 'f') || ('A' ≤ c && c ≤ 'F')

def unhex (c : Char) : Nat :=
  if '0' ≤ c && c ≤ '9' then c.toNat - '0'.toNat
  else if 'a' ≤ c && c ≤ 'f' then c.toNat - 'a'.toNat + 10
  else if 'A' ≤ c && c ≤ 'F' then c.toNat - 'A'.toNat + 10
  else 0

def octet (a b : Char) : Char := Char.ofNat (16 * unhex a + unhex b)

/-- RFC 3986 unreserved characters -/
def isUnreserved (c : Char) : Bool :=
  ('a' ≤ c && c ≤ 'z') || ('A' ≤ c && c ≤ 'Z') || ('0' ≤ c && c ≤ '9') ||
  c = '-' || c = '.' || c = '_' || c = '~'

/-- `url.PathUnescape`: `none` is Go's `EscapeError` -/
def pathUnescapeL : List Char → Option (List Char)
  | [] => some []
  | c :: t =>
    if c = '%' then
      match t with
      | a :: b :: rest =>
        if isHex a && isHex b then (pathUnescapeL rest).map (octet a b :: ·) else none
      | _ => none
    else (pathUnescapeL t).map (c :: ·)

def pathUnescape (s : String) : Option String := (pathUnescapeL s.toList).map String.ofList

/-- `normalizeUnreserved` of `repository_impl.go`: decode exactly the escapes of unreserved characters -/
def normalizeL : List Char → List Char
  | [] => []
  | [c] => [c]
  | [c, a] => [c, a]
  | c :: t@(a :: b :: rest) =>
    if c = '%' && isHex a && isHex b && isUnreserved (octet a b) then octet a b :: normalizeL rest
    else c :: normalizeL t

def normalizeUnreserved (s : String) : String := String.ofList (normalizeL s.toList)

/-- decode every escape except an encoded slash (either hex case), which is kept as written -/
def unescapeKeepSlashL : List Char → Option (List Char)
  | [] => some []
  | c :: t =>
    if c = '%' then
      match t with
      | a :: b :: rest =>
        if a = '2' && (b = 'F' || b = 'f') then (unescapeKeepSlashL rest).map (c :: a :: b :: ·)
        else if isHex a && isHex b then (unescapeKeepSlashL rest).map (octet a b :: ·) else none
      | _ => none
    else (unescapeKeepSlashL t).map (c :: ·)

def containsEncodedSlashL : List Char → Bool
  | [] => false
  | c :: t =>
    (c = '%' && match t with
      | a :: b :: _ => a = '2' && (b = 'F' || b = 'f')
      | _ => false) || containsEncodedSlashL t

def containsEncodedSlash (s : String) : Bool := containsEncodedSlashL s.toList

/-- octets that may stand in the path of a request as they are (everything `url.EscapedPath` accepts) -/
def pathOctetAllowed (c : Char) : Bool :=
  c.isAlphanum || "-_.~!$&'()*+,;=:@/[]%".toList.contains c

def hexDigitUpper (n : Nat) : Char := if n < 10 then Char.ofNat (48 + n) else Char.ofNat (55 + n)

/-- `escapedPath` of `internal/handler/requestcontext/extract_url.go`: the path as received, with the octets that may
    not stand in a path percent-encoded (upper-case hex); every escape of the client is kept as written -/
def receivedPathL : List Char → List Char
  | [] => []
  | c :: rest =>
    if pathOctetAllowed c then c :: receivedPathL rest
    else '%' :: hexDigitUpper (c.toNat / 16 % 16) :: hexDigitUpper (c.toNat % 16) :: receivedPathL rest

def receivedPath (s : String) : String := String.ofList (receivedPathL s.toList)

inductive SlashHandling where
  | off | on | noDecode
deriving DecidableEq, Repr

/-- `unescape(value, handling)` of `rule_impl.go`; an undecodable value yields the empty string (the Go code
    discards the error of `url.PathUnescape`) -/
def unescapeCapture (h : SlashHandling) (v : String) : String :=
  match h with
  | .on => ((pathUnescapeL v.toList).map String.ofList).getD ""
  | _ => ((unescapeKeepSlashL v.toList).map String.ofList).getD ""

end Heimdall
