import HeimdallModel.Model.FactoryOverride
import HeimdallModel.Model.FactoryCel
/-!
# What a loaded rule *does*: the executed trace for the probe requests of the C14 correspondence check

The correspondence check does not look into the private slices of `ruleImpl`; it sends requests through the real
repository and rule and records which mechanisms ran.  This file says what those records must be for an effective
rule, given how the mechanisms of the check's catalogue show themselves (`Shown`, `Model/FactoryOverride.lean`: for
every mechanism of a pipeline `sh m` is what the catalogue entry shows, overlaid with the override *value* the
step carries):

* authenticators — flavour `remote` (heimdall's `generic` authenticator calling the loopback recorder: the call is
  recorded, it succeeds iff the probe lets authentication succeed, on failure the next authenticator is tried
  unless the variant has `allow_fallback_on_error` off) or `constant` (`anonymous`: nothing recorded, always
  succeeds with the subject it shows);
* authorizers / contextualizers — `remote` / `generic` calling the recorder with the subject and the value `v` of
  their `values`; skipped when their condition is false for the probe; `cel` authorizers (flavour `silent`) call
  nobody.  Every expression the generator lets a remote authorizer verify holds for every probe; an expression of a
  cel authorizer holds for every probe unless it reads the header `X-Deny` (`Cel.readsHeader`): then it is false
  exactly for the probe that sends `X-Deny: 1` (`Probe.deny`), and the authorizer **refuses** that request — the
  pipeline ends with an authorization error whose *source* is that authorizer (`Refusing`, `reached`);
* finalizers — `header` finalizers: every header they show is rendered (`{{ .Subject.ID }}`) and added for the
  upstream; the common header `X-Fin` is reported in execution order (`fin`), all others sorted (`hdr`);
* error handlers — `redirect` (flavour `redirect`, the location names the handler), `default` (flavour
  `passthrough`, the pipeline error is kept) or `www_authenticate` (flavour `challenge`: authentication error and a
  `WWW-Authenticate` header naming the realm it shows); the first applicable one handles the error, with none the
  error is returned;
* the **source** of an error (`Trace.src`) — the id of the mechanism the error came from, i.e. what `Error.Source`
  is in the `if` of an `on_error` step (`cellib.WrapError`): for a failed authentication stage the authenticator
  whose error ended the stage, for a refused request the authorizer that refused.  It is visible in the returned
  error and in a pipeline error kept by a `default` error handler; `redirect` and `www_authenticate` handlers
  replace the error (source empty).  This is how a mechanism that calls nobody shows *which* catalogue entry it is.

These are the execution rules of `ruleImpl.Execute` and the composite pipelines specialised to that catalogue;
they are validated by the correspondence run itself.
-/
namespace Heimdall.Factory

/-- how a catalogue mechanism shows itself -/
inductive Flavour
  | remote | constant | redirect | passthrough | challenge | silent
  deriving DecidableEq, Repr, Inhabited

abbrev Flavours := Kind → String → Flavour

/-- one probe request: does the identity endpoint accept, is the header that falsifies all conditions sent, is the
header sent by which the request asks the cel authorizers to refuse it -/
structure Probe where
  authnOk : Bool
  skip : Bool
  deny : Bool := false
  deriving DecidableEq, Repr, Inhabited

/-- what is recorded for one executed rule -/
structure Trace where
  calls : List String := []
  fin : List String := []
  hdr : List String := []
  ret : String := ""
  perr : String := ""
  upstream : Bool := false
  /-- `Error.Source` of the returned error / the pipeline error, empty when there is none or it names nobody -/
  src : String := ""
  deriving DecidableEq, Repr, Inhabited

/-- what every mechanism of a pipeline shows -/
abbrev Showing := Mech → Shown

/-- which mechanisms verify an expression that is false for the probe asking to be refused -/
abbrev Refusing := Mech → Bool

/-- the expression trees of the expression texts in use -/
abbrev CelTrees := Text → Option Cel

/-- the header by which a probe asks to be refused -/
def denyHeader : String := "X-Deny"

/-- a mechanism verifies at least one expression that reads the deny header -/
def refusing (sh : Showing) (Γ : CelTrees) : Refusing := fun m =>
  (sh m).expressions.any fun src => ((Γ src).map (·.readsHeader denyHeader)).getD false

def Mech.runs (m : Mech) (p : Probe) : Bool := !(m.conditional && p.skip)

/-- `text/template` on the fragment in use: the action `{{ .Subject.ID }}` -/
def renderTemplate (sub : String) (tmpl : Text) : String := (String.ofList tmpl).replace "{{ .Subject.ID }}" sub

/-- authentication stage: recorded calls and the subject, if any authenticator succeeded -/
def authnStage (sh : Showing) (fl : Flavours) (p : Probe) : List Mech → List String × Option String
  | [] => ([], none)
  | m :: ms =>
    if fl .authn m.id == .constant then ([], some (String.ofList (sh m).subject))
    else
      let call := "authn:" ++ m.id
      if p.authnOk then ([call], some m.id)
      else if !(sh m).fallback then ([call], none)
      else
        let rest := authnStage sh fl p ms
        (call :: rest.1, rest.2)

/-- the authenticator whose error ends a failing authentication stage (`compositeSubjectCreator.Execute` returns the
error of the last authenticator it tried); empty when the stage is empty or succeeds -/
def authnBlame (sh : Showing) (fl : Flavours) (p : Probe) : List Mech → String
  | [] => ""
  | m :: ms =>
    if fl .authn m.id == .constant then ""
    else if p.authnOk then ""
    else if !(sh m).fallback then m.id
    else if ms.isEmpty then m.id
    else authnBlame sh fl p ms

/-- what the error pipeline leaves behind -/
structure Handled where
  ret : String := ""
  perr : String := ""
  hdr : List String := []
  src : String := ""
  deriving DecidableEq, Repr, Inhabited

/-- error pipeline on an error of the given kind raised by the mechanism `source`: first applicable handler -/
def errorStage (sh : Showing) (fl : Flavours) (p : Probe) (kind source : String) : List Mech → Handled
  | [] => { ret := kind, src := source }
  | m :: ms =>
    if !m.runs p then errorStage sh fl p kind source ms
    else if fl .eh m.id == .passthrough then { perr := kind, src := source }
    else if fl .eh m.id == .challenge then
      { perr := "authentication", hdr := ["Www-Authenticate=Basic realm=" ++ String.ofList (sh m).realm] }
    else { perr := "redirect:http://eh.test/" ++ m.id }

/-- the mechanism refuses the probe: it runs, it is a cel authorizer, the probe asks to be refused and one of its
expressions listens -/
def Mech.refuses (fl : Flavours) (den : Refusing) (p : Probe) (m : Mech) : Bool :=
  m.runs p && fl m.kind m.id == .silent && p.deny && den m

/-- `compositeSubjectHandler.Execute`: the mechanisms of the stage in order until one refuses — `(those that ran
through, the one that refused)` -/
def reached (fl : Flavours) (den : Refusing) (p : Probe) : List Mech → List Mech × Option Mech
  | [] => ([], none)
  | m :: ms =>
    if m.refuses fl den p then ([], some m)
    else
      let r := reached fl den p ms
      (m :: r.1, r.2)

def handlerCalls (sh : Showing) (fl : Flavours) (p : Probe) (sub : String) (ms : List Mech) : List String :=
  (ms.filter fun m => m.runs p && fl m.kind m.id != .silent).map fun m =>
    (if m.kind == .ctx then "ctx:" else "authz:") ++ m.id ++ ":" ++ sub ++ "/" ++
      renderTemplate sub (((sh m).values.lookup t!"v").getD [])

/-- the headers the finalizers that run add for the upstream: (name, rendered value), in execution order -/
def finalizerHeaders (sh : Showing) (p : Probe) (sub : String) (ms : List Mech) : List (String × String) :=
  (ms.filter (·.runs p)).flatMap fun m => (sh m).headers.map fun h => (String.ofList h.1, renderTemplate sub h.2)

/-- `Name=value[,value]` for every header name but `X-Fin`, sorted -/
def otherHeaders (hs : List (String × String)) : List String :=
  let names := (hs.map (·.1)).eraseDups.filter (· != "X-Fin")
  let lines := names.map fun n => n ++ "=" ++ ",".intercalate ((hs.filter (·.1 == n)).map (·.2))
  (lines.toArray.qsort (· < ·)).toList

/-- `ruleImpl.Execute` on a probe -/
def execute (sh : Showing) (fl : Flavours) (den : Refusing) (e : Effective) (p : Probe) : Trace :=
  match authnStage sh fl p e.authn with
  | (calls, none) =>
    let r := errorStage sh fl p "communication" (authnBlame sh fl p e.authn) e.eh
    { calls := calls, ret := r.ret, perr := r.perr, hdr := r.hdr, src := r.src }
  | (calls, some sub) =>
    match reached fl den p e.sh with
    | (ran, some m) =>
      let r := errorStage sh fl p "authorization" m.id e.eh
      { calls := calls ++ handlerCalls sh fl p sub ran, ret := r.ret, perr := r.perr, hdr := r.hdr, src := r.src }
    | (ran, none) =>
      let hs := finalizerHeaders sh p sub e.fin
      { calls := calls ++ handlerCalls sh fl p sub ran, fin := (hs.filter (·.1 == "X-Fin")).map (·.2),
        hdr := otherHeaders hs, upstream := e.upstream }

end Heimdall.Factory
