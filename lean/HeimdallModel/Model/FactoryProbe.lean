import HeimdallModel.Model.FactoryOverride
/-!
# What a loaded rule *does*: the executed trace for the probe requests of the C14 correspondence check

The correspondence check does not look into the private slices of `ruleImpl`; it sends requests through the real
repository and rule and records which mechanisms ran.  This file says what those records must be for an effective
rule, given how the mechanisms of the check's catalogue show themselves (`Shown`, `Model/FactoryOverride.lean`: for
every mechanism of a pipeline `sh m` is what the catalogue entry shows, overlaid with the override *value* the
step carries):

* authenticators — flavour `remote` (heimdall's `generic` authenticator calling the loopback recorder: the call is
  recorded, it succeeds iff the probe lets authentication succeed, on failure the next authenticator is tried
  unless the variant has `allow_fallback_on_error` off) or `constant` (`anonymous`: nothing recorded, always
  succeeds with the subject it shows);
* authorizers / contextualizers — `remote` / `generic` calling the recorder with the subject and the value `v` of
  their `values`; skipped when their condition is false for the probe; `cel` authorizers (flavour `silent`) call
  nobody, and every expression the generator lets a cel or remote authorizer verify holds for every probe;
* finalizers — `header` finalizers: every header they show is rendered (`{{ .Subject.ID }}`) and added for the
  upstream; the common header `X-Fin` is reported in execution order (`fin`), all others sorted (`hdr`);
* error handlers — `redirect` (flavour `redirect`, the location names the handler), `default` (flavour
  `passthrough`, the pipeline error is kept) or `www_authenticate` (flavour `challenge`: authentication error and a
  `WWW-Authenticate` header naming the realm it shows); the first applicable one handles the error, with none the
  error is returned.

These are the execution rules of `ruleImpl.Execute` and the composite pipelines specialised to that catalogue;
they are validated by the correspondence run itself.
-/
namespace Heimdall.Factory

/-- how a catalogue mechanism shows itself -/
inductive Flavour
  | remote | constant | redirect | passthrough | challenge | silent
  deriving DecidableEq, Repr, Inhabited

abbrev Flavours := Kind → String → Flavour

/-- one probe request: does the identity endpoint accept, is the header that falsifies all conditions sent -/
structure Probe where
  authnOk : Bool
  skip : Bool
  deriving DecidableEq, Repr, Inhabited

/-- what is recorded for one executed rule -/
structure Trace where
  calls : List String := []
  fin : List String := []
  hdr : List String := []
  ret : String := ""
  perr : String := ""
  upstream : Bool := false
  deriving DecidableEq, Repr, Inhabited

/-- what every mechanism of a pipeline shows -/
abbrev Showing := Mech → Shown

def Mech.runs (m : Mech) (p : Probe) : Bool := !(m.conditional && p.skip)

/-- `text/template` on the fragment in use: the action `{{ .Subject.ID }}` -/
def renderTemplate (sub : String) (tmpl : Text) : String := (String.ofList tmpl).replace "{{ .Subject.ID }}" sub

/-- authentication stage: recorded calls and the subject, if any authenticator succeeded -/
def authnStage (sh : Showing) (fl : Flavours) (p : Probe) : List Mech → List String × Option String
  | [] => ([], none)
  | m :: ms =>
    if fl .authn m.id == .constant then ([], some (String.ofList (sh m).subject))
    else
      let call := "authn:" ++ m.id
      if p.authnOk then ([call], some m.id)
      else if !(sh m).fallback then ([call], none)
      else
        let rest := authnStage sh fl p ms
        (call :: rest.1, rest.2)

/-- error pipeline: first applicable handler; `(returned error, pipeline error, headers)` -/
def errorStage (sh : Showing) (fl : Flavours) (p : Probe) (kind : String) : List Mech → String × String × List String
  | [] => (kind, "", [])
  | m :: ms =>
    if !m.runs p then errorStage sh fl p kind ms
    else if fl .eh m.id == .passthrough then ("", kind, [])
    else if fl .eh m.id == .challenge then
      ("", "authentication", ["Www-Authenticate=Basic realm=" ++ String.ofList (sh m).realm])
    else ("", "redirect:http://eh.test/" ++ m.id, [])

def handlerCalls (sh : Showing) (fl : Flavours) (p : Probe) (sub : String) (ms : List Mech) : List String :=
  (ms.filter fun m => m.runs p && fl m.kind m.id != .silent).map fun m =>
    (if m.kind == .ctx then "ctx:" else "authz:") ++ m.id ++ ":" ++ sub ++ "/" ++
      renderTemplate sub (((sh m).values.lookup t!"v").getD [])

/-- the headers the finalizers that run add for the upstream: (name, rendered value), in execution order -/
def finalizerHeaders (sh : Showing) (p : Probe) (sub : String) (ms : List Mech) : List (String × String) :=
  (ms.filter (·.runs p)).flatMap fun m => (sh m).headers.map fun h => (String.ofList h.1, renderTemplate sub h.2)

/-- `Name=value[,value]` for every header name but `X-Fin`, sorted -/
def otherHeaders (hs : List (String × String)) : List String :=
  let names := (hs.map (·.1)).eraseDups.filter (· != "X-Fin")
  let lines := names.map fun n => n ++ "=" ++ ",".intercalate ((hs.filter (·.1 == n)).map (·.2))
  (lines.toArray.qsort (· < ·)).toList

/-- `ruleImpl.Execute` on a probe -/
def execute (sh : Showing) (fl : Flavours) (e : Effective) (p : Probe) : Trace :=
  match authnStage sh fl p e.authn with
  | (calls, none) =>
    let r := errorStage sh fl p "communication" e.eh
    { calls := calls, ret := r.1, perr := r.2.1, hdr := r.2.2 }
  | (calls, some sub) =>
    let hs := finalizerHeaders sh p sub e.fin
    { calls := calls ++ handlerCalls sh fl p sub e.sh, fin := (hs.filter (·.1 == "X-Fin")).map (·.2),
      hdr := otherHeaders hs, upstream := e.upstream }

end Heimdall.Factory
