import HeimdallModel.Model.Factory
/-!
# What a loaded rule *does*: the executed trace for the probe requests of the C14 correspondence check

The correspondence check does not look into the private slices of `ruleImpl`; it sends requests through the real
repository and rule and records which mechanisms ran.  This file says what those records must be for an effective
rule, given how the mechanisms of the check's catalogue show themselves:

* authenticators — flavour `remote` (heimdall's `generic` authenticator calling the loopback recorder: the call is
  recorded, it succeeds iff the probe lets authentication succeed, on failure the next authenticator is tried
  unless the override with tag 1 switched `allow_fallback_on_error` off) or `constant` (`anonymous`: nothing
  recorded, always succeeds);
* authorizers / contextualizers — `remote` / `generic` calling the recorder with the subject and a value that an
  override (tag 1) changes; skipped when their condition is false for the probe;
* finalizers — `header` finalizers appending `<id>/<subject>/<variant>` to one upstream header;
* error handlers — `redirect` (flavour `redirect`, the location names the handler) or `default`
  (flavour `passthrough`, the pipeline error is kept); the first applicable one handles the error, with none the
  error is returned.

These are the execution rules of `ruleImpl.Execute` and the composite pipelines specialised to that catalogue;
they are validated by the correspondence run itself.
-/
namespace Heimdall.Factory

/-- how a catalogue mechanism shows itself -/
inductive Flavour
  | remote | constant | redirect | passthrough
  deriving DecidableEq, Repr, Inhabited

abbrev Flavours := Kind → String → Flavour

/-- one probe request: does the identity endpoint accept, is the header that falsifies all conditions sent -/
structure Probe where
  authnOk : Bool
  skip : Bool
  deriving DecidableEq, Repr, Inhabited

/-- what is recorded for one executed rule -/
structure Trace where
  calls : List String := []
  fin : List String := []
  ret : String := ""
  perr : String := ""
  upstream : Bool := false
  deriving DecidableEq, Repr, Inhabited

def Mech.variant (m : Mech) : String := if m.config == some 1 then "ovr" else "base"

def Mech.runs (m : Mech) (p : Probe) : Bool := !(m.conditional && p.skip)

/-- authentication stage: recorded calls and the subject, if any authenticator succeeded -/
def authnStage (fl : Flavours) (p : Probe) : List Mech → List String × Option String
  | [] => ([], none)
  | m :: ms =>
    if fl .authn m.id == .constant then ([], some (if m.config == some 1 then "ovr" else "anon"))
    else
      let call := "authn:" ++ m.id
      if p.authnOk then ([call], some m.id)
      else if m.config == some 1 then ([call], none)
      else
        let rest := authnStage fl p ms
        (call :: rest.1, rest.2)

/-- error pipeline: first applicable handler; `(returned error, pipeline error)` -/
def errorStage (fl : Flavours) (p : Probe) (kind : String) : List Mech → String × String
  | [] => (kind, "")
  | m :: ms =>
    if !m.runs p then errorStage fl p kind ms
    else if fl .eh m.id == .passthrough then ("", kind)
    else ("", "redirect:http://eh.test/" ++ m.id)

def handlerCalls (p : Probe) (sub : String) (ms : List Mech) : List String :=
  (ms.filter (·.runs p)).map fun m =>
    (if m.kind == .ctx then "ctx:" else "authz:") ++ m.id ++ ":" ++ sub ++ "/" ++ m.variant

def finalizerMarks (p : Probe) (sub : String) (ms : List Mech) : List String :=
  (ms.filter (·.runs p)).map fun m => m.id ++ "/" ++ sub ++ "/" ++ m.variant

/-- `ruleImpl.Execute` on a probe -/
def execute (fl : Flavours) (e : Effective) (p : Probe) : Trace :=
  match authnStage fl p e.authn with
  | (calls, none) =>
    let r := errorStage fl p "communication" e.eh
    { calls := calls, ret := r.1, perr := r.2 }
  | (calls, some sub) =>
    { calls := calls ++ handlerCalls p sub e.sh, fin := finalizerMarks p sub e.fin, upstream := e.upstream }

end Heimdall.Factory
