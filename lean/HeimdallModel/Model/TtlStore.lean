/-!
# TTL store (C10) — what `cache.Cache` implementations do with a TTL

Model of `internal/cache/memory/cache.go` (ttlcache) and `internal/cache/redis/cache.go` (`SET … PX`), as far as
validity is concerned. Time and durations are integers in an arbitrary unit; nothing below depends on the unit.

* `set` with a TTL that is not positive stores nothing and leaves the store as it is (Redis refuses `PX 0`;
  the in-memory cache after fix C10-1 — before it, ttlcache read a non-positive TTL as "never expires").
* `set` with a positive TTL replaces the entry of the key; the entry is valid until `now + ttl`.
* `get` returns the entry of the key while it is alive. The two stores differ at the very instant of expiry:
  ttlcache serves an entry unless `expiresAt.Before(now)` (so still at `now = expiry`), Redis drops the key when its
  TTL reaches zero (so not at `now = expiry`). The theorems hold for both readings.
-/
namespace Heimdall.Validity

inductive StoreKind
  | memory
  | redis
deriving DecidableEq, Repr

structure Entry (V : Type) where
  key   : Nat
  val   : V
  expiry : Int

abbrev Store (V : Type) := List (Entry V)

/-- is an entry that is valid until `expiry` still served at `now` -/
def alive (k : StoreKind) (now expiry : Int) : Bool :=
  match k with
  | .memory => decide (now ≤ expiry)
  | .redis  => decide (now < expiry)

variable {V : Type}

def Store.find (s : Store V) (key : Nat) : Option (Entry V) := List.find? (fun e => e.key == key) s

def Store.get (k : StoreKind) (s : Store V) (key : Nat) (now : Int) : Option V :=
  match s.find key with
  | some e => if alive k now e.expiry then some e.val else none
  | none => none

def Store.set (s : Store V) (key : Nat) (v : V) (ttl now : Int) : Store V :=
  if 0 < ttl then ⟨key, v, now + ttl⟩ :: List.filter (fun e => e.key != key) s else s

end Heimdall.Validity
