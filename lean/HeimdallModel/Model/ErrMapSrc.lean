import HeimdallModel.Gen.ErrSwitchSrc
import HeimdallModel.Model.ErrMap
/-!
# The translated classification switches instantiated with the error trees of the C12 model

`Gen/ErrSwitchSrc.lean` (regenerated from the source on every run) is generic in what an error value is. Here it is an
error tree `Err` of `Model/ErrMap.lean`: `errors.Is(err, heimdall.ErrX)` = `Err.is e X`, `errors.Is(err,
&heimdall.RedirectError{})` = `Err.isRedirect`. A response builder is replaced by the name of the branch it belongs to
(`Action`), so that what the translated function returns / does says which branch it took. Not imported by the shared
driver.
-/
namespace Heimdall.ErrMap.SrcTie
open Heimdall.ErrMap

/-- the builder of a class: the name of that class -/
def built (c : Class) : Option Err → Option Action × Option Err := fun _ => (some (.respond c), none)

/-- the translated `intercept` around a handler that returned `(res, err)` -/
def grpcSrc (res : Option Action) (err : Option Err) : Go.Res Unit Unit (Option Action × Option Err) :=
  Src.Grpc.intercept (Redirect := Unit) (·.is .authentication) (·.is .authorization) (·.is .timeout)
    (·.is .communication) (·.is .argument) (·.is .noRule) (·.is .internal) (·.is .configuration) (·.isRedirect)
    (built .authn) (built .authz) (built .comm) (built .precond) (built .noRule) (built .internal)
    (Go.pure (res, err)) Action.redirect () ()

/-- a writer of the HTTP translator: it notes the branch in the context (the list of what was written) -/
def wrote (a : Action) : Go.M (List Action) Unit Unit := fun c => .done () (c ++ [a])

/-- the translated `HandleError` on an error: the branches it wrote, in order -/
def httpSrc (err : Option Err) : Go.Res (List Action) Unit Unit :=
  Src.Http.HandleError (Redirect := Unit) (·.is .authentication) (·.is .authorization) (·.is .timeout)
    (·.is .communication) (·.is .argument) (·.is .noRule) (·.is .internal) (·.is .configuration) (·.isRedirect)
    (fun _ => wrote (.respond .authn)) (fun _ => wrote (.respond .authz)) (fun _ => wrote (.respond .comm))
    (fun _ => wrote (.respond .precond)) (fun _ => wrote (.respond .noRule)) (fun _ => wrote (.respond .internal))
    (fun c => .done () c) (wrote .redirect) () err []

end Heimdall.ErrMap.SrcTie
