/-!
# The JWT signer of the `jwt` finalizer (C16)

What `internal/keystore` (`createKeyStore` / `verifyAndBuildKeyStore` / `Entry.JWK`), `jwtSigner.load`,
`jwtSigner.Sign`, `jwtSigner.Keys`, `keyholder.registry.Keys` and the management JWKS handler do, with
cryptography kept opaque: a private key is a pair of a *public half* (`PubKey`: family, size and an identifier
standing for the modulus / curve point) and a *secret* (standing for `d`, `p`, `q`, ...).  A signature made with a
private key verifies exactly under that key's public half; this is the only fact about signatures that is used and it
is validated against go-jose by the correspondence check, not proved.

X.509 is opaque too: a PEM key block arrives with the certificate chain `FindChain` found for it and the verdicts of
`ValidateChain` and of the digital-signature usage check of `load` as booleans.
-/
namespace Heimdall.Signer

inductive Family where
  | rsa | ecdsa
deriving DecidableEq, Repr

/-- what `PrivateKey.Public()` returns -/
structure PubKey where
  family : Family
  bits   : Nat
  pid    : Nat
deriving DecidableEq, Repr

structure PrivKey where
  pub    : PubKey
  secret : Nat
deriving DecidableEq, Repr

/-- a certificate: an identity (stands for its DER bytes) and its subject key identifier in hex ("" = absent) -/
structure Cert where
  cid : Nat
  ski : String
deriving DecidableEq, Repr

/-- a private-key block of the PEM file together with what x509 says about the certificates of the same file -/
structure RawEntry where
  xkid       : String       -- the `X-Key-ID` PEM header, "" if absent
  key        : PrivKey
  chain      : List Cert    -- `FindChain`
  chainValid : Bool         -- `ValidateChain`
  signUsable : Bool         -- `pkix.ValidateCertificate(chain[0], KeyUsageDigitalSignature, now)`
deriving DecidableEq, Repr

/-- `keystore.Entry` -/
structure Entry where
  kid        : String
  key        : PrivKey
  chain      : List Cert
  signUsable : Bool
deriving DecidableEq, Repr

/-- the published description of a key: `jose.JSONWebKey` as `Entry.JWK` fills it -/
structure Jwk where
  kid   : String
  alg   : String
  use   : String
  pub   : PubKey
  certs : List Cert
deriving DecidableEq, Repr

/-! ## key size -> JOSE algorithm (`entry.go`) -/

def rsaTable : List (Nat × String) := [(2048, "PS256"), (3072, "PS384"), (4096, "PS512")]

def ecdsaTable : List (Nat × String) := [(256, "ES256"), (384, "ES384"), (521, "ES512")]

def tableLookup (t : List (Nat × String)) (bits : Nat) : Option String := (t.find? (fun e => e.1 = bits)).map (·.2)

/-- `getRSAAlgorithm` -/
def rsaAlg (bits : Nat) : Option String := tableLookup rsaTable bits

/-- `getECDSAAlgorithm` -/
def ecdsaAlg (bits : Nat) : Option String := tableLookup ecdsaTable bits

/-- `Entry.JOSEAlgorithm`; `none` is the panic for unsupported sizes, which `load` excludes with `CheckJOSESupport`
before it calls `JWK()` -/
def joseAlg (k : PubKey) : Option String :=
  match k.family with
  | .rsa => rsaAlg k.bits
  | .ecdsa => ecdsaAlg k.bits

/-! ## building the key store (`key_store.go`) -/

/-- stands for `hex(pkix.SubjectKeyID(pub))`, a function of the public half only -/
def autoKid (p : PubKey) : String := "auto:" ++ toString p.pid

/-- `generateKeyID`: the subject key identifier of the end-entity certificate, else the computed one -/
def genKid (e : RawEntry) : String :=
  match e.chain with
  | c :: _ => if c.ski = "" then autoKid e.key.pub else c.ski
  | [] => autoKid e.key.pub

def kidOf (e : RawEntry) : String := if e.xkid = "" then genKid e else e.xkid

/-- `verifyAndBuildKeyStore`: chains are validated, key ids generated, duplicate key ids rejected; `known` are the key
ids seen so far -/
def buildStore : List RawEntry → List String → Option (List Entry)
  | [], _ => some []
  | e :: rest, known =>
    if e.chain ≠ [] ∧ e.chainValid = false then none
    else if kidOf e ∈ known then none
    else (buildStore rest (kidOf e :: known)).map (fun es => ⟨kidOf e, e.key, e.chain, e.signUsable⟩ :: es)

/-- `Entry.JWK`: built from the public half; `none` is the panic of `JOSEAlgorithm` (never reached from `load`) -/
def Entry.jwk (e : Entry) : Option Jwk :=
  (joseAlg e.key.pub).map (fun a => ⟨e.kid, a, "sig", e.key.pub, e.chain⟩)

/-! ## `jwtSigner` -/

/-- the three fields guarded by `jwtSigner.mut` -/
structure State where
  jwk     : Jwk
  key     : PrivKey
  pubKeys : List Jwk
deriving DecidableEq, Repr

/-- `keystore.SelectKey`: `GetKey` with a configured key id, else the first entry; `none` is the error for an unknown
id (`ErrNoSuchKey`) resp. a store without entries (`ErrNoKeys`) -/
def selectEntry (keyID : String) (es : List Entry) : Option Entry :=
  if keyID = "" then es.head? else es.find? (fun e => e.kid = keyID)

/-- `Entry.CheckJOSESupport`: the key size has a JOSE algorithm -/
def Entry.supported (e : Entry) : Bool := (joseAlg e.key.pub).isSome

def allJwks : List Entry → Option (List Jwk)
  | [] => some []
  | e :: rest => match e.jwk, allJwks rest with
    | some j, some js => some (j :: js)
    | _, _ => none

/-- `jwtSigner.load` on a parsed PEM file; `none` = one of its errors, in every case nothing is written: the store
cannot be built (invalid chain, duplicate key id), no key can be selected (unknown key id, no entries), some entry has
an unsupported key size, the selected entry's certificate may not sign.  (After these checks `Entry.JWK` cannot fail;
the last `none` is unreachable, see `Lemmas/SignerStore.lean: allJwks_of_supported`.) -/
def load (keyID : String) (raw : List RawEntry) : Option State :=
  match buildStore raw [] with
  | none => none
  | some es =>
    match selectEntry keyID es with
    | none => none
    | some kse =>
      if es.all Entry.supported = false then none
      else if kse.chain ≠ [] ∧ kse.signUsable = false then none
      else match allJwks es, kse.jwk with
        | some keys, some jwk => some ⟨jwk, kse.key, keys⟩
        | _, _ => none

/-- a key store file: `none` when it cannot be read / parsed at all -/
abbrev File := Option (List RawEntry)

def loadFile (keyID : String) (f : File) : Option State := f.bind (load keyID)

/-- `OnChanged`: a failed reload is logged and leaves the previous generation in place -/
def reload (keyID : String) (st : State) (f : File) : State := (loadFile keyID f).getD st

/-! ## one key under several ids

A key store file may list the very same private key more than once under different `X-Key-ID`s (the name a key had
before a renaming and the new one; bundles concatenated from several sources).  `buildStore` makes an entry of every
listing: each can be selected through its id (`GetKey`), and each is published under its id (`Entries()`, over which
`load` collects the JWKs).  The variant below is NOT what the code does. -/

/-- each key material once: a JWK whose public half was listed before (`seen`) is left out -/
def distinctKeysFrom : List PubKey → List Jwk → List Jwk
  | _, [] => []
  | seen, j :: rest =>
    if j.pub ∈ seen then distinctKeysFrom seen rest else j :: distinctKeysFrom (j.pub :: seen) rest

def distinctKeys (js : List Jwk) : List Jwk := distinctKeysFrom [] js

/-- variant of `load` for a key store whose `Entries()` lists every key material once — under the first of its ids —
while `GetKey` still finds an entry under each id (seed s5/C16-a): selection, checks and active pair as in `load`, the
published list thinned out -/
def loadDistinct (keyID : String) (raw : List RawEntry) : Option State :=
  (load keyID raw).map (fun st => { st with pubKeys := distinctKeys st.pubKeys })

/-! ## claims (`Sign`) -/

/-- claim values: strings and integers written by `Sign`, a freshly drawn identifier (`uuid.New()`), or whatever the
claims template produced (`α`) -/
inductive CVal (α : Type) where
  | str (s : String)
  | num (i : Int)
  | fresh
  | other (a : α)
deriving DecidableEq, Repr

/-- a Go `map[string]any` given by its members in the order they were written: a later member replaces an earlier
one of the same name (this is also how a JSON object with a repeated name decodes into a Go map) -/
abbrev Claims (α : Type) := List (String × CVal α)

variable {α : Type}

/-- `m[k]`: the last member written under that name -/
def lookup (k : String) : Claims α → Option (CVal α)
  | [] => none
  | kv :: rest => (lookup k rest).or (if kv.1 = k then some kv.2 else none)

/-- `m[k] = v` -/
def put (k : String) (v : CVal α) (c : Claims α) : Claims α := c.filter (fun kv => kv.1 ≠ k) ++ [(k, v)]

/-- `maps.Merge(custom, dst)`: every top-level name of `custom` is written into `dst` (the destination never holds
maps when `Sign` merges, so the recursive case of `maps.Merge` does not arise) -/
def mergeInto (custom dst : Claims α) : Claims α := custom.foldl (fun acc kv => put kv.1 kv.2 acc) dst

inductive SysSrc where
  | exp | iat | nbf | iss | sub | jti
deriving DecidableEq, Repr

/-- the statements of `Sign` that touch the claims, in source order -/
inductive ClaimOp where
  | merge
  | set (name : String) (src : SysSrc)
deriving DecidableEq, Repr

/-- per call: subject id, configured issuer, the clock reading and the TTL in nanoseconds -/
structure SignIn where
  sub   : String
  iss   : String
  nowNs : Int
  ttlNs : Int
deriving DecidableEq, Repr

/-- `time.Time.Unix()` of an instant given in nanoseconds since the epoch -/
def unixSec (ns : Int) : Int := ns / 1000000000

def sysVal (i : SignIn) : SysSrc → CVal α
  | .exp => .num (unixSec (i.nowNs + i.ttlNs))
  | .iat => .num (unixSec i.nowNs)
  | .nbf => .num (unixSec i.nowNs)
  | .iss => .str i.iss
  | .sub => .str i.sub
  | .jti => .fresh

def runOp (custom : Claims α) (i : SignIn) (c : Claims α) : ClaimOp → Claims α
  | .merge => mergeInto custom c
  | .set k s => put k (sysVal i s) c

def runProgram (p : List ClaimOp) (custom : Claims α) (i : SignIn) : Claims α := p.foldl (runOp custom i) []

/-- `Sign`: merge the custom claims into the empty map, then write the system claims -/
def signProgram : List ClaimOp :=
  [.merge, .set "exp" .exp, .set "jti" .jti, .set "iat" .iat, .set "iss" .iss, .set "nbf" .nbf, .set "sub" .sub]

/-- a compact JWS as far as C16 looks at it: the protected header, who signed, the claims -/
structure Token (α : Type) where
  typ      : String
  kid      : String
  alg      : String
  signedBy : PrivKey
  claims   : Claims α

/-- the part of `Sign` after the read lock is released: header from the copied JWK, signature with the copied key -/
def signWith (jwk : Jwk) (key : PrivKey) (i : SignIn) (custom : Claims α) : Token α :=
  ⟨"JWT", jwk.kid, jwk.alg, key, runProgram signProgram custom i⟩

/-- `Sign`: JWK and key are those of the one generation read under the read lock -/
def sign (st : State) (i : SignIn) (custom : Claims α) : Token α := signWith st.jwk st.key i custom

/-! ## the finalizer around the signer (`newJWTFinalizer`, `WithConfig`, `Execute`) -/

/-- what a `jwtFinalizer` keeps besides its signer; `claims` identifies the claims template, if any -/
structure Finalizer where
  ttlNs      : Int
  claims     : Option Nat
  headerName : String
  scheme     : String
deriving DecidableEq, Repr

def defaultTtlNs : Int := 300000000000

/-- `validate:"omitempty,gt=1s"` -/
def ttlAccepted (ttl : Option Int) : Bool :=
  match ttl with
  | none => true
  | some t => decide (t > 1000000000)

/-- `newJWTFinalizer` as far as the configuration goes: default TTL 5 minutes, default header `Authorization: Bearer` -/
def Finalizer.create (ttl : Option Int) (claims : Option Nat) (header : Option (String × String)) : Option Finalizer :=
  if ttlAccepted ttl then
    some ⟨ttl.getD defaultTtlNs, claims, (header.map (·.1)).getD "Authorization", (header.map (·.2)).getD "Bearer"⟩
  else none

/-- `WithConfig`: a rule may replace TTL and claims template, nothing else; the signer is shared -/
def Finalizer.withConfig (f : Finalizer) (ttl : Option Int) (claims : Option Nat) : Option Finalizer :=
  if ttlAccepted ttl then some { f with ttlNs := ttl.getD f.ttlNs, claims := (claims.map some).getD f.claims }
  else none

/-- `newJWTSigner`: the issuer is the configured signer name, `heimdall` if none is configured -/
def issuerName (name : String) : String := if name = "" then "heimdall" else name

/-- the upstream header `Execute` sets -/
def Finalizer.headerValue (f : Finalizer) (token : String) : String × String := (f.headerName, f.scheme ++ " " ++ token)

/-! ## publication (`Keys`, `registry.Keys`, the JWKS handler) -/

/-- `registry.Keys`: the key holders' lists one after the other, in registration order -/
def published (holders : List State) : List Jwk := holders.flatMap (·.pubKeys)

/-- the member names go-jose writes for a JWK whose `Key` is a public key (empty members are omitted) -/
def jwkMembers (j : Jwk) : List String :=
  (match j.pub.family with
   | .rsa => ["kty", "n", "e"]
   | .ecdsa => ["kty", "crv", "x", "y"])
  ++ (if j.kid = "" then [] else ["kid"]) ++ (if j.alg = "" then [] else ["alg"])
  ++ (if j.use = "" then [] else ["use"]) ++ (if j.certs = [] then [] else ["x5c"])

end Heimdall.Signer
