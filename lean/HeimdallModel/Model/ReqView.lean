import HeimdallModel.Model.NetAddr
import HeimdallModel.Base.UrlEscape
/-!
# The request view of the HTTP entry points and the forwarded headers sent upstream

Composition modelled (decision and proxy service alike):

```
net/http reader            canonical header names, values in order of arrival
trustedproxy.New           peer not trusted  ⇒  Header.Del for every name of `untrustedHeader`
requestcontext.New         extractMethod, extractURL, (lazily) requestClientIPs; Header()/Headers() for mechanisms
proxy rewriteRequest       (proxy only) forwarded family re-created for the upstream
```

`Req` is the request as `net/http` hands it to the first middleware: method, `Host`, `URL.EscapedPath()`,
`URL.RawQuery`, `TLS != nil`, `RemoteAddr`, and the header lines as they were on the wire (name casing untouched;
the model canonicalises them like `textproto` does).

What `net/url` makes of the value of `X-Forwarded-Uri` (`url.Parse(..)`: `RawPath`, `EscapedPath()`, `RawQuery`) is a
*parameter* (`UriParse`): every theorem holds for every such function; the correspondence check instantiates it with
the graph of the real `net/url` on the values that occur.  Heimdall's own part is modelled: `escapedPath` of
extract_url.go keeps the path **as received** (`Heimdall.receivedPath`: only octets that may not stand in a path become
`%XX`, every escape of the client is kept; `EscapedPath()` when `RawPath` is empty), for the request line and for a
believed `X-Forwarded-Uri` alike, and the query of a believed `X-Forwarded-Uri` is taken as received (`RawQuery`).
-/
namespace Heimdall.Fwd

abbrev Headers := List (String × String)

/-! ## header names -/

def upperAscii (c : Char) : Char := if 'a' ≤ c && c ≤ 'z' then Char.ofNat (c.toNat - 32) else c
def lowerAscii (c : Char) : Char := if 'A' ≤ c && c ≤ 'Z' then Char.ofNat (c.toNat + 32) else c

/-- `httpguts`/`textproto` token bytes: letters, digits and ``!#$%&'*+-.^_`|~`` (by character code) -/
def isTokenChar (c : Char) : Bool :=
  let n := c.toNat
  (97 ≤ n && n ≤ 122) || (65 ≤ n && n ≤ 90) || (48 ≤ n && n ≤ 57) || n == 33 || (35 ≤ n && n ≤ 39) || n == 42 ||
    n == 43 || n == 45 || n == 46 || (94 ≤ n && n ≤ 96) || n == 124 || n == 126

/-- first letter and every letter after `-` upper case, the others lower case -/
def canonChars : Bool → List Char → List Char
  | _, [] => []
  | up, c :: cs => (if up then upperAscii c else lowerAscii c) :: canonChars (c = '-') cs

/-- `textproto.CanonicalMIMEHeaderKey` -/
def canonKey (s : String) : String :=
  if s.toList.all isTokenChar then String.ofList (canonChars true s.toList) else s

/-- what the `net/http` reader makes of the header lines -/
def canonHeaders (wire : Headers) : Headers := wire.map fun kv => (canonKey kv.1, kv.2)

/-- `Header.Get` (first value or `""`), `k` canonical -/
def hget (h : Headers) (k : String) : String :=
  match h.find? (fun kv => kv.1 == k) with
  | some kv => kv.2
  | none => ""

/-- `Header.Values` -/
def hvalues (h : Headers) (k : String) : List String := (h.filter (fun kv => kv.1 == k)).map (·.2)

/-- `Header.Del` for every name of `names` -/
def strip (names : List String) (h : Headers) : Headers := h.filter fun kv => !names.contains kv.1

/-- `Header.Set` -/
def hset (h : Headers) (k v : String) : Headers := strip [k] h ++ [(k, v)]

/-! ## the tables of the code (tied to the source by `Gen/ReqView.lean`) -/

/-- `untrustedHeader` of trustedproxy/handler.go -/
def stripSet : List String :=
  ["Forwarded", "X-Forwarded-For", "X-Forwarded-Proto", "X-Forwarded-Host", "X-Forwarded-Uri", "X-Forwarded-Path",
   "X-Forwarded-Method"]

/-- header names read by extractMethod, extractURL, requestClientIPs and rewriteRequest -/
def readKeys : List String :=
  ["Forwarded", "X-Forwarded-For", "X-Forwarded-Host", "X-Forwarded-Method", "X-Forwarded-Proto", "X-Forwarded-Uri"]

/-- removed from the outgoing request by `httputil.ReverseProxy` when `Rewrite` is set -/
def rpStripped : List String := ["Forwarded", "X-Forwarded-For", "X-Forwarded-Host", "X-Forwarded-Proto"]

/-- `Out.Header.Del` in rewriteRequest -/
def outDel : List String := ["X-Forwarded-Method", "X-Forwarded-Uri", "X-Forwarded-Path"]

/-! ## the request -/

structure Req where
  method     : String
  host       : String
  rawPath    : String          -- URL.RawPath of the request line ("" when the default encoding of Path)
  escPath    : String          -- URL.EscapedPath() of the request line
  rawQuery   : String          -- URL.RawQuery of the request line
  tls        : Bool
  remoteAddr : String
  wire       : Headers         -- header lines as sent
deriving DecidableEq, Repr

/-- what `net/url` reports for a parsed reference -/
structure UrlParts where
  rawPath  : String            -- URL.RawPath
  escPath  : String            -- URL.EscapedPath()
  rawQuery : String            -- URL.RawQuery
deriving DecidableEq, Repr

/-- `url.Parse(v)`: `none` when it fails -/
abbrev UriParse := String → Option UrlParts

/-- `escapedPath` of extract_url.go: the path in the spelling it was received in -/
def pathAsReceived (rawPath escPath : String) : String :=
  if rawPath = "" then escPath else Heimdall.receivedPath rawPath

/-- the path of the request line as the view shows it -/
def Req.path (r : Req) : String := pathAsReceived r.rawPath r.escPath

structure View where
  method  : String
  scheme  : String
  host    : String
  rawPath : String
  query   : String
  ips     : List String
deriving DecidableEq, Repr

def orElse (a b : String) : String := if a = "" then b else a

def proto (r : Req) : String := if r.tls then "https" else "http"

/-- the headers every later stage sees: trustedproxy.New as first middleware, deleting `names` -/
def effective (names : List String) (proxies : List String) (r : Req) : Headers :=
  if trustedPeer proxies r.remoteAddr then canonHeaders r.wire else strip names (canonHeaders r.wire)

def extractMethod (h : Headers) (r : Req) : String := orElse (hget h "X-Forwarded-Method") r.method

/-- path and query offered by a value of `X-Forwarded-Uri`, both as received (both `""` when the value is empty or
    not parsable) -/
def uriOffer (parse : UriParse) (v : String) : String × String :=
  if v = "" then ("", "")
  else match parse v with
    | some u => (pathAsReceived u.rawPath u.escPath, u.rawQuery)
    | none => ("", "")

def forwardedUri (parse : UriParse) (h : Headers) : String × String := uriOffer parse (hget h "X-Forwarded-Uri")

/-! ### `requestClientIPs` -/

def isSpace (c : Char) : Bool := c = ' ' || c = '\t' || c = '\n' || c = '\r' || c.toNat = 11 || c.toNat = 12

/-- `strings.TrimSpace` on ASCII text -/
def trimSpace (s : List Char) : List Char := ((s.dropWhile isSpace).reverse.dropWhile isSpace).reverse

def cutPrefix (p s : List Char) : Option (List Char) := if p.isPrefixOf s then some (s.drop p.length) else none

/-- one element of `Forwarded`: the last `for=` parameter, `""` when there is none -/
def forwardedFor (elem : List Char) : List Char :=
  (splitOnChar ';' (trimSpace elem)).foldl
    (fun acc p => match cutPrefix "for=".toList (trimSpace p) with | some a => a | none => acc) []

def clientIPs (h : Headers) (r : Req) : List String :=
  let fwd := hget h "Forwarded"
  let xff := hget h "X-Forwarded-For"
  let fromHdr :=
    if fwd ≠ "" then (splitOnChar ',' fwd.toList).map fun e => String.ofList (forwardedFor e)
    else if xff ≠ "" then (splitOnChar ',' xff.toList).map fun e => String.ofList (trimSpace e)
    else []
  fromHdr ++ [ipFromHostPort r.remoteAddr]

/-- `requestcontext.New` + `Request()` on the headers `h` -/
def viewOf (parse : UriParse) (h : Headers) (r : Req) : View :=
  let fu := forwardedUri parse h
  { method  := extractMethod h r
    scheme  := orElse (hget h "X-Forwarded-Proto") (proto r)
    host    := orElse (hget h "X-Forwarded-Host") r.host
    rawPath := orElse fu.1 r.path
    query   := orElse fu.2 r.rawQuery
    ips     := clientIPs h r }

/-! ### what mechanisms are shown -/

def joinComma : List String → String
  | [] => ""
  | [v] => v
  | v :: vs => v ++ "," ++ joinComma vs

/-- `RequestContext.Header(name)` -/
def mechHeader (h : Headers) (r : Req) (name : String) : String :=
  if canonKey name = "Host" then r.host else joinComma (hvalues h (canonKey name))

/-- `RequestContext.Headers()` as an association list (keys in order of first arrival, `Host` first) -/
def mechHeaders (h : Headers) (r : Req) : Headers :=
  ("Host", r.host) :: (h.map (·.1)).eraseDups.map fun k => (k, joinComma (hvalues h k))

/-! ### proxy: headers of the forwarded family sent to the upstream -/

/-- `strings.Join(values, ", ")` -/
def joinList : List String → String
  | [] => ""
  | [v] => v
  | v :: vs => v ++ ", " ++ joinList vs

/-- headers of the outgoing request as far as they stem from the incoming ones and from rewriteRequest
    (hop-by-hop removal and pipeline headers are not part of this model).  `X-Forwarded-For` and `Forwarded` are
    lists: **all** received lines, joined in order of arrival, are extended by the real connection;
    `X-Forwarded-Proto` / `-Host` are single values (first line). -/
def upstreamHeaders (h : Headers) (r : Req) : Headers :=
  let out := strip outDel (strip rpStripped h)
  let fh := hget h "X-Forwarded-Host"
  let fp := hget h "X-Forwarded-Proto"
  let ff := joinList (hvalues h "X-Forwarded-For")
  let fw := joinList (hvalues h "Forwarded")
  let ip := ipFromHostPort r.remoteAddr
  if ff ≠ "" || fp ≠ "" || fh ≠ "" then
    hset (hset (hset out "X-Forwarded-For" (if ff = "" then ip else ff ++ ", " ++ ip))
      "X-Forwarded-Proto" (orElse fp (proto r))) "X-Forwarded-Host" (orElse fh r.host)
  else
    let own := "for=" ++ ip ++ ";host=" ++ r.host ++ ";proto=" ++ proto r
    hset out "Forwarded" (if fw = "" then own else fw ++ ", " ++ own)

def upstreamFwd (h : Headers) (r : Req) : Headers :=
  (upstreamHeaders h r).filter fun kv => stripSet.contains kv.1

/-! ## one request through a service -/

structure Outcome where
  view     : View
  shown    : Headers       -- `Headers()` as mechanisms see it
  upstream : Headers       -- forwarded family received by the upstream (proxy mode)
deriving DecidableEq, Repr

/-- the service with `names` as the list deleted for untrusted peers -/
def serveWith (names : List String) (parse : UriParse) (proxies : List String) (r : Req) : Outcome :=
  let h := effective names proxies r
  { view := viewOf parse h r, shown := mechHeaders h r, upstream := upstreamFwd h r }

/-- the service as it is -/
def serve (parse : UriParse) (proxies : List String) (r : Req) : Outcome := serveWith stripSet parse proxies r

end Heimdall.Fwd
