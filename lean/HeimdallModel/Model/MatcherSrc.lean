import HeimdallModel.Gen.MatcherSrc
import HeimdallModel.Model.Matcher
/-!
# The translated route matchers instantiated with the routes of the C03 model

`Gen/MatcherSrc.lean` (regenerated from the source on every run) is generic in the elements a matcher ranges over and
in what the atoms of a condition are. Here they are filled in from `Model/Matcher.lean`: a route `RouteM`, the request
view `ReqView`, the wildcard names `keys` and the captured values `caps` the radix tree hands to the matcher.
An error is just `Unit` wrapped into the condition that refused (`Refusal`): which sentinel a refusal carries is part
of what C12 looks at, not of the decision. No request context, no panics (`Unit`).

`routeSrc` assembles the four conditions exactly as `ruleFactory.CreateRule` does -
`compositeMatcher{scheme, methods, anyOfMatcher(hosts), compositeMatcher(path_params)}` - out of the translated
functions only. `Props/C03Src.lean` proves that it accepts iff `routeMatches` of the model accepts. Not imported by the
shared driver.
-/
namespace Heimdall.Matcher.SrcTie
open Heimdall

/-- which condition refused the request -/
inductive Refusal where
  | scheme | method | host | ppUnknown | ppSlash | ppValue (v : String)
deriving Repr, DecidableEq

abbrev M := Go.M Unit Unit (Option Refusal)

/-- `slices.Index(keys, name)` -/
def indexOf (name : String) : List String → Int
  | [] => -1
  | k :: ks => if k = name then 0 else if indexOf name ks = -1 then -1 else indexOf name ks + 1

/-- `values[i]` (an index outside the slice is a Go panic; it does not occur below: `c03_src_pp` demands as many values
as names) -/
def valueAt (caps : List String) (i : Int) : String := caps.getD i.toNat ""

/-- the translated `schemeMatcher.Matches` on a route and a request -/
def schemeSrc (r : RouteM) (q : ReqView) : M :=
  Src.Scheme.Matches (!r.scheme.isEmpty) (r.scheme != q.scheme) Refusal.scheme ()

/-- the translated `methodMatcher.Matches` -/
def methodSrc (r : RouteM) (q : ReqView) : M :=
  Src.Method.Matches r.methods.isEmpty (r.methods.contains q.method) Refusal.method ()

/-- the translated `hostMatcher.Matches` of one host expression -/
def hostSrc (q : ReqView) (h : TM) : M :=
  Src.Host.Matches (h.matches q.host) Refusal.host ()

/-- the translated `pathParamMatcher.Matches` of one path parameter condition -/
def ppSrc (esh : SlashHandling) (q : ReqView) (keys caps : List String) (pp : String × TM) : M :=
  Src.PathParam.Matches (indexOf pp.1 keys) (valueAt caps) (!q.rawPath.isEmpty) (esh == .off)
    (containsEncodedSlash q.rawPath) (unescapeCapture esh) pp.2.matches Refusal.ppUnknown Refusal.ppSlash
    Refusal.ppValue ()

/-- the four conditions of a route -/
inductive Cond where
  | scheme | method | hosts | pps
deriving Repr, DecidableEq

/-- `Matches` of the four elements of `compositeMatcher{sm, mm, hm, ppm}`; the host and path-parameter elements are
themselves the translated `anyOfMatcher` / `compositeMatcher` -/
def condSrc (r : RouteM) (q : ReqView) (keys caps : List String) : Cond → M
  | .scheme => schemeSrc r q
  | .method => methodSrc r q
  | .hosts => Src.AnyOf.Matches (hostSrc q) () r.hosts
  | .pps => Src.AllOf.Matches (ppSrc r.esh q keys caps) () r.pps

/-- the matcher of a route as `CreateRule` builds it, out of translated functions only -/
def routeSrc (r : RouteM) (q : ReqView) (keys caps : List String) : M :=
  Src.AllOf.Matches (condSrc r q keys caps) () [.scheme, .method, .hosts, .pps]

/-- `none` = a panic -/
def accepts {Err : Type} (m : Go.M Unit Unit (Option Err)) : Option Bool :=
  match m () with
  | .done e _ => some e.isNone
  | .panic _ _ => none

end Heimdall.Matcher.SrcTie
