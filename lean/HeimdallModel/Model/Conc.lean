/-!
# The copy-on-write protocol of the rule repository as a small-step machine (C07)

Any number of threads (indexed by `Nat`) run either a *writer* (`AddRuleSet` / `UpdateRuleSet` / `DeleteRuleSet`:
lock `knownRulesMutex`, read the known rules, clone the index, compute on the private clone, publish the known
rules, lock `rulesTreeMutex`, publish the index, unlock both) or a *reader* (`FindRule`: read-lock `rulesTreeMutex`,
search, unlock).  The sequential meaning of a change and of a lookup is a parameter (`Seq`; instantiated with the
repository model of C06).  Ghost state: `log`, the committed changes in commit order, and `owners`, the threads
that committed them.
-/
namespace Heimdall.Conc

/-- sequential semantics: `apply = none` means the change is rejected -/
structure Seq (K T Op Req Ans : Type) where
  apply : K × T → Op → Option (K × T)
  look  : T → Req → Ans
  init  : K × T

inductive WPc where
  | idle | locked | readK | cloned | computed | failed | knownWritten | rwHeld | indexWritten | rwReleased
  | doneOk | doneFail
deriving DecidableEq, Repr

inductive RPc where
  | idle | rHeld | searched | done
deriving DecidableEq, Repr

inductive Thread (K T Op Req Ans : Type) where
  | writer (op : Op) (pc : WPc) (loc : K × T)
  | reader (rq : Req) (pc : RPc) (ans : Option Ans) (start stamp : Nat)

def upd {α : Type} (f : Nat → α) (i : Nat) (v : α) : Nat → α := fun j => if j = i then v else f j

structure Config (K T Op Req Ans : Type) where
  known   : K
  index   : T
  wlock   : Option Nat          -- holder of knownRulesMutex
  rww     : Option Nat          -- write holder of rulesTreeMutex
  readers : Nat                 -- read holders of rulesTreeMutex
  log     : List Op             -- ghost: committed changes, in commit order
  owners  : List Nat            -- ghost: the threads that committed them
  rset    : List Nat            -- ghost: the threads holding the read lock
  threads : Nat → Thread K T Op Req Ans

variable {K T Op Req Ans : Type}

def run (s : Seq K T Op Req Ans) (ops : List Op) : K × T :=
  ops.foldl (fun st o => (s.apply st o).getD st) s.init

open Thread in
inductive Step (s : Seq K T Op Req Ans) : Config K T Op Req Ans → Config K T Op Req Ans → Prop
  | wLock (c i op loc) (h : c.threads i = writer op .idle loc) (free : c.wlock = none) :
      Step s c { c with wlock := some i, threads := upd c.threads i (writer op .locked loc) }
  | wReadKnown (c i op loc) (h : c.threads i = writer op .locked loc) (hl : c.wlock = some i) :
      Step s c { c with threads := upd c.threads i (writer op .readK (c.known, loc.2)) }
  | wClone (c i op loc) (h : c.threads i = writer op .readK loc) (hl : c.wlock = some i) :
      Step s c { c with threads := upd c.threads i (writer op .cloned (loc.1, c.index)) }
  | wComputeOk (c i op loc st') (h : c.threads i = writer op .cloned loc) (hl : c.wlock = some i)
      (ha : s.apply loc op = some st') :
      Step s c { c with threads := upd c.threads i (writer op .computed st') }
  | wComputeErr (c i op loc) (h : c.threads i = writer op .cloned loc) (hl : c.wlock = some i)
      (ha : s.apply loc op = none) :
      Step s c { c with threads := upd c.threads i (writer op .failed loc) }
  | wFail (c i op loc) (h : c.threads i = writer op .failed loc) (hl : c.wlock = some i) :
      Step s c { c with wlock := none, threads := upd c.threads i (writer op .doneFail loc) }
  | wKnown (c i op st') (h : c.threads i = writer op .computed st') (hl : c.wlock = some i) :
      Step s c { c with known := st'.1, threads := upd c.threads i (writer op .knownWritten st') }
  | wRWLock (c i op st') (h : c.threads i = writer op .knownWritten st')
      (free : c.rww = none) (nor : c.readers = 0) :
      Step s c { c with rww := some i, threads := upd c.threads i (writer op .rwHeld st') }
  | wIndex (c i op st') (h : c.threads i = writer op .rwHeld st') (hl : c.rww = some i) :
      Step s c { c with index := st'.2, log := c.log ++ [op], owners := c.owners ++ [i],
                        threads := upd c.threads i (writer op .indexWritten st') }
  | wRWUnlock (c i op st') (h : c.threads i = writer op .indexWritten st') (hl : c.rww = some i) :
      Step s c { c with rww := none, threads := upd c.threads i (writer op .rwReleased st') }
  | wUnlock (c i op st') (h : c.threads i = writer op .rwReleased st') (hl : c.wlock = some i) :
      Step s c { c with wlock := none, threads := upd c.threads i (writer op .doneOk st') }
  | rLock (c i rq) (h : c.threads i = reader rq .idle none 0 0) (free : c.rww = none) :
      Step s c { c with readers := c.readers + 1, rset := i :: c.rset,
                        threads := upd c.threads i (reader rq .rHeld none c.log.length 0) }
  | rSearch (c i rq st) (h : c.threads i = reader rq .rHeld none st 0) :
      Step s c { c with threads := upd c.threads i (reader rq .searched (some (s.look c.index rq)) st c.log.length) }
  | rUnlock (c i rq a st n) (h : c.threads i = reader rq .searched (some a) st n) :
      Step s c { c with readers := c.readers - 1, rset := c.rset.erase i,
                        threads := upd c.threads i (reader rq .done (some a) st n) }

/-- initial configurations: nothing locked, nothing committed, every thread at its start -/
def Initial (s : Seq K T Op Req Ans) (c : Config K T Op Req Ans) : Prop :=
  (c.known, c.index) = s.init ∧ c.wlock = none ∧ c.rww = none ∧ c.readers = 0 ∧ c.log = [] ∧ c.owners = [] ∧ c.rset = [] ∧
  ∀ i, (∃ op loc, c.threads i = .writer op .idle loc) ∨ (∃ rq, c.threads i = .reader rq .idle none 0 0)

inductive Reachable (s : Seq K T Op Req Ans) : Config K T Op Req Ans → Prop
  | init (c) : Initial s c → Reachable s c
  | step (c c') : Reachable s c → Step s c c' → Reachable s c'

end Heimdall.Conc
