/-!
# The copy-on-write protocol of the rule repository as a small-step machine (C07)

Any number of threads (indexed by `Nat`) run either a *writer* (`AddRuleSet` / `UpdateRuleSet` / `DeleteRuleSet`:
lock `knownRulesMutex`, read the known rules, clone the index, compute on the private clone, publish the known
rules, lock `rulesTreeMutex`, publish the index, unlock both) or a *reader* (`FindRule`: read-lock `rulesTreeMutex`,
search, unlock).  The sequential meaning of a change and of a lookup is a parameter (`Seq`; instantiated with the
repository model of C06).  Ghost state: `log`, the committed changes in commit order, and `owners`, the threads
that committed them.

**Panics.**  The search of a lookup calls the route matchers, the computation of a change calls into the rules
(`Routes()`, `Path()`): either may panic, and the panic is recovered far above the repository (the recover
middleware of the request goroutine, the provider's event loop), so the goroutine ends but the process lives on.
What happens to the locks the goroutine holds depends on the *release discipline* of the source, a parameter of
the machine (`Discipline`, read off the extracted protocol by `disciplineOf` in `Model/RepoProtocol.lean`):
a deferred unlock runs while the panic unwinds (`rPanicReleased`, `wPanicReleased`), an explicit unlock after the
call is skipped and the lock stays held for ever (`rPanicLeaked`, `wPanicLeaked`).  A panic may strike any reader
during its search and any writer during the clone or the computation on the private clone, at any time, any
number of times.

**Pending writers.**  `rulesTreeMutex` is Go's `sync.RWMutex`: `Lock()` first announces the writer — from then on
new `RLock()` calls block — and then waits until the readers that already hold the lock have left.  The machine
takes the two halves as two steps (`wRWRequest`, `wRWAcquire`); `rww = some i` means "writer `i` is pending or
holds the lock", and `rLock` needs `rww = none`.
-/
namespace Heimdall.Conc

/-- sequential semantics: `apply = none` means the change is rejected -/
structure Seq (K T Op Req Ans : Type) where
  apply : K × T → Op → Option (K × T)
  look  : T → Req → Ans
  init  : K × T

/-- How the source releases its locks: by a deferred unlock registered right after the lock was taken (runs on
    every way out, a panic included) or by an explicit unlock after the protected calls (skipped by a panic). -/
structure Discipline where
  /-- `FindRule`: `defer r.rulesTreeMutex.RUnlock()` -/
  readerDeferred : Bool
  /-- the writer methods: `defer r.knownRulesMutex.Unlock()` -/
  writerDeferred : Bool
deriving DecidableEq, Repr

/-- the discipline the proofs of deadlock freedom are about (and the obligations demand of the source) -/
def Discipline.deferred : Discipline := ⟨true, true⟩

inductive WPc where
  | idle | locked | readK | cloned | computed | failed | knownWritten | rwWaiting | rwHeld | indexWritten | rwReleased
  | doneOk | doneFail
  | crashed                     -- the clone or the computation panicked; the goroutine is gone
deriving DecidableEq, Repr

inductive RPc where
  | idle | rHeld | searched | done
  | crashed                     -- the search panicked; the goroutine is gone
deriving DecidableEq, Repr

inductive Thread (K T Op Req Ans : Type) where
  | writer (op : Op) (pc : WPc) (loc : K × T)
  | reader (rq : Req) (pc : RPc) (ans : Option Ans) (start stamp : Nat)

def upd {α : Type} (f : Nat → α) (i : Nat) (v : α) : Nat → α := fun j => if j = i then v else f j

structure Config (K T Op Req Ans : Type) where
  known   : K
  index   : T
  wlock   : Option Nat          -- holder of knownRulesMutex
  rww     : Option Nat          -- writer pending on or holding rulesTreeMutex
  readers : Nat                 -- read holders of rulesTreeMutex
  log     : List Op             -- ghost: committed changes, in commit order
  owners  : List Nat            -- ghost: the threads that committed them
  rset    : List Nat            -- ghost: the threads holding the read lock
  threads : Nat → Thread K T Op Req Ans

variable {K T Op Req Ans : Type}

def run (s : Seq K T Op Req Ans) (ops : List Op) : K × T :=
  ops.foldl (fun st o => (s.apply st o).getD st) s.init

open Thread in
inductive Step (d : Discipline) (s : Seq K T Op Req Ans) : Config K T Op Req Ans → Config K T Op Req Ans → Prop
  | wLock (c i op loc) (h : c.threads i = writer op .idle loc) (free : c.wlock = none) :
      Step d s c { c with wlock := some i, threads := upd c.threads i (writer op .locked loc) }
  | wReadKnown (c i op loc) (h : c.threads i = writer op .locked loc) (hl : c.wlock = some i) :
      Step d s c { c with threads := upd c.threads i (writer op .readK (c.known, loc.2)) }
  | wClone (c i op loc) (h : c.threads i = writer op .readK loc) (hl : c.wlock = some i) :
      Step d s c { c with threads := upd c.threads i (writer op .cloned (loc.1, c.index)) }
  | wComputeOk (c i op loc st') (h : c.threads i = writer op .cloned loc) (hl : c.wlock = some i)
      (ha : s.apply loc op = some st') :
      Step d s c { c with threads := upd c.threads i (writer op .computed st') }
  | wComputeErr (c i op loc) (h : c.threads i = writer op .cloned loc) (hl : c.wlock = some i)
      (ha : s.apply loc op = none) :
      Step d s c { c with threads := upd c.threads i (writer op .failed loc) }
  | wFail (c i op loc) (h : c.threads i = writer op .failed loc) (hl : c.wlock = some i) :
      Step d s c { c with wlock := none, threads := upd c.threads i (writer op .doneFail loc) }
  | wKnown (c i op st') (h : c.threads i = writer op .computed st') (hl : c.wlock = some i) :
      Step d s c { c with known := st'.1, threads := upd c.threads i (writer op .knownWritten st') }
  | wRWRequest (c i op st') (h : c.threads i = writer op .knownWritten st') (free : c.rww = none) :
      Step d s c { c with rww := some i, threads := upd c.threads i (writer op .rwWaiting st') }
  | wRWAcquire (c i op st') (h : c.threads i = writer op .rwWaiting st') (hl : c.rww = some i)
      (nor : c.readers = 0) :
      Step d s c { c with threads := upd c.threads i (writer op .rwHeld st') }
  | wIndex (c i op st') (h : c.threads i = writer op .rwHeld st') (hl : c.rww = some i) :
      Step d s c { c with index := st'.2, log := c.log ++ [op], owners := c.owners ++ [i],
                          threads := upd c.threads i (writer op .indexWritten st') }
  | wRWUnlock (c i op st') (h : c.threads i = writer op .indexWritten st') (hl : c.rww = some i) :
      Step d s c { c with rww := none, threads := upd c.threads i (writer op .rwReleased st') }
  | wUnlock (c i op st') (h : c.threads i = writer op .rwReleased st') (hl : c.wlock = some i) :
      Step d s c { c with wlock := none, threads := upd c.threads i (writer op .doneOk st') }
  | rLock (c i rq) (h : c.threads i = reader rq .idle none 0 0) (free : c.rww = none) :
      Step d s c { c with readers := c.readers + 1, rset := i :: c.rset,
                          threads := upd c.threads i (reader rq .rHeld none c.log.length 0) }
  | rSearch (c i rq st) (h : c.threads i = reader rq .rHeld none st 0) :
      Step d s c { c with threads := upd c.threads i (reader rq .searched (some (s.look c.index rq)) st c.log.length) }
  | rUnlock (c i rq a st n) (h : c.threads i = reader rq .searched (some a) st n) :
      Step d s c { c with readers := c.readers - 1, rset := c.rset.erase i,
                          threads := upd c.threads i (reader rq .done (some a) st n) }
  /-- the clone (`pc = readK`) or the computation on the private clone (`pc = cloned`) panics; the deferred unlock
      of `knownRulesMutex` runs while the panic unwinds -/
  | wPanicReleased (hd : d.writerDeferred = true) (c i op pc loc) (h : c.threads i = writer op pc loc)
      (hpc : pc = .readK ∨ pc = .cloned) (hl : c.wlock = some i) :
      Step d s c { c with wlock := none, threads := upd c.threads i (writer op .crashed loc) }
  /-- the same panic when the unlock is an explicit call at the exits: it is skipped, the mutex stays locked -/
  | wPanicLeaked (hd : d.writerDeferred = false) (c i op pc loc) (h : c.threads i = writer op pc loc)
      (hpc : pc = .readK ∨ pc = .cloned) (hl : c.wlock = some i) :
      Step d s c { c with threads := upd c.threads i (writer op .crashed loc) }
  /-- the search panics (a route matcher); the deferred read-unlock runs while the panic unwinds -/
  | rPanicReleased (hd : d.readerDeferred = true) (c i rq st) (h : c.threads i = reader rq .rHeld none st 0) :
      Step d s c { c with readers := c.readers - 1, rset := c.rset.erase i,
                          threads := upd c.threads i (reader rq .crashed none st 0) }
  /-- the same panic when the read-unlock is an explicit call after the search: it is skipped, the read lock
      stays held by a goroutine that no longer exists -/
  | rPanicLeaked (hd : d.readerDeferred = false) (c i rq st) (h : c.threads i = reader rq .rHeld none st 0) :
      Step d s c { c with threads := upd c.threads i (reader rq .crashed none st 0) }

/-- initial configurations: nothing locked, nothing committed, every thread at its start -/
def Initial (s : Seq K T Op Req Ans) (c : Config K T Op Req Ans) : Prop :=
  (c.known, c.index) = s.init ∧ c.wlock = none ∧ c.rww = none ∧ c.readers = 0 ∧ c.log = [] ∧ c.owners = [] ∧ c.rset = [] ∧
  ∀ i, (∃ op loc, c.threads i = .writer op .idle loc) ∨ (∃ rq, c.threads i = .reader rq .idle none 0 0)

inductive Reachable (d : Discipline) (s : Seq K T Op Req Ans) : Config K T Op Req Ans → Prop
  | init (c) : Initial s c → Reachable d s c
  | step (c c') : Reachable d s c → Step d s c c' → Reachable d s c'

/-- `c'` can be reached from `c` by any number of steps of any threads -/
inductive Steps (d : Discipline) (s : Seq K T Op Req Ans) : Config K T Op Req Ans → Config K T Op Req Ans → Prop
  | refl (c) : Steps d s c c
  | step (c c' c'') : Steps d s c c' → Step d s c' c'' → Steps d s c c''

end Heimdall.Conc
