import HeimdallModel.Gen.CompositeSrc
import HeimdallModel.Model.Authn
/-!
# The translated `compositeSubjectCreator.Execute` instantiated with the steps of the C04 model

`Gen/CompositeSrc.lean` is generic in the elements of the slice. Here an element is a `Step` of `Model/Authn.lean`: what
`Execute` of the authenticator returned for the request (`Except Err String`, as the Go pair `(sub, err)`) and its
`IsFallbackOnErrorAllowed()`; `errors.Is(err, heimdall.ErrArgument)` = `Err.is e .argument` on error trees. No context,
no panics (`Unit`). Used by `Props/C04Src.lean` (equality with `composite` for all lists) and by the replay search of
`tools/props/c04.py`. Not imported by the shared driver.
-/
namespace Heimdall.Authn.SrcTie
open Heimdall Heimdall.Authn Heimdall.Rules

/-- `a.Execute(ctx)` -/
def stepExec (s : Step) : Go.M Unit Unit (Option String × Option Err) := fun c =>
  .done (match s.out with | .ok x => (some x, none) | .error e => (none, some e)) c

/-- `(sub, nil)`, `(nil, err)`, `(nil, nil)` -/
def ofResult : Result → Option String × Option Err
  | .subject s => (some s, none)
  | .failure e => (none, some e)
  | .nothing => (none, none)

/-- the value of the variable `err` as `Result` -/
def lastOf : Option Err → Result
  | some e => .failure e
  | none => .nothing

/-- the translated composite on a chain of steps: `none` = it panicked (nil dereference) -/
def compositeSrc (ss : List Step) : Option (Option String × Option Err) :=
  match Src.SubjectCreator.Execute stepExec (·.fallback) (·.is .argument) () ss () with
  | .done r _ => some r
  | .panic _ _ => none

end Heimdall.Authn.SrcTie
