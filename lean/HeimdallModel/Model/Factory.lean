/-!
# Rule factory: what `internal/rules/rule_factory_impl.go` does (model for property C14)

* `execStep` / `execPipeline`  — `createExecutePipeline`: the loop over the `execute` list with its three
  accumulators (authenticators, subject handlers = authorizers and contextualizers, finalizers), the key lookup
  order `authenticator`, `authorizer`, `contextualizer`, `finalizer`, and the order checks, which look at the
  *emptiness of the accumulators* exactly like the Go code does.
* `errStep` / `errPipeline`    — `createOnErrorPipeline`.
* `newFactory`                 — `NewRuleFactory` / `initWithDefaultRule` (plus the `uniqueItems` constraint the
  configuration schema puts on the default rule's lists).
* `createRule`                 — `CreateRule`: proxy mode needs `forward_to`, both pipelines, backtracking
  inheritance, stage-wise fallback to the default rule, "no authenticator".
* `loadRule`                   — what the rule set loader does before it: `execute` is mandatory (`gt=0`) for
  validated documents.
* `load`                       — a configuration (catalogue, mode, default rule) and one rule definition, end to end.
* `loadAll`, `loadHistory`     — a history of rules created by one factory.
* `Listed`, `RawRule`, `RawDefault`, `loadDocuments` — the spellings absent / `null` / list of `execute` and `on_error`.

The mechanism catalogue is abstract: `cat kind id = some accepted` says that a mechanism `id` of that kind exists
and which `config` overrides (identified by a tag) its `WithConfig` accepts.  Core Lean only.
-/
namespace Heimdall.Factory

/-- what a pipeline step can reference -/
inductive Kind
  | authn | authz | ctx | fin | eh
  deriving DecidableEq, Repr, Inhabited

/-- the four stages of the property: authentication, authorization/contextualization, finalization, error handling -/
inductive Stage
  | authentication | handling | finalization | errorHandling
  deriving DecidableEq, Repr, Inhabited

def Kind.stage : Kind → Stage
  | .authn => .authentication
  | .authz => .handling
  | .ctx => .handling
  | .fin => .finalization
  | .eh => .errorHandling

/-- The static result type the CEL type checker computes for an expression (`ast.OutputType()` after `env.Check` in
`cellib.CompileExpression`).  The variables `Subject`, `Payload` and `Request` are declared `dyn` and `Outputs` is a
`map(string, dyn)`, so every attribute / index chain that ends in one of them (`Subject.Attributes.admin`,
`Payload.x`, `Outputs.y`, `Request.URL.Path`) has the type `dyn`: what it yields is known at evaluation only. -/
inductive CelTy
  | bool | int | str | dyn | list (elem : CelTy) | map (val : CelTy)
  deriving DecidableEq, Repr, Inhabited

/-- The `if` entry of a step: absent; a non-empty string `src` — with what the CEL compiler says about it: `some t`,
it parses and type-checks with the static result type `t`, or `none`, it does not compile (syntax error, undeclared
variable or function, no matching overload) —; the empty string; or something that is not a string.  The text is part
of the step (two steps that differ in the text of their `if` are different steps). -/
inductive Cond
  | absent | expr (src : String) (t : Option CelTy) | empty | nonString
  deriving DecidableEq, Repr, Inhabited

/-- One entry of an `execute` / `on_error` list: a map.  Only the keys the factory looks at are kept; several of
them may be present at once (the Go code then takes the first in its lookup order).  `config` is the tag of the
override payload, `none` when the key is absent. -/
structure Step where
  authenticator : Option String := none
  authorizer : Option String := none
  contextualizer : Option String := none
  finalizer : Option String := none
  errorHandler : Option String := none
  cond : Cond := .absent
  config : Option Nat := none
  deriving DecidableEq, Repr, Inhabited

/-- a mechanism instance placed into a pipeline -/
structure Mech where
  kind : Kind
  id : String
  /-- wrapped into an execution condition (`if`) -/
  conditional : Bool
  /-- override payload applied through `WithConfig` -/
  config : Option Nat
  deriving DecidableEq, Repr, Inhabited

/-- why a configuration or a rule is refused (the first reason the code runs into) -/
inductive Reason
  | noForwardTo | emptyExecute | authenticatorAfterOther | handlerAfterFinalizer | unsupportedStep
  | badCondition | unknownMechanism | badOverride | noAuthenticator | duplicateSteps | notAList
  deriving DecidableEq, Repr, Inhabited

/-- `cat kind id`: `none` — no such mechanism in the catalogue; `some tags` — it exists and accepts exactly the
override payloads with these tags -/
abbrev Catalogue := Kind → String → Option (List Nat)

/-- `MechanismFactory.Create…`: look the prototype up, apply the override if the step carries one -/
def create (cat : Catalogue) (k : Kind) (id : String) (conditional : Bool) (cfg : Option Nat) : Except Reason Mech :=
  match cat k id with
  | none => .error .unknownMechanism
  | some accepted =>
    match cfg with
    | none => .ok ⟨k, id, conditional, none⟩
    | some t => if accepted.contains t then .ok ⟨k, id, conditional, some t⟩ else .error .badOverride

/-- `cellib.CompileExpression` behind the parser and the type checker: the load-time check of the result type
(`!reflect.DeepEqual(ast.OutputType(), cel.BoolType)` ⇒ "wanted bool, got …").  An expression is let through exactly
when its static type is `bool`; `dyn` is **not** (at run time every value other than the bool `true` counts as false,
so a `dyn`-typed guard would silently switch its mechanism off). -/
def compiles : CelTy → Bool
  | .bool => true
  | _ => false

/-- `getExecutionCondition`: `true` when the step is guarded by a (compiled) expression -/
def condition : Cond → Except Reason Bool
  | .absent => .ok false
  | .expr _ (some t) => if compiles t then .ok true else .error .badCondition
  | _ => .error .badCondition

/-- `createHandler` after its key has been found and its order check has passed -/
def handler (cat : Catalogue) (k : Kind) (id : String) (s : Step) : Except Reason Mech := do
  let c ← condition s.cond
  create cat k id c s.config

/-- the three accumulators of `createExecutePipeline` -/
structure Pipes where
  authn : List Mech := []
  sh : List Mech := []
  fin : List Mech := []
  deriving DecidableEq, Repr, Inhabited

/-- one iteration of the loop in `createExecutePipeline` -/
def execStep (cat : Catalogue) (acc : Pipes) (s : Step) : Except Reason Pipes :=
  match s.authenticator with
  | some id =>
    -- an `if` on an authenticator step is never looked at
    if !acc.sh.isEmpty || !acc.fin.isEmpty then .error .authenticatorAfterOther
    else do
      let m ← create cat .authn id false s.config
      pure { acc with authn := acc.authn ++ [m] }
  | none =>
  match s.authorizer with
  | some id =>
    if !acc.fin.isEmpty then .error .handlerAfterFinalizer
    else do
      let m ← handler cat .authz id s
      pure { acc with sh := acc.sh ++ [m] }
  | none =>
  match s.contextualizer with
  | some id =>
    if !acc.fin.isEmpty then .error .handlerAfterFinalizer
    else do
      let m ← handler cat .ctx id s
      pure { acc with sh := acc.sh ++ [m] }
  | none =>
  match s.finalizer with
  | some id => do
    let m ← handler cat .fin id s
    pure { acc with fin := acc.fin ++ [m] }
  | none => .error .unsupportedStep

/-- `createExecutePipeline`, started from given accumulators -/
def execPipeline (cat : Catalogue) : Pipes → List Step → Except Reason Pipes
  | acc, [] => pure acc
  | acc, s :: ss => do
    let acc' ← execStep cat acc s
    execPipeline cat acc' ss

/-- one iteration of `createOnErrorPipeline` -/
def errStep (cat : Catalogue) (s : Step) : Except Reason Mech :=
  match s.errorHandler with
  | some id => handler cat .eh id s
  | none => .error .unsupportedStep

/-- `createOnErrorPipeline` -/
def errPipeline (cat : Catalogue) : List Step → Except Reason (List Mech)
  | [] => pure []
  | s :: ss => do
    let m ← errStep cat s
    let ms ← errPipeline cat ss
    pure (m :: ms)

/-- `default_rule` of the configuration file -/
structure DefaultRule where
  backtracking : Bool := false
  execute : List Step := []
  onError : List Step := []
  deriving DecidableEq, Repr, Inhabited

/-- a rule of a rule set, as far as the factory is concerned (`match.backtracking_enabled`, presence of
`forward_to`, `execute`, `on_error`) -/
structure RuleDef where
  backtracking : Option Bool := none
  forwardTo : Bool := false
  execute : List Step := []
  onError : List Step := []
  deriving DecidableEq, Repr, Inhabited

/-- the four pipelines of a `ruleImpl` -/
structure Pipelines where
  authn : List Mech := []
  sh : List Mech := []
  fin : List Mech := []
  eh : List Mech := []
  deriving DecidableEq, Repr, Inhabited

/-- the rule that is executed (`ruleImpl`): pipelines, `allowsBacktracking`, `backend != nil` -/
structure Effective extends Pipelines where
  backtracking : Bool := false
  upstream : Bool := false
  deriving DecidableEq, Repr, Inhabited

/-- `ruleFactory` -/
structure Factory where
  proxy : Bool
  dflt : Option Pipelines
  defaultBacktracking : Bool
  deriving DecidableEq, Repr, Inhabited

/-- `NewRuleFactory` (with the schema's `uniqueItems` on both lists of the default rule checked first, as the
configuration loader does) -/
def newFactory (cat : Catalogue) (proxy : Bool) : Option DefaultRule → Except Reason Factory
  | none => pure ⟨proxy, none, false⟩
  | some d =>
    if !(decide d.execute.Nodup && decide d.onError.Nodup) then .error .duplicateSteps
    else do
      let p ← execPipeline cat {} d.execute
      let eh ← errPipeline cat d.onError
      if p.authn.isEmpty then .error .noAuthenticator
      else pure ⟨proxy, some ⟨p.authn, p.sh, p.fin, eh⟩, d.backtracking⟩

/-- `x.IfThenElse(len(own) != 0, own, inherited)` -/
def orElse (own inherited : List Mech) : List Mech := if own.isEmpty then inherited else own

/-- backtracking inheritance in `CreateRule`: the rule's own setting if given, otherwise the factory's -/
def Factory.backtrackingFor (f : Factory) : Option Bool → Bool
  | some b => b
  | none => f.defaultBacktracking

/-- stage-wise fallback in `CreateRule` (`if f.defaultRule != nil { … }`) -/
def Factory.complete (f : Factory) (p : Pipes) (eh : List Mech) : Pipelines :=
  match f.dflt with
  | some d => ⟨orElse p.authn d.authn, orElse p.sh d.sh, orElse p.fin d.fin, orElse eh d.eh⟩
  | none => ⟨p.authn, p.sh, p.fin, eh⟩

/-- `CreateRule` -/
def createRule (cat : Catalogue) (f : Factory) (r : RuleDef) : Except Reason Effective :=
  if f.proxy && !r.forwardTo then .error .noForwardTo
  else do
    let p ← execPipeline cat {} r.execute
    let eh ← errPipeline cat r.onError
    let bt := f.backtrackingFor r.backtracking
    let ps := f.complete p eh
    if ps.authn.isEmpty then .error .noAuthenticator
    else pure { toPipelines := ps, backtracking := bt, upstream := r.forwardTo }

/-- Loading one rule of a rule set.  Documents read by the file, endpoint and bucket providers go through the
rule set validation first (`validated = true`: `execute` has `gt=0`); rule sets taken from kubernetes resources
(`validated = false`) reach `CreateRule` as decoded — there the API server's schema is in charge. -/
def loadRule (cat : Catalogue) (validated : Bool) (f : Factory) (r : RuleDef) : Except Reason Effective :=
  if validated && r.execute.isEmpty then .error .emptyExecute else createRule cat f r

/-- result of loading a configuration together with one rule -/
inductive Outcome
  | configRejected (why : Reason)
  | ruleRejected (why : Reason)
  | accepted (f : Factory) (e : Effective)
  deriving DecidableEq, Repr, Inhabited

def load (cat : Catalogue) (proxy validated : Bool) (d : Option DefaultRule) (r : RuleDef) : Outcome :=
  match newFactory cat proxy d with
  | .error e => .configRejected e
  | .ok f =>
    match loadRule cat validated f r with
    | .error e => .ruleRejected e
    | .ok e => .accepted f e

/-! ## Histories: one factory, many rules

`CreateRule` is a method of the long-lived factory object (pointer receiver).  `createRuleM` is that method with
the factory *after* the call made explicit; the Go method writes none of the factory's fields, so it hands the
factory back unchanged.  `loadAll` threads the factory through a sequence of rules the way the rule set processor
does over the life time of the process. -/

instance {ε α : Type} [DecidableEq ε] [DecidableEq α] : DecidableEq (Except ε α)
  | .ok a, .ok b => if h : a = b then isTrue (by rw [h]) else isFalse (fun h' => h (Except.ok.inj h'))
  | .error a, .error b => if h : a = b then isTrue (by rw [h]) else isFalse (fun h' => h (Except.error.inj h'))
  | .ok _, .error _ => isFalse (fun h => nomatch h)
  | .error _, .ok _ => isFalse (fun h => nomatch h)

/-- `CreateRule` as a state transition of the factory -/
def Factory.createRuleM (cat : Catalogue) (validated : Bool) (f : Factory) (r : RuleDef) :
    Factory × Except Reason Effective :=
  (f, loadRule cat validated f r)

/-- rules loaded one after the other by the same factory -/
def loadAll (cat : Catalogue) (validated : Bool) : Factory → List RuleDef → List (Except Reason Effective)
  | _, [] => []
  | f, r :: rs =>
    let step := f.createRuleM cat validated r
    step.2 :: loadAll cat validated step.1 rs

/-- result of loading a configuration and then a history of rules -/
inductive HistoryOutcome
  | configRejected (why : Reason)
  | loaded (f : Factory) (results : List (Except Reason Effective))
  deriving DecidableEq, Repr, Inhabited

def loadHistory (cat : Catalogue) (proxy validated : Bool) (d : Option DefaultRule) (rs : List RuleDef) :
    HistoryOutcome :=
  match newFactory cat proxy d with
  | .error e => .configRejected e
  | .ok f => .loaded f (loadAll cat validated f rs)

/-! ## Spelling of lists

A list-valued key (`execute`, `on_error`) can be absent, `null` or a list, possibly an empty one.  The decoders of
rule sets (yaml.v3 + mapstructure, encoding/json) turn all three spellings of "nothing" into a slice without
elements (nil or empty); the configuration schema accepts only an array for the default rule.  Nothing behind the
decoders may tell the spellings apart. -/

inductive Listed
  | absent | null | items (steps : List Step)
  deriving DecidableEq, Repr, Inhabited

def Listed.steps : Listed → List Step
  | .items l => l
  | _ => []

/-- a rule as spelled in the rule set document -/
structure RawRule where
  backtracking : Option Bool := none
  forwardTo : Bool := false
  execute : Listed := .absent
  onError : Listed := .absent
  deriving DecidableEq, Repr, Inhabited

/-- decoding of a rule -/
def RawRule.decode (r : RawRule) : RuleDef := ⟨r.backtracking, r.forwardTo, r.execute.steps, r.onError.steps⟩

/-- the default rule as spelled in the configuration file -/
structure RawDefault where
  backtracking : Bool := false
  execute : Listed := .absent
  onError : Listed := .absent
  deriving DecidableEq, Repr, Inhabited

/-- schema validation (`type: array`) and decoding of the default rule -/
def RawDefault.decode (d : RawDefault) : Except Reason DefaultRule :=
  if d.execute = .null || d.onError = .null then .error .notAList
  else .ok ⟨d.backtracking, d.execute.steps, d.onError.steps⟩

/-- a configuration and a history of rules, from the documents -/
def loadDocuments (cat : Catalogue) (proxy validated : Bool) (d : Option RawDefault) (rs : List RawRule) :
    HistoryOutcome :=
  match d with
  | none => loadHistory cat proxy validated none (rs.map RawRule.decode)
  | some raw =>
    match raw.decode with
    | .error e => .configRejected e
    | .ok dr => loadHistory cat proxy validated (some dr) (rs.map RawRule.decode)

end Heimdall.Factory
