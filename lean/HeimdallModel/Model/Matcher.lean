import HeimdallModel.Base.UrlEscape
/-!
# Route matching conditions (`internal/rules/route_matcher.go`, `typed_matcher.go`)

Scheme, method, host and path-parameter conditions of a route.  The expression languages (gobwas/glob, Go regexp)
are trusted libraries; the model knows three shapes of typed matcher whose meaning is independent of those libraries'
internals: `exact`, a glob `lit*` and a regex `^lit` (literal prefix), which is what the correspondence check generates.
-/
namespace Heimdall

inductive TM where
  | exact (s : String)
  | globPrefix (s : String) (sep : Char)   -- glob `s*` compiled with separator `sep`
  | regexPrefix (s : String)               -- regex `^s`
deriving Repr, DecidableEq

def TM.matches : TM → String → Bool
  | .exact s, v => s == v
  | .globPrefix s sep, v => s.toList.isPrefixOf v.toList && !(v.toList.drop s.length).contains sep
  | .regexPrefix s, v => s.toList.isPrefixOf v.toList

def stdMethods : List String :=
  ["GET", "HEAD", "POST", "PUT", "PATCH", "DELETE", "CONNECT", "OPTIONS", "TRACE"]

def isNeg (s : String) : Bool := s.toList.head? == some '!'

def dropBang (s : String) : String := if isNeg s then String.ofList (s.toList.drop 1) else s

/-- `slices.Compact` -/
def compact : List String → List String
  | a :: b :: rest => if a = b then compact (b :: rest) else a :: compact (b :: rest)
  | l => l

def insertSorted (x : String) : List String → List String
  | [] => [x]
  | y :: ys => if x ≤ y then x :: y :: ys else y :: insertSorted x ys

def sortStrs (l : List String) : List String := l.foldr insertSorted []

/-- `ALL` stands for the nine standard methods -/
def expandAll (l : List String) : List String :=
  if l.contains "ALL" then l.filter (· ≠ "ALL") ++ stdMethods else l

/-- `createMethodMatcher`: `none` is the configuration error for an empty entry -/
def mkMethods (l : List String) : Option (List String) :=
  if l.isEmpty then some [] else
  let l2 := compact (sortStrs (expandAll l))
  if l2.any (·.isEmpty) then none else
  let tbr := l2.filter isNeg
  let l3 := l2.filter (fun s => !tbr.contains s)
  let tbr' := tbr.map dropBang
  some (l3.filter (fun s => !tbr'.contains s))

structure RouteM where
  scheme  : String
  methods : List String          -- effective method list (result of `mkMethods`)
  hosts   : List TM
  pps     : List (String × TM)
  esh     : SlashHandling
deriving Repr

structure ReqView where
  method  : String
  scheme  : String
  host    : String
  rawPath : String
  path    : String
deriving Repr

def schemeOk (r : RouteM) (q : ReqView) : Bool := r.scheme.isEmpty || r.scheme == q.scheme

def methodOk (r : RouteM) (q : ReqView) : Bool := r.methods.isEmpty || r.methods.contains q.method

/-- the request host satisfies any one of the host expressions (none configured: any host) -/
def hostOk (r : RouteM) (q : ReqView) : Bool := r.hosts.isEmpty || r.hosts.any (·.matches q.host)

def lookupKey (keys caps : List String) (name : String) : Option String :=
  match keys, caps with
  | k :: ks, c :: cs => if k = name then some c else lookupKey ks cs name
  | _, _ => none

/-- `pathParamMatcher.Matches` -/
def ppOk (esh : SlashHandling) (q : ReqView) (keys caps : List String) (pp : String × TM) : Bool :=
  match lookupKey keys caps pp.1 with
  | none => false
  | some v =>
    if q.rawPath.isEmpty then pp.2.matches v
    else if esh = .off && containsEncodedSlash q.rawPath then false
    else pp.2.matches (unescapeCapture esh v)

/-- `compositeMatcher{scheme, methods, hosts, path_params}.Matches` -/
def routeMatches (r : RouteM) (q : ReqView) (keys caps : List String) : Bool :=
  schemeOk r q && methodOk r q && hostOk r q && r.pps.all (ppOk r.esh q keys caps)

end Heimdall
