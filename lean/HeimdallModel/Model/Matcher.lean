import HeimdallModel.Base.UrlEscape
/-!
# Route matching conditions (`internal/rules/route_matcher.go`, `typed_matcher.go`)

Scheme, method, host and path-parameter conditions of a route.  The expression languages (gobwas/glob, Go regexp)
are trusted libraries; the model knows the fragments of them whose meaning does not depend on those libraries'
internals, and the correspondence check generates exactly these: `exact`; globs made of literals, `?`, `*` and `**`
(compiled with a separator: `?` and `*` do not cross it, `**` does; the whole value has to match); regular
expressions made of literals and `.`, optionally anchored with `^` and `$` (unanchored ends match anywhere, as
`MatchString` does).
-/
namespace Heimdall

/-- glob tokens -/
inductive GTok where
  | lit (c : Char) | any1 | star | dstar
deriving Repr, DecidableEq

/-- regex atoms -/
inductive RAtom where
  | lit (c : Char) | dot
deriving Repr, DecidableEq

inductive TM where
  | exact (s : String)
  | glob (toks : List GTok) (sep : Char)                       -- compiled with separator `sep`
  | regex (atoms : List RAtom) (anchoredStart anchoredEnd : Bool)
deriving Repr, DecidableEq

/-- Values are byte strings (one `Char` per octet); `?`, `*` of globs and `.` of regular expressions consume one UTF-8
    encoded code point, or one byte where the bytes are not valid UTF-8 (`utf8.DecodeRuneInString`).  Length of the
    encoding that starts the list (1 for ASCII and for an invalid byte). -/
def runeLen : List Char → Nat
  | [] => 0
  | b0 :: rest =>
    let n0 := b0.toNat
    let cont (lo hi : Nat) (c : Char) : Bool := lo ≤ c.toNat && c.toNat ≤ hi
    if n0 < 0x80 then 1
    else if 0xC2 ≤ n0 && n0 ≤ 0xDF then
      (match rest with | b1 :: _ => if cont 0x80 0xBF b1 then 2 else 1 | _ => 1)
    else if 0xE0 ≤ n0 && n0 ≤ 0xEF then
      let lo := if n0 = 0xE0 then 0xA0 else 0x80
      let hi := if n0 = 0xED then 0x9F else 0xBF
      (match rest with | b1 :: b2 :: _ => if cont lo hi b1 && cont 0x80 0xBF b2 then 3 else 1 | _ => 1)
    else if 0xF0 ≤ n0 && n0 ≤ 0xF4 then
      let lo := if n0 = 0xF0 then 0x90 else 0x80
      let hi := if n0 = 0xF4 then 0x8F else 0xBF
      (match rest with
       | b1 :: b2 :: b3 :: _ => if cont lo hi b1 && cont 0x80 0xBF b2 && cont 0x80 0xBF b3 then 4 else 1
       | _ => 1)
    else 1

theorem runeLen_pos (x : Char) (v : List Char) : 0 < runeLen (x :: v) := by
  unfold runeLen
  simp only
  repeat' split
  all_goals omega

def globMatch (sep : Char) : List GTok → List Char → Bool
  | [], v => v.isEmpty
  | .lit c :: ps, x :: v => c == x && globMatch sep ps v
  | .lit _ :: _, [] => false
  | .any1 :: ps, x :: v => x != sep && globMatch sep ps ((x :: v).drop (runeLen (x :: v)))
  | .any1 :: _, [] => false
  | .star :: ps, [] => globMatch sep ps []
  | .star :: ps, x :: v =>
      globMatch sep ps (x :: v) || (x != sep && globMatch sep (.star :: ps) ((x :: v).drop (runeLen (x :: v))))
  | .dstar :: ps, [] => globMatch sep ps []
  | .dstar :: ps, x :: v => globMatch sep ps (x :: v) || globMatch sep (.dstar :: ps) v
termination_by ps v => (ps.length, v.length)
decreasing_by
  all_goals simp_wf
  all_goals first
    | (apply Prod.Lex.left; omega)
    | (apply Prod.Lex.right; have := runeLen_pos x v; omega)
    | (apply Prod.Lex.right; omega)

/-- the atoms match a prefix of the value; what is left -/
def atomsMatch : List RAtom → List Char → Option (List Char)
  | [], v => some v
  | _ :: _, [] => none
  | .lit c :: as, x :: v => if c == x then atomsMatch as v else none
  | .dot :: as, x :: v => if x == '\n' then none else atomsMatch as ((x :: v).drop (runeLen (x :: v)))

def regexFrom (atoms : List RAtom) (anchoredEnd : Bool) (v : List Char) : Bool :=
  match atomsMatch atoms v with
  | some rest => !anchoredEnd || rest.isEmpty
  | none => false

def suffixes : List Char → List (List Char)
  | [] => [[]]
  | x :: v => (x :: v) :: suffixes v

def TM.matches : TM → String → Bool
  | .exact s, v => s == v
  | .glob toks sep, v => globMatch sep toks v.toList
  | .regex atoms aS aE, v =>
      if aS then regexFrom atoms aE v.toList else (suffixes v.toList).any (regexFrom atoms aE)

def stdMethods : List String :=
  ["GET", "HEAD", "POST", "PUT", "PATCH", "DELETE", "CONNECT", "OPTIONS", "TRACE"]

def isNeg (s : String) : Bool := s.toList.head? == some '!'

def dropBang (s : String) : String := if isNeg s then String.ofList (s.toList.drop 1) else s

/-- `slices.Compact` -/
def compact : List String → List String
  | a :: b :: rest => if a = b then compact (b :: rest) else a :: compact (b :: rest)
  | l => l

def insertSorted (x : String) : List String → List String
  | [] => [x]
  | y :: ys => if x ≤ y then x :: y :: ys else y :: insertSorted x ys

def sortStrs (l : List String) : List String := l.foldr insertSorted []

/-- `ALL` stands for the nine standard methods -/
def expandAll (l : List String) : List String :=
  if l.contains "ALL" then l.filter (· ≠ "ALL") ++ stdMethods else l

/-- `createMethodMatcher`: `none` is the configuration error (an empty entry, a list allowing no method) -/
def mkMethods (l : List String) : Option (List String) :=
  if l.isEmpty then some [] else
  let l2 := compact (sortStrs (expandAll l))
  if l2.any (·.isEmpty) then none else
  let tbr := l2.filter isNeg
  let l3 := l2.filter (fun s => !tbr.contains s)
  let tbr' := tbr.map dropBang
  let res := l3.filter (fun s => !tbr'.contains s)
  -- a list that allows no method at all (only exclusions, or everything excluded again) is a configuration error:
  -- an empty matcher would stand for "any method"
  if res.isEmpty then none else some res

structure RouteM where
  scheme  : String
  methods : List String          -- effective method list (result of `mkMethods`)
  hosts   : List TM
  pps     : List (String × TM)
  esh     : SlashHandling
deriving Repr

structure ReqView where
  method  : String
  scheme  : String
  host    : String
  rawPath : String
  path    : String
deriving Repr

def schemeOk (r : RouteM) (q : ReqView) : Bool := r.scheme.isEmpty || r.scheme == q.scheme

def methodOk (r : RouteM) (q : ReqView) : Bool := r.methods.isEmpty || r.methods.contains q.method

/-- the request host satisfies any one of the host expressions (none configured: any host) -/
def hostOk (r : RouteM) (q : ReqView) : Bool := r.hosts.isEmpty || r.hosts.any (·.matches q.host)

def lookupKey (keys caps : List String) (name : String) : Option String :=
  match keys, caps with
  | k :: ks, c :: cs => if k = name then some c else lookupKey ks cs name
  | _, _ => none

/-- `pathParamMatcher.Matches` -/
def ppOk (esh : SlashHandling) (q : ReqView) (keys caps : List String) (pp : String × TM) : Bool :=
  match lookupKey keys caps pp.1 with
  | none => false
  | some v =>
    if q.rawPath.isEmpty then pp.2.matches v
    else if esh = .off && containsEncodedSlash q.rawPath then false
    else pp.2.matches (unescapeCapture esh v)

/-- `compositeMatcher{scheme, methods, hosts, path_params}.Matches` -/
def routeMatches (r : RouteM) (q : ReqView) (keys caps : List String) : Bool :=
  schemeOk r q && methodOk r q && hostOk r q && r.pps.all (ppOk r.esh q keys caps)

end Heimdall
