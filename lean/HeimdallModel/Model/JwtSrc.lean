import HeimdallModel.Gen.ClaimsSrc
import HeimdallModel.Model.Jwt
/-!
# The translated claim assertions instantiated with the expectations and claims of the C05 model

`Gen/ClaimsSrc.lean` (regenerated from the source on every run) counts instants and durations in whole seconds; the
model (`Model/Jwt.lean`) has the clock and the leeway in milliseconds. `ls` is the configured leeway in seconds
(`Expectation.leeway = 1000 * ls`), `nowMs / 1000` is `time.Now().Unix()`. A refusal is the `Why` of the model; the
source builds the same kind of error for "not yet valid" and "expired" (one `refused` in the translation), `coarse`
identifies the two. Not imported by the shared driver.
-/
namespace Heimdall.Jwt.SrcTie
open Heimdall.Jwt

abbrev M := Go.M Unit Unit (Option Why)

def resOf (m : M) : Option Why :=
  match m () with
  | .done e _ => e
  | .panic _ _ => none

/-- the translated `AssertValidity` on the claims of the model -/
def validitySrc (ls nowMs : Int) (nbf exp : Option Int) : M :=
  Src.Validity.AssertValidity ls (nowMs / 1000) nbf.isSome (nbf.getD 0) exp.isSome (exp.getD 0) Why.notYetValid ()

/-- the translated `AssertIssuanceTime` -/
def issuedSrc (ls nowMs : Int) (iat : Option Int) : M :=
  Src.IssuedAt.AssertIssuanceTime ls (nowMs / 1000) iat.isSome (iat.getD 0) Why.issuedInFuture ()

/-- the translated `AssertIssuer` -/
def issuerSrc (e : Expectation) (iss : String) : M :=
  Src.Issuer.AssertIssuer (iss == "") (e.issuers.contains iss) Why.issuer ()

/-- the translated `AssertAudience` (`slicex.Intersects`: some expected audience is among the token's) -/
def audienceSrc (e : Expectation) (aud : List String) : M :=
  Src.Audience.AssertAudience e.audiences.isEmpty (e.audiences.any (aud.contains ·)) Why.audience ()

/-- the translated `AssertAlgorithm` -/
def algorithmSrc (e : Expectation) (alg : String) : M :=
  Src.Algorithm.AssertAlgorithm (e.algs.contains alg) Why.algNotAllowed ()

/-- the translated `Claims.Validate` fed with what the translated assertions return; the scopes matcher is the model's -/
def validateSrc (e : Expectation) (ls : Int) (c : Claims) (nowMs : Int) : M :=
  Src.Claims.Validate (resOf (issuerSrc e c.iss)) (resOf (audienceSrc e c.aud)) (resOf (issuedSrc ls nowMs c.iat))
    (if e.scopesOk c.granted then none else some Why.scopes) (resOf (validitySrc ls nowMs c.nbf c.exp)) ()

/-- "not yet valid" and "expired" are one kind of refusal in the translation -/
def coarse : Why → Why
  | .expired => .notYetValid
  | w => w

def refusalOf : Except Why Unit → Option Why
  | .ok _ => none
  | .error w => some (coarse w)

end Heimdall.Jwt.SrcTie
