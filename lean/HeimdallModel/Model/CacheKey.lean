/-!
# Cache-key derivation

Every cache key in heimdall is `hex(SHA-256(b))` where `b` is the byte string the key function feeds into the hash:
`Endpoint.Hash`, the `AuthenticationStrategy.Hash` implementations, `Subject.Hash`, `jwtSigner.Hash`,
`clientcredentials.Config.{Hash,calculateCacheKey}`, the `calculateCacheKey` methods of the mechanisms and `cacheKey` of
the HTTP cache.  A key function is modelled by the ordered list of `Field`s it writes; the lists themselves are
*generated* from the Go source (`Gen/CacheKeys.lean`).  `encode fs env` is the byte string written for the values in
`env`; `key H fs env = H (encode fs env)`.

Map-valued sources (`env.map s`) are lists of entries in the order in which the Go runtime happens to iterate the map for
this evaluation; a field that ranges over a map directly (`mapRaw`) therefore sees an arbitrary permutation.
-/
namespace Heimdall.CacheKey

abbrev Bytes := List UInt8

/-- `binary.LittleEndian.PutUint64`: the 8 little-endian bytes of `n mod 2^64` -/
def le64 (n : Nat) : Bytes :=
  [UInt8.ofNat (n % 256), UInt8.ofNat (n / 256 % 256), UInt8.ofNat (n / 65536 % 256),
   UInt8.ofNat (n / 16777216 % 256), UInt8.ofNat (n / 4294967296 % 256), UInt8.ofNat (n / 1099511627776 % 256),
   UInt8.ofNat (n / 281474976710656 % 256), UInt8.ofNat (n / 72057594037927936 % 256)]

/-- `hashx.WriteBytes` / `hashx.WriteString`: length, then the bytes -/
def lpB (b : Bytes) : Bytes := le64 b.length ++ b

/-- byte-wise lexicographic order (Go's string comparison) -/
def bytesLe : Bytes → Bytes → Bool
  | [], _ => true
  | _ :: _, [] => false
  | a :: as, b :: bs => decide (a.toNat < b.toNat) || (a == b && bytesLe as bs)

def insertKV (x : Bytes × Bytes) : List (Bytes × Bytes) → List (Bytes × Bytes)
  | [] => [x]
  | y :: ys => if bytesLe x.1 y.1 then x :: y :: ys else y :: insertKV x ys

/-- `slices.Sorted(maps.Keys(m))`: entries ordered by key -/
def sortKV : List (Bytes × Bytes) → List (Bytes × Bytes)
  | [] => []
  | x :: xs => insertKV x (sortKV xs)

/-- what a key function reads; sources are named by the Go expression that is written -/
structure Env where
  str : String → Bytes := fun _ => []
  num : String → Nat := fun _ => 0
  lst : String → List Bytes := fun _ => []
  map : String → List (Bytes × Bytes) := fun _ => []
  /-- optional sources (nil interface / nil pointer): is the value present -/
  has : String → Bool := fun _ => false

/-- one write into the hash -/
inductive Field where
  /-- `h.Write(stringx.ToBytes(x))`: the bytes as they are -/
  | raw (s : String)
  /-- `h.Write(x.Hash())`: a digest of `n` bytes as it is -/
  | fixed (n : Nat) (s : String)
  /-- `h.Write(ttlBytes)` after `binary.LittleEndian.PutUint64(ttlBytes, uint64(x))` -/
  | u64 (s : String)
  /-- `hashx.WriteString(h, x)` / `hashx.WriteBytes(h, x)` -/
  | lp (s : String)
  /-- `h.Write(stringx.ToBytes(strings.Join(xs, sep)))`; with `sep = []` also a loop writing every element as it is -/
  | joined (sep : Bytes) (s : String)
  /-- `hashx.WriteStrings(h, xs)` / `hashx.WriteStringsFunc(h, names, f)`: count, then every element with its length -/
  | lpList (s : String)
  /-- `for k, v := range m { h.Write(k); h.Write(v) }`: Go map order -/
  | mapRaw (s : String)
  /-- `hashx.WriteStringMap(h, m)`: count, then key and value with their lengths in the order of the keys -/
  | lpMap (s : String)
  /-- `if x != nil { <write> }` -/
  | opt (c : String) (f : Field)
  /-- `hashx.WriteString(h, "literal")`: a constant, the domain tag of the key function -/
  | tag (b : Bytes)
  deriving DecidableEq, Repr

def flat (l : List Bytes) : Bytes := l.flatten

def encField (env : Env) : Field → Bytes
  | .raw s => env.str s
  | .fixed _ s => env.str s
  | .u64 s => le64 (env.num s)
  | .lp s => lpB (env.str s)
  | .joined sep s => sep.intercalate (env.lst s)
  | .lpList s => le64 (env.lst s).length ++ flat ((env.lst s).map lpB)
  | .mapRaw s => flat ((env.map s).map fun kv => kv.1 ++ kv.2)
  | .lpMap s => le64 (env.map s).length ++ flat ((sortKV (env.map s)).map fun kv => lpB kv.1 ++ lpB kv.2)
  | .opt c f => if env.has c then encField env f else []
  | .tag b => lpB b

/-- the byte string fed into the hash -/
def encode (fs : List Field) (env : Env) : Bytes := flat (fs.map (encField env))

/-- the cache key (before hex encoding) for a hash function `H` -/
def key (H : Bytes → Bytes) (fs : List Field) (env : Env) : Bytes := H (encode fs env)

/-! ## What a field determines -/

/-- a typed source: the value a consumer of the key (or a fresh evaluation) depends on -/
inductive Dep where
  | bytes (s : String)
  | num (s : String)
  | list (s : String)
  | kvs (s : String)
  | opt (c : String) (d : Dep)
  | const (b : Bytes)
  deriving DecidableEq, Repr

inductive View where
  | bytes (b : Bytes)
  | num (n : Nat)
  | list (l : List Bytes)
  | kvs (m : List (Bytes × Bytes))
  | absent
  deriving DecidableEq, Repr

/-- the value of a dependency; maps are viewed up to iteration order -/
def Dep.view (env : Env) : Dep → View
  | .bytes s => .bytes (env.str s)
  | .num s => .num (env.num s)
  | .list s => .list (env.lst s)
  | .kvs s => .kvs (sortKV (env.map s))
  | .opt c d => if env.has c then d.view env else .absent
  | .const b => .bytes b

def Field.dep : Field → Dep
  | .raw s | .fixed _ s | .lp s => .bytes s
  | .u64 s => .num s
  | .joined _ s | .lpList s => .list s
  | .mapRaw s | .lpMap s => .kvs s
  | .opt c f => .opt c f.dep
  | .tag b => .const b

/-! ## Decidable side conditions on a field list -/

/-- the field can be split off the front of the stream whatever follows -/
def Field.selfDelim : Field → Bool
  | .fixed _ _ | .u64 _ | .lp _ | .lpList _ | .lpMap _ | .tag _ => true
  | _ => false

/-- admissible as the very last write: a single value, or an optional value whose encoding is never empty -/
def Field.lastOk : Field → Bool
  | .raw _ => true
  | .opt _ (.lp _) => true
  | .opt _ (.fixed (_ + 1) _) => true
  | f => f.selfDelim

/-- every value can be recovered from the stream: self-delimiting writes, then at most one admissible last write -/
def delimited : List Field → Bool
  | [] => true
  | [f] => f.lastOk
  | f :: fs => f.selfDelim && delimited fs

/-- no write depends on the iteration order of a Go map -/
def Field.ordered : Field → Bool
  | .mapRaw _ => false
  | .opt _ f => f.ordered
  | _ => true

def ordered (fs : List Field) : Bool := fs.all Field.ordered

/-- every dependency is determined by some write -/
def covers (deps : List Dep) (fs : List Field) : Bool := deps.all fun d => fs.any fun f => f.dep == d

def limit : Nat := 18446744073709551616

/-- the values fit the widths the code assumes: lengths and integers below 2^64, digests of the declared width -/
def Field.wt (env : Env) : Field → Bool
  | .fixed n s => (env.str s).length == n
  | .u64 s => env.num s < limit
  | .lp s => (env.str s).length < limit
  | .lpList s => (env.lst s).length < limit && (env.lst s).all fun b => b.length < limit
  | .lpMap s => (env.map s).length < limit && (env.map s).all fun kv => kv.1.length < limit && kv.2.length < limit
  | .opt c f => !env.has c || f.wt env
  | .tag b => b.length < limit
  | _ => true

def wt (fs : List Field) (env : Env) : Bool := fs.all (Field.wt env)

/-- keys of every map source are pairwise distinct (they come from Go maps) -/
def Env.nodupKeys (env : Env) : Prop := ∀ s, ((env.map s).map Prod.fst).Nodup

/-- the same values, map sources possibly iterated in another order -/
structure Reorder (a b : Env) : Prop where
  str : a.str = b.str
  num : a.num = b.num
  lst : a.lst = b.lst
  has : a.has = b.has
  map : ∀ s, (a.map s).Perm (b.map s)

end Heimdall.CacheKey
