import HeimdallModel.Model.Mech
/-!
# Write footprints of mechanism methods (C17): the shape of the generated table and what is demanded of it

`/verif/extract/footprint` (go/ssa) lists for every method of every mechanism type — closed under everything the
method can call inside the heimdall module — the stores / map updates / appends / deletes / atomic writes whose
target is derived from the **receiver** (`writes`, keyed by the receiver field the address was reached through),
from a **package level variable** (`globals`), or from something the analysis could not resolve (`unknown`);
**every call of a function outside the module that is handed receiver- or global-derived mutable memory**, as
receiver or as argument in any position, directly or inside a local object (`ext`; what such a function does to
the memory is not analysed); the lock operations and atomic loads on such memory (`sync`); and the receiver fields
the method reads (`reads`).  `Gen/Footprints.lean` is regenerated from the working tree on every run.

The obligation on the generated table is `clean`: no write to receiver or global memory anywhere, every library
call on shared memory is one of `trustedExt` (reviewed: reads what it is handed / documented as safe for
concurrent use), every synchronisation operation is a read lock (`trustedSync`).  A clean row yields a read-only
thread program for the machine of `Model/Mech.lean`.  Rows of kind `reload` (watcher callbacks that replace key
material: `jwtSigner.OnChanged`, `HTTPMessageSignatures.OnChanged`) are the writers that are meant to exist; they
are not subject to `clean` but to `reloadGuarded` (they take the write lock; the request path takes the read
lock).  What a reload does to the observable state of a signer is the subject of C16, not of C17.
-/
namespace Heimdall.Footprint
open Heimdall.Mech

structure Row where
  kind    : String                 -- authenticator | authorizer | contextualizer | finalizer | error_handler | factory
  typ     : String                 -- Go type
  method  : String
  fields  : List String            -- the fields of the Go struct, in declaration order
  reads   : List String            -- receiver fields read by the method closure
  writes  : List (String × String) -- (receiver field, what) written in place
  globals : List (String × String) -- (package variable, what) written in place
  ext     : List (String × String) -- (root, library function handed it)
  sync    : List (String × String) -- (root, lock operation / atomic load on it)
  unknown : List (String × String)
deriving Repr, DecidableEq

/-- Library functions that are handed shared (receiver / package level) memory and are trusted not to write it
without synchronisation.  Every entry is a reviewed assumption about a third-party / standard library API:

* pure readers of their arguments (documented or by inspection of the pinned version): `strings.Join`,
  `slices.Contains`, `slices.Sorted` (collects into a new slice and sorts that), `maps.Clone`, `maps.Keys`,
  `maps.Copy` (writes its *first* argument only; a shared first argument is reported as a store by the extractor),
  `reflect.DeepEqual`, `errors.Is`, `errors.As` (writes its target, a local), `fmt.Errorf`, `json.Marshal`,
  `json.Unmarshal` / `Decoder.Decode` (write their destination, reported as a store if shared; read the data),
  `json.NewDecoder`, `gjson.GetBytes` / `Result.String` / `Result.Value`, `io.ReadAll`, `io.TeeReader`,
  `(io.Writer).Write` ("Write must not modify the slice data, even temporarily"), `(io.ReadCloser).Close`,
  `(http.Header).Get`, `(*base64.Encoding).DecodeString`;
* safe for concurrent use by documentation: `text/template.(*Template).Execute` ("may be executed safely in
  parallel"), cel-go `Program.Eval` (stateless programs) and `Env.Compile/Check/Program`, `Ast.OutputType`,
  `Issues.Err`, `ref.Val.Value` (the environment is not modified; the lazily built checker is guarded by
  `sync.Once`), `validator.(*Validate).Struct` ("designed to be thread-safe"), `(*http.Client).Do` and
  `otelhttp.NewTransport` / `httpretry.NewCustomClient` / `WithBackoffPolicy` / the `ExponentialBackoff` function
  value over `http.DefaultTransport` (wrap, do not modify, a transport built for concurrent use),
  `(*ttlcache.Cache).Set` (internally locked);
* key material, read only: go-jose `NewSigner`, `jwt.Signed`, `Builder.Claims`, `Builder.Serialize` (sign with the
  key they are handed), `httpsig.Signer.Sign`, `(*JSONWebKey).Thumbprint` (v4.0.4, jwk.go:388, reviewed: a type
  switch on `k.Key`, the public parameters are copied into new slices and hashed; no assignment to the receiver
  or to what it refers to). -/
def trustedExt : List String := [
  "(*encoding/base64.Encoding).DecodeString",
  "(*github.com/go-jose/go-jose/v4.JSONWebKey).Thumbprint",
  "(*github.com/go-playground/validator/v10.Validate).Struct",
  "(*github.com/goccy/go-json.Decoder).Decode",
  "(*github.com/google/cel-go/cel.Ast).OutputType",
  "(*github.com/google/cel-go/cel.Env).Check",
  "(*github.com/google/cel-go/cel.Env).Compile",
  "(*github.com/google/cel-go/cel.Env).Program",
  "(*github.com/google/cel-go/cel.Issues).Err",
  "(*github.com/jellydator/ttlcache/v3.Cache).Set",
  "(*net/http.Client).Do",
  "(*text/template.Template).Execute",
  "(github.com/dadrus/httpsig.Signer).Sign",
  "(github.com/go-jose/go-jose/v4/jwt.Builder).Claims",
  "(github.com/go-jose/go-jose/v4/jwt.Builder).Serialize",
  "(github.com/google/cel-go/cel.Program).Eval",
  "(github.com/google/cel-go/common/types/ref.Val).Value",
  "(github.com/tidwall/gjson.Result).String",
  "(github.com/tidwall/gjson.Result).Value",
  "(io.ReadCloser).Close",
  "(io.Writer).Write",
  "(net/http.Header).Get",
  "errors.As",
  "errors.Is",
  "fmt.Errorf",
  "func value func(minWait time.Duration, maxWait time.Duration, maxJitter time.Duration) github.com/ybbus/httpretry.BackoffPolicy",
  "github.com/go-jose/go-jose/v4.NewSigner",
  "github.com/go-jose/go-jose/v4/jwt.Signed",
  "github.com/goccy/go-json.Marshal",
  "github.com/goccy/go-json.NewDecoder",
  "github.com/goccy/go-json.Unmarshal",
  "github.com/tidwall/gjson.GetBytes",
  "github.com/ybbus/httpretry.NewCustomClient",
  "github.com/ybbus/httpretry.WithBackoffPolicy",
  "go.opentelemetry.io/contrib/instrumentation/net/http/otelhttp.NewTransport",
  "io.ReadAll",
  "io.TeeReader",
  "maps.Clone",
  "maps.Copy",
  "maps.Keys",
  "reflect.DeepEqual",
  "slices.Contains",
  "slices.Sorted",
  "strings.Join"
]

/-- synchronisation on shared memory the request path may perform: taking and releasing a read lock -/
def trustedSync : List String := ["(*sync.RWMutex).RLock", "(*sync.RWMutex).RUnlock"]

def Row.clean (r : Row) : Bool :=
  r.kind == "reload" ||
  (r.writes.isEmpty && r.globals.isEmpty && r.unknown.isEmpty && (r.ext.all fun e => trustedExt.contains e.2) &&
   r.sync.all fun e => trustedSync.contains e.2)

/-- the whole table is free of in-place writes to shared memory -/
def clean (t : List Row) : Bool := t.all Row.clean

/-- reload callbacks replace state under the write lock, and the request path of the jwt finalizer (the only
mechanism that refers to reloadable state directly) reads it under the read lock -/
def reloadGuarded (t : List Row) : Bool :=
  (t.all fun r => r.kind != "reload" ||
    ((r.sync.any fun e => e.2 == "(*sync.RWMutex).Lock") && (r.sync.any fun e => e.2 == "(*sync.RWMutex).Unlock"))) &&
  (t.all fun r => !(r.typ == "jwtFinalizer" && r.method == "Execute") ||
    ((r.sync.any fun e => e.2 == "(*sync.RWMutex).RLock") && (r.sync.any fun e => e.2 == "(*sync.RWMutex).RUnlock")))

/-- rows violating the obligation (for the report) -/
def dirty (t : List Row) : List Row := t.filter fun r => !r.clean

/-- the accesses of a method to its receiver according to its row: read the fields it reads, write the fields it
writes (sub-slots of a field are told apart by the machine's instance, `slotsOf` expands a field to them) -/
def Row.program (r : Row) (slotsOf : String → List String) : List Op :=
  (r.reads.flatMap fun f => (slotsOf f).map Op.rd) ++ (r.writes.flatMap fun w => (slotsOf w.1).map Op.wr)

def lookup (t : List Row) (typ method : String) : Option Row :=
  t.find? fun r => r.typ == typ && r.method == method

/-- methods every mechanism kind has to have a row for -/
def requiredMethods (kind : String) : List String :=
  if kind == "authenticator" then ["Execute", "ID", "IsFallbackOnErrorAllowed", "WithConfig"]
  else if kind == "error_handler" then ["Execute", "ID", "WithConfig"]
  else if kind == "factory" || kind == "reload" then []
  else ["ContinueOnError", "Execute", "ID", "WithConfig"]

/-- (kind, Go type, fields) of every mechanism type of the table, without repetition -/
def types (t : List Row) : List (String × String × List String) :=
  t.foldl (fun acc r => if acc.any (fun x => x.2.1 == r.typ) then acc else acc ++ [(r.kind, r.typ, r.fields)]) []

/-- every type of the table has a row for each required method -/
def complete (t : List Row) : Bool :=
  (types t).all fun x => (requiredMethods x.1).all fun m => (lookup t x.2.1 m).isSome

/-- the same strings, in any order -/
def sameSet (a b : List String) : Bool := (a.all fun x => b.contains x) && (b.all fun x => a.contains x)

end Heimdall.Footprint
