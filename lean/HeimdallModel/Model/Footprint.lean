import HeimdallModel.Model.Mech
/-!
# Write footprints of mechanism methods (C17): the shape of the generated table and what is demanded of it

`/verif/extract/footprint` (go/ssa) lists for every method of every mechanism type — closed under everything the
method can call inside the heimdall module — the stores / map updates / appends / deletes whose target is derived
from the **receiver** (`writes`, keyed by the receiver field the address was reached through), from a **package
level variable** (`globals`), or from something the analysis could not resolve (`unknown`), the calls of
**library** functions that get receiver- or global-derived memory as receiver (`ext`), and the receiver fields the
method reads (`reads`).  `Gen/Footprints.lean` is regenerated from the working tree on every run.

The obligation on the generated table is `clean`: no write to receiver or global memory anywhere, and every
library call on shared memory is one of `trustedExt` (calls documented to be safe for concurrent use).  A clean
row yields a read-only thread program for the machine of `Model/Mech.lean`.
-/
namespace Heimdall.Footprint
open Heimdall.Mech

structure Row where
  kind    : String                 -- authenticator | authorizer | contextualizer | finalizer | error_handler | factory
  typ     : String                 -- Go type
  method  : String
  fields  : List String            -- the fields of the Go struct, in declaration order
  reads   : List String            -- receiver fields read by the method closure
  writes  : List (String × String) -- (receiver field, what) written in place
  globals : List (String × String) -- (package variable, what) written in place
  ext     : List (String × String) -- (root, library function called on it)
  unknown : List (String × String)
deriving Repr, DecidableEq

/-- Library calls on shared (receiver / package level) memory that are trusted not to write it without
synchronisation.  Every entry is an assumption about a third-party API:
* `text/template.(*Template).Execute`: "A template may be executed safely in parallel" (package doc);
* cel-go `Program.Eval`: programs are stateless and safe for concurrent evaluation; `Env.Compile/Check/Program`
  do not modify the environment (the lazily built checker is guarded by `sync.Once`);
* `validator.(*Validate).Struct`: "Validate is designed to be thread-safe" (caches guarded internally);
* go-jose `(*JSONWebKey).Thumbprint` (v4.0.4, jwk.go:388, reviewed): switches on the type of `k.Key`, formats the
  public parameters (`big.Int.Bytes()` / `newFixedSizeBuffer` copy into new slices) and hashes the string; it assigns
  neither to the receiver nor to the key it refers to;
* `http.Client.Do` on a client built per call, response bodies, header maps of the response, gjson results,
  base64 encodings, jose builders: values owned by the call or immutable. -/
def trustedExt : List String := [
  "(*encoding/base64.Encoding).DecodeString",
  "(*github.com/go-playground/validator/v10.Validate).Struct",
  "(*github.com/goccy/go-json.Decoder).Decode",
  "(*github.com/google/cel-go/cel.Ast).OutputType",
  "(*github.com/google/cel-go/cel.Env).Check",
  "(*github.com/google/cel-go/cel.Env).Compile",
  "(*github.com/google/cel-go/cel.Env).Program",
  "(*github.com/google/cel-go/cel.Issues).Err",
  "(*net/http.Client).Do",
  "(*text/template.Template).Execute",
  "(*github.com/go-jose/go-jose/v4.JSONWebKey).Thumbprint",
  "(github.com/dadrus/httpsig.Signer).Sign",
  "(github.com/go-jose/go-jose/v4/jwt.Builder).Claims",
  "(github.com/go-jose/go-jose/v4/jwt.Builder).Serialize",
  "(github.com/google/cel-go/cel.Program).Eval",
  "(github.com/google/cel-go/common/types/ref.Val).Value",
  "(github.com/tidwall/gjson.Result).String",
  "(github.com/tidwall/gjson.Result).Value",
  "(io.ReadCloser).Close",
  "(net/http.Header).Get"
]

def Row.clean (r : Row) : Bool :=
  r.writes.isEmpty && r.globals.isEmpty && r.unknown.isEmpty && r.ext.all fun e => trustedExt.contains e.2

/-- the whole table is free of in-place writes to shared memory -/
def clean (t : List Row) : Bool := t.all Row.clean

/-- rows violating the obligation (for the report) -/
def dirty (t : List Row) : List Row := t.filter fun r => !r.clean

/-- the accesses of a method to its receiver according to its row: read the fields it reads, write the fields it
writes (sub-slots of a field are told apart by the machine's instance, `slotsOf` expands a field to them) -/
def Row.program (r : Row) (slotsOf : String → List String) : List Op :=
  (r.reads.flatMap fun f => (slotsOf f).map Op.rd) ++ (r.writes.flatMap fun w => (slotsOf w.1).map Op.wr)

def lookup (t : List Row) (typ method : String) : Option Row :=
  t.find? fun r => r.typ == typ && r.method == method

/-- methods every mechanism kind has to have a row for -/
def requiredMethods (kind : String) : List String :=
  if kind == "authenticator" then ["Execute", "ID", "IsFallbackOnErrorAllowed", "WithConfig"]
  else if kind == "error_handler" then ["Execute", "ID", "WithConfig"]
  else if kind == "factory" then []
  else ["ContinueOnError", "Execute", "ID", "WithConfig"]

/-- (kind, Go type, fields) of every mechanism type of the table, without repetition -/
def types (t : List Row) : List (String × String × List String) :=
  t.foldl (fun acc r => if acc.any (fun x => x.2.1 == r.typ) then acc else acc ++ [(r.kind, r.typ, r.fields)]) []

/-- every type of the table has a row for each required method -/
def complete (t : List Row) : Bool :=
  (types t).all fun x => (requiredMethods x.1).all fun m => (lookup t x.2.1 m).isSome

end Heimdall.Footprint
