/-!
# Model of heimdall's configuration loader (property C20)

What `internal/config/parser` does, as small total functions (core Lean only, the driver executes exactly these):

* `Val` – the untyped configuration tree the loader works on (`map[string]any`, `[]any`, scalars, `nil`).
* `merge`, `mergeFields`, `mergeElems` – `merge.go`: `merge`, `mergeMaps`, `mergeSlices`
  (maps key by key, slices index by index, nothing (`Val.null`, a hole) never overrides, scalars – the nil scalar
  `Val.nil` included – : the source wins).
* `normalizeKey`, `parseName` – `env.go`: the key normalisation of `koanfFromEnv` (`__` ↦ `_`, `_` ↦ `.`, lower case)
  and the split into map keys and list indices done by `convert`.
* `single` – the tree one environment variable stands for (`convert`: a slice of `pos+1` entries with the value at
  `pos`; nested keys resolved into nested maps).
* `envTree` – all variables merged (the loader goes through Go maps, i.e. an arbitrary order; the model folds over the
  enumeration order and `Props/C20.lean` proves that the order is irrelevant).
* `load` – `configloader.go` `Load`: defaults, then the file, then the environment, each merged with `merge`.
* `trimSpace`, `stripPrefix?`, `selectEnv`, `loadP` – `options.go` `WithEnvPrefix` and the selection of the variables of the
  process by koanf's `env` provider: the configured prefix, trimmed, compared as written.
* `nullText`, `Val.nil`, `holeVar`, `envVal` – a value that is **defined to be nil** (an empty variable, `null`, `~`; a map
  entry `k: nil` in Go) as opposed to nothing at all (`Val.null`: absent key, unfilled list position).

Typed decoding (mapstructure) is not modelled: the observable is the merged tree handed to the decoder.
The model describes the loader with the fixes `fixes/C20-1.patch` applied (sibling list variables are merged instead of
overwritten, dotted keys inside list elements are resolved).
-/
namespace Heimdall.Config

mutual
/-- untyped configuration tree (keys are character lists); `atom` carries the canonical text of a YAML scalar (its type is part of the text) -/
inductive Val where
  | null
  | atom (a : String)
  | map (fs : Fields)
  | seq (es : Elems)
deriving Repr, DecidableEq
/-- the entries of a map, in insertion order -/
inductive Fields where
  | nil
  | cons (k : List Char) (v : Val) (rest : Fields)
deriving Repr, DecidableEq
/-- the entries of a slice -/
inductive Elems where
  | nil
  | cons (v : Val) (rest : Elems)
deriving Repr, DecidableEq
end

instance : Inhabited Val := ⟨.null⟩

/-- property names are character lists (kernel-friendly; the driver converts) -/
abbrev Key := List Char

open Lean in
/-- `c!"ab"` is the character list `['a', 'b']`, expanded when the file is read -/
macro:max "c!" s:str : term => do
  let cs := s.getString.toList.map fun c => Syntax.mkCharLit c
  `([$(cs.toArray),*])

/-- one step of a path into a tree: a map key or a list index -/
inductive Seg where
  | key (k : List Char)
  | idx (n : Nat)
deriving Repr, DecidableEq

abbrev Path := List Seg

/-- `m[k]`, `nil` when absent -/
def Fields.lookup : Fields → Key → Val
  | .nil, _ => .null
  | .cons k v rest, q => if k = q then v else rest.lookup q

/-- `m[k] = x` (first occurrence replaced, else appended) -/
def Fields.set : Fields → Key → Val → Fields
  | .nil, q, x => .cons q x .nil
  | .cons k v rest, q, x => if k = q then .cons k x rest else .cons k v (rest.set q x)

def Fields.keys : Fields → List Key
  | .nil => []
  | .cons k _ rest => k :: rest.keys

/-- `s[i]`, `nil` beyond the end -/
def Elems.getD : Elems → Nat → Val
  | .nil, _ => .null
  | .cons v _, 0 => v
  | .cons _ rest, n + 1 => rest.getD n

def Elems.length : Elems → Nat
  | .nil => 0
  | .cons _ rest => rest.length + 1

/-- the subtree at a path, `null` where there is none -/
def Val.get : Val → Path → Val
  | v, [] => v
  | .map fs, .key k :: p => (fs.lookup k).get p
  | .seq es, .idx n :: p => (es.getD n).get p
  | _, _ :: _ => .null

/-! ## merge.go -/

mutual
/-- `merge(dest, src)`; a kind clash (where the Go code panics or lets the source win) is resolved in favour of the
    source, `Val.compatB` says when there is none -/
def merge (d : Val) : Val → Val
  | .null => d
  | .atom a => .atom a
  | .map sf => match d with
      | .map df => .map (mergeFields df sf)
      | _ => .map sf
  | .seq se => match d with
      | .seq de => .seq (mergeElems de se)
      | _ => .seq se
/-- `mergeMaps`: `for k, v := range src { dest[k] = merge(dest[k], v) }` -/
def mergeFields (df : Fields) : Fields → Fields
  | .nil => df
  | .cons k v rest => mergeFields (df.set k (merge (df.lookup k) v)) rest
/-- `mergeSlices`: index by index, the result is as long as the longer one, `nil` entries never override -/
def mergeElems (de : Elems) : Elems → Elems
  | .nil => de
  | .cons v rest => match de with
      | .nil => .cons v (mergeElems .nil rest)
      | .cons x xs => .cons (merge x v) (mergeElems xs rest)
end

mutual
/-- no kind clash between destination and source: wherever both have something, both are scalars, both maps or both
    lists -/
def Val.compatB (d : Val) : Val → Bool
  | .null => true
  | .atom _ => match d with
      | .null => true
      | .atom _ => true
      | _ => false
  | .map sf => match d with
      | .null => true
      | .map df => Fields.compatB df sf
      | _ => false
  | .seq se => match d with
      | .null => true
      | .seq de => Elems.compatB de se
      | _ => false
def Fields.compatB (df : Fields) : Fields → Bool
  | .nil => true
  | .cons k v rest => Val.compatB (df.lookup k) v && Fields.compatB df rest
def Elems.compatB (de : Elems) : Elems → Bool
  | .nil => true
  | .cons v rest => match de with
      | .nil => true
      | .cons x xs => Val.compatB x v && Elems.compatB xs rest
end

def hasDup : List Key → Bool
  | [] => false
  | k :: ks => ks.contains k || hasDup ks

mutual
/-- every map of the tree has pairwise different keys (true of everything a YAML/JSON parser or Go produces) -/
def Val.nodup : Val → Bool
  | .null => true
  | .atom _ => true
  | .map fs => !(hasDup fs.keys) && Fields.nodupVals fs
  | .seq es => Elems.nodupVals es
def Fields.nodupVals : Fields → Bool
  | .nil => true
  | .cons _ v rest => Val.nodup v && Fields.nodupVals rest
def Elems.nodupVals : Elems → Bool
  | .nil => true
  | .cons v rest => Val.nodup v && Elems.nodupVals rest
end

/-! ## env.go: names of environment variables -/

/-- `strings.ReplaceAll(ReplaceAll(ReplaceAll(ToLower(key), "__", `\:\`), "_", "."), `\:\`, "_")`
    (left to right, non-overlapping; ASCII) -/
def normalizeKey : List Char → List Char
  | '_' :: '_' :: r => '_' :: normalizeKey r
  | '_' :: r => '.' :: normalizeKey r
  | c :: r => c.toLower :: normalizeKey r
  | [] => []

/-- `strings.Split(s, ".")` -/
def splitDots : List Char → List (List Char)
  | [] => [[]]
  | c :: r =>
    if c = '.' then [] :: splitDots r
    else match splitDots r with
      | [] => [[c]]
      | s :: ss => (c :: s) :: ss

def digitVal (c : Char) : Option Nat :=
  if '0' ≤ c ∧ c ≤ '9' then some (c.toNat - 48) else none

/-- `isNumRegex` (`^\d+$`) and `strconv.Atoi` -/
def parseNat? (s : List Char) : Option Nat :=
  if s.isEmpty then none else s.foldl (fun acc c => acc.bind fun n => (digitVal c).map fun d => n * 10 + d) (some 0)

/-- one dot-separated part of a normalised key: a list index when numeric, else a map key (`convert`) -/
def segOf (s : List Char) : Seg :=
  match parseNat? s with
  | some n => .idx n
  | none => .key s

/-- the path an environment variable (prefix already removed) addresses -/
def parseName (name : List Char) : Path :=
  (splitDots (normalizeKey name)).map segOf

/-! ## env.go: the tree one variable stands for, and all variables together -/

/-- `make([]any, pos+1)` with the value at `pos` -/
def padded : Nat → Val → Elems
  | 0, v => .cons v .nil
  | n + 1, v => .cons .null (padded n v)

/-- the tree that holds `v` at path `p` and nothing else -/
def single : Path → Val → Val
  | [], v => v
  | .key k :: p, v => .map (.cons k (single p v) .nil)
  | .idx n :: p, v => .seq (padded n (single p v))

/-- all variables merged, in enumeration order -/
def envTree (env : List (Path × Val)) : Val :=
  env.foldl (fun acc e => merge acc (single e.1 e.2)) .null

/-- the paths two different variables address neither clash in kind (a map key against a list index at the same
    place) nor is one a prefix of the other (a scalar against a structure, or the same leaf twice) -/
def pathCompat : Path → Path → Bool
  | [], _ => false
  | _ :: _, [] => false
  | .key a :: p, .key b :: q => if a = b then pathCompat p q else true
  | .idx m :: p, .idx n :: q => if m = n then pathCompat p q else true
  | .key _ :: _, .idx _ :: _ => false
  | .idx _ :: _, .key _ :: _ => false

/-- all variables of an environment address pairwise compatible, different leaves -/
def pathsConsistent : List Path → Bool
  | [] => true
  | p :: ps => ps.all (pathCompat p) && pathsConsistent ps

/-- an environment as the process sees it: variable name (prefix removed) and scalar value (after YAML typing) -/
abbrev Env := List (List Char × String)

/-! ### nil values

`env.go toRealType` lets YAML read the text of a variable: the empty text, blanks, `null`, `Null`, `NULL`, `~` (and a
text YAML cannot read at all) become Go's `nil`. Such a variable still *defines* its leaf. In a Go map the entry
`k: nil` overrides a scalar (`merge`: "any other (primitive) type: overriding", `return src`) – the value of the file is
gone and the typed decoding later leaves the target's default in place. The model keeps such a defined-to-be-nil value
apart from "nothing here" (`Val.null`): it is the scalar `Val.nil` whose canonical text is `nullText`.
Inside a Go slice there is no such difference: `convert` pads with `nil` and `mergeSlices` never lets a `nil` entry
override (`else if v != nil`), so a nil value addressed to a list position is a hole like the padding (`envVal`). -/

/-- the canonical (JSON) text of the nil scalar -/
def nullText : String := "null"

/-- a value that is defined to be nil (Go: the map entry `k: nil`) -/
def Val.nil : Val := .atom nullText

/-- does the path end in a list index (is the place a slice entry)? -/
def endsInIdx : Path → Bool
  | [] => false
  | [.idx _] => true
  | [.key _] => false
  | _ :: s :: r => endsInIdx (s :: r)

/-- a variable with a nil value that addresses a list position: indistinguishable from the padding of `convert` -/
def holeVar (p : Path) (a : String) : Bool := a == nullText && endsInIdx p

/-- what the value `a` of a variable addressing `p` contributes to the tree -/
def envVal (p : Path) (a : String) : Val := if holeVar p a then .null else .atom a

def Env.entries (env : Env) : List (Path × Val) := env.map fun e => (parseName e.1, envVal (parseName e.1) e.2)

def Env.consistent (env : Env) : Bool := pathsConsistent (env.map fun e => parseName e.1)

/-! ## decimal numerals (Go `strconv.Itoa`) -/

def digitChar (d : Nat) : Char :=
  match d with
  | 0 => '0' | 1 => '1' | 2 => '2' | 3 => '3' | 4 => '4'
  | 5 => '5' | 6 => '6' | 7 => '7' | 8 => '8' | _ => '9'

/-- decimal digits -/
def natDigits (n : Nat) : List Char :=
  if _h : n < 10 then [digitChar n] else natDigits (n / 10) ++ [digitChar (n % 10)]
decreasing_by omega

/-! ## configloader.go -/

/-- `Load`: defaults (the struct passed in), then the file (`null` when there is none), then the environment -/
def load (defaults file : Val) (env : Env) : Val :=
  merge (merge defaults file) (envTree env.entries)

/-! ## options.go / env.go: the prefix of the variables

`WithEnvPrefix` trims the configured prefix (`strings.TrimSpace`) and keeps it as written otherwise; koanf's `env`
provider takes exactly the variables of the process whose name starts with it (`strings.HasPrefix`, case-sensitive) and
`koanfFromEnv` removes it once (`strings.TrimPrefix`) before the name is normalised. An empty prefix selects every
variable of the process. -/

/-- white space `strings.TrimSpace` removes (the ASCII part and the two Latin-1 spaces) -/
def isSpace (c : Char) : Bool :=
  c == ' ' || c == '\t' || c == '\n' || c == '\r' || c == '\x0b' || c == '\x0c' || c == '\u0085' || c == '\u00a0'

/-- `strings.TrimSpace` -/
def trimSpace (s : List Char) : List Char :=
  ((s.dropWhile isSpace).reverse.dropWhile isSpace).reverse

/-- `strings.HasPrefix(name, pre)` and `strings.TrimPrefix(name, pre)` in one: the rest of the name, `none` when the
    name does not start with `pre` (character by character, nothing is folded) -/
def stripPrefix? : List Char → List Char → Option (List Char)
  | [], name => some name
  | _ :: _, [] => none
  | p :: ps, c :: cs => if p = c then stripPrefix? ps cs else none

/-- the environment of the process: full variable names and their values (after YAML typing) -/
abbrev ProcEnv := List (List Char × String)

/-- the variables the loader takes when `configured` is what the operator passed as prefix: those whose name starts
    with the trimmed prefix, in the order of enumeration, with the prefix removed -/
def selectEnv (configured : List Char) (penv : ProcEnv) : Env :=
  penv.filterMap fun e => (stripPrefix? (trimSpace configured) e.1).map fun n => (n, e.2)

/-- `Load` of a loader created with `WithEnvPrefix(configured)` in a process whose environment is `penv` -/
def loadP (defaults file : Val) (configured : List Char) (penv : ProcEnv) : Val :=
  load defaults file (selectEnv configured penv)

end Heimdall.Config
