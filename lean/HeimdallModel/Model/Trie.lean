import HeimdallModel.Base.Path
/-!
# The routing tree (`internal/x/radixtree`) at token level

The byte-level radix tree is modelled *extensionally*: the tree is the table of its value-carrying nodes, each
identified by the token pattern that leads to it.  Prefix splitting, child priorities and node merging are not
observable through `Add` / `Delete` / `Find` and are therefore not part of the model; the correspondence check
compares exactly those observables against the real `radixtree.Tree`.

`find` is the depth-first search of `findNode` (static child, then single wildcard, then free wildcard, with the
backtracking flag cutting the search), written as a structural recursion over the request tokens on the sub-table
`below t tok` — a trie traversal that never materialises the trie.
-/
namespace Heimdall

structure Node (V : Type) where
  pat    : List PTok
  keys   : List String
  values : List V
  bt     : Bool
deriving Repr

abbrev Table (V : Type) := List (Node V)

/-- sub-table reached through an edge labelled `p` -/
def below {V} (t : Table V) (p : PTok) : Table V :=
  t.filterMap fun n => match n.pat with
    | q :: rest => if q = p then some { n with pat := rest } else none
    | [] => none

/-- the node at the current position, if it carries values -/
def here {V} (t : Table V) : Option (Node V) := t.find? (fun n => n.pat = [])

structure Found (V : Type) where
  value : V
  keys  : List String
  caps  : List String
deriving Repr

/-- result of a (sub)search: what was found, and whether the caller may go on searching -/
abbrev Res (V : Type) := Option (Found V) × Bool

def done {V} (r : Res V) : Bool := r.1.isSome || !r.2

/-- try the values of one node in order -/
def tryNode {V} (m : V → List String → List String → Bool) (n : Node V) (caps : List String) : Res V :=
  match n.values.find? (fun v => m v n.keys caps) with
  | some v => (some ⟨v, n.keys, caps⟩, false)
  | none => (none, n.bt)

def leafRes {V} (m : V → List String → List String → Bool) (t : Table V) (caps : List String) : Res V :=
  match here t with
  | none => (none, true)
  | some n => tryNode m n caps

def catchRes {V} (m : V → List String → List String → Bool) (t : Table V) (toks : List Tok)
    (caps : List String) : Res V :=
  match here (below t .catchAll) with
  | none => (none, true)
  | some cn => tryNode m cn (caps ++ [render toks])

/-- `Tree.findNode` -/
def find {V} (m : V → List String → List String → Bool) : Table V → List Tok → List String → Res V
  | t, [], caps => leafRes m t caps
  | t, tok :: rest, caps =>
    let r1 := find m (below t (.lit (tokStr tok))) rest caps
    if done r1 then r1 else
    let r2 : Res V := match tok with
      | .sep => (none, true)
      | .seg sg => find m (below t .wild) rest (caps ++ [sg])
    if done r2 then r2 else
    catchRes m t (tok :: rest) caps

/-- `Tree.Find`: the value and the named parameters (unnamed wildcards, key `*`, are not exposed;
    a name used twice keeps the last value, as the Go map does) -/
def paramsOf (keys caps : List String) : List (String × String) :=
  (keys.zip caps).filter (fun kv => kv.1 ≠ "*")

def lookup {V} (m : V → List String → List String → Bool) (t : Table V) (path : String) :
    Option (V × List (String × String)) :=
  match (find m t (tokenize path) []).1 with
  | some f => some (f.value, paramsOf f.keys f.caps)
  | none => none

/-! ## Add and Delete -/

inductive AddErr where
  | invalidPath
  | ambiguousKeys
  | constraint
deriving DecidableEq, Repr

def getNode {V} (t : Table V) (pat : List PTok) : Option (Node V) := t.find? (fun n => n.pat = pat)

/-- `Tree.Add(path, value, WithBacktracking(bt))` with the values constraint `canAdd` -/
def addPat {V} (canAdd : List V → V → Bool) (t : Table V) (pat : List PTok) (keys : List String) (v : V)
    (bt : Bool) : Except AddErr (Table V) :=
  match getNode t pat with
  | none =>
    if canAdd [] v then .ok (t ++ [⟨pat, keys, [v], bt⟩]) else .error .constraint
  | some n =>
    if n.keys ≠ keys then .error .ambiguousKeys
    else if ¬ canAdd n.values v then .error .constraint
    else .ok (t.map fun n' => if n'.pat = pat then { n' with values := n'.values ++ [v], bt := bt } else n')

def add {V} (canAdd : List V → V → Bool) (t : Table V) (expr : String) (v : V) (bt : Bool) :
    Except AddErr (Table V) :=
  match parsePat expr with
  | .error _ => .error .invalidPath
  | .ok (pat, keys) => addPat canAdd t pat keys v bt

/-- `Tree.Delete(path, matcher)`: removes all matching values of the node; fails when nothing was removed -/
def delPat {V} (t : Table V) (pat : List PTok) (p : V → Bool) : Option (Table V) :=
  match getNode t pat with
  | none => none
  | some n =>
    if n.values.any p then
      some (t.filterMap fun n' =>
        if n'.pat = pat then
          let vs := n'.values.filter (fun v => !p v)
          if vs.isEmpty then none else some { n' with values := vs }
        else some n')
    else none

def del {V} (t : Table V) (expr : String) (p : V → Bool) : Option (Table V) :=
  delPat t (parseDel expr) p

end Heimdall
