import HeimdallModel.Model.EntryPoints
/-!
# The HTTP response writer and the middleware in front of the service handler (C01)

`Model/EntryPoints.lean` says which *answer* the service handler gives.  This file says how that answer comes about on
an `http.ResponseWriter` that other code has touched before: `proxy/service.go` puts the CORS middleware (`rs/cors`,
`serve.proxy.cors`) between the recovery middleware and the service handler, and that middleware adds response headers
(`Vary: Origin` for every request, `Access-Control-*` for an allowed origin) *before* the rule is looked up — so the
error translator (`errorhandler.HandleError`, also called by the recovery middleware) finds a header map that is not
empty.  A handler chain that returns without `WriteHeader` gets net/http's implicit `200 OK` (`RW.reply`): an error
translator that wrote nothing because "the response is already in progress" would turn every refusal into a success.

* `RW` — the response writer: names in `rw.Header()`, the status of the first `WriteHeader`, whether an error body was
  written, whether the reverse proxy relayed an upstream response.
* `Cfg.handleError`, `finalizeRW`, `handlerRW` — `errorHandler.HandleError` with `errorWriter`, the `Finalize` of the
  decision / proxy request context, `service.handler.ServeHTTP` inside `recovery.New(eh)`, on a writer in any state.
* `Cors.headers`, `corsHandler` — `(*cors.Cors).Handler`: preflight requests are answered by the middleware itself
  (`204`, the chain stops: heimdall does not set `OptionsPassthrough`), everything else goes on with the headers set.
* `chainRW`, `serveChain` — what the caller of an entry point observes; `Lemmas/HttpChain.lean` proves it equal to
  `serve` for every state of the header map, except for a preflight request at a proxy with CORS configured.
-/
namespace Heimdall.Pipeline

/-- `http.ResponseWriter` as the handlers see it -/
structure RW where
  /-- names in `rw.Header()`, in the order they were set -/
  headers : List String := []
  /-- the code of the first `WriteHeader` call (`none` = not called yet) -/
  status : Option Nat := none
  /-- the error translator wrote a body describing the error -/
  errorBody : Bool := false
  /-- `httputil.ReverseProxy` sent the request to the upstream and relayed its response -/
  forwarded : Bool := false
deriving DecidableEq, Repr, Inhabited

/-- `rw.Header().Set / Add` -/
def RW.set (rw : RW) (names : List String) : RW := { rw with headers := rw.headers ++ names }

/-- `rw.WriteHeader(code)`: the first call decides, net/http ignores later ones ("superfluous response.WriteHeader
call") -/
def RW.writeHeader (rw : RW) (code : Nat) : RW :=
  match rw.status with
  | some _ => rw
  | none => { rw with status := some code }

/-- nothing has been sent yet: no status line, no body, nothing relayed.  Says nothing about the header map. -/
def RW.fresh (rw : RW) : Bool := rw.status.isNone && !rw.errorBody && !rw.forwarded

/-- what net/http sends when the handler chain returns: a chain that never called `WriteHeader` gets the implicit
`200 OK` -/
def RW.reply (rw : RW) : Reply :=
  { resp := .http (rw.status.getD 200) rw.forwarded, errorBody := rw.errorBody }

/-- `errorHandler.HandleError` (`error_handler.go`) with `errorWriter` (`formatter.go`) on a response writer in any
state: the redirect branch sets `Location` and writes the code; every other branch sets `Content-Type` and
`X-Content-Type-Options` if a body was negotiated, writes the status of the class, then the body.  **It does not look
at what is already in the header map.** -/
def Cfg.handleError (cfg : Cfg) (view : ReqView) (e : Err) (rw : RW) : RW :=
  match classify e with
  | .redirect code => (rw.set ["Location"]).writeHeader code
  | cl =>
    let body := cfg.verbose && view.negotiable
    let rw' := if body then rw.set ["Content-Type", "X-Content-Type-Options"] else rw
    { rw'.writeHeader (cfg.httpStatus cl) with errorBody := rw.errorBody || body }

/-- `Finalize` of the decision (`proxy = false`) / proxy (`proxy = true`) request context on a response writer in any
state -/
def finalizeRW (proxy : Bool) (cfg : Cfg) (view : ReqView) (upstream : Nat) (backend : Bool) (c : Ctx) (rw : RW) :
    RW :=
  match c.pipelineErr with
  | some e => cfg.handleError view e rw
  | none =>
    if proxy then
      if backend then { rw.writeHeader upstream with forwarded := true }
      else cfg.handleError view (.ofKind .configuration) rw
    else rw.writeHeader cfg.acceptedCode

/-- `service.handler.ServeHTTP` inside `recovery.New(eh)` on a response writer in any state -/
def handlerRW (proxy : Bool) (cfg : Cfg) (view : ReqView) (upstream : Nat) (found : Option Rule) (rw : RW) :
    RW × Ctx :=
  match execute found {} with
  | .panic v c => (cfg.handleError view (recovered v) rw, c)
  | .done out c =>
    match out.err with
    | some e => (cfg.handleError view e rw, c)
    | none => (finalizeRW proxy cfg view upstream out.backend c rw, c)

/-! ### the CORS middleware -/

def Cors.allowsAll (c : Cors) : Bool := c.origins.isEmpty || c.origins.contains "*"

/-- `isOriginAllowed` for exact origins (both sides lower-cased) -/
def Cors.originAllowed (c : Cors) (o : String) : Bool := c.allowsAll || c.origins.contains o

/-- the `Access-Control-*` headers of `handleActualRequest` / `handlePreflight` that the tie watches: present iff the
request names a non-empty allowed origin and `GET` (the method of the request, or the method a preflight asks for) is
allowed -/
def Cors.grant (c : Cors) (view : ReqView) : List String :=
  match view.origin with
  | none => []
  | some o =>
    if o != "" && c.originAllowed o && c.allowsGet then
      "Access-Control-Allow-Origin" :: (if c.allowCredentials then ["Access-Control-Allow-Credentials"] else [])
    else []

/-- response headers the CORS middleware sets before anything else happens: `Vary` always -/
def Cors.headers (c : Cors) (view : ReqView) : List String := "Vary" :: c.grant view

/-- `(*cors.Cors).Handler(next)`: a preflight request is answered here with `204` and `next` is not called (no rule
is looked up, no mechanism runs); any other request goes on to `next` with the headers already set -/
def corsHandler (c : Cors) (view : ReqView) (next : RW → RW × Ctx) (rw : RW) : RW × Ctx :=
  let rw' := rw.set (c.headers view)
  if view.preflight then (rw'.writeHeader 204, {}) else next rw'

/-- the decision service (`proxy = false`: no CORS middleware in its chain, whatever `serve.decision.cors` says) and
the proxy service (`proxy = true`) from the middleware that touches the response down to the handler, on the empty
response writer net/http hands in -/
def chainRW (proxy : Bool) (cfg : Cfg) (view : ReqView) (upstream : Nat) (found : Option Rule) : RW × Ctx :=
  match proxy, cfg.cors with
  | true, some c => corsHandler c view (handlerRW true cfg view upstream found) {}
  | _, _ => handlerRW proxy cfg view upstream found {}

/-- what the caller of an entry point observes (the Envoy service speaks gRPC: no response writer, no CORS) -/
def serveChain (ep : EntryPoint) (cfg : Cfg) (view : ReqView) (upstream : Nat) (found : Option Rule) : Reply × Ctx :=
  match ep with
  | .envoy => serveEnvoy cfg found
  | .decision => ((chainRW false cfg view upstream found).1.reply, (chainRW false cfg view upstream found).2)
  | .proxy => ((chainRW true cfg view upstream found).1.reply, (chainRW true cfg view upstream found).2)

def chainAnswer (ep : EntryPoint) (cfg : Cfg) (view : ReqView) (upstream : Nat) (found : Option Rule) : Response :=
  (serveChain ep cfg view upstream found).1.resp

/-- the request never reaches the service handler: a preflight request at the proxy with `serve.proxy.cors`
configured is answered by the CORS middleware -/
def preflightAnswered (ep : EntryPoint) (cfg : Cfg) (view : ReqView) : Bool :=
  ep == .proxy && cfg.cors.isSome && view.preflight

/-- the watched response headers set in front of the handler (what the tie compares with the real services) -/
def frontHeaders (ep : EntryPoint) (cfg : Cfg) (view : ReqView) : List String :=
  match ep, cfg.cors with
  | .proxy, some c => c.headers view
  | _, _ => []

end Heimdall.Pipeline
