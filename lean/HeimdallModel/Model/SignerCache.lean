import HeimdallModel.Model.Signer
/-!
# The token cache of `jwtFinalizer.Execute` (C16)

`Execute` looks the token up in the cache under `calculateCacheKey`, hands a cached token out as it is, and otherwise
renders the claims template, has the signer sign, stores the token for `ttl − 5 s` (if that is positive) and hands it
out.  The cache is the one of the process: the catalogue finalizer (*prototype*), every rule-level variant
`WithConfig` derives from it and every other jwt finalizer use the same store.

What is modelled of the key is **which inputs it covers** (`CacheKey`); its byte string (SHA-256 over length-prefixed
fields) is the subject of C11:

| written by `calculateCacheKey` | here |
|---|---|
| `f.signer.Hash()` = key id, algorithm, issuer, JWK thumbprint of the active key (read under the read lock) | `SignerHash` (`pub` stands for the thumbprint, a function of the public key) |
| `f.claims.Hash()` (hash of the template *text*), empty without a template | `claims : Option Nat` |
| the TTL as 8 bytes | `ttlNs` |
| `sub.Hash()` = hash of the JSON serialisation of id and attributes | `Subject` (`attrs` stands for the serialised attributes) |
| `json.Marshal(ctx.Outputs())` | `outputs` |

Neither the finalizer id nor the header settings are covered (and need not be: the cache holds the bare token, the
header is built by the executing variant after the lookup).  Template rendering is a function `render` of template,
subject and outputs (the only values `generateToken` passes to it).

Clock readings are inputs: `getNs` (the cache lookup), `signNs` (`time.Now()` inside `Sign`), `setNs` (the cache's own
reading when the entry is stored).  The store is the in-memory one (`Model/TtlStore.lean` of C10 with the key type
needed here): an entry stored at `t` with a positive lifetime `l` is served while `now ≤ t + l`, a non-positive
lifetime stores nothing.
-/
namespace Heimdall.Signer

variable {α : Type}

/-- `jwtSigner.Hash()` -/
structure SignerHash where
  kid : String
  alg : String
  iss : String
  pub : PubKey
deriving DecidableEq, Repr

/-- a `jwtSigner`: its configuration (key id, issuer) and the guarded fields -/
structure SignerRec where
  keyID : String
  iss   : String
  st    : State
deriving DecidableEq, Repr

def SignerRec.hash (s : SignerRec) : SignerHash := ⟨s.st.jwk.kid, s.st.jwk.alg, s.iss, s.st.jwk.pub⟩

/-- `subject.Subject` as far as `Subject.Hash` and `Sign` see it -/
structure Subject where
  id    : String
  attrs : String
deriving DecidableEq, Repr

/-- the inputs `calculateCacheKey` covers -/
structure CacheKey where
  signer  : SignerHash
  claims  : Option Nat
  ttlNs   : Int
  subject : Subject
  outputs : String
deriving DecidableEq, Repr

structure CEntry (α : Type) where
  key    : CacheKey
  tok    : Token α
  expiry : Int

abbrev Cache (α : Type) := List (CEntry α)

def Cache.find (c : Cache α) (k : CacheKey) : Option (CEntry α) := List.find? (fun e => decide (e.key = k)) c

/-- `memory.Cache.Get` (ttlcache: expired iff `expiresAt.Before(now)`) -/
def Cache.get (c : Cache α) (k : CacheKey) (now : Int) : Option (Token α) :=
  match c.find k with
  | some e => if now ≤ e.expiry then some e.tok else none
  | none => none

/-- `memory.Cache.Set`: nothing is stored for a lifetime that is not positive -/
def Cache.set (c : Cache α) (k : CacheKey) (t : Token α) (ttl now : Int) : Cache α :=
  if 0 < ttl then ⟨k, t, now + ttl⟩ :: List.filter (fun e => decide (e.key ≠ k)) c else c

/-- `defaultCacheLeeway` -/
def leewayNs : Int := 5000000000

/-- template rendering: template, subject, outputs ↦ the members of the rendered JSON object (`none`: rendering
fails or yields no JSON object) -/
abbrev Render (α : Type) := Nat → Subject → String → Option (Claims α)

/-- one call of `Execute`: through which signer, by which finalizer instance (prototype or variant: TTL, claims
template, header), for which subject and pipeline outputs, with which clock readings -/
structure Exec where
  signer  : Nat
  fin     : Finalizer
  sub     : Subject
  outputs : String
  getNs   : Int
  signNs  : Int
  setNs   : Int
deriving DecidableEq, Repr

structure World (α : Type) where
  signers : List SignerRec
  cache   : Cache α

def keyOf (s : SignerRec) (x : Exec) : CacheKey := ⟨s.hash, x.fin.claims, x.fin.ttlNs, x.sub, x.outputs⟩

/-- `generateToken`'s custom claims: the empty map without a template -/
def customFor (render : Render α) (claims : Option Nat) (sub : Subject) (outputs : String) : Option (Claims α) :=
  match claims with
  | none => some []
  | some t => render t sub outputs

def customOf (render : Render α) (x : Exec) : Option (Claims α) := customFor render x.fin.claims x.sub x.outputs

inductive Source where
  | fresh | cached
deriving DecidableEq, Repr

/-- how `Execute` derives and uses the cache key.  `norm`: applied to the key before it is used (`id`: the key covers
all of `CacheKey`; a projection that forgets a component describes a key function covering less).  `underSigning`:
under which key a new token is stored when the key store was reloaded between the calculation of the cache key and
`Sign` — `true`: under the key of the signer state that signed it (`signAndHash`, fixes/C16-1), `false`: under the key
calculated for the lookup (the code before that fix). -/
structure KeyPolicy where
  norm         : CacheKey → CacheKey := id
  underSigning : Bool := true

/-- `Execute`.  `none`: no such signer, or the claims cannot be rendered (the error `Execute` returns; nothing is
stored). -/
def executeK (p : KeyPolicy) (render : Render α) (w : World α) (x : Exec) : Option (Token α × Source × World α) :=
  match w.signers[x.signer]? with
  | none => none
  | some s =>
    let k := p.norm (keyOf s x)
    match w.cache.get k x.getNs with
    | some t => some (t, .cached, w)
    | none =>
      match customOf render x with
      | none => none
      | some custom =>
        let t := sign s.st ⟨x.sub.id, s.iss, x.signNs, x.fin.ttlNs⟩ custom
        some (t, .fresh,
          if leewayNs < x.fin.ttlNs then { w with cache := w.cache.set k t (x.fin.ttlNs - leewayNs) x.setNs } else w)

/-- `jwtFinalizer.Execute` -/
def execute (render : Render α) (w : World α) (x : Exec) : Option (Token α × Source × World α) :=
  executeK {} render w x

def reloadAt (w : World α) (i : Nat) (f : File) : World α :=
  match w.signers[i]? with
  | none => w
  | some s => { w with signers := w.signers.set i { s with st := reload s.keyID s.st f } }

/-- `Execute` overlapping a reload of its signer's key store: `OnChanged` commits after the cache key has been
calculated (`Hash` has read the old state) and before `Sign` reads the signer.  A cached token is handed out as found
under the old key; otherwise the new state signs. -/
def executeDuringK (p : KeyPolicy) (render : Render α) (w : World α) (x : Exec) (f : File) :
    Option (Token α × Source × World α) :=
  match w.signers[x.signer]? with
  | none => none
  | some s =>
    let k := p.norm (keyOf s x)
    let w1 := reloadAt w x.signer f
    match w.cache.get k x.getNs with
    | some t => some (t, .cached, w1)
    | none =>
      match customOf render x with
      | none => none
      | some custom =>
        let s' : SignerRec := { s with st := reload s.keyID s.st f }
        let t := sign s'.st ⟨x.sub.id, s.iss, x.signNs, x.fin.ttlNs⟩ custom
        let k' := if p.underSigning then p.norm (keyOf s' x) else k
        some (t, .fresh,
          if leewayNs < x.fin.ttlNs then { w1 with cache := w1.cache.set k' t (x.fin.ttlNs - leewayNs) x.setNs } else w1)

def executeDuring (render : Render α) (w : World α) (x : Exec) (f : File) : Option (Token α × Source × World α) :=
  executeDuringK {} render w x f

/-- what happens to the process over time: executions, key store reloads (`OnChanged` of one signer), and executions
during which the key store of their signer is reloaded -/
inductive Event where
  | exec (x : Exec)
  | reload (signer : Nat) (f : File)
  | execDuring (x : Exec) (f : File)

def Event.execOf : Event → Option Exec
  | .exec x => some x
  | .reload _ _ => none
  | .execDuring x _ => some x

def stepK (p : KeyPolicy) (render : Render α) (w : World α) : Event → World α
  | .exec x => match executeK p render w x with
    | some r => r.2.2
    | none => w
  | .reload i f => reloadAt w i f
  | .execDuring x f => match executeDuringK p render w x f with
    | some r => r.2.2
    | none => reloadAt w x.signer f

def runK (p : KeyPolicy) (render : Render α) (w : World α) (hist : List Event) : World α :=
  hist.foldl (stepK p render) w

def run (render : Render α) (w : World α) (hist : List Event) : World α := runK {} render w hist

/-- the seeded defect: a key function that does not cover the TTL -/
def dropTtl : KeyPolicy := { norm := fun k => { k with ttlNs := 0 } }

/-- the code before fixes/C16-1: a new token is stored under the key calculated for the lookup -/
def lookupKey : KeyPolicy := { underSigning := false }

end Heimdall.Signer
