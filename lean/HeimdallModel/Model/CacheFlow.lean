import HeimdallModel.Model.TtlStore
import HeimdallModel.Model.CacheTTL
import HeimdallModel.Model.HttpFreshness
/-!
# Look up, else fetch, check and store — the request flow shared by all cache users (C10)

Every cache user of heimdall has the same shape (`getSubjectInformation`, `getKey`, `Config.Token`,
`jwtFinalizer.Execute`, `remoteAuthorizer.Execute`, `genericContextualizer.Execute`, `RoundTripper.RoundTrip`):

1. if caching is enabled (for this request), ask the cache; an entry that is alive is used. Only the introspection
   authenticator checks a cached response once more against the assertions and the clock; by
   `c10_hit_passes_revalidation` that check cannot fail for an entry that is still alive, so the flow needs no
   "hit, then refused" outcome (the correspondence run ages cached documents with the simulated time, so a check
   that did refuse would show up as a disagreement),
2. otherwise obtain a fresh answer from the remote party, refuse it if it is not valid now,
3. compute a TTL and call `Set` only if it is positive.

A `Policy` fixes the three decisions; `step` runs one request, `run` a whole history of requests over time.
-/
namespace Heimdall.Validity

structure Policy (U : Type) where
  lookup : U → Bool            -- is the cache consulted for this request
  accept : Int → U → Bool      -- is the fresh answer `u`, obtained at `now`, accepted
  ttl    : Int → U → Int       -- TTL computed for it; `Set` is called iff it is positive

/-- a cached result: the answer of the remote party, when it was obtained and by which request -/
structure Item (U : Type) where
  ans : U
  time : Int
  src : Nat
deriving DecidableEq

inductive Outcome (U : Type)
  | hit (it : Item U)                            -- served from the cache
  | fresh (it : Item U) (stored : Option Int)    -- obtained from the remote party; `stored` = TTL given to `Set`
  | denied                                       -- the fresh answer was refused
deriving DecidableEq

structure Req (U : Type) where
  dt  : Nat     -- time elapsed since the previous request
  key : Nat     -- which cache entry the request maps to
  up  : U       -- what the remote party would answer to this request

variable {U : Type}

def step (p : Policy U) (k : StoreKind) (s : Store (Item U)) (now : Int) (idx : Nat) (r : Req U) :
    Store (Item U) × Outcome U :=
  match (if p.lookup r.up then s.get k r.key now else none) with
  | some it => (s, .hit it)
  | none =>
    if p.accept now r.up then
      if 0 < p.ttl now r.up then
        (s.set r.key ⟨r.up, now, idx⟩ (p.ttl now r.up) now, .fresh ⟨r.up, now, idx⟩ (some (p.ttl now r.up)))
      else (s, .fresh ⟨r.up, now, idx⟩ none)
    else (s, .denied)

/-- outcomes of a history of requests, each with the time at which it happened; `now` is the time of the previous
request, `idx` the number of the next one. Every request is handled under its own policy: instances of a mechanism
that differ in their rule-level settings share the cache. -/
def runMixed (k : StoreKind) :
    Store (Item U) → Int → Nat → List (Policy U × Req U) → List (Int × Outcome U)
  | _, _, _, [] => []
  | s, now, idx, (p, r) :: rs =>
    (now + r.dt, (step p k s (now + r.dt) idx r).2)
      :: runMixed k (step p k s (now + r.dt) idx r).1 (now + r.dt) (idx + 1) rs

/-- the store after a history -/
def runMixedStore (k : StoreKind) :
    Store (Item U) → Int → Nat → List (Policy U × Req U) → Store (Item U)
  | s, _, _, [] => s
  | s, now, idx, (p, r) :: rs => runMixedStore k (step p k s (now + r.dt) idx r).1 (now + r.dt) (idx + 1) rs

/-- a history handled by one policy -/
def run (p : Policy U) (k : StoreKind) (s : Store (Item U)) (now : Int) (idx : Nat) (reqs : List (Req U)) :
    List (Int × Outcome U) :=
  runMixed k s now idx (reqs.map (fun r => (p, r)))

def runStore (p : Policy U) (k : StoreKind) (s : Store (Item U)) (now : Int) (idx : Nat) (reqs : List (Req U)) :
    Store (Item U) :=
  runMixedStore k s now idx (reqs.map (fun r => (p, r)))

/-- What the remote party answers to a request of one of the mechanisms of `Model/CacheTTL.lean`: the absolute
expiry time of the thing itself (`exp` of the introspection response / session, `expires_in` of the token, `NotAfter`
of the key's **own** certificate `x5c[0]`; `none` = no expiry information), and for a JWK the `NotAfter` of the
further certificates of its `x5c` chain (`x5c[1:]`, the issuing CAs; a chain of any length). -/
structure Answer where
  exp  : Option Int
  more : List Int
deriving DecidableEq, Repr

/-- remaining lifetime the mechanism works with; the JWT finalizer issues its tokens itself, their lifetime is its
`ttl`. For a JWK only the key's own certificate counts (`key.Certificates[0]`), whatever else the chain contains. -/
def remaining (m : Mech) (cfg : Option Int) (now : Int) (a : Answer) : Option Int :=
  match m with
  | .jwtFinalizer => some (tokenLifetime cfg)
  | .remoteAuthz | .contextualizer => none
  | _ => a.exp.map (· - now)

def mechPolicy (m : Mech) (cfg : Option Int) (vl : Int) : Policy Answer where
  lookup := fun _ => lookupEnabled m cfg
  accept := fun now a => acceptsFresh m vl (remaining m cfg now a) && chainValid m (a.more.map (· - now))
  ttl := fun now a => cacheTTL m cfg (remaining m cfg now a)

/-- the HTTP response cache in front of a remote endpoint with `http_cache: {enabled: true, default_ttl: dttl}` -/
def httpPolicy (dttl : Int) : Policy Exchange where
  lookup := fun x => x.viaCache
  accept := fun _ _ => true
  ttl := httpTTL dttl

/-- no response cache at all -/
def noCachePolicy : Policy Exchange where
  lookup := fun _ => false
  accept := fun _ _ => true
  ttl := fun _ _ => 0

/-- `http_cache` settings of an endpoint as configured (`default_ttl` omitted = 0) -/
structure HttpCacheConf where
  enabled : Bool
  dttl    : Int
deriving DecidableEq, Repr

/-- `Endpoint.CreateClient`: the response cache is in place only if it is configured and enabled -/
def endpointPolicy (c : Option HttpCacheConf) : Policy Exchange :=
  match c with
  | some ⟨true, d⟩ => httpPolicy d
  | _ => noCachePolicy

/-- `MetadataEndpoint.effectiveEndpoint`: the default (enabled, 30 minutes) applies only if `http_cache` is not
configured at all; a configured `default_ttl`, zero included, is used as it is -/
def metadataPolicy (c : Option HttpCacheConf) : Policy Exchange :=
  match c with
  | none => endpointPolicy (some ⟨true, Gen.metadataDefaultTTL⟩)
  | some conf => endpointPolicy (some conf)

end Heimdall.Validity
