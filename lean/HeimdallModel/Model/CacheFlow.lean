import HeimdallModel.Model.TtlStore
import HeimdallModel.Model.CacheTTL
import HeimdallModel.Model.HttpFreshness
/-!
# Look up, else fetch, check and store — the request flow shared by all cache users (C10)

Every cache user of heimdall has the same shape (`getSubjectInformation`, `getKey`, `Config.Token`,
`jwtFinalizer.Execute`, `remoteAuthorizer.Execute`, `genericContextualizer.Execute`, `RoundTripper.RoundTrip`):

1. if caching is enabled, ask the cache; an entry that is alive is used as it is (nothing is re-validated),
2. otherwise obtain a fresh answer from the remote party, refuse it if it is not valid now,
3. compute a TTL and call `Set` only if it is positive.

A `Policy` fixes the three decisions; `step` runs one request, `run` a whole history of requests over time.
-/
namespace Heimdall.Validity

structure Policy (U : Type) where
  lookup : Bool                -- is the cache consulted
  accept : Int → U → Bool      -- is the fresh answer `u`, obtained at `now`, accepted
  ttl    : Int → U → Int       -- TTL computed for it; `Set` is called iff it is positive

/-- a cached result: the answer of the remote party, when it was obtained and by which request -/
structure Item (U : Type) where
  ans : U
  time : Int
  src : Nat
deriving DecidableEq

inductive Outcome (U : Type)
  | hit (it : Item U)                            -- served from the cache
  | fresh (it : Item U) (stored : Option Int)    -- obtained from the remote party; `stored` = TTL given to `Set`
  | denied                                       -- the fresh answer was refused
deriving DecidableEq

structure Req (U : Type) where
  dt  : Nat     -- time elapsed since the previous request
  key : Nat     -- which cache entry the request maps to
  up  : U       -- what the remote party would answer to this request

variable {U : Type}

def step (p : Policy U) (k : StoreKind) (s : Store (Item U)) (now : Int) (idx : Nat) (r : Req U) :
    Store (Item U) × Outcome U :=
  match (if p.lookup then s.get k r.key now else none) with
  | some it => (s, .hit it)
  | none =>
    if p.accept now r.up then
      if 0 < p.ttl now r.up then
        (s.set r.key ⟨r.up, now, idx⟩ (p.ttl now r.up) now, .fresh ⟨r.up, now, idx⟩ (some (p.ttl now r.up)))
      else (s, .fresh ⟨r.up, now, idx⟩ none)
    else (s, .denied)

/-- outcomes of a history of requests, each with the time at which it happened; `now` is the time of the previous
request, `idx` the number of the next one. Every request is handled under its own policy: instances of a mechanism
that differ in their rule-level settings share the cache. -/
def runMixed (k : StoreKind) :
    Store (Item U) → Int → Nat → List (Policy U × Req U) → List (Int × Outcome U)
  | _, _, _, [] => []
  | s, now, idx, (p, r) :: rs =>
    (now + r.dt, (step p k s (now + r.dt) idx r).2)
      :: runMixed k (step p k s (now + r.dt) idx r).1 (now + r.dt) (idx + 1) rs

/-- the store after a history -/
def runMixedStore (k : StoreKind) :
    Store (Item U) → Int → Nat → List (Policy U × Req U) → Store (Item U)
  | s, _, _, [] => s
  | s, now, idx, (p, r) :: rs => runMixedStore k (step p k s (now + r.dt) idx r).1 (now + r.dt) (idx + 1) rs

/-- a history handled by one policy -/
def run (p : Policy U) (k : StoreKind) (s : Store (Item U)) (now : Int) (idx : Nat) (reqs : List (Req U)) :
    List (Int × Outcome U) :=
  runMixed k s now idx (reqs.map (fun r => (p, r)))

def runStore (p : Policy U) (k : StoreKind) (s : Store (Item U)) (now : Int) (idx : Nat) (reqs : List (Req U)) :
    Store (Item U) :=
  runMixedStore k s now idx (reqs.map (fun r => (p, r)))

/-- What the remote party answers to a request of one of the mechanisms of `Model/CacheTTL.lean`: the absolute
expiry time of the thing itself (`exp` of the introspection response / session, `expires_in` of the token, `NotAfter`
of the key's **own** certificate `x5c[0]`; `none` = no expiry information), and for a JWK the `NotAfter` of the
further certificates of its `x5c` chain (`x5c[1:]`, the issuing CAs; a chain of any length). -/
structure Answer where
  exp  : Option Int
  more : List Int
deriving DecidableEq, Repr

/-- remaining lifetime the mechanism works with; the JWT finalizer issues its tokens itself, their lifetime is its
`ttl`. For a JWK only the key's own certificate counts (`key.Certificates[0]`), whatever else the chain contains. -/
def remaining (m : Mech) (cfg : Option Int) (now : Int) (a : Answer) : Option Int :=
  match m with
  | .jwtFinalizer => some (tokenLifetime cfg)
  | .remoteAuthz | .contextualizer => none
  | _ => a.exp.map (· - now)

def mechPolicy (m : Mech) (cfg : Option Int) (vl : Nat) : Policy Answer where
  lookup := lookupEnabled m cfg
  accept := fun now a => acceptsFresh m vl (remaining m cfg now a) && chainValid m (a.more.map (· - now))
  ttl := fun now a => cacheTTL m cfg (remaining m cfg now a)

/-- the HTTP response cache in front of a remote endpoint -/
def httpPolicy (dttl : Int) : Policy Exchange where
  lookup := true
  accept := fun _ _ => true
  ttl := httpTTL dttl

end Heimdall.Validity
