import HeimdallModel.Model.Config
/-!
# Model of the typed decoding of one configuration leaf (property C20)

`configloader.go` hands the merged tree to mapstructure with `WeaklyTypedInput: true` and the decode hooks of
`NewConfiguration`. What arrives at a leaf is a YAML scalar: the file parser and `env.go toRealType` both let
`gopkg.in/yaml.v3` decide the type of a scalar, so the text `123456` of an environment variable is an integer and
`true` a boolean, whatever the type of the property is. `decode` says what mapstructure makes of such a scalar for a
leaf of a given type (bug-compatible: a boolean becomes the string `"1"`/`"0"`, an integer its canonical decimal text).
The YAML reading itself is a parameter (taken from the real library by the harness, op `yaml`).
-/
namespace Heimdall.Config

/-- a YAML scalar as the loader sees it; a float carries the text `strconv.FormatFloat(f, 'f', -1, 64)` gives it;
    `null` is Go's nil; `coll` stands for a list or a map; `time` is a timestamp (`2001-12-14`: Go's `time.Time`) -/
inductive Scalar where
  | str (s : List Char)
  | int (n : Int)
  | bool (b : Bool)
  | float (shown : List Char)
  | null
  | coll
  | time
deriving Repr, DecidableEq

/-- the type of a leaf of the configuration struct; `text` are the leaves a decode hook parses from a string
    (durations, byte sizes, log level, TLS versions); `any` is a member of a free-form map (the `config` of a
    mechanism, `cache.config`, a provider) -/
inductive LeafType where
  | string
  | int
  | bool
  | text
  | any
deriving Repr, DecidableEq

/-- what the decoder leaves at the leaf; `zero`: the decoder does not touch the target (mapstructure returns at once
    for a nil input), which keeps what it held before – the default of the property, the zero value if it has none;
    `raw`: an untyped leaf holds the scalar as YAML read it -/
inductive Leaf where
  | str (s : List Char)
  | int (n : Int)
  | bool (b : Bool)
  | text (s : List Char)
  | zero
  | fail
  | unsupported
  | raw (y : Scalar)
deriving Repr, DecidableEq

/-- `strconv.Itoa` -/
def showInt : Int → List Char
  | .ofNat k => natDigits k
  | .negSucc k => '-' :: natDigits (k + 1)

/-- a canonical decimal numeral (what `showInt` writes) read back; other numerals (`007`, `0x1f`, `+5`) are not
    modelled -/
def parseCanon? (s : List Char) : Option Int :=
  match s with
  | '-' :: r => (parseNat? r).bind fun k => if natDigits k = r ∧ k ≠ 0 then some (-(k : Int)) else none
  | r => (parseNat? r).bind fun k => if natDigits k = r then some (k : Int) else none

/-- `strconv.ParseBool` -/
def parseBool? (s : List Char) : Option Bool :=
  if s = c!"1" ∨ s = c!"t" ∨ s = c!"T" ∨ s = c!"TRUE" ∨ s = c!"true" ∨ s = c!"True" then some true
  else if s = c!"0" ∨ s = c!"f" ∨ s = c!"F" ∨ s = c!"FALSE" ∨ s = c!"false" ∨ s = c!"False" then some false
  else none

def numeralLike (s : List Char) : Bool :=
  match s with
  | c :: _ => (digitVal c).isSome || c == '-' || c == '+' || c == '.'
  | [] => true

/-- mapstructure's weakly typed decoding of a scalar into a leaf of the given type; `null` is Go's nil (the empty
    variable, `null`, `~`), `coll` a text YAML reads as a list or a map (`[]`, `{}`), `time` a timestamp (no typed leaf
    of the configuration takes a `time.Time`: the decoder fails; a free-form map keeps it) -/
def decode : LeafType → Scalar → Leaf
  | .any, .coll => .unsupported
  | .any, y => .raw y
  | .string, .coll => .fail
  | .int, .coll => .fail
  | .bool, .coll => .fail
  | .text, .coll => .fail
  | .string, .time => .fail
  | .int, .time => .fail
  | .bool, .time => .fail
  | .text, .time => .fail
  | .string, .str s => .str s
  | .string, .int n => .str (showInt n)
  | .string, .bool b => .str (if b then c!"1" else c!"0")
  | .string, .float r => .str r
  | .string, .null => .zero
  | .int, .int n => .int n
  | .int, .bool b => .int (if b then 1 else 0)
  | .int, .str s =>
    match parseCanon? s with
    | some n => .int n
    | none => if s = [] then .int 0 else if numeralLike s then .unsupported else .fail
  | .int, .float _ => .unsupported
  | .int, .null => .zero
  | .bool, .bool b => .bool b
  | .bool, .int n => .bool (n != 0)
  | .bool, .str s =>
    match parseBool? s with
    | some b => .bool b
    | none => if s = [] then .bool false else .fail
  | .bool, .float _ => .unsupported
  | .bool, .null => .zero
  | .text, .str s => .text s
  | .text, .null => .zero
  | .text, _ => .unsupported

/-- the leaf after decoding when the target held `dflt` before -/
def decodeOver (t : LeafType) (dflt : Leaf) (y : Scalar) : Leaf :=
  match decode t y with
  | .zero => dflt
  | l => l

end Heimdall.Config
