import HeimdallModel.Model.MechTypes
/-!
# Templates of mechanisms are values: what an object renders depends on its own template text only (C17)

What the code does (`internal/rules/mechanisms/template`): `template.New(text)` parses `text` into a `text/template` set
of its own.  Whatever the text declares with `{{ define "x" }}…{{ end }}` / `{{ block "x" . }}…{{ end }}` lives in that
set and nowhere else; `{{ template "x" . }}` looks `x` up in the set of the template being rendered.  So a template is a
*value* — its source text — and `Render` is a function of (own source, inputs).

The model has two layers.

* **Templates** (`Tpl`): the fragment of `text/template` that can carry state from one template to another — named
  templates.  A source is a list of pieces (literal text, a field of the data such as `.Subject.ID`, `template "x"`,
  top-level `define`, `block`); `renderOwn` renders it with the table of its own definitions; `parse` reads the fragment
  off the text (anything else — pipelines, functions, `if` / `range` / `with`, variables, comments, trim markers — is not
  in the fragment: `none`, no expectation is derived).  `runOwn` is a process in which templates are created and rendered
  in any order, each with its own table (the code); `runShared` is the same process with ONE table of named templates
  into which every creation parses its definitions, the definition parsed last winning (what deriving all templates
  from one shared base template does).
* **Mechanisms** (`HEv`, `runHist`): histories of creations on one factory *and executions* of the objects handed out
  so far.  What an execution renders is `ρ (effective configuration of the object) inputs` for an arbitrary function `ρ`
  — the template texts are entries of the configuration.  `Props/C17.lean` proves that every execution of the k-th
  object, wherever it stands in the history, renders what the object renders when its request is the only one the
  factory ever sees.
-/
namespace Heimdall.Mech.Tpl

/-- the data a template is rendered with, by field path (`"Subject.ID"`, `"Request.Method"`) -/
abbrev Inputs := String → String

/-- what may stand inside a named template or at the top level -/
inductive Atom where
  | lit (s : String)
  | field (path : String)        -- `{{ .Subject.ID }}`
  | use (name : String)          -- `{{ template "name" . }}`
deriving Repr, DecidableEq

inductive Piece where
  | atom (a : Atom)
  | define (name : String) (body : List Atom)   -- `{{ define "name" }}body{{ end }}`: declares, renders nothing
  | block (name : String) (body : List Atom)    -- `{{ block "name" . }}body{{ end }}`: declares and uses
deriving Repr, DecidableEq

/-- a template source (parsed) -/
abbrev Src := List Piece

/-- named templates: name ↦ body; the first entry of a name counts -/
abbrev Table := List (String × List Atom)

def defsOf (src : Src) : Table :=
  src.filterMap fun
    | .define n b => some (n, b)
    | .block n b => some (n, b)
    | .atom _ => none

/-- the body of the template itself -/
def mainOf (src : Src) : List Atom :=
  src.filterMap fun
    | .atom a => some a
    | .block n _ => some (.use n)
    | .define _ _ => none

def lookup (t : Table) (n : String) : Option (List Atom) := (t.find? fun e => e.1 == n).map (·.2)

/-- a definition is entered into a table: it replaces an earlier one of the same name (last definition wins) -/
def enter (t : Table) (d : String × List Atom) : Table :=
  if t.any (fun e => e.1 == d.1) then t.map (fun e => if e.1 == d.1 then d else e) else t ++ [d]

/-- `text/template` refuses a text that defines a name twice -/
def wellFormed (src : Src) : Bool :=
  let names := (defsOf src).map (·.1)
  names.length == (dedup names).length

/-- rendering with a table of named templates; the output as a list of chunks.  `none`: a name that is not in the
table (execution error "no such template"), or the nesting does not end (`fuel`: text/template gives up at depth
100000) -/
def renderAtoms (t : Table) (inp : Inputs) : Nat → List Atom → Option (List String)
  | 0, _ => none
  | _ + 1, [] => some []
  | f + 1, .lit s :: r => (renderAtoms t inp f r).map (s :: ·)
  | f + 1, .field p :: r => (renderAtoms t inp f r).map (inp p :: ·)
  | f + 1, .use n :: r =>
    match lookup t n with
    | none => none
    | some body =>
      match renderAtoms t inp f body, renderAtoms t inp f r with
      | some a, some b => some (a ++ b)
      | _, _ => none

def fuel : Nat := 400

/-- **what a template renders: a function of its own source and the inputs** -/
def renderOwn (src : Src) (inp : Inputs) : Option (List String) := renderAtoms (defsOf src) inp fuel (mainOf src)

/-! ## A process that creates and renders templates -/

inductive TEv where
  | new (src : Src)                      -- `template.New(text)`
  | render (k : Nat) (inp : Inputs)      -- `Render` of the k-th template created so far

def newsOf : List TEv → List Src
  | [] => []
  | .new s :: r => s :: newsOf r
  | .render _ _ :: r => newsOf r

def rendersOf : List TEv → List (Nat × Inputs)
  | [] => []
  | .new _ :: r => rendersOf r
  | .render k i :: r => (k, i) :: rendersOf r

/-- the code: every template has its own set of named templates; the outputs of the `render` events in order -/
def runOwn : List Src → List TEv → List (Option (List String))
  | _, [] => []
  | objs, .new s :: r => runOwn (objs ++ [s]) r
  | objs, .render k inp :: r => ((objs[k]?).bind fun s => renderOwn s inp) :: runOwn objs r

/-- NOT the code: one name space of named templates per process.  Every creation enters its definitions into the
shared table (the one parsed last wins), a rendering looks names up there -/
def runShared : Table → List Src → List TEv → List (Option (List String))
  | _, _, [] => []
  | t, objs, .new s :: r => runShared ((defsOf s).foldl enter t) (objs ++ [s]) r
  | t, objs, .render k inp :: r =>
    ((objs[k]?).bind fun s => renderAtoms t inp fuel (mainOf s)) :: runShared t objs r

/-! ## Reading the fragment off a template text -/

inductive Tok where
  | text (s : List Char)
  | act (s : List Char)
deriving Repr, DecidableEq

/-- split at `{{` / `}}`; `inAct`: inside an action; `acc`: characters of the current token, reversed.
`none`: an action that is not closed -/
def lex : Bool → List Char → List Char → Option (List Tok)
  | false, [], acc => some (if acc.isEmpty then [] else [.text acc.reverse])
  | true, [], _ => none
  | false, '{' :: '{' :: r, acc => (lex true r []).map fun ts => (if acc.isEmpty then ts else .text acc.reverse :: ts)
  | true, '}' :: '}' :: r, acc => (lex false r []).map fun ts => .act acc.reverse :: ts
  | b, c :: r, acc => lex b r (c :: acc)

def isBlank (c : Char) : Bool := c == ' ' || c == '\t' || c == '\n' || c == '\r'

/-- words of an action -/
def words : List Char → List Char → List (List Char)
  | [], acc => if acc.isEmpty then [] else [acc.reverse]
  | c :: r, acc =>
    if isBlank c then (if acc.isEmpty then words r [] else acc.reverse :: words r [])
    else words r (c :: acc)

/-- `"name"` → `name` (no escapes, no further quotes) -/
def quoted (w : List Char) : Option String :=
  match w with
  | '"' :: r =>
    match r.reverse with
    | '"' :: m => if m.all (fun c => c != '"' && c != '\\') && !m.isEmpty then some (String.ofList m.reverse) else none
    | _ => none
  | _ => none

def isFieldChar (c : Char) : Bool := c.isAlphanum || c == '.' || c == '_'

/-- `.Subject.ID` → `Subject.ID` -/
def fieldPath (w : List Char) : Option String :=
  match w with
  | '.' :: r => if !r.isEmpty && r.all isFieldChar && r.head? != some '.' && r.getLast? != some '.'
                then some (String.ofList r) else none
  | _ => none

inductive Act where
  | atom (a : Atom)
  | define (n : String)
  | block (n : String)
  | close
deriving Repr, DecidableEq

def classify (a : List Char) : Option Act :=
  match words a [] with
  | [w] => if w == "end".toList then some .close else (fieldPath w).map fun p => .atom (.field p)
  | [k, n] =>
    if k == "template".toList then (quoted n).map fun s => .atom (.use s)
    else if k == "define".toList then (quoted n).map .define
    else none
  | [k, n, d] =>
    if d != ".".toList then none
    else if k == "template".toList then (quoted n).map fun s => .atom (.use s)
    else if k == "block".toList then (quoted n).map .block
    else none
  | _ => none

/-- `cur`: the `define` (`false`) / `block` (`true`) that is open, its name and its body so far -/
def build : List Tok → Option (Bool × String × List Atom) → Src → Option Src
  | [], none, acc => some acc
  | [], some _, _ => none
  | .text s :: r, none, acc => build r none (acc ++ [.atom (.lit (String.ofList s))])
  | .text s :: r, some (b, n, body), acc => build r (some (b, n, body ++ [.lit (String.ofList s)])) acc
  | .act a :: r, cur, acc =>
    match classify a, cur with
    | some (.atom x), none => build r none (acc ++ [.atom x])
    | some (.atom x), some (b, n, body) => build r (some (b, n, body ++ [x])) acc
    | some (.define n), none => build r (some (false, n, [])) acc
    | some (.block n), none => build r (some (true, n, [])) acc
    | some .close, some (b, n, body) => build r none (acc ++ [if b then .block n body else .define n body])
    | _, _ => none

/-- a template text of the fragment, or `none` -/
def parse (text : String) : Option Src :=
  match (lex false text.toList []).bind fun ts => build ts none [] with
  | some src => if wellFormed src then some src else none
  | none => none

/-- does the source use the named-template machinery at all -/
def usesNames (src : Src) : Bool :=
  src.any fun
    | .atom (.use _) => true
    | .atom _ => false
    | _ => true

def atomFields : List Atom → List String
  | [] => []
  | .field p :: r => p :: atomFields r
  | _ :: r => atomFields r

def fieldsOf (src : Src) : List String :=
  src.flatMap fun
    | .atom (.field p) => [p]
    | .atom _ => []
    | .define _ b => atomFields b
    | .block _ b => atomFields b

end Heimdall.Mech.Tpl

namespace Heimdall.Mech

/-! ## Histories of creations and executions on one factory -/

/-- an event of a factory's life: a `Create…` call, or the execution — with inputs `inp` — of the object handed out
by the k-th `Create…` call so far -/
inductive HEv (Inp : Type) where
  | create (r : CreateReq)
  | exec (k : Nat) (inp : Inp)

variable {Inp Out : Type}

def reqsOf : List (HEv Inp) → List CreateReq
  | [] => []
  | .create r :: rest => r :: reqsOf rest
  | .exec _ _ :: rest => reqsOf rest

def execsOf : List (HEv Inp) → List (Nat × Inp)
  | [] => []
  | .create _ :: rest => execsOf rest
  | .exec k i :: rest => (k, i) :: execsOf rest

/-- what the execution of the k-th object handed out renders: `ρ` of the configuration the object stands for NOW and
of the inputs (`none`: the k-th call handed out nothing) -/
def execOut (ρ : Entries → Inp → Out) (σ : Store Entries Override) (hs : List Handed) (k : Nat) (inp : Inp) :
    Option Out :=
  match hs[k]? with
  | some (.proto h) => some (ρ (effective σ h) inp)
  | some (.variant h) => some (ρ (effective σ h) inp)
  | _ => none

/-- a history run on the store: the records `(k, inputs, rendered)` of its executions, in order.  `hs`: what the
creations so far have handed out -/
def runHist (ρ : Entries → Inp → Out) :
    Store Entries Override → List Handed → List (HEv Inp) → List (Nat × Inp × Option Out)
  | _, _, [] => []
  | σ, hs, .exec k inp :: rest => (k, inp, execOut ρ σ hs k inp) :: runHist ρ σ hs rest
  | σ, hs, .create r :: rest =>
    match create σ r.1 r.2 with
    | .notFound => runHist ρ σ (hs ++ [.notFound]) rest
    | .configError => runHist ρ σ (hs ++ [.configError]) rest
    | .proto h => runHist ρ σ (hs ++ [.proto h]) rest
    | .variant σ' h => runHist ρ σ' (hs ++ [.variant h]) rest

/-- what the object of a request renders when the request is the only one the factory ever sees -/
def aloneOut (ρ : Entries → Inp → Out) (σ₀ : Store Entries Override) (r : CreateReq) (inp : Inp) : Option Out :=
  match createAlone σ₀ r with
  | .shows _ eff => some (ρ eff inp)
  | _ => none

end Heimdall.Mech
