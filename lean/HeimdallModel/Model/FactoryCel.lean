import HeimdallModel.Model.Factory
/-!
# The static result type of a CEL expression (C14)

`cellib.CompileExpression` — the helper behind the `if` of `execute` / `on_error` steps and behind the `expressions`
of the cel and remote authorizers — parses an expression, type-checks it in heimdall's CEL environment
(`cellib.Library()`) and refuses it unless the checker's result type is exactly `bool`.  What `Model/Factory.lean`
needs of an expression is that static type (`Cond.expr t`); this file says where it comes from:

* `Cel`        — a fragment of CEL as a tree: literals, one-element list / map literals, variables, field selection,
                 indexing, `==` `!=` `&&` `||` `!` `?:`, member calls and global calls, and `garbage` for text the
                 parser refuses.
* `Cel.check`  — the type checker on that fragment in heimdall's environment: `Subject`, `Payload`, `Request` are
                 `dyn`, `Outputs` is `map(string, dyn)`, anything else is undeclared; selection and indexing keep
                 `dyn` `dyn`; comparison needs unifiable operand types (`dyn` unifies with everything) and gives
                 `bool`; the logical operators take `bool` or `dyn` operands and give `bool`; the functions are the
                 ones the environment declares (`Header`, `Cookie`, `Body`, `Query`, `String`, `startsWith`, `size`,
                 `dyn`, …).  `none` = the expression does not compile.
* `Cel.cond`   — the `Cond` of a step whose `if` is (a text spelling) that expression.

Tied to cel-go by the correspondence check: the `cel` operation of the `factory` family compares `Cel.check` with the
type the real checker reports for every expression the generator can produce, and every load verdict depends on it.
Core Lean only.
-/
namespace Heimdall.Factory

/-- a fragment of CEL -/
inductive Cel
  | bool (b : Bool)
  | int (n : Nat)
  | str (s : String)
  /-- `[e]` -/
  | list1 (e : Cel)
  /-- `{"k": e}` -/
  | map1 (k : String) (e : Cel)
  | var (name : String)
  /-- `e.field` -/
  | sel (e : Cel) (field : String)
  /-- `e[i]` -/
  | idx (e i : Cel)
  | eq (a b : Cel)
  | ne (a b : Cel)
  | and (a b : Cel)
  | or (a b : Cel)
  | not (a : Cel)
  /-- `c ? a : b` -/
  | ite (c a b : Cel)
  /-- `recv.fn()` -/
  | call0 (recv : Cel) (fn : String)
  /-- `recv.fn(arg)` -/
  | call1 (recv : Cel) (fn : String) (arg : Cel)
  /-- `fn(arg)` -/
  | fn1 (fn : String) (arg : Cel)
  /-- text the parser refuses -/
  | garbage
  deriving DecidableEq, Repr, Inhabited

/-- the two types unify (`dyn` stands for any type) -/
def CelTy.compat : CelTy → CelTy → Bool
  | .dyn, _ => true
  | _, .dyn => true
  | .bool, .bool => true
  | .int, .int => true
  | .str, .str => true
  | .list a, .list b => a.compat b
  | .map a, .map b => a.compat b
  | _, _ => false

/-- the variables `cellib.Library()` declares (`Error` of the error handler conditions is left out) -/
def declared : String → Option CelTy
  | "Subject" => some .dyn
  | "Payload" => some .dyn
  | "Request" => some .dyn
  | "Outputs" => some (.map .dyn)
  | _ => none

/-- what `size` accepts -/
def sized : CelTy → Bool
  | .dyn => true
  | .str => true
  | .list _ => true
  | .map _ => true
  | _ => false

/-- member functions without argument: the receiver types of heimdall's `Request` / `URL` objects are only ever
reached through the `dyn` variable `Request` -/
def member0 (recv : CelTy) (fn : String) : Option CelTy :=
  match fn with
  | "Body" => if recv = .dyn then some .dyn else none
  | "Query" => if recv = .dyn then some (.map (.list .str)) else none
  | "String" => if recv = .dyn then some .str else none
  | "Hostname" => if recv = .dyn then some .str else none
  | "Port" => if recv = .dyn then some .str else none
  | "size" => if sized recv then some .int else none
  | _ => none

/-- member functions with one argument -/
def member1 (recv : CelTy) (fn : String) (arg : CelTy) : Option CelTy :=
  match fn with
  | "Header" => if recv = .dyn && arg.compat .str then some .str else none
  | "Cookie" => if recv = .dyn && arg.compat .str then some .str else none
  | "startsWith" => if recv.compat .str && arg.compat .str then some .bool else none
  | "endsWith" => if recv.compat .str && arg.compat .str then some .bool else none
  | "contains" => if recv.compat .str && arg.compat .str then some .bool else none
  | _ => none

/-- global functions with one argument -/
def global1 (fn : String) (arg : CelTy) : Option CelTy :=
  match fn with
  | "dyn" => some .dyn
  | "size" => if sized arg then some .int else none
  | _ => none

/-- **the type checker**: `none` — the expression does not parse or does not check -/
def Cel.check : Cel → Option CelTy
  | .bool _ => some .bool
  | .int _ => some .int
  | .str _ => some .str
  | .list1 e => e.check.map .list
  | .map1 _ e => e.check.map .map
  | .var n => declared n
  | .sel e _ =>
    match e.check with
    | some .dyn => some .dyn
    | some (.map v) => some v
    | _ => none
  | .idx e i =>
    match e.check, i.check with
    | some .dyn, some _ => some .dyn
    | some (.list t), some ti => if ti.compat .int then some t else none
    | some (.map v), some ti => if ti.compat .str then some v else none
    | _, _ => none
  | .eq a b =>
    match a.check, b.check with
    | some ta, some tb => if ta.compat tb then some .bool else none
    | _, _ => none
  | .ne a b =>
    match a.check, b.check with
    | some ta, some tb => if ta.compat tb then some .bool else none
    | _, _ => none
  | .and a b =>
    match a.check, b.check with
    | some ta, some tb => if ta.compat .bool && tb.compat .bool then some .bool else none
    | _, _ => none
  | .or a b =>
    match a.check, b.check with
    | some ta, some tb => if ta.compat .bool && tb.compat .bool then some .bool else none
    | _, _ => none
  | .not a =>
    match a.check with
    | some ta => if ta.compat .bool then some .bool else none
    | none => none
  | .ite c a b =>
    match c.check, a.check, b.check with
    | some tc, some ta, some tb =>
      if !tc.compat .bool then none
      else if ta = tb then some ta
      else if ta = .dyn || tb = .dyn then some .dyn
      else none
    | _, _, _ => none
  | .call0 r fn => r.check.bind fun tr => member0 tr fn
  | .call1 r fn a =>
    match r.check, a.check with
    | some tr, some ta => member1 tr fn ta
    | _, _ => none
  | .fn1 fn a => a.check.bind fun ta => global1 fn ta
  | .garbage => none

/-- the `if` of a step that holds the text `src` spelling this expression -/
def Cel.cond (e : Cel) (src : String := "") : Cond := .expr src e.check

/-- the expression reads the request header `name` (`Request.Header("name")` occurs in it).  CEL evaluation is not
modelled; what the probe semantics (`Model/FactoryProbe.lean`) needs to know of an expression a cel authorizer
verifies is whether it looks at the header by which a probe request asks to be refused. -/
def Cel.readsHeader (name : String) : Cel → Bool
  | .call1 (.var "Request") "Header" (.str s) => s == name
  | .call1 r _ a => r.readsHeader name || a.readsHeader name
  | .list1 e => e.readsHeader name
  | .map1 _ e => e.readsHeader name
  | .sel e _ => e.readsHeader name
  | .idx e i => e.readsHeader name || i.readsHeader name
  | .eq a b => a.readsHeader name || b.readsHeader name
  | .ne a b => a.readsHeader name || b.readsHeader name
  | .and a b => a.readsHeader name || b.readsHeader name
  | .or a b => a.readsHeader name || b.readsHeader name
  | .not a => a.readsHeader name
  | .ite c a b => c.readsHeader name || a.readsHeader name || b.readsHeader name
  | .call0 r _ => r.readsHeader name
  | .fn1 _ a => a.readsHeader name
  | _ => false

/-- how cel-go prints the type -/
def CelTy.name : CelTy → String
  | .bool => "bool"
  | .int => "int"
  | .str => "string"
  | .dyn => "dyn"
  | .list e => "list(" ++ e.name ++ ")"
  | .map v => "map(string, " ++ v.name ++ ")"

end Heimdall.Factory
