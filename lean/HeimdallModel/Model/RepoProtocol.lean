import HeimdallModel.Model.Conc
/-!
# From the extracted event lists of `repository_impl.go` to the protocol the machine of `Model/Conc.lean` runs

`Gen/RepoProtocol.lean` is regenerated from the current source on every run (`/verif/extract/proto`): per method the
ordered lock / unlock / deferred unlock / shared-field read / write / clone / receiver-call / return events.
`abstract` maps the raw events to the alphabet of the machine, `canon` removes what is not observable for the
protocol (reads made while `knownRulesMutex` is held, repeated compute-or-fail blocks, repeated writes of the known
rules).  The obligations (`Props/C07.lean`): the canonical event list of every writer method equals
`writerProtocol`, that of `FindRule` equals `readerProtocol`, and these are exactly the labels of the machine's
transitions (`writerEdges`, `readerEdges`).
-/
namespace Heimdall.Conc

inductive AEv where
  | lockK | deferUnlockK | readKnown | cloneIndex | compute | returnErr | writeKnown
  | lockT | writeIndex | unlockT | returnOk | unlockK
  | rlockT | deferRUnlockT | search | runlockT
  | other (s : String)
deriving DecidableEq, Repr

/-- `pre` is a prefix / `suf` a suffix of `s` (on character lists, so that `decide` can evaluate it) -/
def hasPrefix (pre s : String) : Bool := pre.toList.isPrefixOf s.toList
def hasSuffix (suf s : String) : Bool := suf.toList.reverse.isPrefixOf s.toList.reverse

/-- The extractor prints shared fields by role (`$K` the `sync.Mutex`, `$T` the `sync.RWMutex`, `$index` the tree,
    `$known` the slice of known rules, `$default` the default rule) and the local holding the result of
    `$index.Clone()` as `$clone`, whatever they are called in the source; helper methods touching shared state are
    inlined.  A call of a receiver method on the clone is the computation on the private copy, whatever its name. -/
def abstractEv (s : String) : Option AEv :=
  if s = "lock $K" then some .lockK
  else if s = "defer unlock $K" then some .deferUnlockK
  else if s = "read $known" then some .readKnown
  else if s = "read $index" then none                    -- always followed by the call that uses it
  else if s = "call $index.Clone" then some .cloneIndex
  else if s = "bind $clone $index.Clone" then none
  else if hasPrefix "call " s ∧ hasSuffix " $clone" s ∧ ¬ hasPrefix "call $" s then some .compute
  else if s = "if {" ∨ s = "}" then none
  else if s = "return var" then some .returnErr
  else if hasPrefix "write $known " s then some .writeKnown
  else if s = "lock $T" then some .lockT
  else if s = "write $index $clone" then some .writeIndex
  else if s = "unlock $T" then some .unlockT
  else if s = "return nil" ∨ s = "return value" then some .returnOk
  else if s = "rlock $T" then some .rlockT
  else if s = "defer runlock $T" then some .deferRUnlockT
  else if s = "call $index.Find" then some .search
  else if (hasPrefix "bind " s ∧ hasSuffix " $index.Find" s) ∨ s = "read $default" then none
  else some (.other s)

def abstract (evs : List String) : List AEv := evs.filterMap abstractEv

/-- drop reads of the known rules made while `knownRulesMutex` is held -/
def stripProtected : Bool → List AEv → List AEv
  | _, [] => []
  | held, .lockK :: rest => .lockK :: stripProtected true rest
  | held, .readKnown :: rest => if held then stripProtected held rest else .readKnown :: stripProtected held rest
  | held, e :: rest => e :: stripProtected held rest

/-- collapse repeated `compute; returnErr` blocks, repeated writes of the known rules and repeated returns -/
def collapse : List AEv → List AEv
  | .compute :: .returnErr :: .compute :: .returnErr :: rest => collapse (.compute :: .returnErr :: rest)
  | .writeKnown :: .writeKnown :: rest => collapse (.writeKnown :: rest)
  | .returnOk :: .returnOk :: rest => collapse (.returnOk :: rest)
  | e :: rest => e :: collapse rest
  | [] => []

def canon (evs : List String) : List AEv := collapse (stripProtected false (abstract evs))

def lookupMethod (p : List (String × List String)) (m : String) : List String :=
  ((p.find? (·.1 = m)).map (·.2)).getD ["<missing method>"]

/-- what every writer method has to look like -/
def writerProtocol : List AEv :=
  [.lockK, .deferUnlockK, .cloneIndex, .compute, .returnErr, .writeKnown, .lockT, .writeIndex, .unlockT, .returnOk]

/-- what the lookup has to look like -/
def readerProtocol : List AEv := [.rlockT, .deferRUnlockT, .search, .returnOk]

/-- the transitions of a writer thread of the machine with the event each performs -/
def writerEdges : List (WPc × AEv × WPc) :=
  [(.idle, .lockK, .locked), (.locked, .readKnown, .readK), (.readK, .cloneIndex, .cloned),
   (.cloned, .compute, .computed), (.cloned, .returnErr, .failed), (.failed, .unlockK, .doneFail),
   (.computed, .writeKnown, .knownWritten), (.knownWritten, .lockT, .rwHeld), (.rwHeld, .writeIndex, .indexWritten),
   (.indexWritten, .unlockT, .rwReleased), (.rwReleased, .unlockK, .doneOk)]

def readerEdges : List (RPc × AEv × RPc) :=
  [(.idle, .rlockT, .rHeld), (.rHeld, .search, .searched), (.searched, .runlockT, .done)]

/-- the source-level protocol the edges stand for: the deferred unlock is registered after the lock and runs at
    either exit (`unlockK` edges), protected reads are not listed -/
def edgesAsProtocol : List AEv :=
  let evs : List AEv := writerEdges.map (·.2.1)
  let evs : List AEv := evs.filter (fun e => e ≠ AEv.readKnown ∧ e ≠ AEv.unlockK)
  match evs with
  | AEv.lockK :: rest => AEv.lockK :: AEv.deferUnlockK :: rest ++ [AEv.returnOk]
  | l => l

def readerEdgesAsProtocol : List AEv :=
  match (readerEdges.map (·.2.1) : List AEv) with
  | [AEv.rlockT, AEv.search, AEv.runlockT] => [AEv.rlockT, AEv.deferRUnlockT, AEv.search, AEv.returnOk]
  | l => l

end Heimdall.Conc
