import HeimdallModel.Model.Conc
/-!
# From the extracted event lists of `repository_impl.go` to the protocol the machine of `Model/Conc.lean` runs

`Gen/RepoProtocol.lean` is regenerated from the current source on every run (`/verif/extract/proto`): per method the
ordered lock / unlock / deferred unlock / shared-field read / write / clone / receiver-call / return events.
`abstract` maps the raw events to the alphabet of the machine, `canon` removes what is not observable for the
protocol (reads made while `knownRulesMutex` is held, repeated compute-or-fail blocks, repeated writes of the known
rules).  The obligations (`Props/C07.lean`): the canonical event list of every writer method equals
`writerProtocol`, that of `FindRule` equals `readerProtocol`, and these are exactly the labels of the machine's
transitions (`writerEdges`, `readerEdges`).
-/
namespace Heimdall.Conc

inductive AEv where
  | lockK | deferUnlockK | readKnown | cloneIndex | compute | returnErr | writeKnown
  | lockT | writeIndex | unlockT | returnOk | unlockK
  | rlockT | deferRUnlockT | search | runlockT
  | other (s : String)
deriving DecidableEq, Repr

def abstractEv (s : String) : Option AEv :=
  if s = "lock knownRulesMutex" then some .lockK
  else if s = "defer unlock knownRulesMutex" then some .deferUnlockK
  else if s = "read knownRules" then some .readKnown
  else if s = "read index" then none                    -- always followed by the call that uses it
  else if s = "call index.Clone" then some .cloneIndex
  else if s = "bind tmp index.Clone" then none
  else if s = "call addRulesTo tmp" ∨ s = "call removeRulesFrom tmp" then some .compute
  else if s = "if {" ∨ s = "}" then none
  else if s = "return err" then some .returnErr
  else if s = "write knownRules append(..)" ∨ s = "write knownRules slices.DeleteFunc(..)" then some .writeKnown
  else if s = "lock rulesTreeMutex" then some .lockT
  else if s = "write index tmp" then some .writeIndex
  else if s = "unlock rulesTreeMutex" then some .unlockT
  else if s = "return nil" ∨ s = "return value" then some .returnOk
  else if s = "rlock rulesTreeMutex" then some .rlockT
  else if s = "defer runlock rulesTreeMutex" then some .deferRUnlockT
  else if s = "call index.Find" then some .search
  else if s = "bind entry index.Find" ∨ s = "bind err index.Find" ∨ s = "read dr" then none
  else some (.other s)

def abstract (evs : List String) : List AEv := evs.filterMap abstractEv

/-- drop reads of the known rules made while `knownRulesMutex` is held -/
def stripProtected : Bool → List AEv → List AEv
  | _, [] => []
  | held, .lockK :: rest => .lockK :: stripProtected true rest
  | held, .readKnown :: rest => if held then stripProtected held rest else .readKnown :: stripProtected held rest
  | held, e :: rest => e :: stripProtected held rest

/-- collapse repeated `compute; returnErr` blocks, repeated writes of the known rules and repeated returns -/
def collapse : List AEv → List AEv
  | .compute :: .returnErr :: .compute :: .returnErr :: rest => collapse (.compute :: .returnErr :: rest)
  | .writeKnown :: .writeKnown :: rest => collapse (.writeKnown :: rest)
  | .returnOk :: .returnOk :: rest => collapse (.returnOk :: rest)
  | e :: rest => e :: collapse rest
  | [] => []

def canon (evs : List String) : List AEv := collapse (stripProtected false (abstract evs))

def lookupMethod (p : List (String × List String)) (m : String) : List String :=
  ((p.find? (·.1 = m)).map (·.2)).getD ["<missing method>"]

/-- what every writer method has to look like -/
def writerProtocol : List AEv :=
  [.lockK, .deferUnlockK, .cloneIndex, .compute, .returnErr, .writeKnown, .lockT, .writeIndex, .unlockT, .returnOk]

/-- what the lookup has to look like -/
def readerProtocol : List AEv := [.rlockT, .deferRUnlockT, .search, .returnOk]

/-- the transitions of a writer thread of the machine with the event each performs -/
def writerEdges : List (WPc × AEv × WPc) :=
  [(.idle, .lockK, .locked), (.locked, .readKnown, .readK), (.readK, .cloneIndex, .cloned),
   (.cloned, .compute, .computed), (.cloned, .returnErr, .failed), (.failed, .unlockK, .doneFail),
   (.computed, .writeKnown, .knownWritten), (.knownWritten, .lockT, .rwHeld), (.rwHeld, .writeIndex, .indexWritten),
   (.indexWritten, .unlockT, .rwReleased), (.rwReleased, .unlockK, .doneOk)]

def readerEdges : List (RPc × AEv × RPc) :=
  [(.idle, .rlockT, .rHeld), (.rHeld, .search, .searched), (.searched, .runlockT, .done)]

/-- the source-level protocol the edges stand for: the deferred unlock is registered after the lock and runs at
    either exit (`unlockK` edges), protected reads are not listed -/
def edgesAsProtocol : List AEv :=
  let evs : List AEv := writerEdges.map (·.2.1)
  let evs : List AEv := evs.filter (fun e => e ≠ AEv.readKnown ∧ e ≠ AEv.unlockK)
  match evs with
  | AEv.lockK :: rest => AEv.lockK :: AEv.deferUnlockK :: rest ++ [AEv.returnOk]
  | l => l

def readerEdgesAsProtocol : List AEv :=
  match (readerEdges.map (·.2.1) : List AEv) with
  | [AEv.rlockT, AEv.search, AEv.runlockT] => [AEv.rlockT, AEv.deferRUnlockT, AEv.search, AEv.returnOk]
  | l => l

end Heimdall.Conc
