import HeimdallModel.Model.Conc
/-!
# From the extracted event lists of `repository_impl.go` to the protocol the machine of `Model/Conc.lean` runs

`Gen/RepoProtocol.lean` is regenerated from the current source on every run (`/verif/extract/proto`): per method the
ordered lock / unlock / deferred unlock / shared-field read / write / clone / receiver-call / return events.
`abstract` maps the raw events to the alphabet of the machine, `canon` removes what is not observable for the
protocol (accesses made while the lock protecting the field is held, guards that only return, repeated
compute-or-fail blocks, repeated writes of the known rules) and turns everything else that touches shared state —
on some paths only, outside the locks, through a function the tree is handed to — into `other`.  The obligations (`Props/C07.lean`): the canonical event list of every writer method equals
`writerProtocol`, that of `FindRule` equals `readerProtocol`, and these are exactly the labels of the machine's
transitions (`writerEdges`, `readerEdges`).
-/
namespace Heimdall.Conc

inductive AEv where
  | lockK | deferUnlockK | readKnown | cloneIndex | compute | returnErr | writeKnown
  | lockT | writeIndex | unlockT | returnOk | unlockK
  | rlockT | deferRUnlockT | search | runlockT
  | acquireT                         -- machine only: the blocking half of `Lock()` on `$T` (after the announcement)
  | panic                            -- machine only: the call made at this point panics
  | readIndex | passKnown            -- dropped when made under the lock that protects the field
  | openIf | openBlock | close       -- block structure of the source
  | earlyOk                          -- a conditional `return nil`
  | other (s : String)
deriving DecidableEq, Repr

/-- `pre` is a prefix / `suf` a suffix of `s` (on character lists, so that `decide` can evaluate it) -/
def hasPrefix (pre s : String) : Bool := pre.toList.isPrefixOf s.toList
def hasSuffix (suf s : String) : Bool := suf.toList.reverse.isPrefixOf s.toList.reverse

/-- The extractor prints shared fields by role (`$K` the `sync.Mutex`, `$T` the `sync.RWMutex`, `$index` the tree,
    `$known` the slice of known rules, `$default` the default rule) and the local holding the result of
    `$index.Clone()` as `$clone`, whatever they are called in the source; helper methods touching shared state are
    inlined.  A call of a receiver method on the clone is the computation on the private copy, whatever its name.
    Everything that is not listed here — a method of the tree other than `Clone`/`Find`, the tree handed to a
    function (`pass $index …`), stored in a local (`alias …`), a goroutine, a write of the default rule — is
    `other` and fails the obligations. -/
def abstractEv (s : String) : Option AEv :=
  if s = "lock $K" then some .lockK
  else if s = "defer unlock $K" then some .deferUnlockK
  else if s = "read $known" then some .readKnown
  else if hasPrefix "pass $known " s then some .passKnown
  else if s = "read $index" then some .readIndex
  else if s = "call $index.Clone" then some .cloneIndex
  else if s = "bind $clone $index.Clone" then none
  else if hasPrefix "call " s ∧ hasSuffix " $clone" s ∧ ¬ hasPrefix "call $" s then some .compute
  else if s = "if {" then some .openIf
  else if s = "else {" ∨ s = "loop {" ∨ s = "switch {" ∨ s = "case {" then some .openBlock
  else if s = "}" then some .close
  else if s = "return nonnil" then some .returnErr
  else if hasPrefix "write $known " s then some .writeKnown
  else if s = "lock $T" then some .lockT
  else if s = "write $index $clone" then some .writeIndex
  else if s = "unlock $T" then some .unlockT
  else if s = "return nil" ∨ s = "return" then some .returnOk
  else if s = "rlock $T" then some .rlockT
  else if s = "defer runlock $T" then some .deferRUnlockT
  else if s = "call $index.Find" then some .search
  else if (hasPrefix "bind " s ∧ hasSuffix " $index.Find" s) ∨ s = "read $default" then none
  else some (.other s)

def abstract (evs : List String) : List AEv := evs.filterMap abstractEv

/-- Drop accesses made under the lock that protects the field: the known rules (read, handed to `append`,
    `slices.DeleteFunc`, a filter) while `$K` is held, the pointer to the tree while `$K` or `$T` is held.  `$K` and a
    read-locked `$T` are released by a deferred unlock, i.e. held to the end; a write-locked `$T` until `unlock $T`.
    An access outside stays in the list and fails the obligation. -/
def stripProtected : Bool → Bool → List AEv → List AEv
  | _, _, [] => []
  | _, t, .lockK :: rest => .lockK :: stripProtected true t rest
  | k, _, .rlockT :: rest => .rlockT :: stripProtected k true rest
  | k, _, .lockT :: rest => .lockT :: stripProtected k true rest
  | k, _, .unlockT :: rest => .unlockT :: stripProtected k false rest
  | k, t, .readKnown :: rest => if k then stripProtected k t rest else .readKnown :: stripProtected k t rest
  | k, t, .passKnown :: rest => if k then stripProtected k t rest else .passKnown :: stripProtected k t rest
  | k, t, .readIndex :: rest => if k || t then stripProtected k t rest else .readIndex :: stripProtected k t rest
  | k, t, e :: rest => e :: stripProtected k t rest

def AEv.isExit : AEv → Bool
  | .returnOk | .returnErr | .earlyOk => true
  | _ => false

/-- what a block of the source contributes: nothing if it contains no protocol event; an exit if it only returns
    (`if err != nil { return err }`, a guard returning early, nested guards); anything else — a lock, a write, the
    clone, the computation made only on some paths — is not the protocol -/
def blockEvent (isIf : Bool) (body : List AEv) : List AEv :=
  if body.isEmpty then []
  else if isIf && body.all AEv.isExit then
    (if body.all (· == .returnErr) then [.returnErr] else [.earlyOk])
  else if body.all AEv.isExit then [.other "exit inside a loop, else or case block"]
  else [.other "protocol step inside a conditional block or loop"]

/-- fold the block structure (`fuel` ≥ length of the list); returns the events of the sequence up to its closing
    brace and what follows it -/
def foldBlocks : Nat → List AEv → List AEv × List AEv
  | 0, l => ([.other "fuel"], l)
  | _ + 1, [] => ([], [])
  | _ + 1, .close :: rest => ([], rest)
  | n + 1, .openIf :: rest =>
      let (body, after) := foldBlocks n rest
      let (tail, fin) := foldBlocks n after
      (blockEvent true body ++ tail, fin)
  | n + 1, .openBlock :: rest =>
      let (body, after) := foldBlocks n rest
      let (tail, fin) := foldBlocks n after
      (blockEvent false body ++ tail, fin)
  | n + 1, e :: rest =>
      let (tail, fin) := foldBlocks n rest
      (e :: tail, fin)

def blocks (l : List AEv) : List AEv := (foldBlocks (l.length + 1) l).1

/-- an early `return nil` before anything was cloned or written leaves the repository as it was -/
def dropEarly : List AEv → List AEv
  | [] => []
  | .cloneIndex :: rest => .cloneIndex :: rest
  | .earlyOk :: rest => dropEarly rest
  | e :: rest => e :: dropEarly rest

/-- collapse repeated `compute; returnErr` blocks, repeated writes of the known rules and repeated returns -/
def collapse : List AEv → List AEv
  | .compute :: .returnErr :: .compute :: .returnErr :: rest => collapse (.compute :: .returnErr :: rest)
  | .writeKnown :: .writeKnown :: rest => collapse (.writeKnown :: rest)
  | .returnOk :: .returnOk :: rest => collapse (.returnOk :: rest)
  | e :: rest => e :: collapse rest
  | [] => []

/-- canonical protocol of a writer method -/
def canon (evs : List String) : List AEv := collapse (dropEarly (blocks (stripProtected false false (abstract evs))))

/-- after the search every way out of the lookup is an exit under the deferred read-unlock -/
def readerExits : List AEv → List AEv
  | [] => []
  | .search :: rest => .search :: (if rest.all AEv.isExit && !rest.isEmpty then [.returnOk] else rest)
  | e :: rest => e :: readerExits rest

/-- canonical protocol of the lookup -/
def canonReader (evs : List String) : List AEv :=
  readerExits (dropEarly (blocks (stripProtected false false (abstract evs))))

def lookupMethod (p : List (String × List String)) (m : String) : List String :=
  ((p.find? (·.1 = m)).map (·.2)).getD ["<missing method>"]

/-- what every writer method has to look like -/
def writerProtocol : List AEv :=
  [.lockK, .deferUnlockK, .cloneIndex, .compute, .returnErr, .writeKnown, .lockT, .writeIndex, .unlockT, .returnOk]

/-- what the lookup has to look like -/
def readerProtocol : List AEv := [.rlockT, .deferRUnlockT, .search, .returnOk]

/-- the transitions of a writer thread of the machine with the event each performs -/
def writerEdges : List (WPc × AEv × WPc) :=
  [(.idle, .lockK, .locked), (.locked, .readKnown, .readK), (.readK, .cloneIndex, .cloned),
   (.cloned, .compute, .computed), (.cloned, .returnErr, .failed), (.failed, .unlockK, .doneFail),
   (.computed, .writeKnown, .knownWritten), (.knownWritten, .lockT, .rwWaiting), (.rwWaiting, .acquireT, .rwHeld),
   (.rwHeld, .writeIndex, .indexWritten), (.indexWritten, .unlockT, .rwReleased), (.rwReleased, .unlockK, .doneOk),
   (.readK, .panic, .crashed), (.cloned, .panic, .crashed)]

def readerEdges : List (RPc × AEv × RPc) :=
  [(.idle, .rlockT, .rHeld), (.rHeld, .search, .searched), (.searched, .runlockT, .done), (.rHeld, .panic, .crashed)]

/-- the source-level protocol the edges stand for: the deferred unlock is registered after the lock and runs at
    either exit (`unlockK` edges), protected reads are not listed; `Lock()` on `$T` is two machine steps (announce,
    acquire); a panic is no event of the source -/
def edgesAsProtocol : List AEv :=
  let evs : List AEv := writerEdges.map (·.2.1)
  let evs : List AEv := evs.filter (fun e => e ≠ AEv.readKnown ∧ e ≠ AEv.unlockK ∧ e ≠ AEv.acquireT ∧ e ≠ AEv.panic)
  match evs with
  | AEv.lockK :: rest => AEv.lockK :: AEv.deferUnlockK :: rest ++ [AEv.returnOk]
  | l => l

def readerEdgesAsProtocol : List AEv :=
  match ((readerEdges.map (·.2.1)).filter (fun e => e ≠ AEv.panic) : List AEv) with
  | [AEv.rlockT, AEv.search, AEv.runlockT] => [AEv.rlockT, AEv.deferRUnlockT, AEv.search, AEv.returnOk]
  | l => l

/-! ## The release discipline of the source

Whether a lock survives a panic of the calls made under it is decided by *how* it is released.  `disciplineOf` reads
that off the raw event lists: the read lock of `FindRule` / `knownRulesMutex` in every writer method is released by
a deferred unlock iff every lock event is directly followed by the matching `defer` event and the method contains no
explicit unlock of that mutex.  (`rulesTreeMutex.Lock()` … `Unlock()` of the writers is explicit in the source; the
protocol obligation admits nothing but the pointer assignment between the two, which cannot panic — the machine has
no panicking step there.) -/

/-- every `lock` event is immediately followed by `deferred`, `explicit` does not occur -/
def deferredAfter (lock deferred explicit : String) : List String → Bool
  | [] => true
  | e :: rest =>
    if e = explicit then false
    else if e = lock then rest.head? = some deferred && deferredAfter lock deferred explicit rest
    else deferredAfter lock deferred explicit rest

def writerMethods : List String := ["AddRuleSet", "UpdateRuleSet", "DeleteRuleSet"]

def disciplineOf (p : List (String × List String)) : Discipline where
  readerDeferred :=
    let l := lookupMethod p "FindRule"
    l.contains "rlock $T" && deferredAfter "rlock $T" "defer runlock $T" "runlock $T" l
  writerDeferred := writerMethods.all fun m =>
    let l := lookupMethod p m
    l.contains "lock $K" && deferredAfter "lock $K" "defer unlock $K" "unlock $K" l

end Heimdall.Conc
