import HeimdallModel.Gen.JwtAlgs
/-!
# JWT authenticator: what `internal/rules/mechanisms/authenticators/jwt_authenticator.go` does (model for C05)

The decision ladder `Execute → jwt.ParseSigned → verifyToken → (getKey | verifyTokenWithoutKID) →
verifyTokenWithKey → Claims.Validate → SubjectInfo.CreateSubject` together with `oauth2.Expectation` (`Merge`, the
assertions), the three scope matchers and the JWK cache of `getKey`, over an *abstract token*:

* `Token.alg`, `Token.kid`, `Token.critOk` — what the protected header says,
* `Token.canonical`                        — the compact serialisation is the canonical base64url spelling,
* `Token.payload`                          — the payload as a JSON value (`none`: not a JSON document),
* `Token.sigOk mat`                        — whether the signature verifies, under the header's algorithm, with the
                                             key material `mat`.  This is the cryptographic oracle (go-jose and the Go
                                             crypto packages); everything else is computed.

| Lean | Go |
|---|---|
| `Expectation.merge` | `oauth2.Expectation.Merge` |
| `effective` | `newJwtAuthenticator` (default algorithms) → `WithConfig` (`conf.Assertions.Merge(a.a)`) → `verifyToken` (`a.a.Merge(Expectation{TrustedIssuers: {metadata.Issuer}})`) |
| `decodeClaims` | decoding of the verified payload into `oauth2.Claims` (`Audience`, `Scopes`, `NumericDate`) |
| `validate` | `Claims.Validate`: `AssertIssuer`, `AssertAudience`, `AssertValidity`, `AssertIssuanceTime`, `AssertScopes` |
| `covers1`, `hierCovers1`, `wildCovers1` | `doMatch` of `Exact…`, `Hierarchic…`, `WildcardScopeStrategyMatcher` |
| `verifyWithKey` | `verifyTokenWithKey` |
| `selectByKid`, `verifyNoKid`, `verify` | `getKey` after a cache miss (exactly one key with the `kid`, its certificate valid) / `verifyTokenWithoutKID` (first key that verifies) |
| `subject`, `Val.round` | `SubjectInfo.CreateSubject` (gjson paths restricted to member names / array indices; attribute numbers become `float64`) |
| `authenticate` | `Execute` on a cold JWK cache |
| `step`, `run` | `Execute` with the JWK cache of `getKey` (`calculateCacheKey(endpoint, rendered url, kid)`), request after request |

The following places are modelled as they behave with the repairs proposed by this check (all in `/verif/fixes`):
`C05-1` (an `exp` / `nbf` claim is evaluated whenever it is present), `C05-2` (an integral subject id keeps all its
digits), `C05-3` (a numeric date outside the years 1–9999 is a decoding error), `C05-4` (a token without issuer is
never trusted), `C05-5` (non-canonical serialisations are refused).  Not repaired and therefore modelled as it is:
numbers in subject *attributes* are rounded to IEEE doubles (`Val.round`; known finding `C05-attrs-float64`).
Algorithm lists come from `Gen/JwtAlgs.lean`, regenerated from the linked code on every run.  Core Lean only.
-/
namespace Heimdall.Jwt

/-! ## JSON values -/

/-- JSON as far as the authenticator looks at it; a number is `m · 10^(-e)` -/
inductive Val where
  | null
  | bool (b : Bool)
  | num (m : Int) (e : Nat)
  | str (s : String)
  | arr (l : List Val)
  | obj (kvs : List (String × Val))
  deriving Repr, Inhabited

/-- one step of a gjson path: a member name which, when it is a decimal numeral, also indexes arrays -/
structure Seg where
  key : String
  idx : Option Nat := none
  deriving DecidableEq, Repr, Inhabited

/-- first member with the given name -/
def lookup (k : String) : List (String × Val) → Option Val
  | [] => none
  | (k', v) :: r => if k' = k then some v else lookup k r

/-- the value a path of plain steps selects -/
def Val.get : Val → List Seg → Option Val
  | v, [] => some v
  | .obj kvs, s :: r =>
    match lookup s.key kvs with
    | some v => v.get r
    | none => none
  | .arr l, s :: r =>
    match s.idx with
    | some i =>
      match l[i]? with
      | some v => v.get r
      | none => none
    | none => none
  | _, _ :: _ => none

/-- what a JSON document offers as claims: the members of an object; `null` decodes like an empty object -/
def Val.members : Val → Option (List (String × Val))
  | .obj kvs => some kvs
  | .null => some []
  | _ => none

/-! ## Numbers as IEEE doubles -/

/-- the natural number nearest to `a` that a `float64` can hold (round half to even; `a < 2^1024`) -/
def roundF64Nat (a : Nat) : Nat :=
  let bits := a.log2 + 1
  if bits ≤ 53 then a
  else
    let sh := bits - 53
    let q := a >>> sh
    let r := a % 2 ^ sh
    let half := 2 ^ (sh - 1)
    (if r > half ∨ (r = half ∧ q % 2 = 1) then q + 1 else q) <<< sh

def roundF64 : Int → Int
  | .ofNat a => .ofNat (roundF64Nat a)
  | .negSucc a => -(.ofNat (roundF64Nat (a + 1)))

mutual
/-- `gjson.Result.Value()`: every number becomes a `float64`; integral numbers are rounded accordingly -/
def Val.round : Val → Val
  | .num m 0 => .num (roundF64 m) 0
  | .arr l => .arr (roundList l)
  | .obj kvs => .obj (roundFields kvs)
  | v => v
def roundList : List Val → List Val
  | [] => []
  | v :: r => v.round :: roundList r
def roundFields : List (String × Val) → List (String × Val)
  | [] => []
  | (k, v) :: r => (k, v.round) :: roundFields r
end

mutual
/-- every integral number of the value is exactly representable as a `float64` -/
def Val.floatSafe : Val → Bool
  | .num m 0 => m.natAbs ≤ 2 ^ 53
  | .arr l => safeList l
  | .obj kvs => safeFields kvs
  | _ => true
def safeList : List Val → Bool
  | [] => true
  | v :: r => v.floatSafe && safeList r
def safeFields : List (String × Val) → Bool
  | [] => true
  | (_, v) :: r => v.floatSafe && safeFields r
end

/-! ## Splitting strings (`strings.Split` with a one-character separator) -/

def splitChars (sep : Char) : List Char → List (List Char)
  | [] => [[]]
  | c :: cs =>
    if c = sep then [] :: splitChars sep cs
    else
      match splitChars sep cs with
      | p :: ps => (c :: p) :: ps
      | [] => [[c]]

def splitAtChar (sep : Char) (s : String) : List String := (splitChars sep s.toList).map String.ofList

/-- `strings.Split(s, ".")` -/
def parts (s : String) : List String := splitAtChar '.' s

/-! ## Registered claims (`oauth2.Claims`) -/

structure Claims where
  iss : String := ""
  aud : List String := []
  scp : List String := []
  scope : List String := []
  exp : Option Int := none
  nbf : Option Int := none
  iat : Option Int := none
  deriving DecidableEq, Repr, Inhabited

/-- 0001-01-01T00:00:00Z, the zero `time.Time` (stands for "not set"); excluded -/
def minDate : Int := -62135596800

/-- 9999-12-31T23:59:59Z; included -/
def maxDate : Int := 253402300799

/-- a `string` field: absent and `null` leave it empty, any other non-string is a decoding error -/
def strClaim (kvs : List (String × Val)) (k : String) : Option String :=
  match lookup k kvs with
  | none => some ""
  | some .null => some ""
  | some (.str s) => some s
  | some _ => none

def asStrings : List Val → Option (List String)
  | [] => some []
  | .str s :: r => (asStrings r).map (s :: ·)
  | _ :: _ => none

/-- `Audience` / `Scopes`: a string is split at spaces, an array must consist of strings, everything else
(including `null`) is a decoding error -/
def listClaim (kvs : List (String × Val)) (k : String) : Option (List String) :=
  match lookup k kvs with
  | none => some []
  | some (.str s) => some (splitAtChar ' ' s)
  | some (.arr l) => asStrings l
  | some _ => none

/-- `NumericDate(f)`: truncation towards zero -/
def truncNum (m : Int) (e : Nat) : Int := m.tdiv (10 ^ e)

/-- `*NumericDate`: absent / `null` → not set; a number → its integral part, which has to lie in the years 1–9999
(after the zero time, up to the last second of 9999); anything else is a decoding error -/
def dateClaim (kvs : List (String × Val)) (k : String) : Option (Option Int) :=
  match lookup k kvs with
  | none => some none
  | some .null => some none
  | some (.num m e) =>
    if minDate < truncNum m e ∧ truncNum m e ≤ maxDate then some (some (truncNum m e)) else none
  | some _ => none

def decodeClaims (kvs : List (String × Val)) : Option Claims := do
  let iss ← strClaim kvs "iss"
  let _ ← strClaim kvs "sub"
  let aud ← listClaim kvs "aud"
  let scp ← listClaim kvs "scp"
  let scope ← listClaim kvs "scope"
  let exp ← dateClaim kvs "exp"
  let nbf ← dateClaim kvs "nbf"
  let iat ← dateClaim kvs "iat"
  let _ ← strClaim kvs "jti"
  pure { iss, aud, scp, scope, exp, nbf, iat }

/-- `x.IfThenElse(len(c.Scp) != 0, c.Scp, c.Scope)` -/
def Claims.granted (c : Claims) : List String := if c.scp ≠ [] then c.scp else c.scope

/-! ## Scope matchers -/

inductive Strategy
  | exact | hierarchic | wildcard
  deriving DecidableEq, Repr, Inhabited

structure ScopesMatcher where
  strategy : Strategy
  required : List String
  deriving DecidableEq, Repr, Inhabited

/-- `a` is a proper prefix of `b`, element by element -/
def strictPrefix : List String → List String → Bool
  | [], _ :: _ => true
  | a :: as, b :: bs => a == b && strictPrefix as bs
  | _, _ => false

/-- one granted scope against one required scope, hierarchic strategy -/
def hierCovers1 (granted needle : String) : Bool :=
  granted == needle ||
    (!(granted.utf8ByteSize > needle.utf8ByteSize) && strictPrefix (parts granted) (parts needle))

/-- the loop over the parts of one granted scope (`matcher`), wildcard strategy; `longer` = the required scope
has a different number of parts -/
def wildGo (longer : Bool) : List String → List String → Bool
  | [], _ => true
  | m :: ms, n :: ns =>
    (if ms.isEmpty && longer then m == "*" else true) && ((m == "*" && n != "") || m == n) && wildGo longer ms ns
  | _ :: _, [] => false

def wildCovers1 (granted needle : String) : Bool :=
  (parts granted).length ≤ (parts needle).length &&
    wildGo ((parts granted).length != (parts needle).length) (parts granted) (parts needle)

def covers1 : Strategy → String → String → Bool
  | .exact, g, r => g == r
  | .hierarchic, g, r => hierCovers1 g r
  | .wildcard, g, r => wildCovers1 g r

/-- `Match`: every required scope is covered by some granted scope -/
def ScopesMatcher.matches (m : ScopesMatcher) (granted : List String) : Bool :=
  m.required.all fun r => granted.any fun g => covers1 m.strategy g r

/-! ## Expectations -/

/-- `oauth2.Expectation`; `scopes = none` is "no matcher configured" (`nil`, replaced by the `NoopMatcher`), the
leeway is in milliseconds -/
structure Expectation where
  issuers : List String := []
  scopes : Option ScopesMatcher := none
  audiences : List String := []
  algs : List String := []
  leeway : Int := 0
  deriving DecidableEq, Repr, Inhabited

/-- `Expectation.Merge`: every field of the receiver that is set wins -/
def Expectation.merge (e o : Expectation) : Expectation :=
  { issuers := if e.issuers ≠ [] then e.issuers else o.issuers
    scopes := if e.scopes.isSome then e.scopes else o.scopes
    audiences := if e.audiences ≠ [] then e.audiences else o.audiences
    algs := if e.algs ≠ [] then e.algs else o.algs
    leeway := if e.leeway ≠ 0 then e.leeway else o.leeway }

/-- `x.IfThenElse(e.ValidityLeeway != 0, e.ValidityLeeway, defaultLeeway)`, milliseconds -/
def Expectation.leewayMs (e : Expectation) : Int := if e.leeway ≠ 0 then e.leeway else 10000

/-- `int64(leeway.Seconds())` -/
def Expectation.leewaySec (e : Expectation) : Int := e.leewayMs.tdiv 1000

def Expectation.scopesOk (e : Expectation) (granted : List String) : Bool :=
  match e.scopes with
  | none => true
  | some m => m.matches granted

/-- why a token is refused -/
inductive Why
  | noToken | malformed | payload | metadata | keySet | noKey | ambiguousKey | badCertificate
  | algMismatch | algNotAllowed | signature | claims
  | issuer | audience | notYetValid | expired | issuedInFuture | scopes
  | subjectId | attributes
  deriving DecidableEq, Repr, Inhabited

/-- `AssertValidity`, first half: the token is not valid yet -/
def notYetValid (e : Expectation) (nbf : Option Int) (nowMs : Int) : Bool :=
  match nbf with
  | some t => decide (nowMs / 1000 + e.leewaySec < t)
  | none => false

/-- `AssertValidity`, second half: the token has expired -/
def expired (e : Expectation) (exp : Option Int) (nowMs : Int) : Bool :=
  match exp with
  | some t => decide (nowMs / 1000 - e.leewaySec ≥ t)
  | none => false

/-- `AssertIssuanceTime`: issued in the future -/
def issuedInFuture (e : Expectation) (iat : Option Int) (nowMs : Int) : Bool :=
  match iat with
  | some t => decide (nowMs + e.leewayMs < t * 1000)
  | none => false

/-- `AssertAudience` -/
def audienceOk (e : Expectation) (aud : List String) : Bool :=
  e.audiences.isEmpty || e.audiences.any (aud.contains ·)

/-- `Claims.Validate` at the instant `nowMs` (milliseconds since the epoch; `AssertValidity` uses whole seconds) -/
def validate (e : Expectation) (c : Claims) (nowMs : Int) : Except Why Unit :=
  if c.iss == "" || !e.issuers.contains c.iss then .error .issuer
  else if !audienceOk e c.aud then .error .audience
  else if notYetValid e c.nbf nowMs then .error .notYetValid
  else if expired e c.exp nowMs then .error .expired
  else if issuedInFuture e c.iat nowMs then .error .issuedInFuture
  else if !e.scopesOk c.granted then .error .scopes
  else .ok ()

/-! ## Keys, tokens, the world -/

/-- the certificate chain a JWK carries, judged against the configured trust store, the clock and the required
key usage -/
inductive Cert
  | none | trusted | untrusted
  deriving DecidableEq, Repr, Inhabited

structure Key where
  kid : String := ""
  /-- the `alg` member of the JWK -/
  alg : String := ""
  /-- which key material this is (`Token.sigOk` refers to it) -/
  mat : Nat := 0
  cert : Cert := .none
  /-- the certificate expires within the next 10 s (or has expired): such a key is never cached -/
  certExpiring : Bool := false
  /-- go-jose can verify with it (a public or symmetric key; not, e.g., a private key) -/
  usable : Bool := true
  deriving DecidableEq, Repr, Inhabited

structure Token where
  alg : String
  kid : String := ""
  /-- no critical header parameter that go-jose does not understand -/
  critOk : Bool := true
  /-- every segment is the canonical base64url spelling of its octets (no line breaks, no stray trailing bits) -/
  canonical : Bool := true
  payload : Option Val
  sigOk : Nat → Bool

/-- what the request carries -/
inductive Presented
  | absent
  | garbage
  | token (t : Token)

structure Metadata where
  issuer : String := ""
  hasJwks : Bool := true
  deriving DecidableEq, Repr, Inhabited

/-- what the endpoints answer at one moment: `none` = unreachable / error status / not decodable.  The key-set
endpoint is indexed by what its url renders to (see `endpointOf`). -/
structure World where
  metadata : Option Metadata := none
  jwks : String → Option (List Key) := fun _ => none

structure SubjectConf where
  idPath : List Seg := [{ key := "sub" }]
  /-- `none` = `@this`, the whole payload -/
  attrsPath : Option (List Seg) := none
  deriving DecidableEq, Repr, Inhabited

structure Config where
  /-- `jwks_endpoint` (true) or `metadata_endpoint` (false) -/
  jwksMode : Bool := true
  /-- the url of the JWKS endpoint contains `{{ .TokenIssuer }}` -/
  templated : Bool := false
  assertions : Expectation := {}
  subject : SubjectConf := {}
  validateJwk : Bool := true
  /-- `isCacheEnabled`: no `cache_ttl` configured, or a positive one (rule level over mechanism level) -/
  cacheEnabled : Bool := true
  deriving DecidableEq, Repr, Inhabited

inductive Outcome
  | accepted (id : String) (attrs : Val)
  | rejected (why : Why)
  /-- the configuration is refused, no authenticator exists -/
  | noAuthenticator
  /-- outside the model (a subject id that is not a string, a boolean or an integral number) -/
  | unmodelled
  deriving Repr, Inhabited

/-- `newJwtAuthenticator`: with a JWKS endpoint the trusted issuers are mandatory -/
def Config.ok (cfg : Config) : Bool := !cfg.jwksMode || cfg.assertions.issuers != []

/-- the assertions in force for one request: rule level over mechanism level (with the default algorithms) over
the issuer named by the server metadata -/
def effective (cfg : Config) (rule : Option Expectation) (metaIssuer : String) : Expectation :=
  let proto := { cfg.assertions with
    algs := if cfg.assertions.algs ≠ [] then cfg.assertions.algs else Gen.defaultAllowed }
  let a := match rule with
    | none => proto
    | some r => r.merge proto
  a.merge { issuers := [metaIssuer] }

/-- what the url of the key-set endpoint renders to for this token: with a `{{ .TokenIssuer }}` template it depends
on the (not yet verified) `iss` claim -/
def endpointOf (cfg : Config) (kvs : List (String × Val)) : String :=
  if cfg.jwksMode && cfg.templated then
    match lookup "iss" kvs with
    | some (.str s) => s
    | _ => "<no value>"
  else ""

/-- `validateJWK` -/
def certAccepted (validateJwk : Bool) (k : Key) : Bool := !validateJwk || k.cert != .untrusted

/-- `len(header.Algorithm) != 0 && key.Algorithm != header.Algorithm` does not hold -/
def algAgrees (tok : Token) (k : Key) : Bool := tok.alg == "" || k.alg == tok.alg

/-- `token.Claims(key, …)` gets through: go-jose can use the key, understands the critical headers, and the
signature verifies -/
def signedBy (tok : Token) (k : Key) : Bool := k.usable && tok.critOk && tok.sigOk k.mat

/-- `verifyTokenWithKey` -/
def verifyWithKey (a : Expectation) (tok : Token) (kvs : List (String × Val)) (nowMs : Int) (k : Key) :
    Except Why Unit :=
  if !algAgrees tok k then .error .algMismatch
  else if !a.algs.contains k.alg then .error .algNotAllowed
  else if !signedBy tok k then .error .signature
  else
    match decodeClaims kvs with
    | none => .error .claims
    | some c => validate a c nowMs

def okB {ε α : Type} : Except ε α → Bool
  | .ok _ => true
  | .error _ => false

/-- `getKey` after the key set was fetched: exactly one key of the set must carry the `kid` and its certificate must
be valid -/
def selectByKid (validateJwk : Bool) (ks : List Key) (kid : String) : Except Why Key :=
  match ks.filter (fun k => k.kid = kid) with
  | [] => .error .noKey
  | [k] => if certAccepted validateJwk k then .ok k else .error .badCertificate
  | _ :: _ :: _ => .error .ambiguousKey

/-- `verifyTokenWithoutKID`: the first key with a valid certificate that verifies the token decides -/
def verifyNoKid (a : Expectation) (validateJwk : Bool) (ks : List Key) (tok : Token) (kvs : List (String × Val))
    (nowMs : Int) : Except Why Unit :=
  if (ks.filter (certAccepted validateJwk)).any (fun k => okB (verifyWithKey a tok kvs nowMs k)) then .ok ()
  else .error .noKey

/-- key selection and verification against a freshly fetched key set -/
def verify (a : Expectation) (validateJwk : Bool) (ks : List Key) (tok : Token) (kvs : List (String × Val))
    (nowMs : Int) : Except Why Unit :=
  if tok.kid = "" then verifyNoKid a validateJwk ks tok kvs nowMs
  else
    match selectByKid validateJwk ks tok.kid with
    | .error why => .error why
    | .ok k => verifyWithKey a tok kvs nowMs k

/-- gjson's `String()` of the value found for the subject id -/
def idString : Val → Option String
  | .null => some ""
  | .bool true => some "true"
  | .bool false => some "false"
  | .str s => some s
  | .num m 0 => some (toString m)
  | _ => none

/-- where the attributes are taken from: the whole payload (`@this`) unless a path is configured -/
def attrsSource (sc : SubjectConf) (payload : Val) : Option Val :=
  match sc.attrsPath with
  | none => some payload
  | some p => payload.get p

/-- `SubjectInfo.CreateSubject` on the re-encoded verified payload; the attributes are what gjson's `Value()` makes
of the selected object, i.e. with numbers as `float64` -/
def subject (sc : SubjectConf) (payload : Val) : Outcome :=
  match payload.get sc.idPath with
  | none => .rejected .subjectId
  | some v =>
    match idString v with
    | none => .unmodelled
    | some id =>
      if id = "" then .rejected .subjectId
      else
        match attrsSource sc payload with
        | some (.obj kvs) => .accepted id (Val.obj kvs).round
        | _ => .rejected .attributes

/-- the metadata step of `verifyToken`: with a JWKS endpoint there is nothing to fetch and no issuer is named -/
def resolveMetadata (cfg : Config) (w : World) : Except Why Metadata :=
  if cfg.jwksMode then .ok { issuer := "", hasJwks := true }
  else
    match w.metadata with
    | none => .error .metadata
    | some m => if m.hasJwks then .ok m else .error .metadata

/-- the end of `Execute`: the subject is created once the token is verified -/
def finish (sc : SubjectConf) (pl : Val) : Except Why Unit → Outcome
  | .error why => .rejected why
  | .ok () => subject sc pl

/-- `Execute` of the authenticator created from `cfg` and specialised by the rule-level assertions `rule`, on a
cold JWK cache -/
def authenticate (cfg : Config) (rule : Option Expectation) (w : World) (p : Presented) (nowMs : Int) : Outcome :=
  if !cfg.ok then .noAuthenticator
  else
    match p with
    | .absent => .rejected .noToken
    | .garbage => .rejected .malformed
    | .token tok =>
      if !(Gen.supported.contains tok.alg && tok.canonical) then .rejected .malformed
      else
        match tok.payload with
        | none => .rejected .payload
        | some pl =>
          match pl.members with
          | none => .rejected .payload
          | some kvs =>
            match resolveMetadata cfg w with
            | .error why => .rejected why
            | .ok md =>
              match w.jwks (endpointOf cfg kvs) with
              | none => .rejected .keySet
              | some ks =>
                finish cfg.subject pl (verify (effective cfg rule md.issuer) cfg.validateJwk ks tok kvs nowMs)

/-! ## The JWK cache of `getKey` -/

/-- cached keys by (rendered endpoint url, kid) -/
abbrev Cache := List ((String × String) × Key)

def Cache.find (c : Cache) (u kid : String) : Option Key :=
  match c with
  | [] => none
  | ((u', kid'), k) :: r => if u' = u ∧ kid' = kid then some k else Cache.find r u kid

/-- one request against the endpoints `w` with the cache `cache`: outcome and the cache afterwards.  Only tokens
with a `kid` use the cache: a hit short-cuts fetching, uniqueness and certificate validation; after a miss the
selected key is stored (unless caching is off or its certificate is about to expire) — before the token is verified. -/
def step (cfg : Config) (rule : Option Expectation) (w : World) (cache : Cache) (p : Presented) (nowMs : Int) :
    Outcome × Cache :=
  if !cfg.ok then (.noAuthenticator, cache)
  else
    match p with
    | .absent => (.rejected .noToken, cache)
    | .garbage => (.rejected .malformed, cache)
    | .token tok =>
      if !(Gen.supported.contains tok.alg && tok.canonical) then (.rejected .malformed, cache)
      else
        match tok.payload with
        | none => (.rejected .payload, cache)
        | some pl =>
          match pl.members with
          | none => (.rejected .payload, cache)
          | some kvs =>
            match resolveMetadata cfg w with
            | .error why => (.rejected why, cache)
            | .ok md =>
              let a := effective cfg rule md.issuer
              let u := endpointOf cfg kvs
              if tok.kid = "" then
                match w.jwks u with
                | none => (.rejected .keySet, cache)
                | some ks => (finish cfg.subject pl (verifyNoKid a cfg.validateJwk ks tok kvs nowMs), cache)
              else
                match (if cfg.cacheEnabled then cache.find u tok.kid else none) with
                | some k => (finish cfg.subject pl (verifyWithKey a tok kvs nowMs k), cache)
                | none =>
                  match w.jwks u with
                  | none => (.rejected .keySet, cache)
                  | some ks =>
                    match selectByKid cfg.validateJwk ks tok.kid with
                    | .error why => (.rejected why, cache)
                    | .ok k =>
                      (finish cfg.subject pl (verifyWithKey a tok kvs nowMs k),
                       if cfg.cacheEnabled && !k.certExpiring then ((u, tok.kid), k) :: cache else cache)

/-- a sequence of requests, each against what the endpoints answer at that moment, starting from `cache` -/
def run (cfg : Config) (rule : Option Expectation) :
    List (World × Presented × Int) → Cache → List Outcome
  | [], _ => []
  | (w, p, now) :: rest, cache =>
    (step cfg rule w cache p now).1 :: run cfg rule rest (step cfg rule w cache p now).2

end Heimdall.Jwt
