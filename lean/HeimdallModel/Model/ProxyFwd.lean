import HeimdallModel.Base.UrlEscape
/-!
# Proxy mode: what is forwarded to the upstream (property C15)

Model of the path a request takes through heimdall's proxy entry point, from the bytes a client writes on the
connection to the bytes the upstream service reads:

* Go's `net/http` server (request target, canonical header names, `Host`) — modelled, not verified,
* `internal/handler/middleware/http/trustedproxy` (forwarded headers of untrusted peers are dropped),
* `internal/handler/requestcontext` `extractMethod` / `extractURL`,
* `internal/rules/rule_impl.go` `Execute` (encoded-slash handling) and `internal/rules/config` `Backend.CreateURL`,
  `URLRewriter.Rewrite`, `PrefixCutter`, `PrefixAdder`, `QueryParamsRemover`,
* `internal/handler/proxy/request_context.go` `rewriteRequest` (header override, forwarded headers, cookies),
* `net/http/httputil.ReverseProxy` and `http.Transport` as far as they shape the outgoing request (forwarding headers
  removed before `Rewrite`, request line, header order, `User-Agent`, `Accept-Encoding`) — modelled, not verified.

Byte strings are `List Char` with one character per byte (as in `Base/UrlEscape`).
-/
namespace Heimdall.ProxyFwd
open Heimdall

abbrev Bytes := List Char

/-- byte-string literal: `b!"ab"` is `['a', 'b']` -/
scoped macro:max "b!" s:str : term => do
  let cs := s.getString.toList.map fun c => Lean.Syntax.mkCharLit c
  `([$(cs.toArray),*])

/-! ## `net/url` -/

def isAlnum (c : Char) : Bool :=
  ('a' ≤ c && c ≤ 'z') || ('A' ≤ c && c ≤ 'Z') || ('0' ≤ c && c ≤ '9')

/-- `shouldEscape(c, encodePath)`.  Characters that are not bytes do not occur and are left alone. -/
def shouldEscapePath (c : Char) : Bool :=
  c.toNat < 256 && !(isAlnum c || c = '-' || c = '_' || c = '.' || c = '~' ||
    c = '$' || c = '&' || c = '+' || c = ',' || c = '/' || c = ':' || c = ';' || c = '=' || c = '@')

/-- `shouldEscape(c, encodeQueryComponent)` -/
def shouldEscapeQuery (c : Char) : Bool :=
  c.toNat < 256 && !(isAlnum c || c = '-' || c = '_' || c = '.' || c = '~')

/-- `upperhex[n]` -/
def hexDigit (n : Nat) : Char := if n < 10 then Char.ofNat (48 + n) else Char.ofNat (55 + n)

def pctEncode (c : Char) : Bytes := ['%', hexDigit (c.toNat / 16), hexDigit (c.toNat % 16)]

/-- `escape(s, encodePath)` -/
def escapePath : Bytes → Bytes
  | [] => []
  | c :: t => if shouldEscapePath c then pctEncode c ++ escapePath t else c :: escapePath t

/-- `url.QueryEscape` -/
def escapeQuery : Bytes → Bytes
  | [] => []
  | c :: t =>
    if c = ' ' then '+' :: escapeQuery t
    else if shouldEscapeQuery c then pctEncode c ++ escapeQuery t else c :: escapeQuery t

/-- one character of `validEncoded(s, encodePath)` -/
def validPathChar (c : Char) : Bool :=
  c = '!' || c = '$' || c = '&' || c = '\'' || c = '(' || c = ')' || c = '*' || c = '+' || c = ',' || c = ';' ||
  c = '=' || c = ':' || c = '@' || c = '[' || c = ']' || c = '%' || !shouldEscapePath c

def validEncodedPath (s : Bytes) : Bool := s.all validPathChar

/-- heimdall's `escapedPath` helper (`extract_url.go`): the received spelling, in which only the octets that are not
allowed in a path are percent-encoded; every escape sequence of the client stays as written -/
def escapeInvalid : Bytes → Bytes
  | [] => []
  | c :: t => if validPathChar c then c :: escapeInvalid t else pctEncode c ++ escapeInvalid t

/-- `url.QueryUnescape`: like `PathUnescape`, and `+` is a space -/
def queryUnescape : Bytes → Option Bytes
  | [] => some []
  | c :: t =>
    if c = '%' then
      match t with
      | a :: b :: rest =>
        if isHex a && isHex b then (queryUnescape rest).map (octet a b :: ·) else none
      | _ => none
    else if c = '+' then (queryUnescape t).map (' ' :: ·)
    else (queryUnescape t).map (c :: ·)

/-- the part before the first `sep` (`strings.Cut`, first result) -/
def before (sep : Char) (s : Bytes) : Bytes := s.takeWhile (· ≠ sep)

/-- the part after the first `sep` (`strings.Cut`, second result; empty when there is no `sep`) -/
def after (sep : Char) (s : Bytes) : Bytes := (s.dropWhile (· ≠ sep)).drop 1

/-- `strings.Split(s, sep)` for a one-byte separator: never empty -/
def splitOn (sep : Char) : Bytes → List Bytes
  | [] => [[]]
  | c :: t =>
    if c = sep then [] :: splitOn sep t
    else match splitOn sep t with
      | [] => [[c]]
      | h :: r => (c :: h) :: r

/-- `strings.Join(ps, sep)` -/
def joinWith (sep : Bytes) : List Bytes → Bytes
  | [] => []
  | [a] => a
  | a :: b :: rest => a ++ sep ++ joinWith sep (b :: rest)

/-- Go's string order (bytewise lexicographic) -/
def ltBytes : Bytes → Bytes → Bool
  | [], [] => false
  | [], _ :: _ => true
  | _ :: _, [] => false
  | a :: s, b :: t => a.toNat < b.toNat || (a = b && ltBytes s t)

/-- stable insertion by key: the new pair goes in front of the first pair whose key is not smaller -/
def insertByKey (x : Bytes × Bytes) : List (Bytes × Bytes) → List (Bytes × Bytes)
  | [] => [x]
  | y :: l => if ltBytes y.1 x.1 then y :: insertByKey x l else x :: y :: l

/-- stable sort by key -/
def sortByKey : List (Bytes × Bytes) → List (Bytes × Bytes)
  | [] => []
  | x :: l => insertByKey x (sortByKey l)

/-- one `&`-separated piece as `url.ParseQuery` reads it -/
def parsePair (p : Bytes) : Option (Bytes × Bytes) :=
  if p.contains ';' || p = [] then none else
  match queryUnescape (before '=' p), queryUnescape (after '=' p) with
  | some k, some v => some (k, v)
  | _, _ => none

/-- `url.ParseQuery`, keeping only the pairs it accepts (this is what `URL.Query()` returns), as the flat list of
`key, value` in order of appearance; `m[key]` is the sub-list with that key -/
def parseQueryPairs (q : Bytes) : List (Bytes × Bytes) := (splitOn '&' q).filterMap parsePair

/-- `url.Values.Encode`: keys sorted, the values of one key in their order -/
def encodeValues (l : List (Bytes × Bytes)) : Bytes :=
  joinWith ['&'] ((sortByKey l).map fun kv => escapeQuery kv.1 ++ '=' :: escapeQuery kv.2)

structure Url where
  scheme   : Bytes
  host     : Bytes
  path     : Bytes
  rawPath  : Bytes
  rawQuery : Bytes
deriving Repr, DecidableEq

/-- `(*url.URL).setPath`: decoded path and the raw path that is kept (`[]` when the default encoding is fine) -/
def setPath (p : Bytes) : Option (Bytes × Bytes) :=
  (pathUnescapeL p).map fun path => (path, if escapePath path = p then [] else p)

/-- `(*url.URL).EscapedPath` -/
def escapedPath (path rawPath : Bytes) : Bytes :=
  if rawPath ≠ [] && validEncodedPath rawPath && pathUnescapeL rawPath == some path then rawPath
  else if path = ['*'] then ['*'] else escapePath path

def Url.escapedPath (u : Url) : Bytes := ProxyFwd.escapedPath u.path u.rawPath

def orSlash (p : Bytes) : Bytes := if p = [] then ['/'] else p

/-! ## Header maps

A header map is the flat list of `(canonical name, value)` lines; the values of a name are the sub-list with that name
in order. -/

abbrev Hdrs := List (Bytes × Bytes)

/-- `validHeaderFieldByte` of `net/textproto`: the token characters of RFC 7230 -/
def isTokenChar (c : Char) : Bool :=
  isAlnum c || c = '!' || c = '#' || c = '$' || c = '%' || c = '&' || c = '\'' || c = '*' || c = '+' || c = '-' ||
  c = '.' || c = '^' || c = '_' || c = '`' || c = '|' || c = '~'

def upperC (c : Char) : Char := if 'a' ≤ c && c ≤ 'z' then Char.ofNat (c.toNat - 32) else c
def lowerC (c : Char) : Char := if 'A' ≤ c && c ≤ 'Z' then Char.ofNat (c.toNat + 32) else c

def canonAux : Bool → Bytes → Bytes
  | _, [] => []
  | up, c :: t => (if up then upperC c else lowerC c) :: canonAux (c = '-') t

/-- `textproto.CanonicalMIMEHeaderKey` -/
def canonicalKey (s : Bytes) : Bytes := if s.all isTokenChar then canonAux true s else s

def values (h : Hdrs) (k : Bytes) : List Bytes := (h.filter (·.1 = k)).map (·.2)

/-- `Header.Get` for a canonical name: first value or empty -/
def get (h : Hdrs) (k : Bytes) : Bytes := (values h k).head?.getD []

def del (k : Bytes) (h : Hdrs) : Hdrs := h.filter (·.1 ≠ k)

def set (k v : Bytes) (h : Hdrs) : Hdrs := del k h ++ [(k, v)]

/-- the lines as written on the wire, by name (`Header.Write` sorts the names, the values keep their order) -/
def sortHdrs (h : Hdrs) : Hdrs := sortByKey h

/-- keep the first line of every name -/
def firstOfEach : Hdrs → Hdrs
  | [] => []
  | x :: l => x :: (firstOfEach l).filter (·.1 ≠ x.1)

def hForwarded : Bytes := b!"Forwarded"
def hXFFor : Bytes := b!"X-Forwarded-For"
def hXFProto : Bytes := b!"X-Forwarded-Proto"
def hXFHost : Bytes := b!"X-Forwarded-Host"
def hXFUri : Bytes := b!"X-Forwarded-Uri"
def hXFPath : Bytes := b!"X-Forwarded-Path"
def hXFMethod : Bytes := b!"X-Forwarded-Method"
def hHost : Bytes := b!"Host"
def hCookie : Bytes := b!"Cookie"
def hUserAgent : Bytes := b!"User-Agent"
def hAcceptEncoding : Bytes := b!"Accept-Encoding"
def hRange : Bytes := b!"Range"
def hConnection : Bytes := b!"Connection"
def hTe : Bytes := b!"Te"
def hUpgrade : Bytes := b!"Upgrade"

/-- `untrustedHeader` of the trusted-proxy middleware -/
def untrustedHeaders : List Bytes := [hForwarded, hXFFor, hXFProto, hXFHost, hXFUri, hXFPath, hXFMethod]

/-! ## Trusted proxies -/

def digitsToNat (s : Bytes) : Option Nat :=
  if s = [] || !s.all (fun c => '0' ≤ c && c ≤ '9') then none
  else some (s.foldl (fun n c => 10 * n + (c.toNat - 48)) 0)

/-- dotted quad to number -/
def parseIPv4 (s : Bytes) : Option Nat :=
  match (splitOn '.' s).map digitsToNat with
  | [some a, some b, some c, some d] =>
    if a < 256 && b < 256 && c < 256 && d < 256 then some (((a * 256 + b) * 256 + c) * 256 + d) else none
  | _ => none

/-- an entry of `trusted_proxies`: a single address or a CIDR range -/
def entryContains (e : Bytes) (ip : Nat) : Bool :=
  let bitsS := after '/' e
  match parseIPv4 (before '/' e) with
  | none => false
  | some net =>
    if e.contains '/' then
      match digitsToNat bitsS with
      | some bits => bits ≤ 32 && ip / 2 ^ (32 - bits) = net / 2 ^ (32 - bits)
      | none => false
    else ip = net

def isTrusted (trusted : List Bytes) (peer : Bytes) : Bool :=
  match parseIPv4 peer with
  | none => false
  | some ip => trusted.any (entryContains · ip)

/-! ## Configuration and request -/

/-- `rewrite` of `forward_to` -/
structure Rewrite where
  scheme : Bytes
  strip  : Bytes
  add    : Bytes
  stripQ : List Bytes
deriving Repr, DecidableEq

structure RuleCfg where
  slashes : SlashHandling
  host    : Bytes
  rewrite : Option Rewrite
deriving Repr, DecidableEq

/-- what the pipeline produced: `AddHeaderForUpstream` calls in order (names as written), and the cookies.

A `header` finalizer (`finalizers/header_finalizer.go`) makes one `AddHeaderForUpstream (name, rendered value)` call for
**every** header it is configured with — whatever its template rendered to for this subject and request, the empty
string and blank values included; a `cookie` finalizer likewise calls `AddCookieForUpstream` for every configured cookie.
So `headers` lists every configured name with its rendered value (one finalizer after the other), `cookies` every
configured cookie. -/
structure Pipe where
  headers : Hdrs
  cookies : List (Bytes × Bytes)
deriving Repr, DecidableEq

/-- the client's request as written on the connection, and the address it comes from -/
structure ClientReq where
  method  : Bytes
  target  : Bytes
  host    : Bytes
  headers : Hdrs
  body    : Bytes
  peer    : Bytes
  /-- the listener the request arrives on speaks TLS -/
  tls     : Bool
deriving Repr, DecidableEq

structure Case where
  trusted : List Bytes
  rule    : RuleCfg
  pipe    : Pipe
  req     : ClientReq
deriving Repr, DecidableEq

/-- what the upstream reads; the request line carries `target` -/
structure UpReq where
  method  : Bytes
  path    : Bytes
  query   : Bytes
  host    : Bytes
  headers : Hdrs
  body    : Bytes
deriving Repr, DecidableEq

/-- `(*url.URL).RequestURI` (no opaque part, `ForceQuery` unset): what `http.Transport` writes in the request line -/
def UpReq.target (u : UpReq) : Bytes := u.path ++ (if u.query = [] then [] else '?' :: u.query)

inductive Outcome where
  /-- answered by heimdall (or by Go's HTTP server) with this status, nothing reaches the upstream -/
  | rejected (status : Nat)
  /-- forwarded: TLS or not, the address dialled, the request -/
  | forwarded (tls : Bool) (dial : Bytes) (up : UpReq)
  /-- outside of the modelled input space (request targets not in origin form, exotic `X-Forwarded-Uri` values) -/
  | unmodelled
deriving Repr, DecidableEq

/-! ## Go's HTTP server -/

def isCtl (c : Char) : Bool := c.toNat < 32 || c.toNat = 127

structure ServerReq where
  method   : Bytes
  path     : Bytes
  rawPath  : Bytes
  rawQuery : Bytes
  host     : Bytes
  headers  : Hdrs
deriving Repr, DecidableEq

/-- origin-form request targets only -/
def modelledTarget (t : Bytes) : Bool := t.head? = some '/' && !t.any isCtl && !t.contains ' '

def canonHeaders (h : Hdrs) : Hdrs := h.map fun x => (canonicalKey x.1, x.2)

/-- `http.ReadRequest`: `none` is "400 Bad Request" -/
def serverParse (r : ClientReq) : Option ServerReq :=
  (setPath (before '?' r.target)).map fun pr =>
    { method := r.method, path := pr.1, rawPath := pr.2, rawQuery := after '?' r.target, host := r.host,
      headers := canonHeaders r.headers }

/-! ## Trusted-proxy middleware and request view -/

def trustStrip (trusted : Bool) (h : Hdrs) : Hdrs :=
  if trusted then h else h.filter fun x => !untrustedHeaders.contains x.1

/-- `X-Forwarded-Uri` values the model covers: origin form without fragment -/
def modelledForwardedUri (v : Bytes) : Bool :=
  modelledTarget v && !((v.drop 1).head? == some '/') && !v.contains '#'

structure View where
  method : Bytes
  url    : Url
deriving Repr, DecidableEq

/-- `extractMethod` -/
def extractMethod (inH : Hdrs) (s : ServerReq) : Bytes :=
  if get inH hXFMethod ≠ [] then get inH hXFMethod else s.method

/-- scheme of the listener -/
def listenerProto (tls : Bool) : Bytes := if tls then b!"https" else b!"http"

/-- heimdall's `escapedPath(uri)` for a URL parsed by Go: decoded path and the raw path Go kept -/
def clientPath (path rawPath : Bytes) : Bytes :=
  if rawPath = [] then ProxyFwd.escapedPath path [] else escapeInvalid rawPath

/-- `extractURL` -/
def extractURL (tls : Bool) (inH : Hdrs) (s : ServerReq) : Url :=
  let proto := if get inH hXFProto ≠ [] then get inH hXFProto else listenerProto tls
  let host := if get inH hXFHost ≠ [] then get inH hXFHost else s.host
  let fwd := get inH hXFUri
  let parsed : Option (Bytes × Bytes) :=
    if fwd = [] then none else
    (setPath (before '?' fwd)).map fun pr => (clientPath pr.1 pr.2, after '?' fwd)
  let rawPath0 := (parsed.map (·.1)).getD []
  let query0 := (parsed.map (·.2)).getD []
  let rawPath := if rawPath0 = [] then clientPath s.path s.rawPath else rawPath0
  let query := if query0 = [] then s.rawQuery else query0
  { scheme := proto, host := host, path := (pathUnescapeL rawPath).getD [], rawPath := rawPath, rawQuery := query }

/-! ## The rule: encoded slashes, `forward_to` -/

/-- `PrefixCutter.CutFrom` -/
def cutPrefix (p s : Bytes) : Bytes := if p.isPrefixOf s then s.drop p.length else s

/-- `URLRewriter.transformPath`: strip, then add -/
def transformPath (r : Rewrite) (p : Bytes) : Bytes := r.add ++ cutPrefix r.strip p

/-- name of a raw `name=value` pair of a query, decoded -/
def pairKey (pair : Bytes) : Option Bytes := queryUnescape (before '=' pair)

def keepPair (names : List Bytes) (pair : Bytes) : Bool :=
  match pairKey pair with
  | some k => !names.contains k
  | none => true

/-- `QueryParamsRemover.RemoveFrom`: the raw pairs whose name is listed are dropped, everything else stays as written -/
def removeParams (names : List Bytes) (q : Bytes) : Bytes :=
  if q = [] || names = [] then q else joinWith ['&'] ((splitOn '&' q).filter (keepPair names))

/-- `URLRewriter.Rewrite` -/
def Rewrite.apply (r : Rewrite) (u : Url) : Url :=
  let rawPath := transformPath r u.escapedPath
  let raw1 := if u.rawPath ≠ [] then rawPath else u.rawPath
  let path := (pathUnescapeL rawPath).getD []
  { scheme := if r.scheme ≠ [] then r.scheme else u.scheme,
    host := u.host,
    path := path,
    rawPath := if path ≠ rawPath then rawPath else raw1,
    rawQuery := removeParams r.stripQ u.rawQuery }

/-- `Backend.CreateURL` -/
def createURL (c : RuleCfg) (v : Url) : Url :=
  let u : Url := { scheme := v.scheme, host := c.host, path := v.path, rawPath := v.rawPath, rawQuery := v.rawQuery }
  match c.rewrite with
  | none => u
  | some r => r.apply u

/-- the part of `ruleImpl.Execute` that concerns the URL: `none` is the precondition error (400) -/
def ruleTarget (c : RuleCfg) (v : Url) : Option Url :=
  match c.slashes with
  | .on => some (createURL c { v with rawPath := [] })
  | .off => if containsEncodedSlashL v.rawPath then none else some (createURL c v)
  | .noDecode => some (createURL c v)

/-! ## `rewriteRequest` -/

def commaJoin (vs : List Bytes) : Bytes := joinWith b!", " vs

/-- `upstreamHeaders` as `rewriteRequest` uses it: canonical names, the first value of each -/
def pipeFirst (ph : Hdrs) : Hdrs := firstOfEach (canonHeaders ph)

/-- `upstreamCookies` is a map: the last value of a name wins; taken in name order -/
def cookieMap (cs : List (Bytes × Bytes)) : List (Bytes × Bytes) := sortByKey (firstOfEach cs.reverse)

/-- `sanitizeCookieName` of `net/http`: line breaks become `-` -/
def sanitizeCookieName (n : Bytes) : Bytes := n.map fun ch => if ch = '\n' || ch = '\r' then '-' else ch

/-- `validCookieValueByte` -/
def validCookieValueByte (ch : Char) : Bool := 0x20 ≤ ch.toNat && ch.toNat < 0x7f && ch ≠ '"' && ch ≠ ';' && ch ≠ '\\'

/-- `sanitizeCookieValue` (unquoted cookie): bytes that may not stand in a cookie value are dropped; what is left is
put between double quotes when it contains a blank or a comma; an empty value stays empty -/
def sanitizeCookieValue (v : Bytes) : Bytes :=
  let w := v.filter validCookieValueByte
  if w = [] then [] else if w.any (fun ch => ch = ' ' || ch = ',') then '"' :: w ++ ['"'] else w

/-- `(*http.Request).AddCookie` -/
def addCookie (h : Hdrs) (c : Bytes × Bytes) : Hdrs :=
  let s := sanitizeCookieName c.1 ++ '=' :: sanitizeCookieValue c.2
  if get h hCookie ≠ [] then set hCookie (get h hCookie ++ b!"; " ++ s) h else set hCookie s h

def forwardedElem (peer inHost proto : Bytes) : Bytes :=
  b!"for=" ++ peer ++ b!";host=" ++ inHost ++ b!";proto=" ++ proto

/-! ### what `httputil.ReverseProxy` does to the outgoing header before it calls `Rewrite` -/

/-- `hopHeaders` of `net/http/httputil` -/
def hopHeaders : List Bytes :=
  [hConnection, b!"Proxy-Connection", b!"Keep-Alive", b!"Proxy-Authenticate", b!"Proxy-Authorization", hTe,
   b!"Trailer", b!"Transfer-Encoding", hUpgrade]

def isOWS (c : Char) : Bool := c = ' ' || c = '\t'

/-- `textproto.TrimString` -/
def trimOWS (s : Bytes) : Bytes := ((s.dropWhile isOWS).reverse.dropWhile isOWS).reverse

/-- the comma separated elements of a header value -/
def listElems (v : Bytes) : List Bytes := (splitOn ',' v).map trimOWS

def lowerAll (s : Bytes) : Bytes := s.map lowerC

/-- `httpguts.HeaderValuesContainsToken` -/
def hasToken (vs : List Bytes) (tok : Bytes) : Bool := vs.any fun v => (listElems v).any fun e => lowerAll e = tok

/-- header names listed in the client's `Connection` header(s), canonical -/
def connectionNamed (h : Hdrs) : List Bytes :=
  ((values h hConnection).flatMap listElems).filter (· ≠ []) |>.map canonicalKey

/-- hop-by-hop for this request: the standard names and every name listed in `Connection` -/
def isHop (h : Hdrs) (k : Bytes) : Bool := hopHeaders.contains k || (connectionNamed h).contains k

/-- `Upgrade` is kept (with `Connection: Upgrade`) when the client asked for a protocol switch -/
def upgradeType (h : Hdrs) : Bytes := if hasToken (values h hConnection) b!"upgrade" then get h hUpgrade else []

/-- the outgoing header map `Rewrite` starts from: hop-by-hop headers removed (`removeHopByHopHeaders`), `Te: trailers`
and a requested upgrade put back, the forwarding headers `httputil` itself would set removed -/
def proxyOutHeaders (inH : Hdrs) : Hdrs :=
  let h0 := inH.filter fun x => !isHop inH x.1
  let h1 := if hasToken (values inH hTe) b!"trailers" then set hTe b!"trailers" h0 else h0
  let h2 := if upgradeType inH ≠ [] then set hUpgrade (upgradeType inH) (set hConnection b!"Upgrade" h1) else h1
  h2 |> del hForwarded |> del hXFFor |> del hXFHost |> del hXFProto

/-- headers of the outgoing request and its `Host`: `inH` are the client's headers as heimdall sees them (after the
trusted-proxy middleware) -/
def rewriteHeaders (inH : Hdrs) (p : Pipe) (peer inHost fwdHost proto : Bytes) : Bytes × Hdrs :=
  let out1 := proxyOutHeaders inH |> del hXFMethod |> del hXFUri |> del hXFPath
  let out2 := (pipeFirst p.headers).foldl (fun h kv => set kv.1 kv.2 h) out1
  let pHost := get (pipeFirst p.headers) hHost
  let host := if pHost ≠ [] then pHost else fwdHost
  let out3 := if pHost ≠ [] then del hHost out2 else out2
  let out4 := (cookieMap p.cookies).foldl addCookie out3
  let fHost := get inH hXFHost
  let fProto := get inH hXFProto
  let fFor := commaJoin (values inH hXFFor)
  let fwd := commaJoin (values inH hForwarded)
  let out5 :=
    if fFor ≠ [] || fProto ≠ [] || fHost ≠ [] then
      out4 |> set hXFFor (if fFor = [] then peer else fFor ++ b!", " ++ peer)
           |> set hXFProto (if fProto = [] then proto else fProto)
           |> set hXFHost (if fHost = [] then inHost else fHost)
    else
      out4 |> set hForwarded
        (if fwd = [] then forwardedElem peer inHost proto else fwd ++ b!", " ++ forwardedElem peer inHost proto)
  (host, out5)

/-- header names `(*http.Request).write` does not take from the header map -/
def notWritten (k : Bytes) : Bool :=
  k = hHost || k = hUserAgent || k = b!"Content-Length" || k = b!"Transfer-Encoding" || k = b!"Trailer"

/-- a header value as `Header.Write` / `Request.write` put it on the wire, which is how the upstream reads it: without
leading and trailing blanks and tabs (`textproto.TrimString`).  A value the pipeline rendered as blanks only is read as
the empty value. -/
def wireValue (v : Bytes) : Bytes := trimOWS v

/-- `User-Agent` is written from its first value, and only when that is not empty (the test precedes the trimming) -/
def uaLine (h : Hdrs) : Hdrs :=
  match values h hUserAgent with
  | v :: _ => if v = [] then [] else [(hUserAgent, wireValue v)]
  | [] => []

/-- `http.Transport` asks for gzip itself when the request does not say anything about encodings -/
def gzipLine (method : Bytes) (h : Hdrs) : Hdrs :=
  if get h hAcceptEncoding = [] && get h hRange = [] && method ≠ b!"HEAD" then [(hAcceptEncoding, b!"gzip")] else []

/-- the header lines the upstream reads (framing headers left out), sorted by name; a line is written for every entry
of the header map, also for an empty value -/
def wireHeaders (method : Bytes) (h : Hdrs) : Hdrs :=
  sortHdrs (uaLine h ++ (h.filter (fun x => !notWritten x.1)).map (fun x => (x.1, wireValue x.2)) ++ gzipLine method h)

/-! ## The whole path -/

def forward (c : Case) : Outcome :=
  if !modelledTarget c.req.target then .unmodelled else
  match serverParse c.req with
  | none => .rejected 400
  | some s =>
    let inH := trustStrip (isTrusted c.trusted c.req.peer) s.headers
    if get inH hXFUri ≠ [] && !modelledForwardedUri (get inH hXFUri) then .unmodelled else
    match ruleTarget c.rule (extractURL c.req.tls inH s) with
    | none => .rejected 400
    | some t =>
      if t.scheme ≠ b!"http" && t.scheme ≠ b!"https" then .rejected 502 else
      let hh := rewriteHeaders inH c.pipe c.req.peer s.host c.rule.host (listenerProto c.req.tls)
      .forwarded (t.scheme = b!"https") t.host
        { method := extractMethod inH s, path := orSlash t.escapedPath, query := t.rawQuery, host := hh.1,
          headers := wireHeaders (extractMethod inH s) hh.2, body := c.req.body }

end Heimdall.ProxyFwd
