/-!
# `jwtSigner` under concurrency: token creation, key-set reads and key-store reloads as a small-step machine (C16)

Any number of threads (indexed by `Nat`) run one of

* a *signer* (`Sign`): read-lock `mut`, copy `jwk`, copy `key`, unlock, then work on the copies only;
* a *reader* (`Keys`, also `Hash` and `activeCertificateChain`): read-lock `mut`, read one guarded field, unlock;
* a *loader* (`load`, started by `OnChanged` on a goroutine of its own per file event): parse the key store file
  outside the lock (this may fail, then nothing else happens), lock `mut`, write `jwk`, `key`, `pubKeys`, unlock.

`S` is the type of *generations*: what one successful parse of the key store file delivers.  Each guarded field
holds the generation its current content was taken from, so a torn state is one in which the three fields name
different generations.  Ghost state: `log`, the generations in commit order (the initial one first); `rset`, the
threads holding the read lock (the read-lock counter of the `RWMutex` is its length).
-/
namespace Heimdall.SignerConc

inductive SPc where
  | idle | rHeld | gotJwk | gotKey | done
deriving DecidableEq, Repr

inductive RPc where
  | idle | rHeld | got | done
deriving DecidableEq, Repr

inductive LPc where
  | idle | failed | parsed | wHeld | wroteJwk | wroteKey | wrotePub | done
deriving DecidableEq, Repr

inductive Thread (S : Type) where
  /-- `a`: generation the copied JWK came from, `b`: generation the copied key came from, `n`: number of generations
  committed when the JWK was copied -/
  | signer (pc : SPc) (a b : Option S) (n : Nat)
  | reader (pc : RPc) (p : Option S) (n : Nat)
  | loader (new : S) (pc : LPc)

def upd {α : Type} (f : Nat → α) (i : Nat) (v : α) : Nat → α := fun j => if j = i then v else f j

structure Config (S : Type) where
  jwk     : S
  key     : S
  pub     : S
  writer  : Option Nat        -- write holder of `mut`
  rset    : List Nat          -- read holders of `mut`
  log     : List S            -- ghost: committed generations, oldest first
  threads : Nat → Thread S

variable {S : Type}

open Thread in
inductive Step : Config S → Config S → Prop
  | sLock (c i) (h : c.threads i = signer .idle none none 0) (free : c.writer = none) :
      Step c { c with rset := i :: c.rset, threads := upd c.threads i (signer .rHeld none none 0) }
  | sReadJwk (c i) (h : c.threads i = signer .rHeld none none 0) :
      Step c { c with threads := upd c.threads i (signer .gotJwk (some c.jwk) none c.log.length) }
  | sReadKey (c i a n) (h : c.threads i = signer .gotJwk a none n) :
      Step c { c with threads := upd c.threads i (signer .gotKey a (some c.key) n) }
  | sUnlock (c i a b n) (h : c.threads i = signer .gotKey a b n) :
      Step c { c with rset := c.rset.erase i, threads := upd c.threads i (signer .done a b n) }
  | rLock (c i) (h : c.threads i = reader .idle none 0) (free : c.writer = none) :
      Step c { c with rset := i :: c.rset, threads := upd c.threads i (reader .rHeld none 0) }
  | rRead (c i) (h : c.threads i = reader .rHeld none 0) :
      Step c { c with threads := upd c.threads i (reader .got (some c.pub) c.log.length) }
  | rUnlock (c i p n) (h : c.threads i = reader .got p n) :
      Step c { c with rset := c.rset.erase i, threads := upd c.threads i (reader .done p n) }
  | lFail (c i new) (h : c.threads i = loader new .idle) :
      Step c { c with threads := upd c.threads i (loader new .failed) }
  | lParse (c i new) (h : c.threads i = loader new .idle) :
      Step c { c with threads := upd c.threads i (loader new .parsed) }
  | lLock (c i new) (h : c.threads i = loader new .parsed) (free : c.writer = none) (nor : c.rset = []) :
      Step c { c with writer := some i, threads := upd c.threads i (loader new .wHeld) }
  | lWriteJwk (c i new) (h : c.threads i = loader new .wHeld) (hl : c.writer = some i) :
      Step c { c with jwk := new, threads := upd c.threads i (loader new .wroteJwk) }
  | lWriteKey (c i new) (h : c.threads i = loader new .wroteJwk) (hl : c.writer = some i) :
      Step c { c with key := new, threads := upd c.threads i (loader new .wroteKey) }
  | lWritePub (c i new) (h : c.threads i = loader new .wroteKey) (hl : c.writer = some i) :
      Step c { c with pub := new, log := c.log ++ [new], threads := upd c.threads i (loader new .wrotePub) }
  | lUnlock (c i new) (h : c.threads i = loader new .wrotePub) (hl : c.writer = some i) :
      Step c { c with writer := none, threads := upd c.threads i (loader new .done) }

/-- initial configurations: the constructor has loaded generation `s0`, nothing is locked, every thread at its start -/
def Initial (s0 : S) (c : Config S) : Prop :=
  c.jwk = s0 ∧ c.key = s0 ∧ c.pub = s0 ∧ c.writer = none ∧ c.rset = [] ∧ c.log = [s0] ∧
  ∀ i, c.threads i = .signer .idle none none 0 ∨ c.threads i = .reader .idle none 0 ∨
       ∃ new, c.threads i = .loader new .idle

/-- the configurations a run started in `c0` can be in -/
inductive Reachable (c0 : Config S) : Config S → Prop
  | init : Reachable c0 c0
  | step (c c') : Reachable c0 c → Step c c' → Reachable c0 c'

end Heimdall.SignerConc
