import HeimdallModel.Gen.CacheConsts
/-!
# Cache TTL rules of the caching mechanisms (C10)

What the seven cache users under `internal/rules` hand to `cache.Set`, and when they consult the cache at all.
All durations are whole seconds (`Int`), `cfg : Option Int` is the effective `cache_ttl` (`none` = not configured),
`rem : Option Int` the remaining lifetime of the thing about to be cached as reported by the remote party
(`exp − now` of an introspection response / session, `NotAfter − now` of the first certificate of a JWK,
`expires_in` of a token endpoint response; `none` = no such information).

The model is the behaviour with the fixes `fixes/C10-2.patch` (a remaining lifetime inside the cache leeway means
"do not cache"; before, `getCacheTTL` of the introspection and JWT authenticators and of the client-credentials
strategy mapped it to 0 = "no information" and fell back to the configured TTL) and `fixes/C10-3.patch`
(`cache_ttl: 0s` in a rule-level override of the remote authorizer is honoured). A negative `validity_leeway` of the
introspection and generic authenticators is refused when the configuration is loaded (`fixes/C10-5.patch`: with it a
token would be refused as expired while the cache, which keeps a fixed positive leeway, still serves it); the
theorems carry the hypothesis `0 ≤ vl`. The JWT finalizer's signer sets `exp`, `iat` and `nbf` itself after merging
the claims rendered from the template, so a template cannot change the lifetime the cache TTL is derived from.
-/
namespace Heimdall.Validity

inductive Mech
  | introspection   -- authenticators/oauth2_introspection_authenticator.go
  | generic         -- authenticators/generic_authenticator.go
  | jwtKey          -- authenticators/jwt_authenticator.go (verification keys from the JWKS endpoint)
  | clientCreds     -- oauth2/clientcredentials/clientcredentials.go (finalizer and endpoint auth strategy)
  | jwtFinalizer    -- finalizers/jwt_finalizer.go
  | remoteAuthz     -- authorizers/remote_authorizer.go
  | contextualizer  -- contextualizers/generic_contextualizer.go
deriving DecidableEq, Repr

/-- the constant `timeLeeway` / `defaultCacheLeeway` of each mechanism, as found in the current source
(`Gen/CacheConsts.lean` is regenerated on every run; at the time of writing 10, 10, 10, 5, 5 seconds) -/
def Mech.leeway : Mech → Int
  | .introspection => Gen.introspectionLeeway
  | .generic => Gen.genericLeeway
  | .jwtKey => Gen.jwtKeyLeeway
  | .clientCreds => Gen.clientCredsLeeway
  | .jwtFinalizer => Gen.jwtFinalizerLeeway
  | .remoteAuthz => 0
  | .contextualizer => 0

/-- `WithConfig`: a rule-level value replaces the one of the mechanism's prototype, also when it is zero -/
def effective (proto ovr : Option Int) : Option Int :=
  match ovr with
  | some v => some v
  | none => proto

/-- TTL used when the configuration says nothing -/
def Mech.defaultTTL : Mech → Int
  | .jwtKey => Gen.jwtKeyDefaultTTL                 -- defaultJWTAuthenticatorTTL
  | .contextualizer => Gen.contextualizerDefaultTTL -- defaultTTL
  | .jwtFinalizer => Gen.jwtFinalizerDefaultTTL     -- defaultJWTTTL (lifetime of the issued token)
  | _ => 0

/-- lifetime of the tokens issued by the JWT finalizer (its `ttl` setting) -/
def tokenLifetime (cfg : Option Int) : Int := cfg.getD Mech.jwtFinalizer.defaultTTL

/-- `isCacheEnabled` of the introspection / JWT authenticators and of client credentials -/
def ptrEnabled (cfg : Option Int) : Bool :=
  match cfg with
  | none => true
  | some c => decide (0 < c)

/-- is the cache looked up before going to the remote party -/
def lookupEnabled (m : Mech) (cfg : Option Int) : Bool :=
  match m with
  | .introspection | .jwtKey | .clientCreds => ptrEnabled cfg
  | .generic | .remoteAuthz | .contextualizer => decide (0 < cfg.getD m.defaultTTL)
  | .jwtFinalizer => true

/-- `getCacheTTL` of the introspection / JWT authenticators and client credentials (fixed): with a known remaining
lifetime nothing is cached unless more than the leeway is left, and a configured TTL can only shorten the rest -/
def derivedTTL (leeway configured : Int) (rem : Option Int) : Int :=
  match rem with
  | none => configured
  | some r =>
    if r - leeway ≤ 0 then 0
    else if configured = 0 then r - leeway
    else min configured (r - leeway)

/-- the TTL handed to `cache.Set`; the mechanisms call `Set` only if it is positive -/
def cacheTTL (m : Mech) (cfg : Option Int) (rem : Option Int) : Int :=
  match m with
  | .introspection | .clientCreds =>
    if ptrEnabled cfg then derivedTTL m.leeway (cfg.getD 0) rem else 0
  | .jwtKey =>
    if ptrEnabled cfg then derivedTTL m.leeway (cfg.getD m.defaultTTL) rem else 0
  | .generic =>
    let c := cfg.getD 0
    if c ≤ 0 then 0 else
    match rem with
    | some r => min c (max 0 (r - m.leeway))
    | none => c
  | .jwtFinalizer =>
    let t := tokenLifetime cfg
    if m.leeway < t then t - m.leeway else 0
  | .remoteAuthz | .contextualizer =>
    let c := cfg.getD m.defaultTTL
    if 0 < c then c else 0

/-- the validity leeway applied when a fresh answer is checked (`validity_leeway`; 0 = not set = the default of
`oauth2.Expectation` respectively `SessionLifespan`) -/
def validityLeeway (m : Mech) (vl : Int) : Int :=
  if vl = 0 then (match m with
    | .generic => Gen.sessionValidityLeeway
    | _ => Gen.tokenValidityLeeway)
  else vl

/-- is a fresh answer of the remote party accepted (`AssertValidity` / `SessionLifespan.assertValidity`: refused
when `now − leeway ≥ exp`; certificate validation: refused when `now` is after `NotAfter`) -/
def acceptsFresh (m : Mech) (vl : Int) (rem : Option Int) : Bool :=
  match m, rem with
  | .introspection, some r => decide (-(validityLeeway m vl) < r)
  | .generic, some r => decide (-(validityLeeway m vl) < r)
  | .jwtKey, some r => decide (0 < r)
  | _, _ => true

/-- Certificates that come with a JWK after its own one (`x5c[1:]`, the issuing CAs), given as remaining lifetimes:
`validateJWK` hands them to the certificate validation as intermediates of the key's own certificate `x5c[0]`, so a
fresh key is refused unless every one of them is still valid. They play no role for the cache TTL. -/
def chainValid (m : Mech) (moreRem : List Int) : Bool :=
  match m with
  | .jwtKey => moreRem.all (fun r => decide (0 < r))
  | _ => true

end Heimdall.Validity
