import HeimdallModel.Model.Jwt
/-!
# The JWT authenticator among the other mechanisms of one process (property C05, round 6)

A heimdall process creates many mechanisms from one configuration: several `jwt` authenticators,
`oauth2_introspection` authenticators (which embed the same `oauth2.Expectation`), rule-level copies of them
(`WithConfig`).  What they could share is the list `defaultAllowedAlgorithms()` hands out when a mechanism does not
configure `assertions.allowed_algorithms`.  In the code every call builds a fresh list, a mechanism which configures
its own list decodes it into a zero value of its own, and `Expectation.Merge` only reads — so creating a mechanism
leaves what the next caller of `defaultAllowedAlgorithms()` gets, and what an existing authenticator holds, alone.

The model makes that state explicit: a `Process` carries the list the *next* reader of the defaults sees; the
authenticator under test reads it whenever it needs it (`Config.inProcess`, at every request - the most pessimistic
reading: a list that was obtained at creation time and is shared afterwards is covered by it).  `Process.create` is
what creating a neighbour does to the process.  `runIn` is a history of events: neighbours being created at any
moment (before the authenticator under test, between its prototype and its rule-level copy, between two requests) and
requests to the authenticator under test with its JWK cache.

Tie: the correspondence check of the `jwt` family creates the neighbours of a case (`neighbours`: type, complete
configuration, optional rule-level configuration, moment) with the real `CreatePrototype` / `WithConfig` in the
process of the authenticator under test and compares request by request with `runIn`.
-/
namespace Heimdall.Jwt

inductive MechKind
  | jwt
  | introspection
  deriving DecidableEq, Repr, Inhabited

/-- another mechanism of the process: its type, the `allowed_algorithms` of its mechanism-level configuration
(`[]` = not configured) and of a rule-level configuration, if a rule-level copy is made -/
structure Neighbour where
  kind : MechKind := .introspection
  algs : List String := []
  ruleAlgs : Option (List String) := none
  deriving DecidableEq, Repr, Inhabited

/-- what the mechanisms of one process share -/
structure Process where
  /-- what `defaultAllowedAlgorithms()` delivers to its next reader -/
  defaults : List String := Gen.defaultAllowed
  /-- the allowed algorithms the mechanisms created so far hold (prototype, then rule-level copy) -/
  held : List (List String) := []
  deriving DecidableEq, Repr, Inhabited

/-- the allowed algorithms a mechanism holds after its creation in process `p` -/
def Neighbour.own (n : Neighbour) (p : Process) : List String := if n.algs ≠ [] then n.algs else p.defaults

/-- creating a neighbour (`newOAuth2IntrospectionAuthenticator` / `newJwtAuthenticator`: decode into a zero value,
then `if len(AllowedAlgorithms) == 0 { … = defaultAllowedAlgorithms() }`; `WithConfig`: `conf.Assertions.Merge(a.a)`):
the new mechanism holds a list, the defaults of the process are what they were -/
def Process.create (p : Process) (n : Neighbour) : Process :=
  { p with
    held := p.held ++ n.own p ::
      (match n.ruleAlgs with
       | none => []
       | some r => [if r ≠ [] then r else n.own p]) }

/-- the configuration of the authenticator under test as it reads it in process `p`: its own allowed algorithms if
it configures any, else whatever the defaults of the process are at that moment -/
def Config.inProcess (cfg : Config) (p : Process) : Config :=
  { cfg with
    assertions := { cfg.assertions with
      algs := if cfg.assertions.algs ≠ [] then cfg.assertions.algs else p.defaults } }

/-- what happens in the process after it started -/
inductive Event
  /-- some other mechanism is created -/
  | create (n : Neighbour)
  /-- a request reaches the authenticator under test -/
  | request (w : World) (p : Presented) (nowMs : Int)
  deriving Inhabited

/-- the requests of a history -/
def requestsOf : List Event → List (World × Presented × Int)
  | [] => []
  | .create _ :: rest => requestsOf rest
  | .request w p now :: rest => (w, p, now) :: requestsOf rest

/-- the outcomes of the requests of a history, the authenticator under test living in process `p` with JWK cache
`cache` -/
def runIn (cfg : Config) (rule : Option Expectation) : List Event → Process → Cache → List Outcome
  | [], _, _ => []
  | .create n :: rest, p, cache => runIn cfg rule rest (p.create n) cache
  | .request w pr now :: rest, p, cache =>
    (step (cfg.inProcess p) rule w cache pr now).1 ::
      runIn cfg rule rest p (step (cfg.inProcess p) rule w cache pr now).2

end Heimdall.Jwt
