import HeimdallModel.Model.Mech
/-!
# The mechanism types of heimdall as an instance of the machine of `Model/Mech.lean` (C17)

Values are lists of configuration entries `(key, canonical JSON text)`; a key is the top-level key plus, for the
nested objects that are addressed entry by entry (`assertions`, `header`, `values`), the key inside.  Every Go struct of a mechanism is described by
its *leaf* fields (fields of embedded by-value structs are spelled `e.Headers`, `a.TrustedIssuers`, …), each with

* whether it is a reference (pointer, map, slice, interface, func: shared with the prototype when inherited) or a
  plain value (copied),
* the configuration keys its catalogue value comes from,
* what `WithConfig` does with it (`Rule`).

`create` is `mechanismsFactory.Create*` followed by the type's `WithConfig`: a rule without `config` gets the
prototype itself, types that cannot be reconfigured return the prototype (or an error), all others a new
instance built by `Mech.withConfig`.
-/
namespace Heimdall.Mech

/-- a configuration key: the top-level key and, for the nested objects that are addressed entry by entry
(`assertions`, `header`, `values`), the key inside; `""` otherwise -/
abbrev Key := String × String

/-- a value: the configuration entries `(key, canonical JSON text)` that determine it -/
abbrev Entries := List (Key × String)

/-- what `WithConfig` does with a field -/
inductive Rule where
  /-- copied from the receiver -/
  | keep
  /-- taken from the override if it sets `key` (to something different from the zero value unless `zeroOk`: the
  code tells "not set" from "set" by a nil pointer for some fields and by the zero value for the others) -/
  | over (key : Key) (zeroOk : Bool)
  /-- the override's entries under `key` are laid over the receiver's entries, one by one (`values.Values.Merge`) -/
  | merge (key : Key)
  /-- built from the override alone (the type is re-created by its constructor) -/
  | fromOv (key : Key)
deriving Repr, DecidableEq

inductive Mode where
  /-- `WithConfig` returns the receiver whatever the configuration is -/
  | fixed
  /-- a non-empty configuration is an error -/
  | reject
  /-- empty configuration: the receiver; otherwise a new instance -/
  | overlay
  /-- a new instance even for an empty configuration (no shortcut in the code) -/
  | overlayAlways
deriving Repr, DecidableEq

structure SlotD where
  field : String     -- field of the Go struct
  name  : String     -- leaf: the field itself, or a field of the by-value struct it holds (`e.Headers`)
  ref   : Bool
  load  : List Key
  rule  : Rule
deriving Repr, DecidableEq

structure TypeD where
  kind  : String     -- authenticator | authorizer | contextualizer | finalizer | error_handler
  name  : String     -- `type` in the catalogue
  go    : String     -- Go struct
  mode  : Mode
  slots : List SlotD
deriving Repr, DecidableEq

private def k (top : String) : Key := (top, "")
private def v (name : String) (load : List Key) (rule : Rule := .keep) : SlotD := ⟨name, name, false, load, rule⟩
private def r (name : String) (load : List Key) (rule : Rule := .keep) : SlotD := ⟨name, name, true, load, rule⟩
private def idSlot : SlotD := v "id" []

/-- `endpoint.Endpoint` embedded by value under field `e`, configured under `key` -/
private def endpointSlots (key : Key) : List SlotD :=
  [⟨"e", "e.URL", false, [key], .keep⟩, ⟨"e", "e.Method", false, [key], .keep⟩, ⟨"e", "e.Retry", true, [key], .keep⟩,
   ⟨"e", "e.AuthStrategy", true, [key], .keep⟩, ⟨"e", "e.Headers", true, [key], .keep⟩,
   ⟨"e", "e.HTTPCache", true, [key], .keep⟩]

/-- `oauth2.Expectation` embedded by value under field `a`; `Expectation.Merge` keeps the override's non-empty parts -/
private def expectationSlots : List SlotD :=
  [⟨"a", "a.TrustedIssuers", true, [("assertions", "issuers")], .over ("assertions", "issuers") false⟩,
   ⟨"a", "a.ScopesMatcher", true, [("assertions", "scopes")], .over ("assertions", "scopes") true⟩,
   ⟨"a", "a.Audiences", true, [("assertions", "audience")], .over ("assertions", "audience") false⟩,
   ⟨"a", "a.AllowedAlgorithms", true, [("assertions", "allowed_algorithms")],
     .over ("assertions", "allowed_algorithms") false⟩,
   ⟨"a", "a.ValidityLeeway", false, [("assertions", "validity_leeway")], .over ("assertions", "validity_leeway") false⟩]

def types : List TypeD := [
  ⟨"authenticator", "anonymous", "anonymousAuthenticator", .overlay,
    [idSlot, v "Subject" [k "subject"] (.fromOv (k "subject"))]⟩,
  ⟨"authenticator", "basic_auth", "basicAuthAuthenticator", .overlay,
    [idSlot, v "userID" [k "user_id"] (.over (k "user_id") false),
     v "password" [k "password"] (.over (k "password") false),
     v "allowFallbackOnError" [k "allow_fallback_on_error"] (.over (k "allow_fallback_on_error") true)]⟩,
  ⟨"authenticator", "generic", "genericAuthenticator", .overlay,
    [idSlot] ++ endpointSlots (k "identity_info_endpoint") ++
    [r "ads" [k "authentication_data_source"], r "payload" [k "payload"], r "fwdHeaders" [k "forward_headers"],
     r "fwdCookies" [k "forward_cookies"], r "sf" [k "subject"], v "ttl" [k "cache_ttl"] (.over (k "cache_ttl") true),
     r "sessionLifespanConf" [k "session_lifespan"],
     v "allowFallbackOnError" [k "allow_fallback_on_error"] (.over (k "allow_fallback_on_error") true)]⟩,
  ⟨"authenticator", "jwt", "jwtAuthenticator", .overlay,
    [idSlot, r "r" [k "jwks_endpoint", k "metadata_endpoint"]] ++ expectationSlots ++
    [r "ttl" [k "cache_ttl"] (.over (k "cache_ttl") true), r "sf" [k "subject"], r "ads" [k "jwt_source"],
     v "allowFallbackOnError" [k "allow_fallback_on_error"] (.over (k "allow_fallback_on_error") true),
     r "trustStore" [k "trust_store"], v "validateJWKCert" [k "validate_jwk"]]⟩,
  ⟨"authenticator", "oauth2_introspection", "oauth2IntrospectionAuthenticator", .overlay,
    [idSlot, r "r" [k "introspection_endpoint", k "metadata_endpoint"]] ++ expectationSlots ++
    [r "sf" [k "subject"], r "ads" [k "token_source"], r "ttl" [k "cache_ttl"] (.over (k "cache_ttl") true),
     v "allowFallbackOnError" [k "allow_fallback_on_error"] (.over (k "allow_fallback_on_error") true)]⟩,
  ⟨"authenticator", "unauthorized", "unauthorizedAuthenticator", .fixed, [idSlot]⟩,
  ⟨"authorizer", "allow", "allowAuthorizer", .fixed, [idSlot]⟩,
  ⟨"authorizer", "cel", "celAuthorizer", .overlay,
    [idSlot, r "expressions" [k "expressions"] (.fromOv (k "expressions"))]⟩,
  ⟨"authorizer", "deny", "denyAuthorizer", .fixed, [idSlot]⟩,
  ⟨"authorizer", "remote", "remoteAuthorizer", .overlay,
    [idSlot] ++ endpointSlots (k "endpoint") ++
    [r "payload" [k "payload"] (.over (k "payload") false),
     r "expressions" [k "expressions"] (.over (k "expressions") false),
     r "headersForUpstream" [k "forward_response_headers_to_upstream"]
       (.over (k "forward_response_headers_to_upstream") false),
     v "ttl" [k "cache_ttl"] (.over (k "cache_ttl") true), r "celEnv" [], r "v" [k "values"] (.merge (k "values"))]⟩,
  ⟨"contextualizer", "generic", "genericContextualizer", .overlay,
    [idSlot] ++ endpointSlots (k "endpoint") ++
    [v "ttl" [k "cache_ttl"] (.over (k "cache_ttl") true), r "payload" [k "payload"] (.over (k "payload") false),
     r "fwdHeaders" [k "forward_headers"] (.over (k "forward_headers") false),
     r "fwdCookies" [k "forward_cookies"] (.over (k "forward_cookies") false),
     v "continueOnError" [k "continue_pipeline_on_error"] (.over (k "continue_pipeline_on_error") true),
     r "v" [k "values"] (.merge (k "values"))]⟩,
  ⟨"error_handler", "default", "defaultErrorHandler", .reject, [idSlot]⟩,
  ⟨"error_handler", "redirect", "redirectErrorHandler", .reject, [idSlot, r "to" [k "to"], v "code" [k "code"]]⟩,
  ⟨"error_handler", "www_authenticate", "wwwAuthenticateErrorHandler", .overlay,
    [idSlot, v "realm" [k "realm"] (.fromOv (k "realm"))]⟩,
  ⟨"finalizer", "cookie", "cookieFinalizer", .overlay, [idSlot, r "cookies" [k "cookies"] (.fromOv (k "cookies"))]⟩,
  ⟨"finalizer", "header", "headerFinalizer", .overlay, [idSlot, r "headers" [k "headers"] (.fromOv (k "headers"))]⟩,
  ⟨"finalizer", "jwt", "jwtFinalizer", .overlay,
    [idSlot, r "claims" [k "claims"] (.over (k "claims") false), v "ttl" [k "ttl"] (.over (k "ttl") true),
     v "headerName" [("header", "name")], v "headerScheme" [("header", "scheme")], r "signer" [k "signer"]]⟩,
  ⟨"finalizer", "noop", "noopFinalizer", .fixed, [idSlot]⟩,
  ⟨"finalizer", "oauth2_client_credentials", "oauth2ClientCredentialsFinalizer", .overlayAlways,
    [idSlot, ⟨"cfg", "cfg.TokenURL", false, [k "token_url"], .keep⟩, ⟨"cfg", "cfg.ClientID", false, [k "client_id"], .keep⟩,
     ⟨"cfg", "cfg.ClientSecret", false, [k "client_secret"], .keep⟩,
     ⟨"cfg", "cfg.AuthMethod", false, [k "auth_method"], .keep⟩,
     ⟨"cfg", "cfg.Scopes", true, [k "scopes"], .over (k "scopes") true⟩,
     ⟨"cfg", "cfg.TTL", true, [k "cache_ttl"], .over (k "cache_ttl") true⟩,
     v "headerName" [("header", "name")] (.over ("header", "name") true),
     v "headerScheme" [("header", "scheme")] (.over ("header", "scheme") false)]⟩
]

def typeByGo (go : String) : Option TypeD := types.find? fun t => t.go == go
def typeByName (kind name : String) : Option TypeD := types.find? fun t => t.kind == kind && t.name == name
def TypeD.slot (t : TypeD) (s : String) : Option SlotD := t.slots.find? fun x => x.name == s

def dedup (l : List String) : List String := l.foldl (fun acc x => if acc.contains x then acc else acc ++ [x]) []

/-- the fields of the Go struct as the model sees them -/
def TypeD.fields (t : TypeD) : List String := dedup (t.slots.map (·.field))

/-- the leaves of a Go field -/
def TypeD.leaves (t : TypeD) (field : String) : List String :=
  (t.slots.filter fun s => s.field == field).map (·.name)

/-! ## entries -/

/-- an entry key is addressed by a rule key: same top-level key and, if the rule names one, same inner key -/
def belongs (e key : Key) : Bool := e.1 == key.1 && (key.2 == "" || e.2 == key.2)

def entriesOf (cfg : Entries) (keys : List Key) : Entries := cfg.filter fun e => keys.any (belongs e.1)

/-- the zero values of the configuration language: the code cannot tell them from "not set" where it does not
decode into a pointer -/
def isZero (json : String) : Bool := ["null", "\"\"", "0", "\"0s\"", "[]", "{}", "false"].contains json

/-- lay `new` over `old`: replace the entries with a known key, append the others -/
def mergeEntries (old new : Entries) : Entries :=
  new.foldl (fun acc e => if acc.any (fun x => x.1 == e.1) then acc.map (fun x => if x.1 == e.1 then e else x)
                          else acc ++ [e]) old

/-- `valuesOk`: the decoder and the validator of the mechanism type accept the *values* of the rule's `config`
(a template parses, a duration is a duration, `ttl` of the jwt finalizer is more than a second, …).  Value-level
validation is not modelled; it enters as this flag. -/
structure Override where
  topKeys  : List String   -- keys of the rule's `config` object
  entries  : Entries
  valuesOk : Bool := true
deriving Repr, DecidableEq

def applyRule (rule : Rule) (old : Entries) (ov : Override) : Option Entries :=
  match rule with
  | .keep => none
  | .over key zeroOk =>
    if (entriesOf ov.entries [key]).isEmpty then none
    else if zeroOk || (entriesOf ov.entries [key]).any (fun e => !isZero e.2) then some (entriesOf ov.entries [key])
    else none
  | .merge key =>
    if (entriesOf ov.entries [key]).isEmpty then none else some (mergeEntries old (entriesOf ov.entries [key]))
  | .fromOv key => some (entriesOf ov.entries [key])

/-- the heimdall instance of `Desc` -/
def heimdall : Desc Entries Override where
  byValue typ s := match (typeByGo typ).bind (·.slot s) with
    | some d => !d.ref
    | none => true
  replace typ s old ov := match (typeByGo typ).bind (·.slot s) with
    | some d => applyRule d.rule old ov
    | none => none

/-! ## catalogue and factory -/

/-- keys a rule may set for a type: those some field takes from the override -/
def TypeD.overridable (t : TypeD) : List Key :=
  t.slots.filterMap fun s => match s.rule with
    | .keep => none
    | .over k _ => some k
    | .merge k => some k
    | .fromOv k => some k

def Override.valid (t : TypeD) (ov : Override) : Bool :=
  ov.valuesOk && ov.topKeys.all (fun k => t.overridable.any fun o => o.1 == k) &&
  ov.entries.all (fun e => t.overridable.any fun o => belongs e.1 o)

/-- load one prototype: a cell per leaf field holding the entries it is configured by -/
def load (σ : Store Entries Override) (t : TypeD) (id : String) (cfg : Entries) : Store Entries Override :=
  let vals := t.slots.map fun s => if s.name == "id" then [(("id", ""), id)] else entriesOf cfg s.load
  let slots := (t.slots.map (·.name)).zip ((List.range t.slots.length).map (· + σ.cells.length))
  { cells := σ.cells ++ vals, insts := σ.insts ++ [⟨t.go, slots⟩], origin := σ.origin ++ [none] }

/-- what `mechanismsFactory.Create…` decides before anything is copied -/
inductive Decision where
  | notFound
  | configError
  | proto (h : Nat)                     -- the prototype itself
  | build (p : Nat) (ov : Override)     -- `WithConfig` copies prototype `p`
deriving Repr, DecidableEq

/-- `mechanismsFactory.Create…(id, config)` up to the point where `WithConfig` starts copying: `p` is the handle the
catalogue has for `id` -/
def decision (σ : Store Entries Override) (p : Option Nat) (ov : Option Override) : Decision :=
  match p with
  | none => .notFound
  | some p =>
    match ov with
    | none => .proto p
    | some ov =>
      match (σ.insts[p]?).bind (fun i => typeByGo i.typ) with
      | none => .notFound
      | some t =>
        match t.mode with
        | .fixed => .proto p
        | .reject => if ov.topKeys.isEmpty then .proto p else .configError
        | .overlay =>
          if ov.topKeys.isEmpty then .proto p
          else if !ov.valid t then .configError
          else .build p ov
        | .overlayAlways => if !ov.valid t then .configError else .build p ov

inductive Created where
  | notFound
  | configError
  | proto (h : Nat)                                   -- the prototype itself
  | variant (σ : Store Entries Override) (h : Nat)    -- a new instance

/-- `mechanismsFactory.Create…(id, config)` run without interruption -/
def create (σ : Store Entries Override) (p : Option Nat) (ov : Option Override) : Created :=
  match decision σ p ov with
  | .notFound => .notFound
  | .configError => .configError
  | .proto h => .proto h
  | .build p ov =>
    match withConfig heimdall σ p ov with
    | some (σ', h) => .variant σ' h
    | none => .notFound

/-- the configuration a view stands for: all entries of all its fields -/
def effOfView (view : List (String × Option Entries)) : Entries :=
  view.foldl (fun acc sv => if sv.1 == "id" then acc else
    (sv.2.getD []).foldl (fun acc e => if acc.contains e then acc else acc ++ [e]) acc) []

/-- the configuration an instance stands for (what the rule "observes") -/
def effective (σ : Store Entries Override) (h : Nat) : Entries :=
  match σ.view h with
  | none => []
  | some view => effOfView view

/-! ## What the property demands of the table: the rule's own setting always wins -/

/-- the rule of the specification: whatever the rule sets is observed, also a zero value -/
def specRule : Rule → Rule
  | .over key _ => .over key true
  | r => r

/-- `heimdall` with every field following `specRule` -/
def heimdallSpec : Desc Entries Override where
  byValue := heimdall.byValue
  replace typ s old ov := match (typeByGo typ).bind (·.slot s) with
    | some d => applyRule (specRule d.rule) old ov
    | none => none

/-- the configuration a rule has to observe for catalogue entry `p` and its own `config` -/
def effectiveSpec (σ : Store Entries Override) (p : Nat) (ov : Override) : Entries :=
  match σ.insts[p]? with
  | none => []
  | some i => effOfView (overlayView heimdallSpec i.typ ov (viewOf σ.cells i.slots))

/-- the keys for which the code cannot tell the zero value from "not set" and that `ov` sets to a zero value -/
def zeroIgnored (t : TypeD) (ov : Override) : List Key :=
  t.slots.filterMap fun s => match s.rule with
    | .over key false =>
      if !(entriesOf ov.entries [key]).isEmpty && (entriesOf ov.entries [key]).all (fun e => isZero e.2) then some key
      else none
    | _ => none

/-! ## Histories of creations on one factory

`mechanismsFactory` has no state besides the catalogue: `createSeq` threads the store through a history of `Create…`
calls, one after the other (the concurrent case is the machine of `Model/Mech.lean`).  `Props/C17.lean` shows that every
answer of such a history is the answer the request gets when it is the only one the factory ever sees.  A rule-level
`config` is a typed value here as well: an entry is `(key, canonical JSON text)`, so `"1"` (text `"\"1\""`) and `1` (text
`"1"`) are different overrides. -/

/-- what the factory hands out -/
inductive Handed where
  | notFound
  | configError
  | proto (h : Nat)
  | variant (h : Nat)
deriving Repr, DecidableEq

/-- a `Create…` call: the handle the catalogue has for the id (if any) and the rule's `config` (if any) -/
abbrev CreateReq := Option Nat × Option Override

def createSeq : Store Entries Override → List CreateReq → Store Entries Override × List Handed
  | σ, [] => (σ, [])
  | σ, r :: rest =>
    match create σ r.1 r.2 with
    | .notFound => ((createSeq σ rest).1, .notFound :: (createSeq σ rest).2)
    | .configError => ((createSeq σ rest).1, .configError :: (createSeq σ rest).2)
    | .proto h => ((createSeq σ rest).1, .proto h :: (createSeq σ rest).2)
    | .variant σ' h => ((createSeq σ' rest).1, .variant h :: (createSeq σ' rest).2)

/-- what a rule observes of the answer: the verdict and the configuration the object stands for -/
inductive Observed where
  | notFound
  | configError
  | shows (isPrototype : Bool) (eff : Entries)
deriving Repr, DecidableEq

def Handed.observed (σ : Store Entries Override) : Handed → Observed
  | .notFound => .notFound
  | .configError => .configError
  | .proto h => .shows true (effective σ h)
  | .variant h => .shows false (effective σ h)

/-- the answer to a request that is the only one the factory ever sees -/
def createAlone (σ : Store Entries Override) (r : CreateReq) : Observed :=
  match create σ r.1 r.2 with
  | .notFound => .notFound
  | .configError => .configError
  | .proto h => .shows true (effective σ h)
  | .variant σ' h => .shows false (effective σ' h)

/-- what the code does *not* do: a factory that remembers the variants it has created under (catalogue entry,
`key config`) and looks there first -/
def memoSeq {K : Type} [DecidableEq K] (key : Override → K) :
    Store Entries Override → List ((Nat × K) × Nat) → List CreateReq → Store Entries Override × List Handed
  | σ, _, [] => (σ, [])
  | σ, memo, r :: rest =>
    let hit : Option Nat := match r.1, r.2 with
      | some p, some ov => (memo.find? fun e => e.1 = (p, key ov)).map (·.2)
      | _, _ => none
    match hit with
    | some h => ((memoSeq key σ memo rest).1, .variant h :: (memoSeq key σ memo rest).2)
    | none =>
      match create σ r.1 r.2 with
      | .notFound => ((memoSeq key σ memo rest).1, .notFound :: (memoSeq key σ memo rest).2)
      | .configError => ((memoSeq key σ memo rest).1, .configError :: (memoSeq key σ memo rest).2)
      | .proto h => ((memoSeq key σ memo rest).1, .proto h :: (memoSeq key σ memo rest).2)
      | .variant σ' h =>
        let memo' := match r.1, r.2 with
          | some p, some ov => ((p, key ov), h) :: memo
          | _, _ => memo
        ((memoSeq key σ' memo' rest).1, .variant h :: (memoSeq key σ' memo' rest).2)

end Heimdall.Mech
