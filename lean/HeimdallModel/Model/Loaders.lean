/-!
# Loaders: what heimdall does with the inputs it reads at run time (model for property C19)

Every function below says how a Go call *ends*: with a value, with an error, with a panic (which a deferred
`recover` on the same goroutine can catch) or fatally (stack exhaustion, which nothing can catch).

* `Guards` — one flag per check the code makes before it indexes, asserts a type, recurses or starts a goroutine.
  `Guards.head` is the code the check is run against (all checks present), `Guards.original` the code without them
  (commit fac1d46 and before); the theorems say which flags each guarantee needs, and that it fails without them.
* key material: `scan`/`createKeyStore` (`keystore.createKeyStore`, `verifyAndBuildKeyStore`, `FindChain`,
  `buildChain`, `ValidateChain`), `load` (`jwtSigner.load`, `tlsx.keyStore.load`,
  `HTTPMessageSignatures.init`), `loadTrust` (`pemx.ReadPEM` + `truststore.addEntry`), `reload` (`OnChanged`).
  A file is abstracted to the list of its complete PEM blocks (`Block`: label, `X-Key-ID` header, what the payload
  parses to) plus, for trust stores, whether bytes remain after the last complete block.
* rule sets: values are untyped trees (`Val`), as YAML/JSON decoding delivers them; `reference`, `condition`,
  `decodeScopes`, `create`, `execStep`, `errStep`, `createRule`, `loadRuleSet` follow
  `rules/config.DecodeConfig`, `rule_factory_impl.go`, `oauth2.DecodeScopesMatcherHookFunc`,
  `ruleSetProcessor`; `fileChanged` follows the `file_system` provider.
* background goroutines and request goroutines: `deliver`, `run` (watcher / provider loops), `serve` (recovery
  middleware and interceptor).
* `System`, `step`: the process as a whole under any sequence of file changes and requests.
* redis cache credentials file: `loadCreds`, `reloadCreds`, `credsGet` (`redis.fileCredentials.load`, `OnChanged`,
  `get`); a file is abstracted to what the YAML decoder finds in it (`CredDoc`).

Core Lean only.
-/
namespace Heimdall.Loaders

/-- why a call returned an error (evidence only; the property speaks about "an error", not about which) -/
inductive Reason
  | unsupportedEntry | parseError | unsupportedKeyType | chainInvalid | duplicateKeyId
  | noKeys | noSuchKey | unsupportedKeySize | certificateUnusable | noCertificate | emptyTrustStore
  | decodeError | validationError | badReferenceType | badConfigType | conditionType | emptyCondition
  | badCondition | unknownMechanism | badOverride | scopesShape | orderViolation | unsupportedStep
  | noAuthenticator | notHashable | unsupportedVersion | recovered | unparsable
  deriving DecidableEq, Repr, Inhabited

/-- how a Go call ends -/
inductive Out (α : Type) where
  /-- returned normally -/
  | ok (a : α)
  /-- returned an error -/
  | err (r : Reason)
  /-- panicked (index out of range, failed type assertion, explicit `panic`) -/
  | panic
  /-- died in a way no `recover` catches (unbounded recursion) -/
  | fatal
  deriving DecidableEq, Repr, Inhabited

namespace Out

def bind {α β : Type} (o : Out α) (f : α → Out β) : Out β :=
  match o with
  | .ok a => f a
  | .err r => .err r
  | .panic => .panic
  | .fatal => .fatal

instance : Monad Out where
  pure := .ok
  bind := bind

/-- the call came back: with a value or with an error -/
def returns {α : Type} : Out α → Bool
  | .ok _ => true
  | .err _ => true
  | _ => false

def isOk {α : Type} : Out α → Bool
  | .ok _ => true
  | _ => false

/-- a deferred `recover()` around the call: a panic becomes an error, a fatal error stays fatal -/
def recovered {α : Type} : Out α → Out α
  | .panic => .err .recovered
  | o => o

end Out

/-- the checks in front of the dangerous operations (see the module comment) -/
structure Guards where
  /-- the loaders ask for the first key only after checking that there is one (`keystore.SelectKey`) -/
  selectKey : Bool
  /-- JWT signer and HTTP message signatures reject keys that have no JOSE algorithm before building JWKs -/
  joseCheck : Bool
  /-- HTTP message signatures knows the size the key store reports for P-521 keys (521) -/
  p521 : Bool
  /-- `buildChain` never visits a certificate twice -/
  chainVisited : Bool
  /-- `pemx.ReadPEM` stops when `pem.Decode` finds no further block -/
  pemEnd : Bool
  /-- the rule factory checks the types of a step's reference and `config` instead of asserting them -/
  refTypes : Bool
  /-- the scopes matcher decode hook checks the types of its input instead of asserting them -/
  scopeTypes : Bool
  /-- `ruleSetProcessor.loadRules` recovers -/
  processorRecover : Bool
  /-- the watcher runs listeners under `recover` -/
  listenerRecover : Bool
  /-- the `file_system` provider handles an event under `recover` -/
  providerRecover : Bool
  /-- the `file_system` provider checks the error of `os.Stat` -/
  statChecked : Bool
  /-- the HTTP services install the recovery middleware -/
  httpRecovery : Bool
  /-- the gRPC service installs the recovery interceptor -/
  grpcRecovery : Bool
  deriving DecidableEq, Repr, Inhabited

/-- the code the check runs against: every check present -/
def Guards.head : Guards :=
  ⟨true, true, true, true, true, true, true, true, true, true, true, true, true⟩

/-- the code before the `fix:` commits of this property: request goroutines recover, nothing else does -/
def Guards.original : Guards :=
  ⟨false, false, false, false, false, false, false, false, false, false, false, true, true⟩

/-! ## Key material -/

/-- label of a PEM block, as `createKeyStore` distinguishes them -/
inductive BlockType
  | encryptedKey | pkcs8Key | ecKey | rsaKey | certificate | unknown
  deriving DecidableEq, Repr, Inhabited

inductive Alg
  | rsa | ecdsa | other
  deriving DecidableEq, Repr, Inhabited

/-- a private key, as far as the key store looks at it -/
structure Key where
  /-- identity of the key pair -/
  id : Nat
  alg : Alg
  /-- `Entry.KeySize`: RSA modulus bytes × 8, ECDSA curve size -/
  bits : Nat
  /-- the key id the key store derives from the public key if nothing else is given -/
  autoKid : String
  deriving DecidableEq, Repr, Inhabited

/-- a certificate, as far as chain building and validation look at it -/
structure Cert where
  /-- identity of the certificate (`x509.Certificate.Equal`) -/
  cid : Nat
  /-- identity of the certified key pair -/
  key : Nat
  subject : String
  issuer : String
  /-- subject key identifier, hex, `""` if absent -/
  ski : String
  /-- authority key identifier, hex, `""` if absent -/
  aki : String
  serial : String
  /-- within its validity period -/
  validNow : Bool
  isCA : Bool
  /-- key usage contains digitalSignature -/
  digSig : Bool
  deriving DecidableEq, Repr, Inhabited

/-- what the payload of a block parses to under the parser its label selects (with the configured password) -/
inductive Content
  | key (k : Key)
  | cert (c : Cert)
  | junk
  deriving DecidableEq, Repr, Inhabited

/-- a complete PEM block of a file -/
structure Block where
  type : BlockType
  /-- `X-Key-ID` header, `""` if absent -/
  kid : String
  content : Content
  deriving DecidableEq, Repr, Inhabited

/-- an entry of the key store -/
structure Entry where
  key : Key
  kid : String
  chain : List Cert
  deriving DecidableEq, Repr, Inhabited

/-- first pass of `createKeyStore`: parse every block in order, collect keys (with their `X-Key-ID`) and
certificates; the first block that is not understood ends the call -/
def scan : List Block → Except Reason (List (Key × String) × List Cert)
  | [] => .ok ([], [])
  | b :: bs =>
    match b.type, b.content with
    | .unknown, _ => .error .unsupportedEntry
    | .certificate, .cert c => do
      let (ks, cs) ← scan bs
      pure (ks, c :: cs)
    | .certificate, _ => .error .parseError
    | _, .key k =>
      if k.alg = .other then .error .unsupportedKeyType
      else do
        let (ks, cs) ← scan bs
        pure ((k, b.kid) :: ks, cs)
    | _, _ => .error .parseError

/-- `isIssuerOf` -/
def isIssuerOf (child cand : Cert) : Bool :=
  if child.aki ≠ "" && cand.ski ≠ "" then child.aki == cand.ski else child.issuer == cand.subject

/-- is the certificate among those already in the chain -/
def visited (chain : List Cert) (c : Cert) : Bool := chain.any (·.cid == c.cid)

/-- the candidate `buildChain` continues with: the first certificate of the pool that is not the child itself,
(with the check) not yet part of the chain, and an issuer of the child -/
def nextIssuer (g : Guards) (done : List Cert) (child : Cert) (pool : List Cert) : Option Cert :=
  pool.find? fun cand =>
    !(cand.cid == child.cid) && !(g.chainVisited && visited done cand) && isIssuerOf child cand

/-- `buildChain`: `done ++ [child]` is the chain so far. `none`: the recursion did not end within `fuel` calls. -/
def buildChain (g : Guards) : Nat → List Cert → Cert → List Cert → Option (List Cert)
  | 0, _, _, _ => none
  | fuel + 1, done, child, pool =>
    match nextIssuer g done child pool with
    | none => some (done ++ [child])
    | some cand => buildChain g fuel (done ++ [child]) cand pool

/-- a weaker guard one might think sufficient: skip only the child itself and the certificate it was reached from
(`done.getLast?`), instead of everything already in the chain -/
def nextIssuerPrev (done : List Cert) (child : Cert) (pool : List Cert) : Option Cert :=
  pool.find? fun cand =>
    !(cand.cid == child.cid) &&
      !(match done.getLast? with | some p => p.cid == cand.cid | none => false) && isIssuerOf child cand

/-- `buildChain` with that weaker guard -/
def buildChainPrev : Nat → List Cert → Cert → List Cert → Option (List Cert)
  | 0, _, _, _ => none
  | fuel + 1, done, child, pool =>
    match nextIssuerPrev done child pool with
    | none => some (done ++ [child])
    | some cand => buildChainPrev fuel (done ++ [child]) cand pool

/-- `FindChain`: the chain starting at the first certificate of the file that certifies the key. The Go recursion
is given one call more than there are certificates; if that does not suffice it never ends (`fatal`). -/
def findChain (g : Guards) (certs : List Cert) (k : Key) : Out (List Cert) :=
  match certs.find? (·.key == k.id) with
  | none => .ok []
  | some c =>
    match buildChain g (certs.length + 1) [] c certs with
    | some chain => .ok chain
    | none => .fatal

/-- two certificates for the same subject and key (generations of one certificate); `x509` path building treats
them as the same entity and never puts both on one path -/
def sameIdentity (a b : Cert) : Bool := a.subject == b.subject && a.key == b.key

/-- `x509` path validation of a chain whose last element is the trust anchor, as far as the check's certificates
exercise it: every certificate within its validity period, every issuer a CA, and the trust anchor not just another
generation of the leaf itself (a path from the leaf to it would contain the same entity twice) -/
def chainValid (chain : List Cert) : Bool :=
  chain.all (·.validNow) && chain.tail.all (·.isCA) &&
    match chain with
    | leaf :: _ :: _ => !(sameIdentity leaf (chain.getLastD leaf))
    | _ => true

/-- `generateKeyID` -/
def genKid (chain : List Cert) (k : Key) : String :=
  match chain with
  | c :: _ => if c.ski ≠ "" then c.ski else k.autoKid
  | [] => k.autoKid

/-- the id of an entry: the `X-Key-ID` header if present, otherwise the generated one -/
def entryKid (kid : String) (chain : List Cert) (k : Key) : String :=
  if kid ≠ "" then kid else genKid chain k

/-- `verifyAndBuildKeyStore` -/
def build (g : Guards) (certs : List Cert) : List (Key × String) → List String → Out (List Entry)
  | [], _ => .ok []
  | (k, kid) :: rest, known => do
    let chain ← findChain g certs k
    if !chain.isEmpty && !chainValid chain then .err .chainInvalid
    else if known.contains (entryKid kid chain k) then .err .duplicateKeyId
    else do
      let es ← build g certs rest (entryKid kid chain k :: known)
      pure (⟨k, entryKid kid chain k, chain⟩ :: es)

/-- `keystore.NewKeyStoreFromPEMBytes` -/
def createKeyStore (g : Guards) (blocks : List Block) : Out (List Entry) :=
  match scan blocks with
  | .error r => .err r
  | .ok (ks, cs) => build g cs ks []

/-- the components that load a key store at start and reload it when the file changes -/
inductive Consumer
  | jwt | tls | httpsig
  deriving DecidableEq, Repr, Inhabited

/-- does `Entry.JWK` / `JOSEAlgorithm` know the key (it panics otherwise) -/
def joseAlg (k : Key) : Option String :=
  match k.alg, k.bits with
  | .rsa, 2048 => some "PS256"
  | .rsa, 3072 => some "PS384"
  | .rsa, 4096 => some "PS512"
  | .ecdsa, 256 => some "ES256"
  | .ecdsa, 384 => some "ES384"
  | .ecdsa, 521 => some "ES512"
  | _, _ => none

/-- does `toHTTPSigKey` know the key (it panics otherwise) -/
def httpSigKnows (g : Guards) (k : Key) : Bool :=
  match k.alg, k.bits with
  | .rsa, 2048 => true
  | .rsa, 3072 => true
  | .rsa, 4096 => true
  | .ecdsa, 256 => true
  | .ecdsa, 384 => true
  | .ecdsa, 512 => true
  | .ecdsa, 521 => g.p521
  | _, _ => false

/-- what a component works with after a successful load -/
structure Loaded where
  /-- id of the key in use -/
  kid : String
  /-- JOSE algorithm of the key in use (`""` for TLS) -/
  alg : String
  /-- ids of the published keys (JWT signer, HTTP message signatures) -/
  kids : List String
  /-- serial number of the certificate in use and length of its chain (TLS) -/
  serial : String
  chainLen : Nat
  deriving DecidableEq, Repr, Inhabited

/-- the key the component uses: the one with the configured id, otherwise the first -/
def selectKey (g : Guards) (keyId : String) (ks : List Entry) : Out Entry :=
  if keyId ≠ "" then
    match ks.find? (·.kid == keyId) with
    | some e => .ok e
    | none => .err .noSuchKey
  else
    match ks with
    | e :: _ => .ok e
    | [] => if g.selectKey then .err .noKeys else .panic

/-- `pkix.ValidateCertificate(chain[0], digitalSignature, roots = last, intermediates, now)` of the signers -/
def certificateUsable (e : Entry) : Bool :=
  match e.chain with
  | [] => true
  | leaf :: _ => chainValid e.chain && leaf.digSig

/-- `jwtSigner.load`, `tlsx.keyStore.load`, `HTTPMessageSignatures.init` -/
def load (g : Guards) (c : Consumer) (keyId : String) (blocks : List Block) : Out Loaded := do
  let ks ← createKeyStore g blocks
  let e ← selectKey g keyId ks
  match c with
  | .tls =>
    match e.chain with
    | [] => .err .noCertificate
    | leaf :: _ => .ok ⟨e.kid, "", [], leaf.serial, e.chain.length⟩
  | .jwt =>
    if g.joseCheck && ks.any (fun x => (joseAlg x.key).isNone) then .err .unsupportedKeySize
    else if !certificateUsable e then .err .certificateUnusable
    else if ks.any (fun x => (joseAlg x.key).isNone) then .panic
    else .ok ⟨e.kid, (joseAlg e.key).getD "", ks.map (·.kid), "", 0⟩
  | .httpsig =>
    if g.joseCheck && ks.any (fun x => (joseAlg x.key).isNone) then .err .unsupportedKeySize
    else if !certificateUsable e then .err .certificateUnusable
    else if ks.any (fun x => (joseAlg x.key).isNone) then .panic
    else if !httpSigKnows g e.key then .panic
    else .ok ⟨e.kid, (joseAlg e.key).getD "", ks.map (·.kid), "", 0⟩

/-- `OnChanged`: the file changed, the component loads it again. The new material replaces the old one only at the
very end of a successful load. -/
def reload (g : Guards) (c : Consumer) (keyId : String) (st : Option Loaded) (blocks : List Block) :
    Out Unit × Option Loaded :=
  match load g c keyId blocks with
  | .ok s => (.ok (), some s)
  | .err r => (.err r, st)
  | .panic => (.panic, st)
  | .fatal => (.fatal, st)

/-- a PEM file as the trust store reader sees it: complete blocks, and whether anything (white space, text, the
beginning of a block that is still being written) follows the last of them -/
structure PemFile where
  blocks : List Block
  trailing : Bool
  deriving DecidableEq, Repr, Inhabited

/-- the callback of `truststore.addEntry` over the blocks `pemx.ReadPEM` hands to it -/
def trustEntries (strict : Bool) : List Block → Except Reason (List Cert)
  | [] => .ok []
  | b :: bs =>
    match b.type, b.content with
    | .certificate, .cert c => do
      let cs ← trustEntries strict bs
      pure (c :: cs)
    | .certificate, _ => .error .parseError
    | _, _ => if strict then .error .unsupportedEntry else trustEntries strict bs

/-- `truststore.NewTrustStoreFromPEMBytes`: `ReadPEM` decodes block after block and stops when no input is left;
without the check it dereferences the "no block found" result. -/
def loadTrust (g : Guards) (strict : Bool) (f : PemFile) : Out (List Cert) :=
  match trustEntries strict f.blocks with
  | .error r => .err r
  | .ok cs =>
    if f.blocks.isEmpty || f.trailing then
      if !g.pemEnd then .panic
      else if cs.isEmpty then .err .emptyTrustStore else .ok cs
    else if g.pemEnd && cs.isEmpty then .err .emptyTrustStore else .ok cs

/-! ## Rule sets -/

/-- a value as YAML / JSON decoding delivers it -/
inductive Val
  | null
  | bool (b : Bool)
  | num (n : Int)
  | str (s : String)
  | list (l : List Val)
  | map (m : List (String × Val))
  /-- a map with a key that is not a string (YAML has them; Go holds it as `map[any]any`) -/
  | other
  deriving Repr, Inhabited

abbrev Fields := List (String × Val)

mutual
  /-- does the value contain a map with a non-string key (such a value cannot be serialised to JSON) -/
  def Val.hasOther : Val → Bool
    | .other => true
    | .list l => hasOtherList l
    | .map m => hasOtherFields m
    | _ => false
  def hasOtherList : List Val → Bool
    | [] => false
    | v :: vs => v.hasOther || hasOtherList vs
  def hasOtherFields : List (String × Val) → Bool
    | [] => false
    | (_, v) :: rest => v.hasOther || hasOtherFields rest
end

/-- `m[k]` of a Go map: the value and whether the key is present -/
def lookup (m : Fields) (k : String) : Option Val := (m.find? (·.1 == k)).map (·.2)

inductive Kind
  | authn | authz | ctx | fin | eh
  deriving DecidableEq, Repr, Inhabited

/-- a mechanism of the catalogue -/
structure Proto where
  /-- its `WithConfig` decodes `assertions.scopes` with the scopes matcher hook (jwt, oauth2_introspection) -/
  withScopes : Bool
  /-- which other overrides its `WithConfig` accepts -/
  accepts : Fields → Bool

/-- what the rule factory is given besides the rule set: the mechanism catalogue and the CEL compiler -/
structure Env where
  cat : Kind → String → Option Proto
  compiles : String → Bool

/-- `createMatcherFromValues`: `values.([]any)`, then `v.(string)` for every element -/
def scopeValues (g : Guards) : Val → Out Unit
  | .list l => if l.all (fun v => match v with | .str _ => true | _ => false) then .ok ()
               else if g.scopeTypes then .err .scopesShape else .panic
  | _ => if g.scopeTypes then .err .scopesShape else .panic

/-- `oauth2.DecodeScopesMatcherHookFunc`: only maps and lists reach the hook's own code, everything else is left
to mapstructure, which cannot turn it into a matcher -/
def decodeScopes (g : Guards) : Val → Out Unit
  | .list l => scopeValues g (.list l)
  | .map m =>
    let strategy : Out Unit :=
      match lookup m "matching_strategy" with
      | none => .ok ()
      | some (.str s) => if s == "exact" || s == "hierarchic" || s == "wildcard" then .ok () else .err .scopesShape
      | some _ => if g.scopeTypes then .err .scopesShape else .panic
    strategy.bind fun _ =>
      match lookup m "values" with
      | some v => scopeValues g v
      | none => .err .scopesShape
  | .other => if g.scopeTypes then .err .scopesShape else .panic
  | .null => .ok ()
  | _ => .err .decodeError

/-- `prototype.WithConfig(config)` -/
def withConfig (g : Guards) (p : Proto) (cfg : Option Fields) : Out Unit :=
  match cfg with
  | none => .ok ()
  | some [] => .ok ()
  | some m =>
    match p.withScopes, m with
    | true, [("assertions", .map [("scopes", v)])] => decodeScopes g v
    | _, _ => if p.accepts m then .ok () else .err .badOverride

/-- `id.(string)` and `getConfig(step["config"])` -/
def reference (g : Guards) (id : Val) (cfg : Option Val) : Out (String × Option Fields) :=
  match id with
  | .str s =>
    match cfg with
    | none => .ok (s, none)
    | some .null => .ok (s, none)
    | some (.map m) => .ok (s, some m)
    | some _ => if g.refTypes then .err .badConfigType else .panic
  | _ => if g.refTypes then .err .badReferenceType else .panic

/-- `MechanismFactory.Create…(version, id, config)` with checked arguments -/
def instantiate (g : Guards) (env : Env) (k : Kind) (ref : String) (conf : Option Fields) : Out String :=
  match env.cat k ref with
  | none => .err .unknownMechanism
  | some p => (withConfig g p conf).bind fun _ => .ok ref

/-- `f.hf.Create…(version, id.(string), getConfig(step["config"]))` -/
def create (g : Guards) (env : Env) (k : Kind) (id : Val) (cfg : Option Val) : Out String :=
  (reference g id cfg).bind fun (ref, conf) => instantiate g env k ref conf

/-- `getExecutionCondition(step["if"])` -/
def condition (env : Env) : Option Val → Out Unit
  | none => .ok ()
  | some .null => .ok ()
  | some (.str s) => if s == "" then .err .emptyCondition else if env.compiles s then .ok () else .err .badCondition
  | some _ => .err .conditionType

/-- the three accumulators of `createExecutePipeline` (ids of the mechanisms) -/
structure Pipes where
  authn : List String := []
  sh : List String := []
  fin : List String := []
  deriving DecidableEq, Repr, Inhabited

/-- `createHandler` once its key has been found -/
def handler (g : Guards) (env : Env) (k : Kind) (id : Val) (m : Fields) : Out String := do
  condition env (lookup m "if")
  create g env k id (lookup m "config")

/-- one iteration of the loop in `createExecutePipeline` -/
def execStep (g : Guards) (env : Env) (acc : Pipes) (m : Fields) : Out Pipes :=
  match lookup m "authenticator" with
  | some id =>
    if !acc.sh.isEmpty || !acc.fin.isEmpty then .err .orderViolation
    else do
      let r ← create g env .authn id (lookup m "config")
      pure { acc with authn := acc.authn ++ [r] }
  | none =>
  match lookup m "authorizer" with
  | some id =>
    if !acc.fin.isEmpty then .err .orderViolation
    else do
      let r ← handler g env .authz id m
      pure { acc with sh := acc.sh ++ [r] }
  | none =>
  match lookup m "contextualizer" with
  | some id =>
    if !acc.fin.isEmpty then .err .orderViolation
    else do
      let r ← handler g env .ctx id m
      pure { acc with sh := acc.sh ++ [r] }
  | none =>
  match lookup m "finalizer" with
  | some id => do
    let r ← handler g env .fin id m
    pure { acc with fin := acc.fin ++ [r] }
  | none => .err .unsupportedStep

def execPipeline (g : Guards) (env : Env) : Pipes → List Fields → Out Pipes
  | acc, [] => .ok acc
  | acc, m :: ms => (execStep g env acc m).bind fun acc' => execPipeline g env acc' ms

/-- one iteration of `createOnErrorPipeline`: reference and config are looked at before the condition -/
def errStep (g : Guards) (env : Env) (m : Fields) : Out String :=
  match lookup m "error_handler" with
  | some id =>
    if g.refTypes then
      (reference g id (lookup m "config")).bind fun (ref, conf) =>
        (condition env (lookup m "if")).bind fun _ => instantiate g env .eh ref conf
    else
      -- getConfig first (panics on a non-map), then the condition, then `id.(string)`
      match lookup m "config" with
      | some (.str _) | some (.num _) | some (.bool _) | some (.list _) | some .other => .panic
      | _ => do
        condition env (lookup m "if")
        create g env .eh id (lookup m "config")
  | none => .err .unsupportedStep

def errPipeline (g : Guards) (env : Env) : List Fields → Out (List String)
  | [] => .ok []
  | m :: ms => (errStep g env m).bind fun r => (errPipeline g env ms).bind fun rs => .ok (r :: rs)

/-- decoding of an `execute` list (`[]config.MechanismConfig`, `validate:"gt=0,dive,required"`) -/
def decodeExecute : Val → Except Reason (List Fields)
  | .list [] => .error .validationError
  | .list l =>
    l.mapM fun v =>
      match v with
      | .map m => .ok m
      | .null => .error .validationError
      | _ => .error .decodeError
  | .null => .error .validationError
  | _ => .error .decodeError

/-- decoding of an `on_error` list (no validation; a `null` element becomes an empty map) -/
def decodeOnError : Val → Except Reason (List Fields)
  | .null => .ok []
  | .list l =>
    l.mapM fun v =>
      match v with
      | .map m => .ok m
      | .null => .ok []
      | _ => .error .decodeError
  | _ => .error .decodeError

/-- a rule of a rule set, as far as this property is concerned: its id and the two untyped lists -/
structure RuleDoc where
  id : String
  execute : Val
  onError : Val
  deriving Repr, Inhabited

/-- a decoded rule -/
structure RuleCfg where
  id : String
  execute : List Fields
  onError : List Fields

def decodeRule (r : RuleDoc) : Except Reason RuleCfg := do
  let ex ← decodeExecute r.execute
  let oe ← decodeOnError r.onError
  pure ⟨r.id, ex, oe⟩

/-- `CreateRule` (no default rule, decision mode): both pipelines, then "no authenticator defined", then the hash of
the rule (its JSON serialisation, which does not exist for maps with non-string keys, wherever they hide) -/
def createRule (g : Guards) (env : Env) (r : RuleCfg) : Out String := do
  let p ← execPipeline g env {} r.execute
  let _ ← errPipeline g env r.onError
  if p.authn.isEmpty then .err .noAuthenticator
  else if r.execute.any hasOtherFields || r.onError.any hasOtherFields then .err .notHashable
  else pure r.id

def createRules (g : Guards) (env : Env) : List RuleCfg → Out (List String)
  | [] => .ok []
  | r :: rs => (createRule g env r).bind fun id => (createRules g env rs).bind fun ids => .ok (id :: ids)

/-- `ruleSetProcessor.loadRules`: all rules or none; with the check a panic below is an error -/
def loadRules (g : Guards) (env : Env) (rs : List RuleCfg) : Out (List String) :=
  if g.processorRecover then (createRules g env rs).recovered else createRules g env rs

/-- a rule set document: version, rules -/
structure RuleSetDoc where
  versionOk : Bool
  rules : List RuleDoc
  deriving Repr, Inhabited

/-- `ParseRules` (decoding and validation) followed by `ruleSetProcessor.OnCreated` / `OnUpdated` up to the call
of the repository: the ids of the rules that replace the source's previous ones -/
def loadRuleSet (g : Guards) (env : Env) (d : RuleSetDoc) : Out (List String) :=
  if d.rules.isEmpty then .err .validationError
  else
    match d.rules.mapM decodeRule with
    | .error r => .err r
    | .ok rs => if !d.versionOk then .err .unsupportedVersion else loadRules g env rs

/-- what the `file_system` provider finds when it looks at a file after an event -/
inductive FileContent
  /-- no bytes (also: the moment between truncation and the first write) -/
  | empty
  /-- not YAML, or not a document of the expected shape at the top level -/
  | unparsable
  /-- a document -/
  | doc (d : RuleSetDoc)
  /-- readable when opened, gone when `os.Stat` is called afterwards (temporary file of an editor, atomic
  replacement) -/
  | vanished (d : RuleSetDoc)
  deriving Repr, Inhabited

/-- `ruleSetCreatedOrUpdated`: the rules in force for the file (`none`: no rule set loaded from it) -/
def fileChanged (g : Guards) (env : Env) (st : Option (List String)) : FileContent → Out Unit × Option (List String)
  | .empty => (.ok (), none)
  | .unparsable => (.err .unparsable, st)
  | .vanished d =>
    match d.rules.mapM decodeRule with
    | .error r => (.err r, st)
    | .ok _ => if d.rules.isEmpty then (.err .validationError, st)
               -- with the check the "file does not exist" error means what it means when the file cannot be
               -- opened: the rule set is gone
               else if g.statChecked then (.ok (), none) else (.panic, st)
  | .doc d =>
    match loadRuleSet g env d with
    | .ok ids => (.ok (), some ids)
    | .err r => (.err r, st)
    | .panic => (.panic, st)
    | .fatal => (.fatal, st)

/-! ## Goroutines -/

/-- a process with one piece of reloadable state -/
structure Proc (σ : Type) where
  alive : Bool
  state : σ
  /-- how many notifications have been handled to the end (returned or recovered) -/
  handled : Nat
  deriving Repr

/-- one notification handled on a background goroutine: the handler's outcome and the state it leaves. A panic
nobody recovers, and a fatal error in any case, end the process. -/
def deliver {σ : Type} (guard : Bool) (h : σ → Out Unit × σ) (p : Proc σ) : Proc σ :=
  if !p.alive then p
  else
    match h p.state with
    | (.ok _, s) => ⟨true, s, p.handled + 1⟩
    | (.err _, s) => ⟨true, s, p.handled + 1⟩
    | (.panic, s) => if guard then ⟨true, s, p.handled + 1⟩ else ⟨false, s, p.handled⟩
    | (.fatal, s) => ⟨false, s, p.handled⟩

/-- a background loop (watcher, provider) handling notifications one after the other -/
def run {σ : Type} (guard : Bool) (hs : List (σ → Out Unit × σ)) (p : Proc σ) : Proc σ :=
  hs.foldl (fun p h => deliver guard h p) p

/-- the two kinds of servers: `net/http` recovers a panicking handler itself (and drops the connection),
`grpc-go` does not -/
inductive Server
  | http | grpc
  deriving DecidableEq, Repr, Inhabited

/-- what the client gets -/
inductive Reply
  | response (status : Nat)
  | errorResponse
  | connectionDropped
  deriving DecidableEq, Repr, Inhabited

/-- a request handled on a request goroutine: handler outcome ↦ (process survives, reply) -/
def serve (g : Guards) (srv : Server) (h : Out Nat) : Bool × Reply :=
  match h with
  | .ok status => (true, .response status)
  | .err _ => (true, .errorResponse)
  | .fatal => (false, .connectionDropped)
  | .panic =>
    match srv with
    | .http => if g.httpRecovery then (true, .errorResponse) else (true, .connectionDropped)
    | .grpc => if g.grpcRecovery then (true, .errorResponse) else (false, .connectionDropped)

/-! ## The process -/

/-- everything that can reach a running heimdall from outside -/
inductive Event
  /-- the key store file of a component changed -/
  | keyFile (c : Consumer) (blocks : List Block)
  /-- a rule set file changed -/
  | ruleFile (content : FileContent)
  /-- a request arrived whose handler ends as given -/
  | request (srv : Server) (h : Out Nat)

/-- the reloadable state of the process -/
structure System where
  alive : Bool
  jwt : Option Loaded
  tls : Option Loaded
  httpsig : Option Loaded
  rules : Option (List String)
  deriving Repr

def System.material (s : System) : Consumer → Option Loaded
  | .jwt => s.jwt
  | .tls => s.tls
  | .httpsig => s.httpsig

def System.setMaterial (s : System) (c : Consumer) (v : Option Loaded) : System :=
  match c with
  | .jwt => { s with jwt := v }
  | .tls => { s with tls := v }
  | .httpsig => { s with httpsig := v }

/-- does a background goroutine survive this outcome -/
def survives (guard : Bool) : Out Unit → Bool
  | .ok _ => true
  | .err _ => true
  | .panic => guard
  | .fatal => false

/-- one event (key ids as configured: `keyId c`) -/
def step (g : Guards) (env : Env) (keyId : Consumer → String) (s : System) (e : Event) : System :=
  if !s.alive then s
  else
    match e with
    | .keyFile c blocks =>
      let (o, st) := reload g c (keyId c) (s.material c) blocks
      { s.setMaterial c st with alive := survives g.listenerRecover o }
    | .ruleFile content =>
      let (o, st) := fileChanged g env s.rules content
      { s with rules := st, alive := survives g.providerRecover o }
    | .request srv h => { s with alive := (serve g srv h).1 }

def steps (g : Guards) (env : Env) (keyId : Consumer → String) (s : System) (es : List Event) : System :=
  es.foldl (step g env keyId) s

/-! ## The credentials file of the redis cache

`internal/cache/redis`: `fileCredentials` — `load` (called once by the configuration decode hook and then by
`OnChanged` on the watcher goroutine whenever the file is written) and `get` (called by the redis client through
`AuthCredentialsFn` whenever it connects or re-connects, on goroutines of its own where nothing recovers). -/

/-- what the redis client is handed when it asks for credentials -/
structure Creds where
  user : String
  pass : String
  deriving DecidableEq, Repr, Inhabited

/-- the value under a key of the credentials document, as far as decoding into a string field looks at it -/
inductive CredVal
  /-- `password:` / `password: ~`: the field keeps its zero value -/
  | null
  /-- any other scalar, numbers and booleans included: the field takes its text -/
  | scalar (text : String)
  /-- a sequence or a mapping: cannot become a string -/
  | collection
  deriving DecidableEq, Repr, Inhabited

/-- what the YAML decoder finds in the file (the first document of it) -/
inductive CredDoc
  /-- no document: the file is empty or holds white space and comments only (`io.EOF`) -/
  | none
  /-- not YAML (a half-written quoted string, a key without its colon after another entry, …) -/
  | malformed
  /-- a document that is null: only `---` so far, `---` and comments, `null`, `~` -/
  | null
  /-- a scalar document (the first characters of the first key, before its colon is written) -/
  | scalar
  /-- a sequence (also: a single `-`) -/
  | seq
  /-- a mapping: keys in file order with their values -/
  | map (fields : List (String × CredVal))
  deriving DecidableEq, Repr, Inhabited

/-- one entry of the mapping decoded into `staticCredentials{Username, Password}` -/
def credField (c : Creds) (k : String) (v : CredVal) : Except Reason Creds :=
  if k == "username" then
    match v with
    | .null => .ok c
    | .scalar s => .ok { c with user := s }
    | .collection => .error .decodeError
  else if k == "password" then
    match v with
    | .null => .ok c
    | .scalar s => .ok { c with pass := s }
    | .collection => .error .decodeError
  else .error .decodeError      -- `KnownFields(true)`: unknown field

/-- the mapping decoded entry by entry; a key that occurs twice is an error ("mapping key already defined") -/
def credFields : List (String × CredVal) → List String → Creds → Except Reason Creds
  | [], _, c => .ok c
  | (k, v) :: rest, seen, c =>
    if seen.contains k then .error .decodeError
    else
      match credField c k v with
      | .error r => .error r
      | .ok c' => credFields rest (k :: seen) c'

/-- `(*fileCredentials).load` up to the assignment: what `c.creds` is going to point to (`none` = a nil pointer).
`byValue` says how the document is decoded: into a `staticCredentials` value whose address is stored afterwards (the
code: a null document leaves the zero value) or into a `*staticCredentials` that the decoder has to allocate (which
it does not do for a null document: the pointer stays nil and is stored as such). -/
def loadCreds (byValue : Bool) : CredDoc → Out (Option Creds)
  | .none => .err .decodeError
  | .malformed => .err .unparsable
  | .null => .ok (if byValue then some ⟨"", ""⟩ else none)
  | .scalar => .err .decodeError
  | .seq => .err .decodeError
  | .map fs =>
    match credFields fs [] ⟨"", ""⟩ with
    | .ok c => .ok (some c)
    | .error r => .err r

/-- `OnChanged`: `c.creds` is assigned at the very end of a successful load only -/
def reloadCreds (byValue : Bool) (st : Option Creds) (d : CredDoc) : Out Unit × Option Creds :=
  match loadCreds byValue d with
  | .ok s => (.ok (), s)
  | .err r => (.err r, st)
  | .panic => (.panic, st)
  | .fatal => (.fatal, st)

/-- `(*fileCredentials).get`: `c.creds.get()` dereferences the pointer -/
def credsGet : Option Creds → Out Creds
  | some c => .ok c
  | none => .panic

/-- what `c.creds` points to after a history of file contents, each of them reloaded -/
def credsAfter (byValue : Bool) (st : Option Creds) (ds : List CredDoc) : Option Creds :=
  ds.foldl (fun s d => (reloadCreds byValue s d).2) st

/-- what happens to a running heimdall with a redis cache: the credentials file is written, the redis client
(re-)connects -/
inductive CredsEvent
  | file (d : CredDoc)
  | connect
  deriving DecidableEq, Repr, Inhabited

structure CredsProc where
  alive : Bool
  creds : Option Creds
  deriving DecidableEq, Repr, Inhabited

/-- one event: a reload runs on the watcher goroutine (`watcherRecovers`: below a `recover`), `get` runs on a
goroutine of the redis client, where a panic ends the process -/
def credsStep (byValue watcherRecovers : Bool) (p : CredsProc) (e : CredsEvent) : CredsProc :=
  if !p.alive then p
  else
    match e with
    | .file d =>
      let (o, st) := reloadCreds byValue p.creds d
      ⟨survives watcherRecovers o, st⟩
    | .connect => ⟨(credsGet p.creds).returns, p.creds⟩

def credsSteps (byValue watcherRecovers : Bool) (p : CredsProc) (es : List CredsEvent) : CredsProc :=
  es.foldl (credsStep byValue watcherRecovers) p

/-! ## The secrets watcher over several files

`internal/watcher`: one goroutine (`startWatching`) reads the events of one fsnotify watcher for all registered files
(TLS key stores, the key store of the JWT signer, of the HTTP message signatures, the redis credentials) and starts the
listeners of a file on a Write event.  fsnotify binds a watch to the file that is at the path when it is registered:
when that file is removed, replaced by a rename or moved away, the watch is gone and a Remove / Rename event is
sent; a file that appears at the path afterwards is not watched.  What the loop does with that event is the
parameter `WatchLoop`; the code ignores it (`WatchLoop.head`). -/

/-- what the event loop of the watcher does with a Remove / Rename event -/
structure WatchLoop where
  /-- it registers the path with fsnotify again and starts the listeners ("follow replaced files") -/
  renew : Bool
  /-- … and leaves the loop (`return` inside `for { select { … } }`) when that registration fails -/
  returnOnFailedRenewal : Bool
  deriving DecidableEq, Repr, Inhabited

/-- the code: Write events start listeners, every other event is ignored -/
def WatchLoop.head : WatchLoop := ⟨false, false⟩

/-- what happens to the watched files, in the order in which the loop gets to see it (paths are numbered) -/
inductive FileOp
  /-- the content of the file at `p` is changed in place (written, truncated) -/
  | written (p : Nat)
  /-- its permissions are changed -/
  | attrib (p : Nat)
  /-- the file is gone from `p` (removed, moved away, its directory removed) and nothing is at `p` when the loop gets
  to the event -/
  | fileRemoved (p : Nat)
  /-- the file is gone from `p` and another one is there when the loop gets to the event (a new version renamed over
  it; `rm` + `cp` quicker than the loop) -/
  | fileReplaced (p : Nat)
  /-- a file appears at `p` where none was (created again, moved back, directory created again) -/
  | fileBack (p : Nat)
  /-- `Add(p, listener)` for a path not registered so far -/
  | register (p : Nat)
  deriving DecidableEq, Repr, Inhabited

/-- the watcher and the files -/
structure Watcher where
  /-- the goroutine is in its loop -/
  alive : Bool
  /-- paths at which a file is -/
  present : List Nat
  /-- paths with listeners (`w.m`) -/
  registered : List Nat
  /-- paths whose file fsnotify holds a watch on -/
  watched : List Nat
  /-- the notifications handed to listeners so far (the path of each, in order) -/
  delivered : List Nat
  deriving DecidableEq, Repr, Inhabited

/-- `l` with `p` added unless it is there -/
def addPath (p : Nat) (l : List Nat) : List Nat := if l.contains p then l else p :: l

/-- `l` without `p` -/
def dropPath (p : Nat) (l : List Nat) : List Nat := l.filter (· != p)

def watchStep (l : WatchLoop) (w : Watcher) : FileOp → Watcher
  | .written p =>
    if w.alive && w.present.contains p && w.watched.contains p then { w with delivered := w.delivered ++ [p] } else w
  | .attrib _ => w      -- a Chmod event: not a Write event
  | .fileRemoved p =>
    let w1 := { w with present := dropPath p w.present }
    if !w.watched.contains p then w1      -- nobody watched that file: no event
    else
      -- fsnotify drops its watch and sends Remove / Rename
      let w2 := { w1 with watched := dropPath p w.watched }
      if !w.alive then w2
      -- registering the path again fails: there is no file
      else if l.renew && l.returnOnFailedRenewal then { w2 with alive := false }
      else w2
  | .fileReplaced p =>
    let w1 := { w with present := addPath p w.present }
    if !w.watched.contains p then w1
    else
      let w2 := { w1 with watched := dropPath p w.watched }
      if !w.alive then w2
      else if l.renew then { w2 with watched := p :: w2.watched, delivered := w2.delivered ++ [p] }
      else w2
  | .fileBack p => { w with present := addPath p w.present }      -- nothing watches the path: no event
  | .register p =>
    if w.present.contains p && !w.registered.contains p then
      { w with registered := p :: w.registered, watched := p :: w.watched }
    else w

def watchRun (l : WatchLoop) (w : Watcher) (ops : List FileOp) : Watcher := ops.foldl (watchStep l) w

/-- the operations that take the file at `y` away -/
def FileOp.displaces (y : Nat) : FileOp → Bool
  | .fileRemoved p => p == y
  | .fileReplaced p => p == y
  | _ => false

/-- the operations that change a file's content -/
def FileOp.isWrite : FileOp → Bool
  | .written _ => true
  | _ => false

/-! ## Rule sets polled from an HTTP endpoint

`internal/rules/provider/httpendpoint`: `ruleSetEndpoint.FetchRuleSet` and `provider.watchChanges` (the job run every
`watch_interval`).  A rule set is identified with the list of its rule ids (the provider compares SHA-256 hashes of
the content). -/

/-- how reading the body of a `200` response ends below HTTP -/
inductive Transfer
  /-- everything the server announced has arrived -/
  | complete
  /-- the connection broke before that (fewer bytes than `Content-Length` announces, a chunked transfer without its
  last chunk, a reset): reading fails after some prefix of the body -/
  | brokenOff
  deriving DecidableEq, Repr, Inhabited

/-- what the bytes sent are -/
inductive EndpointContent
  | empty
  /-- not a rule set document -/
  | unparsable
  /-- a rule set with these rules; `accepted`: whether rule factory and repository take it -/
  | ruleSet (ids : List String) (accepted : Bool)
  deriving DecidableEq, Repr, Inhabited

/-- what a poll finds -/
inductive Polled
  /-- no response at all -/
  | unreachable
  /-- a response with a status other than 200 -/
  | status (code : Nat)
  | body (t : Transfer) (content : EndpointContent)
  deriving DecidableEq, Repr, Inhabited

/-- the kinds of errors `FetchRuleSet` returns -/
inductive FetchErr
  | internal | configuration | communication | emptyRuleSet
  deriving DecidableEq, Repr, Inhabited

/-- `FetchRuleSet`. `readFailure` is the kind of error a body that breaks off ends in: the code hands the body to
the decoder as it arrives, so the failed read surfaces as a decoding error (`internal`). -/
def fetchRuleSet (readFailure : FetchErr) : Polled → Except FetchErr (List String × Bool)
  | .unreachable => .error .communication
  | .status _ => .error .communication
  | .body .brokenOff _ => .error readFailure
  | .body .complete .empty => .error .emptyRuleSet
  | .body .complete .unparsable => .error .internal
  | .body .complete (.ruleSet ids accepted) => .ok (ids, accepted)

/-- what `watchChanges` makes of a poll -/
inductive PollOutcome
  /-- the fetch failed in a way that makes the provider leave everything alone (it returns the error) -/
  | kept
  /-- nothing to do -/
  | unchanged
  | created | updated | deleted
  /-- the processor refused the rule set -/
  | createdRefused | updatedRefused
  deriving DecidableEq, Repr, Inhabited

/-- `watchChanges` + `ruleSetsUpdated`: the state is the rule set in force from the endpoint. Only `internal` and
`configuration` errors keep it; every other failure of the fetch counts as "the rule set is gone". -/
def pollEndpoint (readFailure : FetchErr) (st : Option (List String)) (r : Polled) :
    PollOutcome × Option (List String) :=
  match fetchRuleSet readFailure r with
  | .error e =>
    if e == .internal || e == .configuration then (.kept, st)
    else
      match st with
      | some _ => (.deleted, none)
      | none => (.unchanged, none)
  | .ok (ids, accepted) =>
    match st with
    | some old =>
      if old == ids then (.unchanged, st)
      else if accepted then (.updated, some ids) else (.updatedRefused, st)
    | none => if accepted then (.created, some ids) else (.createdRefused, none)

def pollRun (readFailure : FetchErr) (st : Option (List String)) (rs : List Polled) : Option (List String) :=
  rs.foldl (fun s r => (pollEndpoint readFailure s r).2) st

/-! ## The status of a RuleSet resource (kubernetes provider)

`internal/rules/provider/kubernetes`: after every event the handlers (`addRuleSet`, `updateRuleSet`, `deleteRuleSet`,
on the informer's goroutine, where client-go's `HandleCrash` logs a panic and panics again) call `updateStatus`: it
splits `status.activeIn` of the resource at "/" and takes the first two parts, sends a PATCH of the status
subresource and looks at the status code of a failure. -/

/-- the checks in `updateStatus` -/
structure StatusGuards where
  /-- the second part of `status.activeIn` is only taken if there is one -/
  splitChecked : Bool
  /-- the status code is only looked at if the error is an answer of the API server (`errors.As` succeeded) -/
  asChecked : Bool
  deriving DecidableEq, Repr, Inhabited

def StatusGuards.head : StatusGuards := ⟨true, true⟩
def StatusGuards.original : StatusGuards := ⟨false, false⟩

/-- how the PATCH of the status ends -/
inductive PatchAnswer
  /-- accepted -/
  | ok
  /-- refused by the API server with this status code -/
  | status (code : Nat)
  /-- no usable answer: the API server cannot be reached, the connection breaks, the response cannot be decoded — an
  error that is not a `*StatusError` -/
  | noAnswer
  deriving DecidableEq, Repr, Inhabited

/-- `updateStatus`. `parts`: into how many parts "/" splits `status.activeIn` (an absent or empty value is replaced
by "0/0" first: 2). A conflict (409, 422) makes it fetch the resource and start over, here: with the next answer; when
the answers are used up the PATCH is accepted. -/
def updateStatus (g : StatusGuards) (parts : Nat) : List PatchAnswer → Out Unit
  | [] => if parts < 2 && !g.splitChecked then .panic else .ok ()
  | a :: rest =>
    if parts < 2 && !g.splitChecked then .panic      -- `usedBy[1]`: index out of range
    else
      match a with
      | .ok => .ok ()
      | .noAnswer => if g.asChecked then .ok () else .panic      -- `statusErr.ErrStatus`: nil pointer
      | .status code => if code == 409 || code == 422 then updateStatus g parts rest else .ok ()

/-- a RuleSet event on the informer's goroutine: whatever the processor did with the rule set, the handler ends with
the status update -/
def ruleSetEvent (g : StatusGuards) (parts : Nat) (answers : List PatchAnswer) : Nat → Out Unit × Nat :=
  fun handled => (updateStatus g parts answers, handled + 1)

/-! ### What a RuleSet resource holds: the mechanism configs are deep-copied on the informer's goroutine

`updateStatus` copies the resource it was handed (`rs.DeepCopy()`, and once more inside `NewJSONPatch(…).Data()`)
before it touches the status, for every event, whether the processor accepted the rule set or not. The copy reaches
`config.MechanismConfig.DeepCopyInto` for the `config` of every `execute` / `on_error` entry: an untyped object whose
content the CRD does not constrain (unknown fields are preserved), so any JSON value may sit in it, nulls included. -/

def Val.isNull : Val → Bool
  | .null => true
  | _ => false

mutual
  /-- a structural copy of a decoded value. `nullElem`: a null element of a list is copied as null (what the JSON
  round trip of `MechanismConfig.DeepCopyInto` does: `json.Marshal` writes `null`, `json.Unmarshal` reads it back);
  `false` stands for a copy that dereferences every element. -/
  def copyVal (nullElem : Bool) : Val → Out Val
    | .list l => (copyList nullElem l).bind fun l' => .ok (.list l')
    | .map m => (copyFields nullElem m).bind fun m' => .ok (.map m')
    | v => .ok v
  def copyList (nullElem : Bool) : List Val → Out (List Val)
    | [] => .ok []
    | v :: vs =>
      if v.isNull && !nullElem then .panic
      else (copyVal nullElem v).bind fun v' => (copyList nullElem vs).bind fun vs' => .ok (v' :: vs')
  def copyFields (nullElem : Bool) : List (String × Val) → Out (List (String × Val))
    | [] => .ok []
    | (k, v) :: rest =>
      (copyVal nullElem v).bind fun v' => (copyFields nullElem rest).bind fun rest' => .ok ((k, v') :: rest')
end

/-- `RuleSet.DeepCopy`: the configs of all mechanism references of all rules, one after the other -/
def copyConfigs (nullElem : Bool) : List Val → Out Unit
  | [] => .ok ()
  | c :: cs => (copyVal nullElem c).bind fun _ => copyConfigs nullElem cs

/-- a RuleSet event on the informer's goroutine, the content of the resource included: the handler ends with
`updateStatus`, which first copies the resource (`configs`: the `config` values in it) and then does what
`ruleSetEvent` describes -/
def ruleSetEventWith (g : StatusGuards) (nullElem : Bool) (configs : List Val) (parts : Nat)
    (answers : List PatchAnswer) : Nat → Out Unit × Nat :=
  fun handled => ((copyConfigs nullElem configs).bind fun _ => updateStatus g parts answers, handled + 1)

end Heimdall.Loaders
