import HeimdallModel.Model.Authn
/-!
# From the wire to the request view of the extractors (property C04)

What `net/http` and `net/url` make of the raw `Cookie` header lines and of the raw query string before the
extractors see them — including what they silently drop: a cookie whose value contains a byte that is not allowed,
a query parameter containing `;` or a bad percent-escape. Dropped data is *missing* for the extractors.

Core Lean only. Bytes ≥ 0x80 produced by percent-decoding are outside the model.
-/
namespace Heimdall.Authn.Wire

/-- `strings.Cut(s, sep)` on characters: the text before the first `sep` and the text after it -/
def cut (sep : Char) (s : List Char) : List Char × List Char :=
  (s.takeWhile (· != sep), (s.dropWhile (· != sep)).drop 1)

/-- `strings.Split` on a character -/
def splitOn (sep : Char) : List Char → List (List Char)
  | [] => [[]]
  | c :: cs =>
    match splitOn sep cs with
    | [] => [[c]]
    | p :: ps => if c == sep then [] :: p :: ps else (c :: p) :: ps

/-- `textproto.TrimString`: blanks and tabs at both ends -/
def trimBlanks (s : List Char) : List Char :=
  let blank (c : Char) : Bool := c == ' ' || c == '\t'
  ((s.dropWhile blank).reverse.dropWhile blank).reverse

def hexVal (c : Char) : Option Nat :=
  if '0' ≤ c ∧ c ≤ '9' then some (c.toNat - '0'.toNat)
  else if 'a' ≤ c ∧ c ≤ 'f' then some (c.toNat - 'a'.toNat + 10)
  else if 'A' ≤ c ∧ c ≤ 'F' then some (c.toNat - 'A'.toNat + 10)
  else none

/-- `url.QueryUnescape`: `%XX` is a byte, `+` a blank; a `%` not followed by two hex digits is an error -/
def queryUnescape : List Char → Option (List Char)
  | [] => some []
  | '%' :: a :: b :: rest =>
    match hexVal a, hexVal b, queryUnescape rest with
    | some x, some y, some r => some (Char.ofNat (16 * x + y) :: r)
    | _, _, _ => none
  | '%' :: _ => none
  | '+' :: rest => (queryUnescape rest).map (' ' :: ·)
  | c :: rest => (queryUnescape rest).map (c :: ·)

/-- one `&`-separated piece of the query as `url.ParseQuery` reads it; `none`: dropped -/
def queryPair (piece : List Char) : Option (String × String) :=
  if piece.isEmpty || piece.contains ';' then none
  else
    let (k, v) := cut '=' piece
    match queryUnescape k, queryUnescape v with
    | some k', some v' => some (String.ofList k', String.ofList v')
    | _, _ => none

/-- `URL.Query()` (the error of `url.ParseQuery` is ignored, the pairs that could be read are kept), in order -/
def parseQuery (raw : String) : List (String × String) :=
  (splitOn '&' raw.toList).filterMap queryPair

/-- `validCookieValueByte` -/
def validCookieValueChar (c : Char) : Bool :=
  0x20 ≤ c.toNat && c.toNat < 0x7f && c != '"' && c != ';' && c != '\\'

/-- `parseCookieValue(raw, true)`: surrounding double quotes are stripped, any other byte must be allowed -/
def cookieValue (raw : List Char) : Option (List Char) :=
  let v := if raw.length > 1 && raw.head? == some '"' && raw.getLast? == some '"' then (raw.drop 1).dropLast else raw
  if v.all validCookieValueChar then some v else none

/-- one `;`-separated part of a `Cookie` header line as `readCookies` reads it; `none`: dropped -/
def cookiePair (part : List Char) : Option (String × String) :=
  let part := trimBlanks part
  if part.isEmpty then none
  else
    let (n, v) := cut '=' part
    let n := trimBlanks n
    if n.isEmpty || !n.all isTokenChar then none
    else (cookieValue v).map (fun v' => (String.ofList n, String.ofList v'))

/-- `readCookies`: all cookies of all `Cookie` header lines, in order -/
def parseCookies (lines : List String) : List (String × String) :=
  lines.flatMap (fun line => (splitOn ';' (trimBlanks line.toList)).filterMap cookiePair)

/-- a cookie with a quote, a backslash or a non-ASCII character in its value does not exist for the extractors -/
example : parseCookies ["sess=a\"b; tok=x", "other=ä; last=\"quoted\""] = [("tok", "x"), ("last", "quoted")] := by
  decide

/-- a parameter followed by `;` or with a bad escape does not exist either; later ones survive -/
example : parseQuery "access_token=abc;x=1&token=ab%zz&b=%41+c&access_token=second" =
    [("b", "A c"), ("access_token", "second")] := by decide

end Heimdall.Authn.Wire
