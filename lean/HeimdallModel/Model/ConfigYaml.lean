import HeimdallModel.Model.ConfigLeaf
/-!
# Model of the reading of a plain text as a YAML scalar (property C20)

Three places of the configuration loader let a YAML decoder decide what a text means:

* `internal/config/validator.go ValidateConfig` decodes the FILE for the JSON-schema validation,
* `internal/config/parser/yaml.go koanfFromYaml` (koanf's YAML parser) decodes the FILE for the merge,
* `internal/config/parser/env.go toRealType` decodes `"val: " ++ text` for every ENVIRONMENT variable.

On the unchanged tree all three are `gopkg.in/yaml.v3` (YAML 1.2 core schema with some YAML 1.1 leniencies), so all
three are ONE function of the text: `readText` below (`validatorReads`, `loaderReads`, `envReads` in
`Spec/ConfigYaml.lean` are this function). `readPlain` is `yaml.v3 resolve("", text)` for a plain (unquoted) scalar,
written after `resolve.go` and measured on the real code (harness op `readings`, which asks the real `toRealType`, the
real `koanfFromYaml` and the real `ValidateConfig`):

* the words `~ null Null NULL` and the empty text are nil; `true True TRUE` / `false False FALSE` are the ONLY
  booleans – `yes no on off y n` in any case are strings (YAML 1.1 reads them as booleans);
* `.nan .inf +.inf -.inf` (three spellings each) are floats;
* a text starting with a digit or a sign is, in this order: a timestamp (`2001-12-14`, `2001-12-14T21:59:43Z`,
  `2001-12-14 21:59:43`), an integer as Go's `strconv.ParseInt(_, 0, 64)` / `ParseUint` read it after all `_` are
  removed (`0x1F`, `0o17`, `0b11`, and – the YAML 1.1 leniency – `017` = 15), a float (`1e3`, `1.0`, `08`), the
  leftovers `0b-1` / `0o-7`, else a string (`1:30`: no sexagesimal numbers; `0o8`; `1e400`: out of range);
* a text starting with `.` is a float when Go's `ParseFloat` reads it (`.5`), else a string;
* everything else (`<<`, `=`, `tRue`, `infinity`) is a string.

The text of a float is `strconv.FormatFloat(f, 'f', -1, 64)`; the model prints the exact decimal value, which is what
Go prints for up to 15 significant digits (beyond that only the kind is modelled). Core Lean only.
-/
namespace Heimdall.Config

/-! ## the words of `resolveMap` -/

def nullWords : List (List Char) := [c!"", c!"~", c!"null", c!"Null", c!"NULL"]
def trueWords : List (List Char) := [c!"true", c!"True", c!"TRUE"]
def falseWords : List (List Char) := [c!"false", c!"False", c!"FALSE"]
def nanWords : List (List Char) := [c!".nan", c!".NaN", c!".NAN"]
def posInfWords : List (List Char) := [c!".inf", c!".Inf", c!".INF", c!"+.inf", c!"+.Inf", c!"+.INF"]
def negInfWords : List (List Char) := [c!"-.inf", c!"-.Inf", c!"-.INF"]

/-- `resolveMap[in]` -/
def wordReading? (s : List Char) : Option Scalar :=
  if nullWords.contains s then some .null
  else if trueWords.contains s then some (.bool true)
  else if falseWords.contains s then some (.bool false)
  else if nanWords.contains s then some (.float c!"NaN")
  else if posInfWords.contains s then some (.float c!"+Inf")
  else if negInfWords.contains s then some (.float c!"-Inf")
  else none

/-! ## Go `strconv` integers -/

def isDigit (c : Char) : Bool := '0' ≤ c && c ≤ '9'

/-- the value of a digit in the given base (letters in either case) -/
def digitIn (base : Nat) (c : Char) : Option Nat :=
  let v : Option Nat :=
    if '0' ≤ c ∧ c ≤ '9' then some (c.toNat - 48)
    else if 'a' ≤ c ∧ c ≤ 'z' then some (c.toNat - 87)
    else if 'A' ≤ c ∧ c ≤ 'Z' then some (c.toNat - 55)
    else none
  v.bind fun d => if d < base then some d else none

/-- digits in a base; `none` for the empty text or a character that is no digit of the base -/
def parseDigits (base : Nat) (s : List Char) : Option Nat :=
  if s.isEmpty then none
  else s.foldl (fun acc c => acc.bind fun n => (digitIn base c).map fun d => n * base + d) (some 0)

/-- the magnitude `strconv.ParseUint(s, 0, _)` reads (underscores are gone already): `0x` / `0b` / `0o` prefix in either
    case when at least one more character follows, a leading `0` otherwise means octal (`0` itself is 0) -/
def goMagnitude0 (s : List Char) : Option Nat :=
  match s with
  | [] => none
  | '0' :: [] => some 0
  | '0' :: c :: r =>
    if (c == 'x' || c == 'X') && !r.isEmpty then parseDigits 16 r
    else if (c == 'b' || c == 'B') && !r.isEmpty then parseDigits 2 r
    else if (c == 'o' || c == 'O') && !r.isEmpty then parseDigits 8 r
    else parseDigits 8 (c :: r)
  | _ => parseDigits 10 s

def two63 : Nat := 9223372036854775808
def two64 : Nat := 18446744073709551616

/-- a magnitude with the sign in front of it, within `int64` -/
def signedIn64 (neg : Bool) (m : Nat) : Option Int :=
  if neg then (if m ≤ two63 then some (-(m : Int)) else none)
  else if m < two63 then some (m : Int) else none

/-- `strconv.ParseInt(s, 0, 64)` -/
def goParseInt0 (s : List Char) : Option Int :=
  match s with
  | '-' :: r => (goMagnitude0 r).bind (signedIn64 true)
  | '+' :: r => (goMagnitude0 r).bind (signedIn64 false)
  | r => (goMagnitude0 r).bind (signedIn64 false)

/-- `strconv.ParseUint(s, 0, 64)` (no sign) -/
def goParseUint0 (s : List Char) : Option Int :=
  (goMagnitude0 s).bind fun m => if m < two64 then some (m : Int) else none

/-- `strconv.ParseInt(s, base, 64)` for an explicit base (sign, then digits of the base) -/
def goParseIntBase (base : Nat) (s : List Char) : Option Int :=
  match s with
  | '-' :: r => (parseDigits base r).bind (signedIn64 true)
  | '+' :: r => (parseDigits base r).bind (signedIn64 false)
  | r => (parseDigits base r).bind (signedIn64 false)

def goParseUintBase (base : Nat) (s : List Char) : Option Int :=
  (parseDigits base s).bind fun m => if m < two64 then some (m : Int) else none

/-- the last attempts of `resolve`: `0b…` / `-0b…` / `0o…` / `-0o…` once more with the explicit base (reached only when
    `ParseInt(_, 0, 64)` refused: `0b-1` is −1) -/
def binOct? (plain : List Char) : Option Int :=
  match plain with
  | '0' :: 'b' :: r => (goParseIntBase 2 r).orElse fun _ => goParseUintBase 2 r
  | '-' :: '0' :: 'b' :: r => goParseIntBase 2 ('-' :: r)
  | '0' :: 'o' :: r => (goParseIntBase 8 r).orElse fun _ => goParseUintBase 8 r
  | '-' :: '0' :: 'o' :: r => goParseIntBase 8 ('-' :: r)
  | _ => none

/-! ## floats: `yamlStyleFloat` and `strconv.ParseFloat` / `FormatFloat(f, 'f', -1, 64)` -/

/-- sign, digits before and after the point, decimal exponent -/
structure FloatShape where
  neg : Bool
  whole : List Char
  frac : List Char
  exp : Int
deriving Repr, DecidableEq

def splitAt1 (p : Char → Bool) : List Char → List Char × Option (List Char)
  | [] => ([], none)
  | c :: r => if p c then ([], some r) else
    let (a, b) := splitAt1 p r
    (c :: a, b)

/-- `[-+]?[0-9]+` -/
def parseExp? (s : List Char) : Option Int :=
  match s with
  | '-' :: r => if r.all isDigit then (parseNat? r).map fun k => -(k : Int) else none
  | '+' :: r => if r.all isDigit then (parseNat? r).map fun k => (k : Int) else none
  | r => if r.all isDigit then (parseNat? r).map fun k => (k : Int) else none

/-- `^[-+]?(\.[0-9]+|[0-9]+(\.[0-9]*)?)([eE][-+]?[0-9]+)?$` -/
def floatShape? (s : List Char) : Option FloatShape :=
  let (neg, body) : Bool × List Char := match s with
    | '-' :: r => (true, r)
    | '+' :: r => (false, r)
    | r => (false, r)
  let (mant, ex) := splitAt1 (fun c => c == 'e' || c == 'E') body
  let e? : Option Int := match ex with
    | none => some 0
    | some x => parseExp? x
  let (whole, fr) := splitAt1 (fun c => c == '.') mant
  let frac := fr.getD []
  let okMant := whole.all isDigit && frac.all isDigit &&
    (if whole.isEmpty then fr.isSome && !frac.isEmpty else true)
  if okMant then e?.map fun e => { neg := neg, whole := whole, frac := frac, exp := e } else none

/-- digits read as a number (the empty list is 0) -/
def digitsVal (s : List Char) : Nat := s.foldl (fun n c => n * 10 + (c.toNat - 48)) 0

def stripZeros : Nat → Nat → Nat × Nat
  | 0, n => (n, 0)
  | fuel + 1, n => if n != 0 && n % 10 == 0 then
      let (m, k) := stripZeros fuel (n / 10)
      (m, k + 1)
    else (n, 0)

/-- decimal digits by structural recursion on a bound for their number (what `natDigits` gives; this form reduces in
    the kernel) -/
def decDigitsAux : Nat → Nat → List Char → List Char
  | 0, n, acc => digitChar (n % 10) :: acc
  | fuel + 1, n, acc => if n < 10 then digitChar n :: acc else decDigitsAux fuel (n / 10) (digitChar (n % 10) :: acc)

def decDigits (fuel n : Nat) : List Char := decDigitsAux fuel n []

/-- values of this size and above are out of range for a `float64` (`ParseFloat` fails): 2^1024 − 2^970 -/
def floatLimit : Nat := 2 ^ 1024 - 2 ^ 970

/-- the text Go prints for the float the shape denotes (`'f'`, shortest): the exact decimal value without trailing
    zeros; `none` when the value is out of range. Exponents beyond +400 are out of range and values
    below 1e-330 are ±0 without computing the power (denormal values between are not printed exactly). -/
def floatShown? (f : FloatShape) : Option (List Char) :=
  let n := digitsVal (f.whole ++ f.frac)
  let k : Int := f.exp - (f.frac.length : Int)
  let sign : List Char := if f.neg then ['-'] else []
  if n == 0 then some (sign ++ ['0'])
  else
    let (m, z) := stripZeros (f.whole.length + f.frac.length) n
    let k := k + (z : Int)
    let ds := decDigits (f.whole.length + f.frac.length) m
    if k ≥ 0 then
      if k > 400 then none
      else if m * 10 ^ k.toNat ≥ floatLimit then none
      else some (sign ++ ds ++ List.replicate k.toNat '0')
    else
      let fr := (-k).toNat
      if fr ≥ 330 + ds.length then some (sign ++ ['0'])          -- underflow: ±0
      else if ds.length > fr then
        (if m ≥ floatLimit * 10 ^ fr then none
         else some (sign ++ ds.take (ds.length - fr) ++ ['.'] ++ ds.drop (ds.length - fr)))
      else some (sign ++ ['0', '.'] ++ List.replicate (fr - ds.length) '0' ++ ds)

/-! ## timestamps: `parseTimestamp` (`time.Parse` with the four layouts of `allowedTimestampFormats`) -/

/-- one or two digits, then the rest (`getnum(value, false)`) -/
def num12 (s : List Char) : Option (Nat × List Char) :=
  match s with
  | a :: b :: r => if isDigit a && isDigit b then some ((a.toNat - 48) * 10 + (b.toNat - 48), r)
                   else if isDigit a then some (a.toNat - 48, b :: r) else none
  | [a] => if isDigit a then some (a.toNat - 48, []) else none
  | [] => none

def leapYear (y : Nat) : Bool := (y % 4 == 0 && y % 100 != 0) || y % 400 == 0

def daysIn (y m : Nat) : Nat :=
  if m == 2 then (if leapYear y then 29 else 28)
  else if m == 4 || m == 6 || m == 9 || m == 11 then 30 else 31

/-- `2006-1-2` at the start: four digits, `-`, month, `-`, day of an existing date; the rest of the text -/
def dateHead (s : List Char) : Option (List Char) :=
  match s with
  | a :: b :: c :: d :: '-' :: r =>
    if isDigit a && isDigit b && isDigit c && isDigit d then
      let y := digitsVal [a, b, c, d]
      match num12 r with
      | some (m, '-' :: r2) =>
        match num12 r2 with
        | some (dd, r3) => if 1 ≤ m && m ≤ 12 && 1 ≤ dd && dd ≤ daysIn y m then some r3 else none
        | none => none
      | _ => none
    else none
  | _ => none

/-- `15:4:5` with an optional fraction (`.` or `,` and digits); the rest of the text -/
def clockHead (s : List Char) : Option (List Char) :=
  match num12 s with
  | some (h, ':' :: r1) =>
    match num12 r1 with
    | some (mi, ':' :: r2) =>
      match num12 r2 with
      | some (se, r3) =>
        if h < 24 && mi < 60 && se < 60 then
          match r3 with
          | p :: q :: r4 => if (p == '.' || p == ',') && isDigit q then some (r4.dropWhile isDigit) else some r3
          | _ => some r3
        else none
      | none => none
    | _ => none
  | _ => none

/-- `Z07:00`: `Z` or a sign and `hh:mm` -/
def zoneOk (s : List Char) : Bool :=
  match s with
  | ['Z'] => true
  | [sg, a, b, ':', c, d] =>
    (sg == '+' || sg == '-') && isDigit a && isDigit b && isDigit c && isDigit d
      && (a.toNat - 48) * 10 + (b.toNat - 48) ≤ 24 && (c.toNat - 48) * 10 + (d.toNat - 48) < 60
  | _ => false

def isTimestamp (s : List Char) : Bool :=
  match dateHead s with
  | some [] => true
  | some ('T' :: r) => match clockHead r with | some z => zoneOk z | none => false
  | some ('t' :: r) => match clockHead r with | some z => zoneOk z | none => false
  | some (' ' :: r) => match clockHead r with | some z => z.isEmpty | none => false
  | _ => false

/-! ## `resolve` -/

/-- the branch of `resolve` for a text that starts with a digit or a sign; never a boolean, never nil -/
def numericReading (s : List Char) : Scalar :=
  if isTimestamp s then .time
  else
    let plain := s.filter (· != '_')
    match goParseInt0 plain with
    | some n => .int n
    | none =>
      match goParseUint0 plain with
      | some n => .int n
      | none =>
        match (floatShape? plain).bind floatShown? with
        | some r => .float r
        | none =>
          match binOct? plain with
          | some n => .int n
          | none => .str s

/-- `yaml.v3 resolve("", s)`: what a plain scalar is -/
def readPlain (s : List Char) : Scalar :=
  match wordReading? s with
  | some y => y
  | none =>
    match s with
    | [] => .null
    | c :: _ =>
      if isDigit c || c == '+' || c == '-' then numericReading s
      else if c == '.' then
        (match (floatShape? s).bind floatShown? with
         | some r => .float r
         | none => .str s)
      else .str s

/-! ## the text of one property, one line, as the file (`key: text`) or a variable (`val: text`) carries it -/

def trimSpaces (s : List Char) : List Char :=
  ((s.dropWhile (· == ' ')).reverse.dropWhile (· == ' ')).reverse

def hasInfix (a b : Char) : List Char → Bool
  | x :: y :: r => (x == a && y == b) || hasInfix a b (y :: r)
  | _ => false

def indicatorStart (c : Char) : Bool :=
  ['-', '?', ':', ',', '[', ']', '{', '}', '#', '&', '*', '!', '|', '>', '\'', '"', '%', '@', '`'].contains c

/-- a one-line plain scalar in a block mapping: does not start with an indicator (`-`, `?`, `:` are fine before a
    non-blank), holds no `: ` and no ` #`, does not end in `:`, holds no tab or line break -/
def plainToken (s : List Char) : Bool :=
  (match s with
   | [] => false
   | c :: r =>
     if c == '-' || c == '?' || c == ':' then (match r with | d :: _ => d != ' ' | [] => false)
     else !indicatorStart c)
  && !hasInfix ':' ' ' s && !hasInfix ' ' '#' s && s.getLast? != some ':'
  && s.all fun c => c != '\t' && c != '\n' && c != '\r'

/-- what YAML reads at `key: text`; `none`: the text is outside the modelled fragment (collections, comments, tags,
    anchors, block scalars, escapes, texts YAML cannot read) – the check then only compares the real decoders with each
    other. Blank = nil; `"…"` / `'…'` without inner quotes or escapes = that string; else a plain scalar. -/
def readText (t : List Char) : Option Scalar :=
  let s := trimSpaces t
  match s with
  | [] => some .null
  | '"' :: r =>
    (match r.reverse with
     | '"' :: inner => if inner.all (fun c => c != '"' && c != '\\' && c != '\n') then some (.str inner.reverse) else none
     | _ => none)
  | '\'' :: r =>
    (match r.reverse with
     | '\'' :: inner => if inner.all (fun c => c != '\'' && c != '\n') then some (.str inner.reverse) else none
     | _ => none)
  | _ => if plainToken s then some (readPlain s) else none

/-! ## references to environment variables in the file (`${NAME}`, `${NAME:=default}`)

`yaml.go koanfFromYaml` (and `validator.go ValidateConfig`) hand the raw TEXT of the file to `envsubst.EvalEnv` before YAML
reads it: a reference is replaced by the contents of the variable, character by character, wherever it stands – inside
quotes too. So the quotes the operator writes around a reference (`password: "${PW}"`) are still there when YAML reads
the line and decide what the contents are: a string. The model is the substitution as a scanner over the characters
(fragment: `${NAME}`, `${NAME:=d}`, `${NAME=d}`, `${NAME:-d}`, `${NAME-d}` with a default made of letters, digits, `.`
and `_`; every other use of `$` is outside the fragment, `none`). An unset variable has the empty contents
(`os.Getenv`); a default stands in for empty contents. -/

abbrev Vars := List (List Char × List Char)

/-- the contents of the variable (`os.Getenv`: empty when it is not set) -/
def Vars.contents (vs : Vars) (n : List Char) : List Char :=
  match vs.lookup n with
  | some v => v
  | none => []

def isNameChar (c : Char) : Bool := c.isAlphanum || c == '_'
def isDefaultChar (c : Char) : Bool := c.isAlphanum || c == '_' || c == '.'

/-- a variable name: not empty, does not start with a digit -/
def nameOk (n : List Char) : Bool :=
  match n with
  | [] => false
  | c :: r => !c.isDigit && isNameChar c && r.all isNameChar

inductive RefState where
  | text
  | dollar
  | name (acc : List Char)
  | sep (name : List Char)
  | dflt (name acc : List Char)

/-- `envsubst.EvalEnv` on the modelled fragment -/
def substGo (vs : Vars) : RefState → List Char → Option (List Char)
  | .text, [] => some []
  | .text, c :: r => if c == '$' then substGo vs .dollar r else (substGo vs .text r).map (c :: ·)
  | .dollar, [] => none
  | .dollar, c :: r => if c == '{' then substGo vs (.name []) r else none
  | .name _, [] => none
  | .name acc, c :: r =>
    if isNameChar c then substGo vs (.name (c :: acc)) r
    else if c == '}' then
      (if nameOk acc.reverse then (substGo vs .text r).map (vs.contents acc.reverse ++ ·) else none)
    else if c == ':' then substGo vs (.sep acc.reverse) r
    else if c == '=' || c == '-' then substGo vs (.dflt acc.reverse []) r
    else none
  | .sep _, [] => none
  | .sep n, c :: r => if c == '=' || c == '-' then substGo vs (.dflt n []) r else none
  | .dflt _ _, [] => none
  | .dflt n acc, c :: r =>
    if isDefaultChar c then substGo vs (.dflt n (c :: acc)) r
    else if c == '}' then
      (if nameOk n then
         (substGo vs .text r).map ((if (vs.contents n).isEmpty then acc.reverse else vs.contents n) ++ ·)
       else none)
    else none

/-- what the file says after its references are resolved; `none`: a use of `$` outside the modelled fragment -/
def substitute (vs : Vars) (t : List Char) : Option (List Char) := substGo vs .text t

/-- what YAML reads at `key: text` of a file whose references are resolved first -/
def readRefText (vs : Vars) (t : List Char) : Option Scalar := (substitute vs t).bind readText

end Heimdall.Config
