import HeimdallModel.Gen.CompositeSrc
import HeimdallModel.Model.Pipeline
/-!
# The translated pipeline kernels instantiated with the mechanisms of the C01 model

`Gen/CompositeSrc.lean` (regenerated from the Go source on every run) is generic: the elements a composite ranges over
and what a conditional handler wraps are parameters. Here those parameters are filled with the mechanisms of
`Model/Pipeline.lean` — an authenticator / step / error handler *is* its scripted outcome — so that the translated
functions can be compared with `createSubject`, `Handler.execute`, `runHandlers`, `runErrorHandlers`
(`Props/C01Src.lean`, for all lists) and evaluated on concrete rules (`Rule.executeSrc`, used by the replay search of
`tools/props/c01.py`). Nothing here is imported by the shared driver.

Correspondence of the parameters: request context `Ctx` = `Pipeline.Ctx`; a panic value = the sentinels visible in it
(`List Kind`); subject = its id; `exec a` = `authExec a` (visit, then the outcome as the Go pair `(sub, err)`);
`fallback a` = `a.fallback`; `isArgument e` = `e.is .argument`; `canExecute` = the `CondOut` of the `if` condition as
the Go pair `(bool, err)` (`fails` = `(false, foreign error)`); the wrapped handler = `stepExec` / `kindExec`
(`EHKind.run`); `continueOnError h` = `h.continueOnError`; errors of the error pipeline = `EErr` (the package-private
sentinel `errErrorHandlerNotApplicable`, or an error of the model).
-/
namespace Heimdall.Pipeline.SrcTie
open Heimdall Heimdall.Pipeline Heimdall.Rules

abbrev GoRes (α : Type) := Go.Res Ctx (List Kind) α
abbrev GoM (α : Type) := Go.M Ctx (List Kind) α

/-- the model's `Run` as outcome of a Go call -/
def ofRun {α : Type} : Run α → GoRes α
  | .done a c => .done a c
  | .panic v c => .panic v c

/-- `(sub, nil)` / `(nil, err)` -/
def pairOf : Except Err String → Option String × Option Err
  | .ok s => (some s, none)
  | .error e => (none, some e)

/-- `Execute` of an authenticator of the model -/
def authExec (a : Authenticator) : GoM (Option String × Option Err) := fun c =>
  match a.out with
  | .ok s => .done (some s, none) (c.visit a.id)
  | .err ks => .done (none, some (.ofKinds ks)) (c.visit a.id)
  | .panic v => .panic v (c.visit a.id)

/-- `(true, nil)`, `(false, nil)`, `(false, err)` -/
def condPair : CondOut → Bool × Option Err
  | .yes => (true, none)
  | .no => (false, none)
  | .fails => (false, some .foreign)

/-- `h.c.CanExecuteOnSubject(ctx, sub)` -/
def condOnSubject (h : Handler) : Option String → GoM (Bool × Option Err) := fun sub c =>
  .done (condPair (match sub with | some s => h.cond.onSubject s | none => .fails)) c

/-- `h.h.Execute(ctx, sub)` of an authorizer / contextualizer / finalizer of the model -/
def stepExec (h : Handler) : Option String → GoM (Option Err) := fun _ c =>
  match h.out with
  | .ok => .done none (c.visit h.id)
  | .err ks => .done (some (.ofKinds ks)) (c.visit h.id)
  | .panic v => .panic v (c.visit h.id)

/-- `Execute` of an element of `compositeSubjectHandler`: the translated conditional handler around the model's
mechanism -/
def handlerExec {Dump : Type} (trace : Bool) (marshal : Option String → Option Dump × Option Err) (nilV : List Kind)
    (h : Handler) : Option String → GoM (Option Err) :=
  Src.ConditionalSubjectHandler.Execute (condOnSubject h) (stepExec h) trace marshal nilV

/-- Go error values as the error pipeline sees them: the sentinel `errErrorHandlerNotApplicable` of package `rules`, or
an error of the model (`Pipeline.Err`: what `errors.Is` can see of a heimdall / foreign error; none of them `Is` the
sentinel, which never leaves the package) -/
inductive EErr where
  | notApplicable
  | real (e : Err)
deriving DecidableEq, Repr

def EErr.isNotApplicable : EErr → Bool
  | .notApplicable => true
  | .real _ => false

/-- an error of the model is never the sentinel -/
theorem EErr.real_not_sentinel (x : Option Err) : Option.any EErr.isNotApplicable (x.map .real) = false := by
  cases x <;> rfl

/-- `h.c.CanExecuteOnError(ctx, causeErr)` -/
def condOnError (h : ErrorHandler) : Option EErr → GoM (Bool × Option EErr) := fun cause c =>
  match condPair (match cause with | some (.real e) => h.cond.onError e | _ => .fails) with
  | (b, e) => .done (b, e.map .real) c

/-- `Execute` of the three real error handlers (`EHKind.run`) -/
def kindExec (h : ErrorHandler) : Option EErr → GoM (Option EErr) := fun cause c =>
  match cause with
  | some (.real e) => .done ((h.kind.run e c).1.map .real) (h.kind.run e c).2
  | _ => .done none c

/-- `Execute` of an element of `compositeErrorHandler`: the translated conditional error handler around the model's
error handler -/
def errorHandlerExec (nilV : List Kind) (h : ErrorHandler) : Option EErr → GoM (Option EErr) :=
  Src.ConditionalErrorHandler.Execute (condOnError h) (kindExec h) .notApplicable nilV

/-- what leaves the error pipeline, as an error of the model (the sentinel does not leave it; if it did it would be a
foreign error to everybody else) -/
def EErr.toErr : EErr → Err
  | .real e => e
  | .notApplicable => .foreign

/-! ## a rule run through the translated functions -/

def nilPanic : List Kind := []

def noDump : Option String → Option Unit × Option Err := fun _ => (none, none)

/-- `r.sc.Execute(ctx)`: the translated `compositeSubjectCreator.Execute` over the authenticators of the rule -/
def creatorSrc (r : Rule) : GoM (Option String × Option EErr) :=
  Go.map (fun x => (x.1, x.2.map EErr.real))
    (Src.SubjectCreator.Execute authExec (·.fallback) (·.is .argument) nilPanic r.authenticators)

/-- `r.sh.Execute(ctx, sub)` / `r.fi.Execute(ctx, sub)`: the translated `compositeSubjectHandler.Execute` over translated
conditional handlers -/
def handlersSrc (trace : Bool) (hs : List Handler) (sub : Option String) : GoM (Option EErr) :=
  Go.map (Option.map EErr.real)
    (Src.SubjectHandler.Execute (handlerExec trace noDump nilPanic) (·.continueOnError) nilPanic hs sub)

/-- `r.eh.Execute(ctx, err)`: the translated `compositeErrorHandler.Execute` over translated conditional error
handlers -/
def errorPipelineSrc (r : Rule) (cause : Option EErr) : GoM (Option EErr) :=
  Src.ErrorHandler.Execute (errorHandlerExec nilPanic) EErr.isNotApplicable nilPanic r.errorHandlers cause

/-- what `ruleImpl.Execute` returns, as the model's `ExecOut` -/
def execOut (x : Option Unit × Option EErr) : ExecOut := ⟨x.1.isSome, x.2.map EErr.toErr⟩

/-- **`ruleImpl.Execute` as translated from the source, over the translated composites.** `trace`: the log level of the
request is `trace`; `slashesOn` / `slashesOff`: `allow_encoded_slashes` of the rule is `on` / `off`; `encodedSlash`: the
raw path of the request contains `%2F`; the error returned for it is an argument error. -/
def executeSrc (trace slashesOn slashesOff encodedSlash : Bool) (r : Rule) (c : Ctx) : GoRes ExecOut :=
  (Src.Rule.Execute (creatorSrc r) (handlersSrc trace r.handlers) (handlersSrc trace r.finalizers) (errorPipelineSrc r)
    false slashesOn slashesOff encodedSlash (.real (.ofKind .argument)) r.hasBackend () nilPanic c).map execOut

end Heimdall.Pipeline.SrcTie
