import HeimdallModel.Model.MechTemplate
/-!
# What an execution sends to the endpoint of its mechanism depends on the object's own settings only (C17)

What the code does (`internal/rules/endpoint`): `Endpoint.CreateClient` builds, for EVERY request, a new `http.Client`
from the settings of the endpoint it is called on — `retry` (a retrying round tripper, at most 5 repetitions of a
request the upstream answers with 503 & co.), `http_cache.enabled` (an `httpcache.RoundTripper` in front of it) and
`http_cache.default_ttl` (the lifetime that round tripper gives a response without freshness information; `0`: such a
response is not stored).  Nothing of a client outlives the request.  What does outlive it sits in the cache of the
process: the response stored by the HTTP cache layer and the result stored by the mechanism itself (`cache_ttl`).

The model has two layers.

* **Clients** (`Client`): `Settings` (what `CreateClient` reads), `Obj` (what of a mechanism object decides on its
  upstream traffic), `execWith s o st` = one execution of `o` through a client built from `s`, in the object's state
  `st` (what ITS earlier executions have left in the cache): the number of requests the upstream sees, and the new
  state.  `exec o = execWith o.client o`: the code.  `runOwn`: a process that executes objects in any order, each
  request through a client of its own; `runMemo key`: the same process with ONE table of clients per process, keyed by
  `key (settings, peer)`, the client built first under a key serving everybody who comes later (NOT the code: what
  memoising clients does).
* **Mechanisms** (`runHistSt`): histories of `Create…` calls and executions on one factory, where an execution has an
  effect on the state of the object executed: `step (configuration the object stands for) inputs state`.
  `Props/C17.lean` proves that every execution of the k-th object, wherever it stands in the history, yields what the
  k-th request yields alone after the earlier executions of the same object — for ANY `step`.

In the comparison with the implementation every object is given a cache of its own, so that the only way from one
object to another is the one the property forbids (equal cache keys of different objects are the subject of C10 / C11).
-/
namespace Heimdall.Mech.Client

/-- what `Endpoint.CreateClient` builds a client from -/
structure Settings where
  retry : Option String    -- the `retry` object of the endpoint (canonical JSON text), if there is one
  cache : Bool             -- `http_cache.enabled`
  ttl   : String           -- `http_cache.default_ttl` (canonical JSON text; `""`: not set)
deriving Repr, DecidableEq

/-- a duration of the configuration language that is more than nothing (the generator spells durations canonically:
`"0s"`, `"30m"`, `"1h"`, or a number of nanoseconds) -/
def positive (d : String) : Bool := !(["", "null", "0", "\"\"", "\"0\"", "\"0s\"", "\"0m\"", "\"0h\"", "\"0ms\""].contains d)

/-- what of a mechanism object decides on the requests its endpoint receives -/
structure Obj where
  client  : Settings
  peer    : String     -- the host the endpoint addresses (`CreateClient(req.URL.Hostname())`)
  get     : Bool       -- the endpoint is asked with GET
  body    : Bool       -- … and sent a payload
  busy    : Bool       -- the upstream answers every request with 503 (a property of the URL)
  mechTtl : Bool       -- `cache_ttl` of the mechanism is more than nothing
deriving Repr, DecidableEq

/-- what the earlier executions of an object have left in the cache: its own result (`cache_ttl`), the response of
its endpoint (HTTP cache) -/
structure St where
  mech : Bool := false
  http : Bool := false
deriving Repr, DecidableEq

/-- requests the upstream sees for one request of a client with settings `s`: a retrying client repeats a request
answered with 503 five times (`httpretry`: `defaultMaxRetryCount`) -/
def attempts (s : Settings) (busy : Bool) : Nat := if busy && s.retry.isSome then 6 else 1

/-- the HTTP cache layer may answer (and store) GET requests without a body only -/
def Obj.cacheable (o : Obj) : Bool := o.get && !o.body

/-- one request of `o` through a client built from `s`; `stored`: a response to this request is in the cache.
The number of requests the upstream sees and whether a response is in the cache afterwards (the upstream sends no
freshness information: the response is stored iff `default_ttl` says for how long) -/
def roundTrip (s : Settings) (o : Obj) (stored : Bool) : Nat × Bool :=
  if s.cache && o.cacheable && stored then (0, stored)
  else (attempts s o.busy, stored || (s.cache && o.cacheable && !o.busy && positive s.ttl))

/-- one execution of `o` whose endpoint is asked through a client built from `s` -/
def execWith (s : Settings) (o : Obj) (st : St) : Nat × St :=
  if o.mechTtl && st.mech then (0, st)
  else ((roundTrip s o st.http).1, ⟨st.mech || (o.mechTtl && !o.busy), (roundTrip s o st.http).2⟩)

/-- **the code: every request goes through a client built from the object's own settings** -/
def exec (o : Obj) (st : St) : Nat × St := execWith o.client o st

/-- the number of upstream requests of the (n+1)-th execution of an object that is the only one in the process -/
def stAfter (o : Obj) : Nat → St
  | 0 => {}
  | n + 1 => (exec o (stAfter o n)).2

def callsAlone (o : Obj) (n : Nat) : Nat := (exec o (stAfter o n)).1

/-! ## A process that executes objects -/

/-- the code; events: `k` = an execution of the k-th object.  The upstream requests of every execution -/
def runOwn (objs : List Obj) : (Nat → St) → List Nat → List (Option Nat)
  | _, [] => []
  | st, k :: rest =>
    match objs[k]? with
    | none => none :: runOwn objs st rest
    | some o => some (exec o (st k)).1 :: runOwn objs (upd st k (exec o (st k)).2) rest

/-- NOT the code: one table of clients per process.  An execution looks for a client under `key (own settings, peer)`;
the client built first under a key is the one everybody with that key uses from then on -/
def runMemo {K : Type} [DecidableEq K] (key : Settings × String → K) (objs : List Obj) :
    List (K × Settings) → (Nat → St) → List Nat → List (Option Nat)
  | _, _, [] => []
  | tab, st, k :: rest =>
    match objs[k]? with
    | none => none :: runMemo key objs tab st rest
    | some o =>
      match tab.find? fun e => e.1 = key (o.client, o.peer) with
      | some e => some (execWith e.2 o (st k)).1 :: runMemo key objs tab (upd st k (execWith e.2 o (st k)).2) rest
      | none =>
        some (exec o (st k)).1 ::
          runMemo key objs ((key (o.client, o.peer), o.client) :: tab) (upd st k (exec o (st k)).2) rest

end Heimdall.Mech.Client

namespace Heimdall.Mech

/-! ## Histories of creations and executions on one factory, executions with an effect on the object's own state -/

variable {Inp Out S : Type}

/-- the object behind what the factory handed out -/
def Handed.inst : Handed → Option Nat
  | .proto h => some h
  | .variant h => some h
  | _ => none

/-- a history run on the store.  `st x`: the state of object `x` (what its executions so far have left behind);
an execution of the k-th object handed out is `step (configuration the object stands for NOW) inputs (its state)`.
The records `(k, inputs, object and outcome)` of the executions, in order (`none`: the k-th call handed out nothing) -/
def runHistSt (step : Entries → Inp → S → Out × S) :
    Store Entries Override → List Handed → (Nat → S) → List (HEv Inp) → List (Nat × Inp × Option (Nat × Out))
  | _, _, _, [] => []
  | σ, hs, st, .exec k inp :: rest =>
    match (hs[k]?).bind Handed.inst with
    | none => (k, inp, none) :: runHistSt step σ hs st rest
    | some x =>
      (k, inp, some (x, (step (effective σ x) inp (st x)).1)) ::
        runHistSt step σ hs (upd st x (step (effective σ x) inp (st x)).2) rest
  | σ, hs, st, .create r :: rest =>
    match create σ r.1 r.2 with
    | .notFound => runHistSt step σ (hs ++ [.notFound]) st rest
    | .configError => runHistSt step σ (hs ++ [.configError]) st rest
    | .proto h => runHistSt step σ (hs ++ [.proto h]) st rest
    | .variant σ' h => runHistSt step σ' (hs ++ [.variant h]) st rest

/-- the inputs of the executions of object `x` among the records -/
def inputsOf (x : Nat) : List (Nat × Inp × Option (Nat × Out)) → List Inp
  | [] => []
  | (_, inp, some (y, _)) :: rest => if y = x then inp :: inputsOf x rest else inputsOf x rest
  | (_, _, none) :: rest => inputsOf x rest

/-- the state of an object that stands for configuration `eff` after executions with the given inputs, when nothing
else happens in the process -/
def stateAlone (step : Entries → Inp → S → Out × S) (eff : Entries) (s₀ : S) (inps : List Inp) : S :=
  inps.foldl (fun s i => (step eff i s).2) s₀

/-- the configuration the object of a request stands for when the request is the only one the factory ever sees -/
def aloneEff (σ₀ : Store Entries Override) (r : CreateReq) : Option Entries :=
  match createAlone σ₀ r with
  | .shows _ eff => some eff
  | _ => none

/-- the object the k-th `Create…` call of a history hands out (the prototype may be handed out under several numbers) -/
def objectOf (σ₀ : Store Entries Override) (reqs : List CreateReq) (k : Nat) : Option Nat :=
  ((createSeq σ₀ reqs).2[k]?).bind Handed.inst

end Heimdall.Mech
