import HeimdallModel.Model.Trie
import HeimdallModel.Model.Matcher
import HeimdallModel.Model.UpstreamUrl
/-!
# The rule repository (`internal/rules/repository_impl.go`), sequential semantics

`addRuleSet` / `updateRuleSet` / `deleteRuleSet` work on a copy of the index and publish it only if every step
succeeded; `findRule` looks the (normalised) raw path up and falls back to the default rule.
-/
namespace Heimdall

structure RuleCfg where
  id     : String
  bt     : Bool                         -- effective backtracking setting (C14)
  esh    : SlashHandling
  routes : List (String × RouteM)       -- path expression, matching conditions
  ver    : Nat := 0                     -- stands for everything else of this version of the rule (pipeline, backend)
  backend : Option BackendCfg := none   -- `forward_to` (`none`: the rule has no backend)
deriving Repr

/-- what is stored in the routing tree: one entry per route -/
structure RVal where
  rid   : String
  src   : String
  esh   : SlashHandling
  route : RouteM
  ver   : Nat := 0                      -- the version of the rule this entry belongs to
deriving Repr

structure Rule where
  src : String
  cfg : RuleCfg
deriving Repr

structure Repo where
  known : List Rule
  index : Table RVal
deriving Repr

def Repo.empty : Repo := ⟨[], []⟩

/-- the values constraint of `newRepository`: only rules of one rule set share a node -/
def sameSource (old : List RVal) (v : RVal) : Bool :=
  match old with
  | [] => true
  | o :: _ => o.src == v.src

def addRoutes (t : Table RVal) (r : Rule) : List (String × RouteM) → Option (Table RVal)
  | [] => some t
  | (p, m) :: rest =>
    match add sameSource t p ⟨r.cfg.id, r.src, r.cfg.esh, m, r.cfg.ver⟩ r.cfg.bt with
    | .ok t' => addRoutes t' r rest
    | .error _ => none

/-- `addRulesTo` -/
def addRules (t : Table RVal) : List Rule → Option (Table RVal)
  | [] => some t
  | r :: rs =>
    match addRoutes t r r.cfg.routes with
    | some t' => addRules t' rs
    | none => none

/-- `removeRulesFrom`: every (rule, path expression) pair is deleted once -/
def removeRoutes (t : Table RVal) (r : Rule) (seen : List (String × String)) :
    List (String × RouteM) → Option (Table RVal × List (String × String))
  | [] => some (t, seen)
  | (p, _) :: rest =>
    if seen.contains (r.cfg.id, p) then removeRoutes t r seen rest
    else
      match del t p (fun v => v.rid == r.cfg.id && v.src == r.src) with
      | some t' => removeRoutes t' r ((r.cfg.id, p) :: seen) rest
      | none => none

def removeRules (t : Table RVal) (seen : List (String × String)) : List Rule → Option (Table RVal)
  | [] => some t
  | r :: rs =>
    match removeRoutes t r seen r.cfg.routes with
    | some (t', seen') => removeRules t' seen' rs
    | none => none

def Repo.addRuleSet (s : Repo) (src : String) (rules : List RuleCfg) : Option Repo :=
  let rs := rules.map (Rule.mk src)
  match addRules s.index rs with
  | some t => some ⟨s.known ++ rs, t⟩
  | none => none

def Repo.updateRuleSet (s : Repo) (src : String) (rules : List RuleCfg) : Option Repo :=
  let applicable := s.known.filter (·.src == src)
  let rs := rules.map (Rule.mk src)
  match removeRules s.index [] applicable with
  | none => none
  | some t1 =>
    match addRules t1 rs with
    | none => none
    | some t2 => some ⟨s.known.filter (·.src != src) ++ rs, t2⟩

def Repo.deleteRuleSet (s : Repo) (src : String) : Option Repo :=
  let applicable := s.known.filter (·.src == src)
  match removeRules s.index [] applicable with
  | none => none
  | some t => some ⟨s.known.filter (·.src != src), t⟩

inductive RepoOp where
  | add (src : String) (rules : List RuleCfg)
  | upd (src : String) (rules : List RuleCfg)
  | del (src : String)
deriving Repr

def Repo.apply (s : Repo) : RepoOp → Option Repo
  | .add src rules => s.addRuleSet src rules
  | .upd src rules => s.updateRuleSet src rules
  | .del src => s.deleteRuleSet src

/-- a change that cannot be applied is rejected as a whole -/
def Repo.step (s : Repo) (op : RepoOp) : Repo := (s.apply op).getD s

def Repo.run (ops : List RepoOp) : Repo := ops.foldl Repo.step Repo.empty

/-- the lookup matcher handed to the tree by `FindRule` -/
def repoMatcher (q : ReqView) (v : RVal) (keys caps : List String) : Bool := routeMatches v.route q keys caps

inductive Found? where
  | rule (v : RVal) (params : List (String × String))
  | default
  | none
deriving Repr

def lookupPath (q : ReqView) : String :=
  if q.rawPath.isEmpty then q.path else normalizeUnreserved q.rawPath

/-- `FindRule` -/
def Repo.findRule (s : Repo) (hasDefault : Bool) (q : ReqView) : Found? :=
  match lookup (repoMatcher q) s.index (lookupPath q) with
  | some (v, ps) => .rule v ps
  | none => if hasDefault then .default else .none

inductive ExecResult where
  | ok (caps : List (String × String))
  | argument                                  -- precondition error (`heimdall.ErrArgument`)
deriving Repr, DecidableEq

/-- the Go map `Request.URL.Captures`: a name used twice keeps the last value -/
def lastWins (ps : List (String × String)) : List (String × String) :=
  ps.foldl (fun acc kv => (acc.filter (fun a => a.1 != kv.1)) ++ [kv]) []

/-- the part of `ruleImpl.Execute` that precedes the pipeline: encoded-slash switch and decoding of captures -/
def execPrelude (esh : SlashHandling) (q : ReqView) (params : List (String × String)) : ExecResult :=
  if esh = .off && containsEncodedSlash q.rawPath then .argument
  else .ok ((lastWins params).map fun kv => (kv.1, unescapeCapture esh kv.2))

structure Served where
  rule : Option (String × String)             -- (source, id); the default rule is ("config", "default")
  exec : Option ExecResult
deriving Repr

/-- lookup + start of execution, as observed by the correspondence check -/
def Repo.serve (s : Repo) (hasDefault : Bool) (q : ReqView) : Served :=
  match s.findRule hasDefault q with
  | .none => ⟨none, none⟩
  | .default => ⟨some ("config", "default"), some (execPrelude .off q [])⟩
  | .rule v ps => ⟨some (v.src, v.rid), some (execPrelude v.esh q ps)⟩

/-- the rule object an entry of the routing tree points to (`route.Rule()`): the known rule of that rule set with that
id and version (`ver` stands for the identity of the version, see `RuleCfg`) -/
def Repo.ruleOf (s : Repo) (v : RVal) : Option Rule :=
  s.known.find? fun r => r.src == v.src && r.cfg.id == v.rid && r.cfg.ver == v.ver

/-- the URL the request is forwarded to: the matched rule has a backend and its execution reached the end of the
(here: always succeeding) pipeline; the default rule has no backend -/
def Repo.upstream (s : Repo) (hasDefault : Bool) (q : ReqView) (rawQuery : String) : Option UpUrl :=
  match s.findRule hasDefault q with
  | .rule v ps =>
    match execPrelude v.esh q ps, (s.ruleOf v).bind (·.cfg.backend) with
    | .ok _, some be => some (upstreamUrl v.esh be q rawQuery)
    | _, _ => none
  | _ => none

/-- the request target the proxy service writes into the request line of the request it sends upstream
(`requestContext.Finalize` → `rewriteRequest`: the URL of the outgoing request is the URL the rule returned) -/
def Repo.sent (s : Repo) (hasDefault : Bool) (q : ReqView) (rawQuery : String) : Option String :=
  (s.upstream hasDefault q rawQuery).bind fun u => if transportSpeaks u.scheme then some (requestTarget u) else none

end Heimdall
