import HeimdallModel.Model.Matcher
/-!
# The URL a request is forwarded to, and the two constructors of the request view

* `internal/rules/config/backend.go` `Backend.CreateURL` and `url_rewriter.go` `URLRewriter.Rewrite`
  (`PrefixCutter.CutFrom`, `PrefixAdder.AddTo`, `QueryParamsRemover.RemoveFrom`), applied by `ruleImpl.Execute` to the
  request URL *after* the encoded-slash switch (`on` drops the raw path, the other settings keep it);
* the parts of Go's `net/url` they rest on: `escape(s, encodePath)`, `validEncoded`, `URL.EscapedPath`,
  `url.QueryUnescape`;
* how the two request contexts of the code base build the path part of the request view from the request target as
  received: `requestcontext.New` (HTTP based services; the request line was parsed by `net/http`, which refuses
  undecodable escapes) and `grpcv3.NewRequestContext` (Envoy ext_authz; whatever Envoy delivers in `path`).

Strings are byte strings (one character per octet).  Property C08 only needs the path of the upstream URL; scheme,
host and query are modelled so that the correspondence check can compare the whole URL (the full forwarding
specification belongs to C15).
-/
namespace Heimdall

/-- `rewrite` of `forward_to` -/
structure RewriteCfg where
  scheme : String := ""
  strip  : String := ""              -- `strip_path_prefix`
  add    : String := ""              -- `add_path_prefix`
  stripQ : List String := []         -- `strip_query_parameters`
deriving Repr, DecidableEq

/-- `forward_to` -/
structure BackendCfg where
  host    : String
  rewrite : Option RewriteCfg := none
deriving Repr, DecidableEq

/-- the URL handed to the proxy: `path` is `EscapedPath()`, i.e. what is written into the request line -/
structure UpUrl where
  scheme : String
  host   : String
  path   : String
  query  : String
deriving Repr, DecidableEq

namespace Upstream

def isAlnum (c : Char) : Bool :=
  ('a' ≤ c && c ≤ 'z') || ('A' ≤ c && c ≤ 'Z') || ('0' ≤ c && c ≤ '9')

/-- `shouldEscape(c, encodePath)` of `net/url` -/
def shouldEscapePath (c : Char) : Bool :=
  !(isAlnum c || c = '-' || c = '_' || c = '.' || c = '~' ||
    c = '$' || c = '&' || c = '+' || c = ',' || c = '/' || c = ':' || c = ';' || c = '=' || c = '@')

/-- `escape(s, encodePath)`: upper-case hex -/
def escapePathL : List Char → List Char
  | [] => []
  | c :: t =>
    if shouldEscapePath c then '%' :: hexDigitUpper (c.toNat / 16 % 16) :: hexDigitUpper (c.toNat % 16) :: escapePathL t
    else c :: escapePathL t

/-- one character of `validEncoded(s, encodePath)` -/
def validPathChar (c : Char) : Bool :=
  c = '!' || c = '$' || c = '&' || c = '\'' || c = '(' || c = ')' || c = '*' || c = '+' || c = ',' || c = ';' ||
  c = '=' || c = ':' || c = '@' || c = '[' || c = ']' || c = '%' || !shouldEscapePath c

def validEncodedL (s : List Char) : Bool := s.all validPathChar

/-- `(*url.URL).EscapedPath` for a URL with the given `Path` and `RawPath` -/
def escapedPathL (path raw : List Char) : List Char :=
  if !raw.isEmpty && validEncodedL raw && pathUnescapeL raw == some path then raw
  else if path = ['*'] then ['*'] else escapePathL path

/-- `strings.CutPrefix(s, pre)`: the remainder, if `pre` is a prefix -/
def stripPrefix? : List Char → List Char → Option (List Char)
  | [], s => some s
  | _ :: _, [] => none
  | p :: ps, c :: cs => if p = c then stripPrefix? ps cs else none

/-- `PrefixCutter.CutFrom`: a literal, bytewise cut of the configured prefix; without it the value is left as it is -/
def cutPrefixL (pre s : List Char) : List Char := (stripPrefix? pre s).getD s

/-- `url.QueryUnescape` -/
def queryUnescapeL : List Char → Option (List Char)
  | [] => some []
  | c :: t =>
    if c = '%' then
      match t with
      | a :: b :: rest =>
        if isHex a && isHex b then (queryUnescapeL rest).map (octet a b :: ·) else none
      | _ => none
    else if c = '+' then (queryUnescapeL t).map (' ' :: ·)
    else (queryUnescapeL t).map (c :: ·)

/-- `strings.Split(s, "&")`: never empty -/
def splitAmp : List Char → List (List Char)
  | [] => [[]]
  | c :: t =>
    if c = '&' then [] :: splitAmp t
    else match splitAmp t with
      | [] => [[c]]
      | h :: r => (c :: h) :: r

def joinAmp : List (List Char) → List Char
  | [] => []
  | [a] => a
  | a :: b :: rest => a ++ '&' :: joinAmp (b :: rest)

/-- `QueryParamsRemover.RemoveFrom`: pair by pair; a pair whose name decodes to a configured name is dropped, the
others are kept as received -/
def removeParams (names : List String) (q : List Char) : List Char :=
  if q.isEmpty || names.isEmpty then q
  else joinAmp ((splitAmp q).filter fun pair =>
    match queryUnescapeL (pair.takeWhile (· ≠ '=')) with
    | some k => !names.contains (String.ofList k)
    | none => true)

/-- `URLRewriter.Rewrite`, path part: `Path` and `RawPath` of the rewritten URL -/
def rewritePath (r : RewriteCfg) (path raw : List Char) : List Char × List Char :=
  let rp := r.add.toList ++ cutPrefixL r.strip.toList (escapedPathL path raw)
  let raw1 := if raw.isEmpty then [] else rp            -- "if the original url path had url encoded parts"
  let path' := (pathUnescapeL rp).getD []               -- the error of `url.PathUnescape` is discarded
  (path', if path' ≠ rp then rp else raw1)              -- "if the new path contains url encoded parts"

/-- the path written into the request line sent upstream, for a rule with the given encoded-slash setting -/
def upstreamPath (esh : SlashHandling) (rw : Option RewriteCfg) (q : ReqView) : List Char :=
  let path := q.path.toList
  let raw := if esh = .on then [] else q.rawPath.toList    -- `on`: `request.URL.RawPath = ""`
  match rw with
  | none => escapedPathL path raw
  | some r => escapedPathL (rewritePath r path raw).1 (rewritePath r path raw).2

end Upstream

open Upstream in
/-- `Backend.CreateURL` on the request URL as `ruleImpl.Execute` leaves it -/
def upstreamUrl (esh : SlashHandling) (be : BackendCfg) (q : ReqView) (rawQuery : String) : UpUrl :=
  { scheme := match be.rewrite with
      | some r => if r.scheme.isEmpty then q.scheme else r.scheme
      | none => q.scheme
    host := be.host
    path := String.ofList (upstreamPath esh be.rewrite q)
    query := match be.rewrite with
      | some r => String.ofList (removeParams r.stripQ rawQuery.toList)
      | none => rawQuery }

/-! ## What the proxy writes to the upstream connection

`proxy.requestContext.Finalize` hands the URL of `Backend.CreateURL` to `httputil.ReverseProxy` through the `Rewrite`
hook `rewriteRequest` (`proxyReq.Out.URL = targetURL`: the URL of the outgoing request IS the URL the rule computed,
nothing of the URL of the received request survives).  `net/http`'s transport writes `Out.URL.RequestURI()` into the
request line: the escaped path (`/` for an empty one), and `?` + the raw query when there is one (the rule's URL never
has `ForceQuery`).  It speaks the schemes `http` and `https` only. -/

/-- `(*url.URL).RequestURI` of the URL handed to the proxy (no opaque part, no `ForceQuery`) -/
def requestTarget (u : UpUrl) : String :=
  (if u.path.isEmpty then "/" else u.path) ++ (if u.query.isEmpty then "" else "?" ++ u.query)

/-- the schemes `http.Transport` speaks; for any other one nothing is written to any upstream -/
def transportSpeaks (scheme : String) : Bool := scheme == "http" || scheme == "https"

/-- the part of a request target that is the path: everything before the first `?` -/
def targetPath (t : String) : List Char := t.toList.takeWhile (· ≠ '?')

/-! ## The two constructors of the request view -/

/-- `requestcontext.New` behind `net/http`'s server: `(RawPath, Path)` for the path of the request line as received;
`none`: the request line is refused (an escape that cannot be decoded) -/
def httpViewPath (received : String) : Option (String × String) :=
  let rawPath := receivedPath received
  match (pathUnescape received).bind fun _ => pathUnescape rawPath with
  | none => none
  | some path => some (rawPath, path)

/-- `grpcv3.NewRequestContext`: Envoy hands the request target over as received; nothing is refused, a path that cannot
be decoded has the empty decoded form (the error of `url.PathUnescape` is discarded) -/
def envoyViewPath (received : String) : String × String :=
  let rawPath := receivedPath received
  (rawPath, (pathUnescape rawPath).getD "")

end Heimdall
