/-!
# Model of heimdall's error → response translation (property C12)

What the code does, as small total functions:

* `Err` — error values as Go builds them (sentinels of `internal/heimdall/errors.go`, `*RedirectError`, foreign
  errors, `fmt.Errorf("%w")` wraps, `errors.Join` / multi-`%w`, `errorchain.ErrorChain`), `Err.is` = `errors.Is`
  against a sentinel, `Err.isRedirect` = `errors.Is(err, &RedirectError{})`, `Err.asRedirect` = `errors.As`.
* `classify` — the ordered `switch` of `HandleError` (HTTP) and `intercept` (Envoy gRPC) as a case table.
* `negotiate` — `contenttype.GetAcceptableMediaType[FromHeader]` on a parsed `Accept` header.
* `Translator` — everything that distinguishes the two translators (case table, default codes, option guards,
  media preference, fallback); `http` and `grpc` are the two instances, re-derived on every run from probes of the
  running code (`Gen/ErrMapGen.lean`) and compared with these constants.
* `Ctx`, `wwwAuthenticateExec`, `redirectExec`, `finalize` — the error path of the request contexts.

Core Lean only (the driver executable links this file).
-/
namespace Heimdall.ErrMap

/-- the error kinds of `internal/heimdall/errors.go` -/
inductive Kind where
  | argument | authentication | authorization | communication | timeout | configuration | internal | noRule
deriving DecidableEq, Repr, Inhabited

/-- the two errors of Go's package `context`: what an outbound call, a cache access, … returns when the context it
was given (heimdall hands `ctx.AppContext()`, i.e. the context of the request, to every mechanism) is done -/
inductive CtxErr where
  /-- `context.Canceled`: the client went away, or only closed its sending direction (net/http cancels the request
  context when its background read sees EOF, also for a half-closed connection whose client still reads) -/
  | canceled
  /-- `context.DeadlineExceeded` -/
  | deadlineExceeded
deriving DecidableEq, Repr, Inhabited

/-- error values -/
inductive Err where
  /-- one of the sentinels `heimdall.ErrXxx` -/
  | kind (k : Kind)
  /-- `&heimdall.RedirectError{Code: code, RedirectTo: to}` -/
  | redirect (code : Int) (to : String)
  /-- any error of a type heimdall does not know (no `Unwrap`, `Is` never matches a heimdall target) -/
  | foreign
  /-- `context.Canceled` / `context.DeadlineExceeded`: to heimdall just another foreign error (no `Unwrap`, `Is`
  never matches a heimdall target); kept apart from `foreign` so that the theorems can speak about it -/
  | ctxDone (c : CtxErr)
  /-- `fmt.Errorf("…: %w", e)` or any other wrapper with `Unwrap() error` -/
  | wrap (e : Err)
  /-- `errors.Join(es…)` / `fmt.Errorf` with several `%w` (`Unwrap() []error`) -/
  | join (es : List Err)
  /-- `errorchain.New(e₀).CausedBy(e₁)…` : `Is`/`As` look at the head element, `Unwrap` yields the rest -/
  | chain (es : List Err)

instance : Inhabited Err := ⟨.foreign⟩

mutual
  /-- `errors.Is(e, sentinel k)` -/
  def Err.is : Err → Kind → Bool
    | .kind k', k => k' == k
    | .redirect _ _, _ => false
    | .foreign, _ => false
    | .ctxDone _, _ => false
    | .wrap e, k => e.is k
    | .join es, k => Err.isAny es k
    | .chain es, k => Err.isAny es k
  def Err.isAny : List Err → Kind → Bool
    | [], _ => false
    | e :: es, k => e.is k || Err.isAny es k
end

mutual
  /-- `errors.Is(e, &heimdall.RedirectError{})` (`RedirectError.Is` compares the dynamic types) -/
  def Err.isRedirect : Err → Bool
    | .kind _ => false
    | .redirect _ _ => true
    | .foreign => false
    | .ctxDone _ => false
    | .wrap e => e.isRedirect
    | .join es => Err.isRedirectAny es
    | .chain es => Err.isRedirectAny es
  def Err.isRedirectAny : List Err → Bool
    | [] => false
    | e :: es => e.isRedirect || Err.isRedirectAny es
end

mutual
  /-- `errors.As(e, &redirectError)`: the first redirect error in depth-first order -/
  def Err.asRedirect : Err → Option (Int × String)
    | .kind _ => none
    | .redirect c t => some (c, t)
    | .foreign => none
    | .ctxDone _ => none
    | .wrap e => e.asRedirect
    | .join es => Err.asRedirectAny es
    | .chain es => Err.asRedirectAny es
  def Err.asRedirectAny : List Err → Option (Int × String)
    | [] => none
    | e :: es =>
      match e.asRedirect with
      | some r => some r
      | none => Err.asRedirectAny es
end

/-! ## classification -/

/-- the response classes for which a status can be configured -/
inductive Class where
  | authn | authz | comm | precond | noRule | internal
deriving DecidableEq, Repr, Inhabited

/-- one value per response class -/
structure ClassMap (α : Type) where
  authn : α
  authz : α
  comm : α
  precond : α
  noRule : α
  internal : α
deriving DecidableEq, Repr

def ClassMap.get {α : Type} (m : ClassMap α) : Class → α
  | .authn => m.authn | .authz => m.authz | .comm => m.comm
  | .precond => m.precond | .noRule => m.noRule | .internal => m.internal

def ClassMap.const {α : Type} (a : α) : ClassMap α := ⟨a, a, a, a, a, a⟩

/-- what a `case` of the translators' `switch` asks -/
inductive Test where
  | isKind (k : Kind)
  | isRedirect
deriving DecidableEq, Repr

def Test.eval : Test → Err → Bool
  | .isKind k, e => e.is k
  | .isRedirect, e => e.isRedirect

/-- what a `case` does -/
inductive Action where
  | respond (c : Class)
  | redirect
deriving DecidableEq, Repr, Inhabited

/-- `case t₁ || t₂ || …: act` -/
structure Case where
  tests : List Test
  act : Action
deriving DecidableEq, Repr

/-- the `switch`: the first case one of whose tests holds, else the `default:` branch -/
def classify (cases : List Case) (dflt : Action) (e : Err) : Action :=
  match cases with
  | [] => dflt
  | c :: cs => if c.tests.any (fun t => t.eval e) then c.act else classify cs dflt e

/-! ## content negotiation -/

/-- the media types the translators can produce -/
inductive Media where
  | html | json | plain | xml
deriving DecidableEq, Repr, Inhabited

def Media.type : Media → String
  | .html => "text" | .json => "application" | .plain => "text" | .xml => "application"

def Media.subtype : Media → String
  | .html => "html" | .json => "json" | .plain => "plain" | .xml => "xml"

def Media.mime (m : Media) : String := m.type ++ "/" ++ m.subtype

/-- one element of a syntactically valid `Accept` header: `type/subtype;p₁=…;…;q=0.xyz`, `q` in thousandths,
`params` = number of media type parameters (those before `q`) -/
structure Range where
  type : String
  subtype : String
  q : Nat
  params : Nat
deriving DecidableEq, Repr

/-- the `Accept` header of the request -/
inductive Accept where
  /-- no such header -/
  | absent
  /-- present but syntactically invalid (the library reports an error) -/
  | invalid
  | ranges (rs : List Range)
deriving DecidableEq, Repr

/-- `compareMediaTypes`: the supported types carry no parameters, so a range with parameters matches none -/
def Range.matches (r : Range) (m : Media) : Bool :=
  (r.type == "*" || r.type == m.type) && (r.subtype == "*" || r.subtype == m.subtype) && r.params == 0

/-- `getPrecedence`: does `r` replace the range remembered so far for a supported type -/
def Range.precedes (r : Range) : Option (Range × Nat) → Bool
  | none => true
  | some (c, _) => (c.type == "*" && r.type != "*") || (c.subtype == "*" && r.subtype != "*") || c.params < r.params

/-- the range remembered for supported type `m` with its position, after scanning the header from position `i` -/
def slotFrom (m : Media) : List Range → Nat → Option (Range × Nat) → Option (Range × Nat)
  | [], _, cur => cur
  | r :: rs, i, cur =>
    if r.matches m && r.precedes cur then slotFrom m rs (i + 1) (some (r, i)) else slotFrom m rs (i + 1) cur

/-- (weight, order) of a supported type -/
def weightOf (m : Media) (rs : List Range) : Nat × Nat :=
  match slotFrom m rs 0 none with
  | none => (0, 0)
  | some (r, i) => (r.q, i)

/-- the final loop of `GetAcceptableMediaTypeFromHeader`: highest weight, then earliest range, then first listed -/
def pickFrom (rs : List Range) : List Media → Option (Media × Nat × Nat) → Option (Media × Nat × Nat)
  | [], best => best
  | m :: ms, none =>
    let w := weightOf m rs
    if w.1 > 0 then pickFrom rs ms (some (m, w.1, w.2)) else pickFrom rs ms none
  | m :: ms, some (b, bw, bo) =>
    let w := weightOf m rs
    if w.1 > bw || (w.1 == bw && w.2 < bo) then pickFrom rs ms (some (m, w.1, w.2))
    else pickFrom rs ms (some (b, bw, bo))

/-- `GetAcceptableMediaTypeFromHeader(header, avail)` for a header that parses -/
def negotiateRanges (avail : List Media) (rs : List Range) : Option Media :=
  (pickFrom rs avail none).map (·.1)

/-! ## the two translators -/

/-- guard of a `WithXxxErrorCode(code)` option: when does the configured code replace the default -/
inductive Guard where
  | neZero
  | gtZero
deriving DecidableEq, Repr

def Guard.accepts : Guard → Int → Bool
  | .neZero, c => c != 0
  | .gtZero, c => c > 0

/-- everything that distinguishes a translator; both instances are re-derived from the running code on every run -/
structure Translator where
  /-- the `switch` -/
  cases : List Case
  dflt : Action
  /-- default HTTP status per class (`defaults.go`) -/
  defaults : ClassMap Int
  /-- guards of the options (`options.go`) -/
  guards : ClassMap Guard
  /-- supported media types in order of preference -/
  media : List Media
  /-- `GetAcceptableMediaType(req, …)`: without an `Accept` header the first supported type is used -/
  absentIsFirst : Bool
  /-- media type used when the negotiation fails (`none`: no body is sent) -/
  fallback : Option Media
  /-- `http.ResponseWriter.WriteHeader` panics for codes outside 100…999 -/
  checksCode : Bool
  /-- verbose responses carry `X-Content-Type-Options: nosniff` -/
  nosniff : Bool
  /-- gRPC status code of the `CheckResponse` per class and for redirects (`none` for HTTP) -/
  grpcCodes : Option (ClassMap Nat × Nat)
  /-- the writer of the six classes adds the response headers attached to the error (`ResponseHeadersFrom`) -/
  sendsChallenge : Bool
deriving DecidableEq, Repr

/-- the ordered case table shared by `HandleError` and `intercept` -/
def switchCases : List Case :=
  [ ⟨[.isKind .authentication], .respond .authn⟩,
    ⟨[.isKind .authorization], .respond .authz⟩,
    ⟨[.isKind .timeout, .isKind .communication], .respond .comm⟩,
    ⟨[.isKind .argument], .respond .precond⟩,
    ⟨[.isKind .noRule], .respond .noRule⟩,
    ⟨[.isRedirect], .redirect⟩ ]

/-- 401, 403, 502, 400, 404, 500 -/
def defaultCodes : ClassMap Int :=
  { authn := 401, authz := 403, comm := 502, precond := 400, noRule := 404, internal := 500 }

/-- `internal/handler/middleware/http/errorhandler` -/
def http : Translator :=
  { cases := switchCases, dflt := .respond .internal, defaults := defaultCodes, guards := ClassMap.const .neZero,
    media := [.html, .json, .plain, .xml], absentIsFirst := true, fallback := none, checksCode := true,
    nosniff := true, grpcCodes := none, sendsChallenge := true }

/-- `internal/handler/middleware/grpc/errorhandler`; gRPC codes Unauthenticated, PermissionDenied,
DeadlineExceeded, InvalidArgument, NotFound, Internal; FailedPrecondition for redirects -/
def grpc : Translator :=
  { cases := switchCases, dflt := .respond .internal, defaults := defaultCodes, guards := ClassMap.const .gtZero,
    media := [.json, .xml, .html, .plain], absentIsFirst := false, fallback := some .html, checksCode := false,
    nosniff := false,
    grpcCodes := some ({ authn := 16, authz := 7, comm := 4, precond := 3, noRule := 5, internal := 13 }, 9),
    sendsChallenge := true }

/-- fields of `config.RespondConfig.With` -/
inductive CfgField where
  | accepted | argumentError | authenticationError | authorizationError | communicationError | internalError
  | noRuleError
deriving DecidableEq, Repr

/-- which configuration field every service passes to the option of which class (`errorhandler.New(...)` in the
three `service.go`) -/
def wiring : ClassMap CfgField :=
  { authn := .authenticationError, authz := .authorizationError, comm := .communicationError,
    precond := .argumentError, noRule := .noRuleError, internal := .internalError }

/-- the key under `serve.<service>.respond.with` by which the status of a class is configured: the names of the
error types in the documentation and the configuration schema (`argument_error` is the loader's older name of the
precondition class) -/
def keyClass : String → Option Class
  | "authentication_error" => some .authn
  | "authorization_error" => some .authz
  | "communication_error" => some .comm
  | "precondition_error" => some .precond
  | "argument_error" => some .precond
  | "no_rule_error" => some .noRule
  | "internal_error" => some .internal
  | _ => none

def ClassMap.set {α : Type} (m : ClassMap α) (c : Class) (a : α) : ClassMap α :=
  match c with
  | .authn => { m with authn := a } | .authz => { m with authz := a } | .comm => { m with comm := a }
  | .precond => { m with precond := a } | .noRule => { m with noRule := a } | .internal => { m with internal := a }

/-- the overrides a configuration file sets: `with: { <key>: { code: <n> }, … }` -/
def loadOverrides (kvs : List (String × Int)) : ClassMap Int :=
  kvs.foldl (fun m kv => match keyClass kv.1 with | some c => m.set c kv.2 | none => m) (ClassMap.const 0)

/-- service configuration `serve.<service>.respond` -/
structure Cfg where
  verbose : Bool
  /-- `respond.with.<kind>.code`, 0 = not configured -/
  ov : ClassMap Int
deriving DecidableEq, Repr

/-- a failure as it reaches a translator: the error value and the `WWW-Authenticate` challenges which the request
context attached to it -/
structure Failure where
  err : Err
  challenge : List String

def plain (e : Err) : Failure := ⟨e, []⟩

/-- answer of a translator -/
structure Resp where
  status : Int
  headers : List (String × String)
  /-- error details in the body, and their format -/
  body : Option Media
  grpc : Option Nat
deriving DecidableEq, Repr

inductive Out where
  | resp (r : Resp)
  /-- the handler panics (`WriteHeader` with an invalid code) -/
  | panic
  /-- the request is let through (never produced for a failure) -/
  | allowed
deriving DecidableEq, Repr

def Translator.code (t : Translator) (cfg : Cfg) (c : Class) : Int :=
  if (t.guards.get c).accepts (cfg.ov.get c) then cfg.ov.get c else t.defaults.get c

/-- content type of the verbose body -/
def Translator.negotiate (t : Translator) : Accept → Option Media
  | .absent =>
    if t.absentIsFirst then t.media.head? else
      match negotiateRanges t.media [] with
      | some m => some m
      | none => t.fallback
  | .invalid => t.fallback
  | .ranges rs =>
    match negotiateRanges t.media rs with
    | some m => some m
    | none => t.fallback

def validStatus (code : Int) : Bool := 100 ≤ code && code ≤ 999

def Translator.emit (t : Translator) (code : Int) (hdrs : List (String × String)) (body : Option Media)
    (g : Option Nat) : Out :=
  if t.checksCode && !validStatus code then .panic
  else .resp { status := code, headers := hdrs, body := body, grpc := g }

def bodyHeaders (t : Translator) : Option Media → List (String × String)
  | none => []
  | some m => ("Content-Type", m.mime) :: (if t.nosniff then [("X-Content-Type-Options", "nosniff")] else [])

def challengeHeaders (t : Translator) (f : Failure) : List (String × String) :=
  if t.sendsChallenge then f.challenge.map fun v => ("Www-Authenticate", v) else []

/-- error details: only with verbose responses, in the negotiated media type -/
def Translator.body (t : Translator) (cfg : Cfg) (acc : Accept) : Option Media :=
  if cfg.verbose then t.negotiate acc else none

/-- `HandleError` / `intercept` -/
def Translator.respond (t : Translator) (cfg : Cfg) (acc : Accept) (f : Failure) : Out :=
  match classify t.cases t.dflt f.err with
  | .redirect =>
    match f.err.asRedirect with
    | none => .panic
    | some (code, to) => t.emit code [("Location", to)] none (t.grpcCodes.map (·.2))
  | .respond c =>
    t.emit (t.code cfg c) (challengeHeaders t f ++ bodyHeaders t (t.body cfg acc)) (t.body cfg acc)
      (t.grpcCodes.map (·.1.get c))

/-! ## error path of the request contexts -/

/-- the part of a request context the error path touches -/
structure Ctx where
  /-- headers collected for the upstream / the positive answer, canonical names, in order of `Add` -/
  upstream : List (String × String)
  pipelineError : Option Err

/-- `wwwAuthenticateErrorHandler.Execute` (prototype created with `realm`, empty = not configured) -/
def wwwAuthenticateExec (realm : String) (ctx : Ctx) : Ctx :=
  { upstream := ctx.upstream ++
      [("Www-Authenticate", "Basic realm=" ++ (if realm.isEmpty then "Please authenticate" else realm))],
    pipelineError := some (.kind .authentication) }

/-- `redirectErrorHandler.Execute` (prototype created with `code`, 0 = not configured, `to` already rendered) -/
def redirectExec (code : Int) (to : String) (ctx : Ctx) : Ctx :=
  { ctx with pipelineError := some (.redirect (if code != 0 then code else 302) to) }

/-- `Finalize` of the decision, proxy and Envoy request contexts on the error path: the pipeline error, with the
`WWW-Authenticate` values among the collected headers and nothing else of them -/
def finalize (ctx : Ctx) : Option Failure :=
  ctx.pipelineError.map fun e =>
    { err := e, challenge := ctx.upstream.filterMap fun kv => if kv.1 == "Www-Authenticate" then some kv.2 else none }

/-- the three request contexts (decision, proxy, Envoy) all behave like `finalize` -/
def contextsAttachChallenge : List Bool := [true, true, true]

/-! ## CEL expressions and the error handler pipeline of a rule -/

/-- what evaluating a compiled CEL expression on a concrete request / subject / error yields
(`cellib.CompiledExpression.Eval`): `true`, anything else (an `*EvalError`), or a runtime failure of the
evaluation itself (missing key, index out of range, division by zero …: the error of the CEL program) -/
inductive Cel where
  | holds | fails | error
deriving DecidableEq, Repr

/-- `celAuthorizer.Execute` (and the expressions of the remote authorizer): a false expression is an authorization
failure, an expression that cannot be evaluated an internal error -/
def celAuthorize : Cel → Option Err
  | .holds => none
  | .fails => some (.chain [.kind .authorization, .foreign])
  | .error => some (.chain [.kind .internal, .foreign])

/-- a pipeline step `step` guarded by an `if` condition (`conditionalSubjectHandler`): executed if the condition
holds, skipped if it does not; a condition that cannot be evaluated fails the pipeline with the CEL error itself -/
def stepIf (c : Cel) (step : Option Err) : Option Err :=
  match c with
  | .holds => step
  | .fails => none
  | .error => some .foreign

/-- the error handler mechanisms -/
inductive Handler where
  | default
  | redirect (code : Int) (to : String)
  | www (realm : String)
deriving DecidableEq, Repr

/-- `Execute` of an error handler mechanism on the failure `cause` -/
def Handler.exec : Handler → Err → Ctx → Ctx
  | .default, cause, ctx => { ctx with pipelineError := some cause }
  | .redirect code to, _, ctx => redirectExec code to ctx
  | .www realm, _, ctx => wwwAuthenticateExec realm ctx

/-- `compositeErrorHandler.Execute`: the first handler whose condition holds handles the failure; a condition
that cannot be evaluated ends the handling with the CEL error; if no handler applies the failure itself is
returned. `some e`: the error returned to the service, `none`: handled, the context carries the pipeline error. -/
def handleError : List (Cel × Handler) → Err → Ctx → Ctx × Option Err
  | [], cause, ctx => (ctx, some cause)
  | (c, h) :: rest, cause, ctx =>
    match c with
    | .error => (ctx, some .foreign)
    | .fails => handleError rest cause ctx
    | .holds => (h.exec cause ctx, none)

/-- a service answering a request whose pipeline ended in `ctx` -/
def serve (t : Translator) (cfg : Cfg) (acc : Accept) (ctx : Ctx) : Out :=
  match finalize ctx with
  | none => .allowed
  | some f => t.respond cfg acc f

/-- a service answering a request whose pipeline failed with `cause` (`ruleImpl.Execute` hands the failure to the
rule's error handlers; an error they return goes to the translator directly, otherwise `Finalize` decides) -/
def serveFailure (t : Translator) (cfg : Cfg) (acc : Accept) (hs : List (Cel × Handler)) (cause : Err)
    (ctx : Ctx) : Out :=
  match handleError hs cause ctx with
  | (_, some e) => t.respond cfg acc (plain e)
  | (ctx', none) => serve t cfg acc ctx'

/-! ## the handlers of the services and the context of the request -/

/-- state of the context of the request (`req.Context()` of net/http, the context of the RPC) at the moment the
service gets the failure: still live, cancelled (client gone or half-closed), deadline exceeded -/
inductive ReqCtx where
  | live | cancelled | deadlineExceeded
deriving DecidableEq, Repr, Inhabited

/-- `(*handler).ServeHTTP` of `internal/handler/service` (decision and proxy services) and `Handler.Check` behind
the error interceptor (Envoy gRPC service): the rule executor runs; a failure it returns goes to the translator, else
`Finalize` decides (`serve`). `rc` is the state of the request's context at that moment: the handlers do not look
at it — a failure is answered whether or not anybody is believed to be waiting. -/
def handlerServe (t : Translator) (cfg : Cfg) (acc : Accept) (_rc : ReqCtx) (execErr : Option Err) (ctx : Ctx) :
    Out :=
  match execErr with
  | some e => t.respond cfg acc (plain e)
  | none => serve t cfg acc ctx

/-! ## endpoints of mechanisms: authentication strategies (round 5)

The remote authorizer, the generic authenticator, the generic contextualizer and the OAuth2 introspection
authenticator talk to their endpoint through `endpoint.Endpoint`; `Endpoint.CreateRequest` applies the endpoint's
authentication strategy (`auth:`) to the request first. A strategy can fail at request time — above all
`oauth2_client_credentials`, which asks a token endpoint for an access token — and that failure travels upwards
wrapped twice: `CreateRequest` puts `ErrInternal "failed to authenticate request"` in front of it, the mechanism
`ErrInternal "failed creating request"`. -/

/-- what became of the token request of an `oauth2_client_credentials` strategy (`clientcredentials.Config.Token`
without a usable cached token → `fetchToken`) -/
inductive TokenOutcome where
  /-- `200` with a token document -/
  | issued
  /-- `client.Do` failed and the `*url.Error` is no timeout (connection refused, closed, reset, the context of the
  request cancelled): `errorchain.New(ErrCommunication).CausedBy(cause)` -/
  | sendFailed (cause : Err)
  /-- `client.Do` failed and `(*url.Error).Timeout()` holds (deadline of the context exceeded, network timeout):
  `errorchain.New(ErrCommunicationTimeout).CausedBy(cause)` -/
  | sendTimedOut (cause : Err)
  /-- a status other than `200` and `400`: `ErrCommunication "unexpected response code"` -/
  | unexpectedStatus
  /-- `400`: with an OAuth2 error document `ErrCommunication` caused by the (foreign) `*TokenErrorResponse`, with
  anything else `ErrCommunication "failed to fetch token"` -/
  | badRequest (errorDocument : Bool)
  /-- `200` whose body is not JSON: `ErrInternal "failed to unmarshal response"` caused by the decoder's error -/
  | okUnparsable
  /-- `200` carrying an OAuth2 error document: `ErrCommunication` caused by the `*TokenErrorResponse` -/
  | okErrorDocument

/-- the error `Config.Token` returns -/
def TokenOutcome.err : TokenOutcome → Option Err
  | .issued => none
  | .sendFailed cause => some (.chain [.kind .communication, cause])
  | .sendTimedOut cause => some (.chain [.kind .timeout, cause])
  | .unexpectedStatus => some (.chain [.kind .communication])
  | .badRequest true => some (.chain [.kind .communication, .foreign])
  | .badRequest false => some (.chain [.kind .communication])
  | .okUnparsable => some (.chain [.kind .internal, .foreign])
  | .okErrorDocument => some (.chain [.kind .communication, .foreign])

/-- the authentication strategies of an endpoint (`internal/rules/endpoint/authstrategy`) -/
inductive Strategy where
  /-- no `auth:` -/
  | none
  /-- `basic_auth`, `api_key` (with an `in` the configuration admits): `Apply` cannot fail -/
  | basicAuth
  | apiKey
  | clientCredentials (t : TokenOutcome)
  /-- `http_message_signatures`: `Apply` fails with the (foreign) error of the signer when a component to be signed
  is not on the request; a key store that is missing makes the mechanism fail to LOAD, not a request -/
  | signatures (signFails : Bool)

/-- `AuthenticationStrategy.Apply` -/
def Strategy.apply : Strategy → Option Err
  | .clientCredentials t => t.err
  | .signatures true => some .foreign
  | _ => Option.none

/-- one error put in front of a cause: `errorchain.NewWithMessage(heimdall.Err<k>, "…").CausedBy(cause)` -/
def wrapKind (k : Kind) (cause : Err) : Err := .chain [.kind k, cause]

/-- `Endpoint.CreateRequest` when the strategy fails: `ErrInternal "failed to authenticate request"` caused by the
strategy's error. (`Endpoint.SendRequest` — used by the client credentials flow itself — hands this on as it is.) -/
def authenticateRequest (s : Strategy) : Option Err := s.apply.map (wrapKind .internal)

/-- the wrapping a failure of an endpoint's strategy has got when it leaves the mechanism: `ErrInternal "failed
creating request"` (remote authorizer, generic authenticator, generic contextualizer, OAuth2 introspection
authenticator) around `CreateRequest`'s `ErrInternal "failed to authenticate request"` -/
def endpointWrap (cause : Err) : Err := wrapKind .internal (wrapKind .internal cause)

/-- the failure with which a mechanism whose endpoint authenticates with strategy `s` ends the pipeline before it has
sent anything to its endpoint (`none`: the request to the endpoint is made) -/
def createRequest (s : Strategy) : Option Err := s.apply.map endpointWrap

/-! ## the response writer, informational responses, the log level (round 5) -/

/-- `log.level` -/
inductive LogLevel where
  | trace | debug | info | warn | error | disabled
deriving DecidableEq, Repr, Inhabited

/-- an informational status: net/http sends it at once and goes on waiting for the final status (`101 Switching
Protocols` is final) -/
def isInformational (code : Int) : Bool := 100 ≤ code && code ≤ 199 && code != 101

/-- net/http's `ResponseWriter` of one request, as far as the status is concerned -/
structure Writer where
  /-- informational responses sent so far -/
  informational : List Int
  /-- the final status line, once written -/
  status : Option Int
deriving DecidableEq, Repr

def Writer.fresh : Writer := ⟨[], none⟩

/-- `ResponseWriter.WriteHeader(code)`: after the final status line further calls are ignored ("superfluous
WriteHeader"); an informational code is sent and does NOT count as the final status -/
def Writer.writeHeader (w : Writer) (code : Int) : Writer :=
  match w.status with
  | some _ => w
  | none =>
    if isInformational code then { w with informational := w.informational ++ [code] }
    else { w with status := some code }

/-- the status the client gets when the handler chain has returned: without a final `WriteHeader` net/http answers
`200 OK` -/
def Writer.finish (w : Writer) : Int := w.status.getD 200

/-- the `WriteHeader` hook of the dump middleware (`internal/handler/middleware/http/dump`, decision and proxy
services): active at log level `trace` only; it dumps the status line and the header fields of the FIRST call
(`dumped`) and forwards EVERY call to the wrapped writer -/
def dumpWriteHeader (lvl : LogLevel) (dumped : Bool) (w : Writer) (code : Int) : Bool × Writer :=
  if lvl == .trace then (true, w.writeHeader code) else (dumped, w.writeHeader code)

/-- a sequence of `WriteHeader` calls made by the handler below the middleware chain -/
def writeHeaders (lvl : LogLevel) : Bool × Writer → List Int → Bool × Writer
  | s, [] => s
  | s, c :: cs => writeHeaders lvl (dumpWriteHeader lvl s.1 s.2 c) cs

/-- how the exchange with the upstream of the proxy service ends, after any informational responses -/
inductive UpstreamEnd where
  /-- the header section of a final response arrives: it is forwarded (the positive answer) -/
  | answers
  /-- connection refused / closed / reset, a partial status line or header section, no header within
  `serve.proxy.timeout.read`: `RoundTrip` fails -/
  | dies
deriving DecidableEq, Repr

/-- `ReverseProxy.ErrorHandler` in the proxy's `Finalize`: `ErrCommunication "Failed to proxy request"` caused by the
transport's (foreign) error -/
def upstreamFailure : Err := .chain [.kind .communication, .foreign]

/-- the proxy service forwarding a request whose pipeline succeeded, to an upstream which first sends the
informational responses `infos` (`httputil.ReverseProxy` hands each to `rw.WriteHeader`) and then `up`:
(informational responses the client gets, answer). The status of the answer to a failure is the one net/http's writer
ends up with after the error handler's `WriteHeader` went through the middleware chain. -/
def proxyForward (lvl : LogLevel) (cfg : Cfg) (acc : Accept) (infos : List Int) (up : UpstreamEnd) :
    List Int × Out :=
  let s := writeHeaders lvl (false, Writer.fresh) infos
  match up with
  | .answers => (s.2.informational, .allowed)
  | .dies =>
    match http.respond cfg acc (plain upstreamFailure) with
    | .resp r =>
      let s' := writeHeaders lvl s [r.status]
      (s'.2.informational, .resp { r with status := s'.2.finish })
    | o => (s.2.informational, o)

end Heimdall.ErrMap
