/-!
# Mechanisms, rule-level variants and their concurrent use as a small-step machine (C17)

What the code does (`internal/rules/mechanisms/**`): the catalogue is loaded once into *prototypes*; a rule that
references a mechanism without `config` gets the prototype itself, a rule with a `config` gets
`prototype.WithConfig(config)`: a **shallow copy** — a new struct whose fields are either copied from the
prototype (a copied pointer / map / slice / interface still refers to the *same* object) or newly built from the
override.  Afterwards any number of requests execute prototypes and variants concurrently.

The model: a store of value **cells** (address = index) and of **instances** (handle = index); an instance maps
each of its *slots* to the address of the cell holding the slot's value.  A by-value slot (string, bool, duration)
has a cell of its own in every instance, an inherited reference slot shares the prototype's cell.  Whatever a
method does to the receiver is a list of accesses `rd slot` / `wr slot` (in the implementation: the write
footprint extracted from the source, `Model/Footprint.lean`); `WithConfig` additionally copies the receiver slot by
slot (`buildSlot`) and finally publishes the new instance.  Threads are indexed by `Nat` (any number of them), every
interleaving of their micro-steps is a run (`Step`, `Reach`).

`V` (values) and `Ov` (overrides) are parameters; `Desc` says, per mechanism type and slot, whether the slot is
copied by value and what an override replaces it with.  `Model/MechTypes.lean` instantiates it for heimdall.
-/
namespace Heimdall.Mech

abbrev Addr := Nat

/-- a mechanism instance (prototype or variant): its type and, per slot, the address of the slot's cell -/
structure Inst where
  typ   : String
  slots : List (String × Addr)
deriving Repr, DecidableEq

/-- per mechanism type: which slots are copied by value, and what an override puts into a slot
(`none` = the slot is inherited) -/
structure Desc (V Ov : Type) where
  byValue : String → String → Bool
  replace : String → String → V → Ov → Option V

/-- `origin` is ghost state: for every instance `none` (loaded from the catalogue) or the prototype handle and the
override it was created from -/
structure Store (V Ov : Type) where
  cells  : List V
  insts  : List Inst
  origin : List (Option (Nat × Ov))

variable {V Ov : Type}

/-- what is observable of an instance: every slot with the value it currently refers to -/
def viewOf (cells : List V) (slots : List (String × Addr)) : List (String × Option V) :=
  slots.map fun sa => (sa.1, cells[sa.2]?)

def Store.view (σ : Store V Ov) (h : Nat) : Option (List (String × Option V)) :=
  (σ.insts[h]?).map fun i => viewOf σ.cells i.slots

/-- one slot of the shallow copy made by `WithConfig`: a new cell for a replaced or by-value slot, the
receiver's own cell for an inherited reference -/
def buildSlot (D : Desc V Ov) (typ : String) (ov : Ov) (cells : List V) (sa : String × Addr) :
    List V × (String × Addr) :=
  match cells[sa.2]? with
  | none => (cells, sa)
  | some v =>
    match D.replace typ sa.1 v ov with
    | some v' => (cells ++ [v'], (sa.1, cells.length))
    | none => if D.byValue typ sa.1 then (cells ++ [v], (sa.1, cells.length)) else (cells, sa)

/-- all slots, left to right -/
def buildAll (D : Desc V Ov) (typ : String) (ov : Ov) :
    List V → List (String × Addr) → List (String × Addr) → List V × List (String × Addr)
  | cells, [], acc => (cells, acc)
  | cells, sa :: todo, acc =>
    let r := buildSlot D typ ov cells sa
    buildAll D typ ov r.1 todo (acc ++ [r.2])

/-- `WithConfig` run without interruption: the new store and the handle of the variant -/
def withConfig (D : Desc V Ov) (σ : Store V Ov) (p : Nat) (ov : Ov) : Option (Store V Ov × Nat) :=
  match σ.insts[p]? with
  | none => none
  | some i =>
    let r := buildAll D i.typ ov σ.cells i.slots []
    some ({ cells := r.1, insts := σ.insts ++ [⟨i.typ, r.2⟩], origin := σ.origin ++ [some (p, ov)] },
          σ.insts.length)

/-! ## The property as a function on views (`Spec/Overlay.lean` states it declaratively) -/

def overlaySlot (D : Desc V Ov) (typ : String) (ov : Ov) (sv : String × Option V) : String × Option V :=
  (sv.1, sv.2.map fun v => (D.replace typ sv.1 v ov).getD v)

/-- the prototype's view overlaid with an override -/
def overlayView (D : Desc V Ov) (typ : String) (ov : Ov) (view : List (String × Option V)) :
    List (String × Option V) :=
  view.map (overlaySlot D typ ov)

/-! ## Threads -/

/-- an access of a method body to a slot of its receiver -/
inductive Op where
  | rd (slot : String)
  | wr (slot : String)
deriving Repr, DecidableEq

inductive Phase (Ov : Type) where
  /-- a method that only uses the receiver (`Execute`, `ID`, `ContinueOnError`, …) -/
  | run
  /-- `WithConfig(ov)` before it starts copying -/
  | create (ov : Ov)
  /-- `WithConfig(ov)` copying: slots still to do, slots of the new instance so far -/
  | build (ov : Ov) (typ : String) (todo acc : List (String × Addr))
  /-- `WithConfig` has returned the instance with this handle -/
  | done (h : Nat)

structure Thread (V Ov : Type) where
  recv  : Nat                -- handle of the receiver
  prog  : List Op            -- the method's accesses to the receiver (constant)
  ops   : List Op            -- those still to be performed
  seen  : List (String × V)  -- what it has read so far
  phase : Phase Ov

def Thread.didRead (t : Thread V Ov) (s : String) (v : V) (rest : List Op) : Thread V Ov :=
  { t with ops := rest, seen := t.seen ++ [(s, v)] }

def Thread.didWrite (t : Thread V Ov) (rest : List Op) : Thread V Ov := { t with ops := rest }

def Thread.setPhase (t : Thread V Ov) (p : Phase Ov) : Thread V Ov := { t with phase := p }

def upd {α : Type} (f : Nat → α) (i : Nat) (v : α) : Nat → α := fun j => if j = i then v else f j

structure Config (V Ov : Type) where
  store   : Store V Ov
  threads : Nat → Thread V Ov

/-- the address a slot of an instance refers to -/
def Inst.addr (i : Inst) (s : String) : Option Addr := i.slots.lookup s

inductive Step (D : Desc V Ov) : Config V Ov → Config V Ov → Prop
  /-- read a slot of the receiver -/
  | rd (c : Config V Ov) (i : Nat) (s : String) (rest : List Op) (inst : Inst) (a : Addr) (v : V)
      (hops : (c.threads i).ops = .rd s :: rest) (hi : c.store.insts[(c.threads i).recv]? = some inst)
      (ha : inst.addr s = some a) (hv : c.store.cells[a]? = some v) :
      Step D c { c with threads := upd c.threads i ((c.threads i).didRead s v rest) }
  /-- write a slot of the receiver in place (any value) -/
  | wr (c : Config V Ov) (i : Nat) (s : String) (rest : List Op) (inst : Inst) (a : Addr) (v : V)
      (hops : (c.threads i).ops = .wr s :: rest) (hi : c.store.insts[(c.threads i).recv]? = some inst)
      (ha : inst.addr s = some a) :
      Step D c { store := { c.store with cells := c.store.cells.set a v },
                 threads := upd c.threads i ((c.threads i).didWrite rest) }
  /-- `WithConfig` starts copying the receiver -/
  | begin (c : Config V Ov) (i : Nat) (ov : Ov) (inst : Inst)
      (hops : (c.threads i).ops = []) (hp : (c.threads i).phase = .create ov)
      (hi : c.store.insts[(c.threads i).recv]? = some inst) :
      Step D c { c with threads := upd c.threads i ((c.threads i).setPhase (.build ov inst.typ inst.slots [])) }
  /-- `WithConfig` copies one slot -/
  | slot (c : Config V Ov) (i : Nat) (ov : Ov) (typ : String) (sa : String × Addr)
      (todo acc : List (String × Addr))
      (hp : (c.threads i).phase = .build ov typ (sa :: todo) acc) :
      Step D c { store := { c.store with cells := (buildSlot D typ ov c.store.cells sa).1 },
                 threads := upd c.threads i ((c.threads i).setPhase
                   (.build ov typ todo (acc ++ [(buildSlot D typ ov c.store.cells sa).2]))) }
  /-- `WithConfig` returns: the new instance becomes visible -/
  | publish (c : Config V Ov) (i : Nat) (ov : Ov) (typ : String) (acc : List (String × Addr))
      (hp : (c.threads i).phase = .build ov typ [] acc) :
      Step D c { store := { c.store with insts := c.store.insts ++ [⟨typ, acc⟩],
                                          origin := c.store.origin ++ [some ((c.threads i).recv, ov)] },
                 threads := upd c.threads i ((c.threads i).setPhase (.done c.store.insts.length)) }

/-- runs: any number of steps of any threads in any order -/
inductive Reach (D : Desc V Ov) (c₀ : Config V Ov) : Config V Ov → Prop
  | refl : Reach D c₀ c₀
  | step (c c' : Config V Ov) : Reach D c₀ c → Step D c c' → Reach D c₀ c'

/-- no thread has an in-place write to its receiver ahead of it -/
def ReadOnly (c : Config V Ov) : Prop := ∀ i s, Op.wr s ∉ (c.threads i).ops

/-- every address an instance refers to exists -/
def Closed (σ : Store V Ov) : Prop :=
  (∀ inst ∈ σ.insts, ∀ sa ∈ inst.slots, sa.2 < σ.cells.length) ∧ σ.origin.length = σ.insts.length

/-- start of a run: the catalogue is loaded (all instances are prototypes), every thread is about to call a
method on some — existing or future — instance -/
structure Initial (c : Config V Ov) : Prop where
  closed  : Closed c.store
  protos  : ∀ o ∈ c.store.origin, o = none
  fresh   : ∀ i, (c.threads i).seen = [] ∧ (c.threads i).ops = (c.threads i).prog ∧
              ((c.threads i).phase = .run ∨ ∃ ov, (c.threads i).phase = .create ov)

/-- what a method reads when it runs alone on a store -/
def readAll (cells : List V) (inst : Inst) : List Op → List (String × V)
  | [] => []
  | .rd s :: r =>
    (match inst.addr s with
     | some a => match cells[a]? with
       | some v => [(s, v)]
       | none => []
     | none => []) ++ readAll cells inst r
  | .wr _ :: r => readAll cells inst r

/-- the cell thread `j` accesses with its next step: the slot its next `rd` / `wr` refers to, or - while
`WithConfig` copies - the receiver's cell of the slot that is copied next -/
def nextAccess (c : Config V Ov) (j : Nat) : Option Addr :=
  match (c.threads j).ops with
  | o :: _ =>
    (c.store.insts[(c.threads j).recv]?).bind fun inst => inst.addr (match o with | .rd s => s | .wr s => s)
  | [] =>
    match (c.threads j).phase with
    | .build _ _ (sa :: _) _ => some sa.2
    | _ => none

/-- two threads are about to access the same cell and one of them writes it -/
def Conflict (c : Config V Ov) (i j : Nat) : Prop :=
  i ≠ j ∧ ∃ s rest inst a, (c.threads i).ops = .wr s :: rest ∧
    c.store.insts[(c.threads i).recv]? = some inst ∧ inst.addr s = some a ∧ nextAccess c j = some a

/-! ## An executable scheduler (what the driver runs): the enabled step of a thread, as a function -/

/-- the next micro-step of thread `i`, if it has one (in-place writes are not executed: the model is the one of the
repaired code, whose footprints are write-free) -/
def next (D : Desc V Ov) (c : Config V Ov) (i : Nat) : Option (Config V Ov) :=
  match (c.threads i).ops with
  | .rd s :: rest =>
    match c.store.insts[(c.threads i).recv]? with
    | none => none
    | some inst =>
      match inst.addr s with
      | none => none
      | some a =>
        match c.store.cells[a]? with
        | none => none
        | some v => some { c with threads := upd c.threads i ((c.threads i).didRead s v rest) }
  | .wr _ :: _ => none
  | [] =>
    match (c.threads i).phase with
    | .create ov =>
      match c.store.insts[(c.threads i).recv]? with
      | none => none
      | some inst =>
        some { c with threads := upd c.threads i ((c.threads i).setPhase (.build ov inst.typ inst.slots [])) }
    | .build ov typ (sa :: todo) acc =>
      some { store := { c.store with cells := (buildSlot D typ ov c.store.cells sa).1 },
             threads := upd c.threads i ((c.threads i).setPhase
               (.build ov typ todo (acc ++ [(buildSlot D typ ov c.store.cells sa).2]))) }
    | .build ov typ [] acc =>
      some { store := { c.store with insts := c.store.insts ++ [⟨typ, acc⟩],
                                      origin := c.store.origin ++ [some ((c.threads i).recv, ov)] },
             threads := upd c.threads i ((c.threads i).setPhase (.done c.store.insts.length)) }
    | _ => none

/-- run a schedule: the threads named in the list take one step each, in that order (a thread without enabled
step is skipped) -/
def runSched (D : Desc V Ov) (c : Config V Ov) : List Nat → Config V Ov
  | [] => c
  | i :: rest => runSched D ((next D c i).getD c) rest

end Heimdall.Mech
