import HeimdallModel.Model.CacheKey
/-!
# A mechanism that caches the result of a remote call

The shape shared by `genericAuthenticator.getSubjectInformation`, `oauth2IntrospectionAuthenticator.getSubjectInformation`,
`remoteAuthorizer.Execute`, `genericContextualizer.Execute`, `jwtFinalizer.Execute`, `clientcredentials.Config.Token` and
`httpcache.RoundTripper.RoundTrip`:

```
key := calculateCacheKey(...)
if entry, err := cache.Get(key); err == nil { [validate entry under the rule's assertions/expressions;] return entry }
resp := <remote call>            // may fail
<validate resp under the rule's assertions/expressions>   // may reject
if ttl > 0 { cache.Set(key, resp, ttl) }
return resp
```
-/
namespace Heimdall.CacheExec
open Heimdall.CacheKey

structure Mech (Req Resp : Type) where
  /-- the cache key computed for a request -/
  key : Req → Bytes
  /-- the remote evaluation (request rendering, call, response parsing); `none`: failed, nothing is cached -/
  fresh : Req → Option Resp
  /-- rule-level validation in force for the request (assertions of the rule, expressions of the rule) -/
  accept : Req → Resp → Bool
  /-- is the cache consulted at all for this request (`cache_ttl` of the rule in force) -/
  enabled : Req → Bool
  /-- lifetime of the stored entry; `0`: not stored -/
  ttl : Req → Resp → Nat
  /-- is `accept` applied to an entry served from the cache -/
  recheck : Bool
  /-- what a value looks like after it went through the cache: entries are stored serialised (`json.Marshal`,
  `httputil.DumpResponse`, raw bytes) and decoded again on a hit -/
  recode : Resp → Resp

inductive Outcome (Resp : Type) where
  | ok (v : Resp)
  | rejected
  | failed
  deriving DecidableEq, Repr

structure Entry (Resp : Type) where
  val : Resp
  exp : Nat

/-- the cache: entries by key -/
abbrev Store (Resp : Type) := Bytes → Option (Entry Resp)

def Store.empty {Resp : Type} : Store Resp := fun _ => none

def Store.get {Resp : Type} (st : Store Resp) (k : Bytes) (now : Nat) : Option Resp :=
  match st k with
  | some e => if now < e.exp then some e.val else none
  | none => none

def Store.set {Resp : Type} (st : Store Resp) (k : Bytes) (v : Resp) (exp : Nat) : Store Resp :=
  fun k' => if k' = k then some ⟨v, exp⟩ else st k'

structure StepResult (Resp : Type) where
  store : Store Resp
  out : Outcome Resp
  /-- number of calls that reached the remote system -/
  calls : Nat
  hit : Bool

/-- one request at time `now` -/
def step {Req Resp : Type} (m : Mech Req Resp) (st : Store Resp) (now : Nat) (r : Req) : StepResult Resp :=
  match (if m.enabled r then st.get (m.key r) now else none) with
  | some v =>
    if m.recheck && !m.accept r (m.recode v) then ⟨st, .rejected, 0, true⟩ else ⟨st, .ok (m.recode v), 0, true⟩
  | none =>
    match m.fresh r with
    | none => ⟨st, .failed, 1, false⟩
    | some v =>
      if m.accept r v then
        ⟨if m.enabled r && m.ttl r v > 0 then st.set (m.key r) v (now + m.ttl r v) else st, .ok v, 1, false⟩
      else ⟨st, .rejected, 1, false⟩

/-- a history of timed requests; returns what every request observed -/
def run {Req Resp : Type} (m : Mech Req Resp) : Store Resp → List (Nat × Req) → List (StepResult Resp)
  | _, [] => []
  | st, (t, r) :: h => let s := step m st t r; s :: run m s.store h

def finalStore {Req Resp : Type} (m : Mech Req Resp) : Store Resp → List (Nat × Req) → Store Resp
  | st, [] => st
  | st, (t, r) :: h => finalStore m (step m st t r).store h

/-! ## Mechanisms keyed by a generated field list -/

/-- a request as the key function and the remote call see it -/
structure KReq where
  /-- mechanism instance in force (prototype configuration merged with the rule's overrides), request, subject,
  rendered templates; map sources in the iteration order of this evaluation -/
  env : Env
  /-- identifies the rule-level assertions / expressions in force -/
  policy : Nat
  /-- caching in force for the rule (`cache_ttl`): consulted at all, lifetime of a new entry -/
  enabled : Bool
  ttl : Nat

/-- `fs`: what the key function writes; `deps`: what the remote evaluation reads; the remote system is a function
`remote` of those values (it does not change between the requests of one history) -/
def keyed {Resp : Type} (H : Bytes → Bytes) (fs : List Field) (deps : List Dep) (remote : List View → Option Resp)
    (accepts : Nat → Resp → Bool) (recheck : Bool) (recode : Resp → Resp := id) : Mech KReq Resp where
  key r := key H fs r.env
  fresh r := remote (deps.map (·.view r.env))
  accept r v := accepts r.policy v
  enabled r := r.enabled
  ttl r _ := r.ttl
  recheck := recheck
  recode := recode

end Heimdall.CacheExec
