import HeimdallModel.Model.Signer
import HeimdallModel.Model.SignerConc
/-!
# From the facts extracted from `jwt_signer.go` / `entry.go` to the model (C16)

`Gen/Signer.lean` is regenerated from the current source on every run by `/verif/extract/signer`.  This file says how
the raw facts are read (`abstractEv`, `canon`, `abstractClaimOp`) and what they have to be for the model of
`Model/Signer.lean` and the machine of `Model/SignerConc.lean` to be the model of that source; the obligations
themselves (`… = … := by decide`) are theorems of `Props/C16.lean`.
-/
namespace Heimdall.SignerProtocol
open Heimdall.Signer Heimdall.SignerConc

/-! ## synchronisation events -/

inductive AEv where
  | rlock | runlock | deferRUnlock | lock | unlock | deferUnlock
  | readJwk | readKey | readPub | writeJwk | writeKey | writePub
  | ret | callLoad
  | other (s : String)
deriving DecidableEq, Repr

/-- `none`: irrelevant for the protocol (control structure, reads of the configuration fields `path`, `password`,
`keyID`, `iss`, which no method writes — any write to them shows up as `other`).  The written values are part of the
event: the JWK and the key have to come from the same selected entry `kse`. -/
def abstractEv (s : String) : Option AEv :=
  if s = "rlock mut" then some .rlock
  else if s = "runlock mut" then some .runlock
  else if s = "defer runlock mut" then some .deferRUnlock
  else if s = "lock mut" then some .lock
  else if s = "unlock mut" then some .unlock
  else if s = "defer unlock mut" then some .deferUnlock
  else if s = "read jwk" then some .readJwk
  else if s = "read key" then some .readKey
  else if s = "read pubKeys" then some .readPub
  else if s = "write jwk <- kse.JWK()" then some .writeJwk
  else if s = "write key <- kse.PrivateKey" then some .writeKey
  else if s = "write pubKeys <- keys" then some .writePub
  else if s = "return" ∨ s = "return nil" ∨ s = "return value" then some .ret
  else if s = "call load" then some .callLoad
  else if s = "if {" ∨ s = "}" ∨ s = "else {" ∨ s = "loop {" ∨ s = "switch {" ∨ s = "case {" then none
  else if s = "read path" ∨ s = "read password" ∨ s = "read keyID" ∨ s = "read iss" then none
  else some (.other s)

def abstract (evs : List String) : List AEv := evs.filterMap abstractEv

/-- returns before the first lock operation end the call without touching the guarded fields -/
def dropEarlyReturns : List AEv → List AEv
  | .ret :: rest => dropEarlyReturns rest
  | l => l

/-- several exits after the critical section count as one -/
def collapseReturns : List AEv → List AEv
  | .ret :: .ret :: rest => collapseReturns (.ret :: rest)
  | e :: rest => e :: collapseReturns rest
  | [] => []

def canon (evs : List String) : List AEv := collapseReturns (dropEarlyReturns (abstract evs))

def lookupMethod (p : List (String × List String)) (m : String) : List String :=
  ((p.find? (·.1 = m)).map (·.2)).getD ["<missing method>"]

def signProtocol : List AEv := [.rlock, .readJwk, .readKey, .runlock, .ret]
def keysProtocol : List AEv := [.rlock, .deferRUnlock, .readPub, .ret]
def hashProtocol : List AEv := [.rlock, .readJwk, .runlock, .ret]
def certProtocol : List AEv := [.rlock, .deferRUnlock, .readJwk, .ret]
def loadProtocol : List AEv := [.lock, .deferUnlock, .writeJwk, .writeKey, .writePub, .ret]
def onChangedProtocol : List AEv := [.callLoad]

def methodNames : List String := ["Hash", "Keys", "OnChanged", "Sign", "activeCertificateChain", "load"]

/-- every event of every method is one the abstraction knows -/
def allRecognised (p : List (String × List String)) : Bool :=
  p.all (fun m => m.2.all (fun e => match abstractEv e with
    | some (.other _) => false
    | _ => true))

/-- the transitions of the machine with the event each performs -/
def signerEdges : List (SPc × AEv × SPc) :=
  [(.idle, .rlock, .rHeld), (.rHeld, .readJwk, .gotJwk), (.gotJwk, .readKey, .gotKey), (.gotKey, .runlock, .done)]

def readerEdges : List (RPc × AEv × RPc) :=
  [(.idle, .rlock, .rHeld), (.rHeld, .readPub, .got), (.got, .runlock, .done)]

def loaderEdges : List (LPc × AEv × LPc) :=
  [(.idle, .ret, .failed), (.idle, .callLoad, .parsed), (.parsed, .lock, .wHeld), (.wHeld, .writeJwk, .wroteJwk),
   (.wroteJwk, .writeKey, .wroteKey), (.wroteKey, .writePub, .wrotePub), (.wrotePub, .unlock, .done)]

/-- the source-level protocol the edges stand for: an explicit unlock before the exit (`Sign`, `Hash`) or a deferred
one that runs at the exit (`Keys`, `activeCertificateChain`, `load`) -/
def signerEdgesAsProtocol : List AEv := signerEdges.map (·.2.1) ++ [.ret]

def readerEdgesAsProtocol : List AEv :=
  match (readerEdges.map (·.2.1) : List AEv) with
  | [.rlock, r, .runlock] => [.rlock, .deferRUnlock, r, .ret]
  | l => l

def loaderEdgesAsProtocol : List AEv :=
  match ((loaderEdges.map (·.2.1)).filter (fun e => e ≠ .ret ∧ e ≠ .callLoad) : List AEv) with
  | [.lock, a, b, c, .unlock] => [.lock, .deferUnlock, a, b, c, .ret]
  | l => l

/-! ## the claim program of `Sign` -/

/-- the value written into a system claim, read off its source text (local definitions resolved by the extractor) -/
def abstractSrc (v : String) : Option SysSrc :=
  if v = "((time.Now().UTC()).Add(ttl)).Unix()" then some .exp
  else if v = "(time.Now().UTC()).Unix()" then some .iat
  else if v = "s.iss" then some .iss
  else if v = "sub" then some .sub
  else if v = "uuid.New()" then some .jti
  else none

inductive RawOp where
  | init | op (o : ClaimOp) | use | unknown (kind key val : String)
deriving DecidableEq, Repr

def abstractClaimOp (o : String × String × String) : RawOp :=
  if o = ("init", "", "make(map[string]any)") then .init
  else if o = ("call", "maps.Merge", "customClaims, claims") then .op .merge
  else if o = ("use", "", "jwt.Signed(signer).Claims(claims)") then .use
  else if o.1 = "set" then
    match abstractSrc o.2.2 with
    | some src =>
      -- `iat` and `nbf` are written from the same clock reading
      if o.2.1 = "nbf" ∧ src = .iat then .op (.set "nbf" .nbf) else .op (.set o.2.1 src)
    | none => .unknown o.1 o.2.1 o.2.2
  else .unknown o.1 o.2.1 o.2.2

/-- the program the model runs, framed by the creation of the empty map and the hand-over to the JWT builder -/
def expectedClaimOps : List RawOp := [.init] ++ signProgram.map .op ++ [.use]

def expectedSignParams : List String := ["sub", "ttl", "customClaims"]

/-- header and signing key come from the copies taken under the read lock -/
def expectedSignerSetup : List (String × String) :=
  [("SigningKey.Algorithm", "jose.SignatureAlgorithm(jwk.Algorithm)"), ("SigningKey.Key", "key"),
   ("WithHeader \"alg\"", "jwk.Algorithm"), ("WithHeader \"kid\"", "jwk.KeyID"), ("WithType", "\"JWT\"")]

def copiesOf (assignments : List (String × String)) : List (String × String) :=
  assignments.filter (fun a => a.1 = "jwk" ∨ a.1 = "key")

def expectedCopies : List (String × String) := [("jwk", "s.jwk"), ("key", "s.key")]

/-- `load`: how the active entry is chosen, what is checked and how the published list is built -/
def selectionOf (assignments : List (String × String)) : List (String × String) :=
  assignments.filter (fun a => a.1 = "kse, err" ∨ a.1 = "kse" ∨ a.1 = "err" ∨ a.1 = "keys" ∨ a.1 = "keys[idx]" ∨
    a.1 = "range idx, entry" ∨ a.1 = "range _, entry" ∨ a.1 = "s.jwk" ∨ a.1 = "s.key" ∨ a.1 = "s.pubKeys")

def expectedSelection : List (String × String) :=
  [("kse, err", "keystore.SelectKey(ks, s.keyID)"),
   ("range _, entry", "ks.Entries()"), ("err", "entry.CheckJOSESupport()"),
   ("err", "pkix.ValidateCertificate(kse.CertChain[0], opts...)"),
   ("keys", "make([]jose.JSONWebKey, len(ks.Entries()))"), ("range idx, entry", "ks.Entries()"),
   ("keys[idx]", "entry.JWK()"), ("s.jwk", "kse.JWK()"), ("s.key", "kse.PrivateKey"), ("s.pubKeys", "keys")]

/-- `keystore.SelectKey` is `selectEntry`: `GetKey` for a non-empty id, else an error for no entries, else the first -/
def expectedSelectKey : List String :=
  ["if len(id) != 0 {", "return ks.GetKey(id)", "}", "entries = ks.Entries()", "if len(entries) == 0 {",
   "return nil, ErrNoKeys", "}", "return entries[0], nil"]

/-- `Entry.CheckJOSESupport` accepts exactly the sizes the algorithm tables know (`Entry.supported`) -/
def expectedJoseSupport : List (String × List Nat) :=
  [("AlgRSA", rsaTable.map (·.1)), ("AlgECDSA", ecdsaTable.map (·.1))]

/-! ## `Entry.JWK` and the algorithm tables -/

def expectedJwkLiteral : List (String × String) :=
  [("Algorithm", "string(e.JOSEAlgorithm())"), ("Certificates", "e.CertChain"), ("Key", "e.PrivateKey.Public()"),
   ("KeyID", "e.KeyID"), ("Use", "\"sig\"")]

def expectedJoseAlgorithm : List (String × String) :=
  [("switch", "e.Alg"), ("AlgRSA", "return getRSAAlgorithm(e.KeySize)"),
   ("AlgECDSA", "return getECDSAAlgorithm(e.KeySize)"), ("default", "panic")]

end Heimdall.SignerProtocol
