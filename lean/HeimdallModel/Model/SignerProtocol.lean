import HeimdallModel.Model.Signer
import HeimdallModel.Model.SignerConc
/-!
# From the synchronisation events extracted from `jwt_signer.go` to the machine of `Model/SignerConc.lean` (C16)

`Gen/Signer.lean` is regenerated from the current source on every run by `/verif/extract/signer`: per method of
`jwtSigner` the lock / unlock / deferred unlock events of its mutex, the reads and writes of its fields, control
structure and returns, with calls of other methods of the signer inlined.  This file reads such an event list as a
list of **critical sections** (`sections`): which guarded fields are accessed inside which read- or write-lock
section.  That is all the proofs about the machine depend on, and it is insensitive to how the code around the
sections is written (helpers, constants, early returns before the first lock, explicit or deferred unlock, order of
the accesses inside a section).  Everything else C16 needs to know about the code — claim set, headers, key
selection, algorithm per key size, public JWKs — is observed from the running code by the correspondence check.

The obligations themselves (`… = … := by decide`) are theorems of `Props/C16.lean`.
-/
namespace Heimdall.SignerProtocol
open Heimdall.Signer Heimdall.SignerConc

inductive AEv where
  | rlock | runlock | deferRUnlock | lock | unlock | deferUnlock
  | readJwk | readKey | readPub | writeJwk | writeKey | writePub
  | ret
  | callLoad            -- label of the loader's step that parses the key store file, outside the lock
  | other (s : String)
deriving DecidableEq, Repr

/-- `none`: irrelevant for the protocol (control structure, the braces of an inlined method, reads of the configuration
fields `path`, `password`, `keyID`, `iss`, which no method writes — a write to them shows up as `other`) -/
def abstractEv (s : String) : Option AEv :=
  if s = "rlock mut" then some .rlock
  else if s = "runlock mut" then some .runlock
  else if s = "defer runlock mut" then some .deferRUnlock
  else if s = "lock mut" then some .lock
  else if s = "unlock mut" then some .unlock
  else if s = "defer unlock mut" then some .deferUnlock
  else if s = "read jwk" then some .readJwk
  else if s = "read key" then some .readKey
  else if s = "read pubKeys" then some .readPub
  else if s = "write jwk" then some .writeJwk
  else if s = "write key" then some .writeKey
  else if s = "write pubKeys" then some .writePub
  else if s = "return" ∨ s = "return nil" ∨ s = "return value" then some .ret
  else if s = "if {" ∨ s = "}" ∨ s = "else {" ∨ s = "loop {" ∨ s = "switch {" ∨ s = "case {" ∨ s = "enter {" then none
  else if s = "read path" ∨ s = "read password" ∨ s = "read keyID" ∨ s = "read iss" then none
  else some (.other s)

def abstract (evs : List String) : List AEv := evs.filterMap abstractEv

def AEv.isAccess : AEv → Bool
  | .readJwk | .readKey | .readPub | .writeJwk | .writeKey | .writePub => true
  | _ => false

def AEv.isWrite : AEv → Bool
  | .writeJwk | .writeKey | .writePub => true
  | _ => false

/-- a critical section: taken with the write lock?  which guarded accesses inside (canonical order, each once) -/
abbrev Section := Bool × List AEv

def allAccesses : List AEv := [.readJwk, .readKey, .readPub, .writeJwk, .writeKey, .writePub]

def normAccesses (l : List AEv) : List AEv := allAccesses.filter (fun a => l.contains a)

/-- lock state while reading an event list: not held, or held (write?, unlock deferred?) with the accesses so far -/
structure LockState where
  held : Option (Bool × Bool) := none
  cur  : List AEv := []
  done : List Section := []

def LockState.close (st : LockState) (w : Bool) : LockState :=
  { held := none, cur := [], done := st.done ++ [(w, normAccesses st.cur)] }

/-- the critical sections of an event list; `none` when it is not well-formed: an access to a guarded field outside
a section, a write inside a read section, lock operations that do not pair up, a return that leaves the lock held, a
return inside a section with a deferred unlock that is not the end of the method, an unknown event -/
def sectionsFrom : List AEv → LockState → Option (List Section)
  | [], st =>
    match st.held with
    | none => some st.done
    | some (w, true) => some (st.close w).done
    | some (_, false) => none
  | e :: rest, st =>
    match e, st.held with
    | .rlock, none => sectionsFrom rest { st with held := some (false, false) }
    | .lock, none => sectionsFrom rest { st with held := some (true, false) }
    | .runlock, some (false, false) => sectionsFrom rest (st.close false)
    | .unlock, some (true, false) => sectionsFrom rest (st.close true)
    | .deferRUnlock, some (false, false) => sectionsFrom rest { st with held := some (false, true) }
    | .deferUnlock, some (true, false) => sectionsFrom rest { st with held := some (true, true) }
    -- an unlock deferred by an inlined method runs where that method ends: the extractor has put it there
    | .runlock, some (false, true) => sectionsFrom rest (st.close false)
    | .unlock, some (true, true) => sectionsFrom rest (st.close true)
    | .ret, none => sectionsFrom rest st
    | .ret, some (w, true) => if rest.all (fun x => x = .ret) then some (st.close w).done else none
    | .callLoad, _ => sectionsFrom rest st
    | a, some (w, _) =>
      if a.isAccess ∧ (a.isWrite → w = true) then sectionsFrom rest { st with cur := st.cur ++ [a] } else none
    | _, none => none

def sections (evs : List AEv) : Option (List Section) := sectionsFrom evs {}

def lookupMethod (p : List (String × List String)) (m : String) : List String :=
  ((p.find? (·.1 = m)).map (·.2)).getD ["<missing method>"]

def methodSections (p : List (String × List String)) (m : String) : Option (List Section) :=
  sections (abstract (lookupMethod p m))

/-- `Sign`: JWK and key are copied inside one read-lock section, nothing guarded is touched outside -/
def signSections : List Section := [(false, [.readJwk, .readKey])]
/-- `Keys` -/
def keysSections : List Section := [(false, [.readPub])]
/-- `Hash`, `activeCertificateChain` -/
def jwkSections : List Section := [(false, [.readJwk])]
/-- `load`, and `OnChanged`, which runs it: the three fields are replaced inside one write-lock section -/
def loadSections : List Section := [(true, [.writeJwk, .writeKey, .writePub])]

/-- every method — entry point or helper — is well-formed, and a section that writes at all replaces all three
guarded fields -/
def allMethodsSafe (p : List (String × List String)) : Bool :=
  p.all (fun m => match sections (abstract m.2) with
    | none => false
    | some secs => secs.all (fun s => !s.2.any AEv.isWrite ||
        (s.1 && [AEv.writeJwk, .writeKey, .writePub].all (fun a => s.2.contains a))))

/-- the transitions of the machine with the event each performs -/
def signerEdges : List (SPc × AEv × SPc) :=
  [(.idle, .rlock, .rHeld), (.rHeld, .readJwk, .gotJwk), (.gotJwk, .readKey, .gotKey), (.gotKey, .runlock, .done)]

def readerEdges : List (RPc × AEv × RPc) :=
  [(.idle, .rlock, .rHeld), (.rHeld, .readPub, .got), (.got, .runlock, .done)]

def loaderEdges : List (LPc × AEv × LPc) :=
  [(.idle, .ret, .failed), (.idle, .callLoad, .parsed), (.parsed, .lock, .wHeld), (.wHeld, .writeJwk, .wroteJwk),
   (.wroteJwk, .writeKey, .wroteKey), (.wroteKey, .writePub, .wrotePub), (.wrotePub, .unlock, .done)]

end Heimdall.SignerProtocol
