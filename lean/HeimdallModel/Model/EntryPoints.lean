import HeimdallModel.Model.Pipeline
/-!
# The three entry points (C01): from rule execution to the answer the caller sees

Model of `rule_executor_impl.go`, `handler/service/handler.go`, the `Finalize` of
`handler/decision/request_context.go`, `handler/proxy/request_context.go` and
`handler/envoyextauth/grpcv3/request_context.go`, `grpcv3/handler.go`, the HTTP recovery middleware, the gRPC
recovery interceptor configured in `grpcv3/service.go`, and the two error translators
(`middleware/http/errorhandler/error_handler.go`, `middleware/grpc/errorhandler/interceptor.go`) as far as the
*class* of the answer is concerned (the exact mapping is the subject of property C12; here only a small private
classification is kept).
-/
namespace Heimdall.Pipeline

inductive EntryPoint where
  | decision | proxy | envoy
deriving DecidableEq, Repr, Inhabited

def EntryPoint.mode : EntryPoint → Mode
  | .proxy => .proxy
  | _ => .decision

/-- `log.level`: the level of the request-scoped logger which the logger middleware / interceptor of every entry
point puts into the request context (`zerolog.Ctx(ctx.AppContext())`) -/
inductive LogLevel where
  | trace | debug | info | warn | disabled
deriving DecidableEq, Repr, Inhabited

/-- `serve.<service>.cors` (the options handed to `rs/cors`), as far as the *names* of the response headers it sets are
concerned: `allowed_origins` (lower-cased; empty or containing `*` = every origin; wildcard patterns are not
modelled), whether `GET` is among `allowed_methods` (absent list = GET, POST, HEAD), `allow_credentials`.  Only
`proxy/service.go` puts the CORS middleware into its chain; the decision service accepts the same configuration block
and ignores it. -/
structure Cors where
  origins : List String := []
  allowsGet : Bool := true
  allowCredentials : Bool := false
deriving DecidableEq, Repr, Inhabited

/-- `serve.<service>.respond.with.*.code`; 0 = not configured -/
structure Cfg where
  accepted : Nat := 0
  argument : Nat := 0
  authn : Nat := 0
  authz : Nat := 0
  comm : Nat := 0
  internal : Nat := 0
  noRule : Nat := 0
  /-- `serve.<service>.respond.verbose`: error responses carry a body describing the error -/
  verbose : Bool := false
  /-- `log.level`. The pipeline code consults the logger (`conditionalSubjectHandler.Execute` dumps the subject when
  the level is trace, the middlewares dump requests), but only to write log lines: no function of the model reads this
  field — that *is* the model of the code's behaviour, and the correspondence check varies the level to validate it -/
  logLevel : LogLevel := .disabled
  /-- `serve.<service>.cors`.  No function of `serve` below reads it: `serve` is the service handler *behind* the
  middlewares.  What the CORS middleware in front of the proxy's handler does with the response before the handler runs
  is `Model/HttpChain.lean` (`serveChain`), proved equal to `serve` except for preflight requests -/
  cors : Option Cors := none
deriving DecidableEq, Repr, Inhabited

/-- what the error translators and the middlewares in front of the handler look at in the request besides the error:
`negotiable` = the `Accept` header is absent or content negotiation against text/html, application/json, text/plain,
application/xml succeeds -/
structure ReqView where
  negotiable : Bool := true
  /-- value of the request's `Origin` header (`none` = absent), lower-cased -/
  origin : Option String := none
  /-- a CORS preflight request: method `OPTIONS` with a non-empty `Access-Control-Request-Method` header (asking for
  `GET`, no `Access-Control-Request-Headers`); otherwise the request is a `GET` -/
  preflight : Bool := false
deriving DecidableEq, Repr, Inhabited

/-- response classes of the two error translators, in the order of their `switch` -/
inductive Class where
  | authn | authz | comm | precondition | noRule | redirect (code : Nat) | internal
deriving DecidableEq, Repr, Inhabited

/-- the ordered `switch { case errors.Is(err, …) }` shared by both translators -/
def classify (e : Err) : Class :=
  if e.is .authentication then .authn
  else if e.is .authorization then .authz
  else if e.is .timeout || e.is .communication then .comm
  else if e.is .argument then .precondition
  else if e.is .noRule then .noRule
  else match e.redirect with
    | some code => .redirect code
    | none => .internal

def override (code dflt : Nat) : Nat := if code = 0 then dflt else code

/-- HTTP status written for a response class (`defaults.go` + `options.go`) -/
def Cfg.httpStatus (cfg : Cfg) : Class → Nat
  | .authn => override cfg.authn 401
  | .authz => override cfg.authz 403
  | .comm => override cfg.comm 502
  | .precondition => override cfg.argument 400
  | .noRule => override cfg.noRule 404
  | .redirect code => code
  | .internal => override cfg.internal 500

/-- `google.rpc.Code` put into the `CheckResponse` by the gRPC translator (never `OK` = 0) -/
def grpcCode : Class → Nat
  | .authn => 16
  | .authz => 7
  | .comm => 4
  | .precondition => 3
  | .noRule => 5
  | .redirect _ => 9
  | .internal => 13

/-- `acceptedCode` of `decision/service.go` -/
def Cfg.acceptedCode (cfg : Cfg) : Nat := override cfg.accepted 200

/-- what the caller observes -/
inductive Response where
  /-- decision / proxy service: HTTP status; `forwarded` = the request reached the upstream (then the status is the
  upstream's) -/
  | http (status : Nat) (forwarded : Bool)
  /-- Envoy: `CheckResponse` with status OK and an `OkHttpResponse` -/
  | checkOk
  /-- Envoy: `CheckResponse` with a non-OK `google.rpc.Status` code and a `DeniedHttpResponse` -/
  | checkDenied (code : Nat) (httpStatus : Nat)
  /-- Envoy: the RPC itself failed -/
  | rpcError (code : Nat)
deriving DecidableEq, Repr, Inhabited

/-- the answer (status, forwarding, check response: everything the verdict of the caller depends on) together with
the one thing verbosity and the `Accept` header are allowed to influence: whether the error translator put a body
describing the error into the response (its content and content type are the subject of C12) -/
structure Reply where
  resp : Response
  errorBody : Bool := false
deriving DecidableEq, Repr, Inhabited

/-- `ruleExecutor.Execute`: `FindRule`, then the rule's `Execute` -/
def execute (found : Option Rule) (c : Ctx) : Run ExecOut :=
  match found with
  | none => .done ⟨false, some (.ofKind .noRule)⟩ c
  | some r => r.execute c

/-- `errorHandler.HandleError` -/
def Cfg.httpError (cfg : Cfg) (e : Err) : Response := .http (cfg.httpStatus (classify e)) false

/-- `errorHandler.HandleError` with `errorWriter` (`formatter.go`): the status of the class is written in every case;
a body is added only if verbose responses are enabled and the format negotiation succeeds; the redirect branch
never writes a body -/
def Cfg.writeError (cfg : Cfg) (view : ReqView) (e : Err) : Reply :=
  { resp := cfg.httpError e
    errorBody := match classify e with
      | .redirect _ => false
      | _ => cfg.verbose && view.negotiable }

/-- the error built by the HTTP recovery middleware: `ErrInternal` caused by the panic value -/
def recovered (v : List Kind) : Err := ⟨.internal :: v, none⟩

/-- `Finalize` of the decision service (`proxy = false`) and of the proxy service (`proxy = true`; the upstream
answers with status `upstream`): the recorded pipeline error is checked before anything is written or forwarded;
`backend` is the `rule.Backend` returned by the rule. -/
def finalizeHTTP (proxy : Bool) (cfg : Cfg) (view : ReqView) (upstream : Nat) (backend : Bool) (c : Ctx) :
    Reply :=
  match c.pipelineErr with
  | some e => cfg.writeError view e
  | none =>
    if proxy then
      if backend then { resp := .http upstream true }
      else cfg.writeError view (.ofKind .configuration)
    else { resp := .http cfg.acceptedCode false }

/-- `service.handler.ServeHTTP` inside `recovery.New(eh)` -/
def serveHTTP (proxy : Bool) (cfg : Cfg) (view : ReqView) (upstream : Nat) (found : Option Rule) : Reply × Ctx :=
  match execute found {} with
  | .panic v c => (cfg.writeError view (recovered v), c)
  | .done out c =>
    match out.err with
    | some e => (cfg.writeError view e, c)
    | none => (finalizeHTTP proxy cfg view upstream out.backend c, c)

/-- the gRPC error interceptor -/
def Cfg.deny (cfg : Cfg) (e : Err) : Response :=
  match classify e with
  | .redirect code => .checkDenied 9 code
  | cl => .checkDenied (grpcCode cl) (cfg.httpStatus cl)

/-- the gRPC error interceptor with `errorResponse` (`error_response.go`): with verbose responses a body is always
present (a failed negotiation falls back to text/html); the redirect branch has none -/
def Cfg.denyReply (cfg : Cfg) (e : Err) : Reply :=
  { resp := cfg.deny e
    errorBody := match classify e with
      | .redirect _ => false
      | _ => cfg.verbose }

/-- `grpcv3.RequestContext.Finalize` followed by the error interceptor: the recorded pipeline error is checked
before the OK response is built -/
def finalizeEnvoy (cfg : Cfg) (c : Ctx) : Reply :=
  match c.pipelineErr with
  | some e => cfg.denyReply e
  | none => { resp := .checkOk }

/-- `grpcv3.Handler.Check` inside the error interceptor inside the recovery interceptor -/
def serveEnvoy (cfg : Cfg) (found : Option Rule) : Reply × Ctx :=
  match execute found {} with
  | .panic _ c => ({ resp := .rpcError 13 }, c)
  | .done out c =>
    match out.err with
    | some e => (cfg.denyReply e, c)
    | none => (finalizeEnvoy cfg c, c)

def serve (ep : EntryPoint) (cfg : Cfg) (view : ReqView) (upstream : Nat) (found : Option Rule) : Reply × Ctx :=
  match ep with
  | .decision => serveHTTP false cfg view upstream found
  | .proxy => serveHTTP true cfg view upstream found
  | .envoy => serveEnvoy cfg found

/-- the answer alone: what the caller's verdict depends on -/
def answer (ep : EntryPoint) (cfg : Cfg) (view : ReqView) (upstream : Nat) (found : Option Rule) : Response :=
  (serve ep cfg view upstream found).1.resp

/-- did the error translator add a body describing the error -/
def errorBody (ep : EntryPoint) (cfg : Cfg) (view : ReqView) (upstream : Nat) (found : Option Rule) : Bool :=
  (serve ep cfg view upstream found).1.errorBody

def isSuccessStatus (s : Nat) : Bool := 200 ≤ s && s < 300

/-- the request reached the upstream -/
def Response.forwarded : Response → Bool
  | .http _ f => f
  | _ => false

/-- the caller got a success response: an HTTP 2xx status, or an OK check response -/
def Response.success : Response → Bool
  | .http s _ => isSuccessStatus s
  | .checkOk => true
  | .checkDenied code _ => code == 0
  | .rpcError _ => false

/-- a positive answer: success response or forwarding to the upstream -/
def Response.positive (r : Response) : Bool := r.success || r.forwarded

end Heimdall.Pipeline
