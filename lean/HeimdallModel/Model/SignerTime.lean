import HeimdallModel.Model.Signer
/-!
# Time as a dimension of the JWT signer (C16)

Heimdall reads the clock at three places of the signer: `keystore.ValidateChain` and `pkix.ValidateCertificate` inside
`jwtSigner.load` (construction and every `OnChanged`) judge the validity periods of the certificates **at the instant
of the load**; `Sign` stamps `iat` / `nbf` / `exp`; `Keys()` does **not** read it.  So a certificate that runs out
while the process is up — no new key store file arrived, or the reload was refused (an expired certificate is a reason
for refusal) — changes nothing: the signer keeps signing with the key and keeps publishing it until a later reload
succeeds.

`Model/Signer.lean` takes the x509 verdicts of a key block (`chainValid`, `signUsable`) as inputs.  Here they are
*computed* from the clock reading of the load and the validity periods of the certificates, so that one key store file
can be looked at over time:

| Lean | Go |
|---|---|
| `Validity`, `CertInfo` | `Certificate.NotBefore`, `NotAfter` (a function of the DER bytes, `Cert.cid`) |
| `Cert.validAt` | `Certificate.isValid`: `now.Before(NotBefore)` and `now.After(NotAfter)` are the refusals; applied to leaf, intermediates and root of the chain |
| `TimedEntry`, `TimedEntry.seenAt` | a key block with the clock-independent verdicts (`chainOk`: signatures, constraints; `usageOk`: digital-signature usage of the leaf); what `verifyAndBuildKeyStore` / `load` make of it at an instant |
| `loadAt`, `reloadOn`, `runClock` | `newJWTSigner` / `OnChanged` at an instant; a history of reload attempts, each at its instant |
| `keysAtK`, `keysAt`, `publishedAt` | `jwtSigner.Keys()` / `registry.Keys()` called at an instant |
| `PublishPolicy` | variants of `Keys()`: `{}` = the code (the list as loaded); `dropExpired` = keys whose leaf certificate is past `NotAfter` at the call are left out (seed s4eval/C16-b) |
| `signIfValid` | a variant of `Sign` that refuses while a certificate of the active key is outside its validity period (not what the code does; consistent with the property, see `Props/C16.lean`) |

Instants are integers (nanoseconds since the epoch in the theorems; the correspondence check uses milliseconds since
the start of the case).  Nothing is assumed about their order: histories need not be monotone.
-/
namespace Heimdall.Signer

/-- the validity period a certificate states -/
structure Validity where
  notBefore : Int
  notAfter  : Int
deriving DecidableEq, Repr

/-- x509 facts by certificate identity (`Cert.cid` stands for the DER bytes, which fix the validity period) -/
abbrev CertInfo := Nat → Validity

/-- `Certificate.isValid` as far as the clock goes -/
def Cert.validAt (ci : CertInfo) (now : Int) (c : Cert) : Bool :=
  decide ((ci c.cid).notBefore ≤ now) && decide (now ≤ (ci c.cid).notAfter)

/-- a private-key block of the PEM file with what x509 says about its certificates **independently of the clock** -/
structure TimedEntry where
  xkid    : String
  key     : PrivKey
  chain   : List Cert    -- `FindChain` (subject / issuer names and key identifiers: no clock)
  chainOk : Bool         -- `ValidateChain` apart from the validity periods: signatures, basic constraints, ...
  usageOk : Bool         -- the leaf may be used for digital signatures
deriving DecidableEq, Repr

/-- `ValidateChain` at an instant: every certificate of the chain — leaf, intermediates, root — is inside its period -/
def TimedEntry.chainValidAt (ci : CertInfo) (now : Int) (e : TimedEntry) : Bool :=
  e.chainOk && e.chain.all (Cert.validAt ci now)

/-- the key block as `verifyAndBuildKeyStore` and `load` judge it at the instant `now` -/
def TimedEntry.seenAt (ci : CertInfo) (now : Int) (e : TimedEntry) : RawEntry :=
  ⟨e.xkid, e.key, e.chain, e.chainValidAt ci now, e.usageOk && e.chainValidAt ci now⟩

/-- a key store file over time: `none` when it cannot be read / parsed at all -/
abbrev TimedFile := Option (List TimedEntry)

def fileAt (ci : CertInfo) (now : Int) (f : TimedFile) : File := f.map (·.map (TimedEntry.seenAt ci now))

/-- `jwtSigner.load` at the instant `now` -/
def loadAt (ci : CertInfo) (keyID : String) (f : TimedFile) (now : Int) : Option State :=
  loadFile keyID (fileAt ci now f)

/-- `OnChanged` at the instant `ev.1` with the file `ev.2` in place; a refused reload leaves the generation -/
def reloadOn (ci : CertInfo) (keyID : String) (st : State) (ev : Int × TimedFile) : State :=
  reload keyID st (fileAt ci ev.1 ev.2)

/-- a history of reload attempts, each with the instant at which it happens -/
def runClock (ci : CertInfo) (keyID : String) (st : State) (hist : List (Int × TimedFile)) : State :=
  hist.foldl (reloadOn ci keyID) st

/-- how `Keys()` derives its answer from the guarded list and the clock reading of the call -/
structure PublishPolicy where
  keep : CertInfo → Int → Jwk → Bool := fun _ _ _ => true

def keysAtK (p : PublishPolicy) (ci : CertInfo) (st : State) (now : Int) : List Jwk :=
  st.pubKeys.filter (p.keep ci now)

/-- `jwtSigner.Keys()` called at the instant `now` -/
def keysAt (ci : CertInfo) (st : State) (now : Int) : List Jwk := keysAtK {} ci st now

/-- `registry.Keys()` / the JWKS endpoint asked at the instant `now` -/
def publishedAt (ci : CertInfo) (holders : List State) (now : Int) : List Jwk :=
  holders.flatMap (fun st => keysAt ci st now)

/-- the seeded variant: a key whose leaf certificate is past `NotAfter` at the call is not listed -/
def dropExpired : PublishPolicy :=
  { keep := fun ci now j => match j.certs with
      | [] => true
      | c :: _ => decide (now ≤ (ci c.cid).notAfter) }

/-- a variant of `Sign` (not the code's): no token while a certificate of the active key is outside its period -/
def signIfValid {α : Type} (ci : CertInfo) (st : State) (i : SignIn) (custom : Claims α) : Option (Token α) :=
  if st.jwk.certs.all (Cert.validAt ci i.nowNs) then some (sign st i custom) else none

end Heimdall.Signer
