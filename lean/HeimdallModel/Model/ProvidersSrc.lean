import HeimdallModel.Gen.ProvidersSrc
import HeimdallModel.Model.Providers
/-!
# The translated decision kernel of the http_endpoint provider on the state of the C18 model

`Gen/ProvidersSrc.lean` (regenerated from the source on every run) is generic in what the state map, the processor and
the digests are. Here the context is the state of `Model/Providers.lean` (the book of remembered digests, the active
rule sets) together with the processor calls made so far; the processor refuses the sources in `rej` (and then changes
nothing), `Store` / `Delete` act on the book only. `rs = none` is the rule set without rules. Not imported by the
shared driver.
-/
namespace Heimdall.Prov.SrcTie
open Heimdall.Prov

variable {σ : Type} [DecidableEq σ]

abbrev Ctx (σ : Type) := St σ × Trace σ

/-- a call of the rule set processor: refused (an error, nothing changes) or applied to the repository -/
def processor (rej : List σ) (c : Call σ) : Go.M (Ctx σ) Unit (Option Unit) := fun (st, tr) =>
  if rej.contains c.src then .done (some ()) (st, tr ++ [(c, false)])
  else .done none (⟨st.book, st.active.apply c⟩, tr ++ [(c, true)])

/-- the translated `ruleSetsUpdated` for endpoint `id` and a fetched rule set with digest `rs` -/
def httpSrc (rej : List σ) (id : σ) (rs : Option Hash) : Go.M (Ctx σ) Unit (Option Unit) :=
  Src.HttpEndpoint.ruleSetsUpdated
    (fun c => .done (c.1.book.get id, (c.1.book.get id).isSome) c)
    rs.isNone
    (fun h => h == rs)
    (processor rej (.created id (rs.getD 0)))
    (processor rej (.updated id (rs.getD 0)))
    (processor rej (.deleted id))
    (fun (st, tr) => .done () (⟨st.book.put id (rs.getD 0), st.active⟩, tr))
    (fun (st, tr) => .done () (⟨st.book.del id, st.active⟩, tr))
    ()

end Heimdall.Prov.SrcTie
