import HeimdallModel.Gen.ProvidersSrc
import HeimdallModel.Model.Providers
/-!
# The translated decision kernel of the http_endpoint provider on the state of the C18 model

`Gen/ProvidersSrc.lean` (regenerated from the source on every run) is generic in what the state map, the processor and
the digests are. Here the context is the state of `Model/Providers.lean` (the book of remembered digests, the active
rule sets) together with the processor calls made so far; the processor refuses the sources in `rej` (and then changes
nothing), `Store` / `Delete` act on the book only. `rs = none` is the rule set without rules. Not imported by the
shared driver.
-/
namespace Heimdall.Prov.SrcTie
open Heimdall.Prov

variable {σ : Type} [DecidableEq σ]

abbrev Ctx (σ : Type) := St σ × Trace σ

/-- a call of the rule set processor: refused (an error, nothing changes) or applied to the repository -/
def processor (rej : List σ) (c : Call σ) : Go.M (Ctx σ) Unit (Option Unit) := fun (st, tr) =>
  if rej.contains c.src then .done (some ()) (st, tr ++ [(c, false)])
  else .done none (⟨st.book, st.active.apply c⟩, tr ++ [(c, true)])

/-- the translated `ruleSetsUpdated` for endpoint `id` and a fetched rule set with digest `rs` -/
def httpSrc (rej : List σ) (id : σ) (rs : Option Hash) : Go.M (Ctx σ) Unit (Option Unit) :=
  Src.HttpEndpoint.ruleSetsUpdated
    (fun c => .done (c.1.book.get id, (c.1.book.get id).isSome) c)
    rs.isNone
    (fun h => h == rs)
    (processor rej (.created id (rs.getD 0)))
    (processor rej (.updated id (rs.getD 0)))
    (processor rej (.deleted id))
    (fun (st, tr) => .done () (⟨st.book.put id (rs.getD 0), st.active⟩, tr))
    (fun (st, tr) => .done () (⟨st.book.del id, st.active⟩, tr))
    ()

/-! ## file_system -/

/-- the translated `ruleSetDeleted` for file `name` -/
def fsDeletedSrc (rej : List σ) (name : σ) : Go.M (Ctx σ) Unit (Option FileState) :=
  Src.FileSystem.ruleSetDeleted (H := Hash) (RS := Hash) none (Go.pure (none, none)) (fun _ => false) (fun _ => false)
    (fun c => .done (c.1.book.get name, (c.1.book.get name).isSome) c) (fun _ => 0) (fun _ => false)
    (fun _ => Go.pure none) (fun _ => Go.pure none)
    (Go.map (fun e => e.map fun _ => FileState.invalid) (processor rej (.deleted name)))
    (Go.pure ()) (fun (st, tr) => .done () (⟨st.book.del name, st.active⟩, tr)) ()

/-- what `loadRuleSet` returns for a file in the given state: the rule set (its digest) or an error; an error is
represented by the state that caused it -/
def loadOf : FileState → Option Hash × Option FileState
  | .valid h => (some h, none)
  | f => (none, some f)

/-- `len(hash)`: 0 for no digest and for the empty digest (digest 0 of the model) -/
def digestLen : Option Hash → Int
  | none => 0
  | some d => if d = 0 then 0 else 1

/-- the translated `ruleSetCreatedOrUpdated` for file `name` found in state `file`; the hand-over to
`ruleSetDeleted` is the translation of that function -/
def fsChangedSrc (rej : List σ) (name : σ) (file : FileState) : Go.M (Ctx σ) Unit (Option FileState) :=
  let h := match file with | .valid h => h | _ => 0
  Src.FileSystemChanged.ruleSetCreatedOrUpdated (H := Hash) (RS := Hash) (fsDeletedSrc rej name) none
    (Go.pure (loadOf file)) (· == .empty) (· == .missing)
    (fun c => .done (c.1.book.get name, (c.1.book.get name).isSome) c) digestLen (fun h' => h' == some h)
    (fun rs => Go.map (fun e => e.map fun _ => FileState.invalid) (processor rej (.created name (rs.getD 0))))
    (fun rs => Go.map (fun e => e.map fun _ => FileState.invalid) (processor rej (.updated name (rs.getD 0))))
    (Go.map (fun e => e.map fun _ => FileState.invalid) (processor rej (.deleted name)))
    (fun (st, tr) => .done () (⟨st.book.put name h, st.active⟩, tr))
    (fun (st, tr) => .done () (⟨st.book.del name, st.active⟩, tr)) ()

end Heimdall.Prov.SrcTie
