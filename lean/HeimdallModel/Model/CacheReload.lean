import HeimdallModel.Model.CacheExec
/-!
# Caching mechanisms with reloadable state

Some of what a mechanism's key function and fresh evaluation read is not fixed when the mechanism is created: the key
store of the signer of the jwt finalizer is watched (`watcher.Watcher.Add(path, signer)`), a change of the file makes the
watcher call `jwtSigner.OnChanged → load`, which replaces the key the **living** signer signs with — the mechanism, the
prototypes derived from it by `WithConfig` (they share the signer) and the cache all stay.  A history is therefore a list
of *events*: timed requests and reloads.  A mechanism over `St × Req` sees the request together with the state in force.

* `runEv`: what the code does — every request is evaluated with the state current at its time, the store survives reloads;
* `inForce`: the same history as a plain list of timed requests, each paired with the state in force;
* `memoised` / `runMemo`: a mechanism whose key function reads a digest of the state that is computed at first use and
  kept (`sync.Once`), while signing reads the current state — what the property forbids (see `Props/C11.lean`).
-/
namespace Heimdall.CacheExec
open Heimdall.CacheKey

inductive Event (St Req : Type) where
  /-- a request at time `t` -/
  | req (t : Nat) (r : Req)
  /-- the watched file changed and was loaded: `s` is the state from now on -/
  | reload (s : St)

/-- every request of the history with the state in force when it is made -/
def inForce {St Req : Type} : St → List (Event St Req) → List (Nat × (St × Req))
  | _, [] => []
  | s, .req t r :: h => (t, (s, r)) :: inForce s h
  | _, .reload s' :: h => inForce s' h

/-- a history of requests and reloads against one mechanism and one cache -/
def runEv {St Req Resp : Type} (m : Mech (St × Req) Resp) : St → Store Resp → List (Event St Req) → List (StepResult Resp)
  | _, _, [] => []
  | s, st, .req t r :: h => let x := step m st t (s, r); x :: runEv m s x.store h
  | _, st, .reload s' :: h => runEv m s' st h

/-- the mechanism `m` with a key function that reads the state through a memo: requests are `((memo, current), r)` —
the key is computed from the memoised state, everything else from the current one -/
def memoised {St Req Resp : Type} (m : Mech (St × Req) Resp) : Mech ((St × St) × Req) Resp where
  key x := m.key (x.1.1, x.2)
  fresh x := m.fresh (x.1.2, x.2)
  accept x v := m.accept (x.1.2, x.2) v
  enabled x := m.enabled (x.1.2, x.2)
  ttl x v := m.ttl (x.1.2, x.2) v
  recheck := m.recheck
  recode := m.recode

/-- a history against the memoising mechanism: the memo is filled by the first request and never invalidated -/
def runMemo {St Req Resp : Type} (m : Mech (St × Req) Resp) :
    Option St → St → Store Resp → List (Event St Req) → List (StepResult Resp)
  | _, _, _, [] => []
  | memo, s, st, .req t r :: h =>
    let s₀ := memo.getD s
    let x := step (memoised m) st t ((s₀, s), r)
    x :: runMemo m (some s₀) s x.store h
  | memo, _, st, .reload s' :: h => runMemo m memo s' st h

/-! ## Mechanisms keyed by a field list, part of whose sources is reloadable -/

/-- reloadable sources by name (the digest of the signer: `signer`) -/
abbrev Overlay := List (String × Bytes)

/-- the values a request reads, the reloadable sources taken from the state in force -/
def _root_.Heimdall.CacheKey.Env.withState (env : Env) (s : Overlay) : Env :=
  { env with str := fun k => match s.lookup k with | some b => b | none => env.str k }

def KReq.withState (r : KReq) (s : Overlay) : KReq := { r with env := r.env.withState s }

/-- a mechanism over requests seen as a mechanism over (state, request) -/
def stateful {Resp : Type} (m : Mech KReq Resp) : Mech (Overlay × KReq) Resp where
  key x := m.key (x.2.withState x.1)
  fresh x := m.fresh (x.2.withState x.1)
  accept x v := m.accept (x.2.withState x.1) v
  enabled x := m.enabled (x.2.withState x.1)
  ttl x v := m.ttl (x.2.withState x.1) v
  recheck := m.recheck
  recode := m.recode

end Heimdall.CacheExec
