/-!
# IP addresses, CIDR ranges and the trust decision of `trustedproxy.New`

What `internal/handler/middleware/http/trustedproxy/handler.go` computes from the strings of `trusted_proxies` and
from `http.Request.RemoteAddr`, following the Go standard library functions it calls:

* `httpx.IPFromHostPort` = `net.SplitHostPort` (host part, `""` on error),
* `net.ParseIP` = `netip.ParseAddr` without zone, result always in the 16-byte form (IPv4 as `::ffff:a.b.c.d`),
* `net.ParseCIDR`, `IPNet.Contains` (a 4-byte network only contains addresses that have a 4-byte form and vice versa;
  an IPv6 literal network whose masked base is IPv4-mapped behaves as the IPv4 network with `plen - 96`),
* `net.IP.Equal`.

Addresses are natural numbers below `2^128` (the 16-byte form read big-endian).  Text is `List Char` internally.

The entry parser follows the code **with `fixes/C09-1.patch`** (in /repo as commit 7f0f8a0): an entry without `/` that is not an IP address
is skipped (the unpatched code keeps it as `simpleIP(nil)`, which `Equal`s the `nil` of an unparsable peer address;
see `parseEntryUnpatched` and `Props/C09.lean`, `c09_unpatched_trusts_unparsable_peer`).
-/
namespace Heimdall.Fwd

/-! ## text helpers -/

def isDigit (c : Char) : Bool := '0' ≤ c && c ≤ '9'

def hexVal (c : Char) : Option Nat :=
  if '0' ≤ c && c ≤ '9' then some (c.toNat - '0'.toNat)
  else if 'a' ≤ c && c ≤ 'f' then some (c.toNat - 'a'.toNat + 10)
  else if 'A' ≤ c && c ≤ 'F' then some (c.toNat - 'A'.toNat + 10)
  else none

def isHex (c : Char) : Bool := (hexVal c).isSome

def decVal (cs : List Char) : Nat := cs.foldl (fun n c => n * 10 + (c.toNat - '0'.toNat)) 0

def hexNum (cs : List Char) : Nat := cs.foldl (fun n c => n * 16 + (hexVal c).getD 0) 0

/-- split at every occurrence of `sep` (like `strings.Split` with a one-byte separator) -/
def splitOnChar (sep : Char) : List Char → List (List Char)
  | [] => [[]]
  | c :: cs =>
    match splitOnChar sep cs with
    | [] => [[]]          -- unreachable
    | f :: fs => if c = sep then [] :: f :: fs else (c :: f) :: fs

/-- `strings.Cut(s, sep)` for a one-byte separator: text before and after the first occurrence -/
def cutAt (sep : Char) : List Char → Option (List Char × List Char)
  | [] => none
  | c :: cs =>
    if c = sep then some ([], cs)
    else match cutAt sep cs with
      | some (a, b) => some (c :: a, b)
      | none => none

/-! ## `netip.ParseAddr` (zone-less results only) -/

/-- one dotted-decimal field: 1–3 digits, no leading zero, at most 255 -/
def v4Field (f : List Char) : Option Nat :=
  if f.isEmpty || !f.all isDigit then none
  else if f.length > 1 && f.head? = some '0' then none
  else if f.length > 3 then none
  else if decVal f > 255 then none else some (decVal f)

/-- `parseIPv4Fields`: exactly four fields -/
def parseV4 (s : List Char) : Option Nat :=
  match (splitOnChar '.' s).map v4Field with
  | [some a, some b, some c, some d] => some (((a * 256 + b) * 256 + c) * 256 + d)
  | _ => none

/-- the loop of `parseIPv6`; `acc` are the bytes written so far (`i = acc.length`), `ell` the byte position of `::`.
    Result: bytes and ellipsis position when the whole string was consumed. -/
def v6Loop : Nat → List Char → Option Nat → List Nat → Option (List Nat × Option Nat)
  | 0, _, _, _ => none
  | fuel + 1, s, ell, acc =>
    if acc.length ≥ 16 then (if s.isEmpty then some (acc, ell) else none)
    else
      let digs := s.takeWhile isHex
      let rest := s.dropWhile isHex
      if digs.length > 4 || digs.isEmpty then none
      else
        let g := hexNum digs
        let acc' := acc ++ [g / 256, g % 256]
        match rest with
        | [] => some (acc', ell)
        | '.' :: _ =>
          if (ell.isNone && acc.length != 12) || acc.length + 4 > 16 then none
          else match parseV4 s with
            | some v => some (acc ++ [v / 16777216, v / 65536 % 256, v / 256 % 256, v % 256], ell)
            | none => none
        | ':' :: r1 =>
          match r1 with
          | [] => none
          | ':' :: r2 =>
            if ell.isSome then none
            else if r2.isEmpty then some (acc', some acc'.length)
            else v6Loop fuel r2 (some acc'.length) acc'
          | _ => v6Loop fuel r1 ell acc'
        | _ => none

def bytesVal (bs : List Nat) : Nat := bs.foldl (fun n b => n * 256 + b) 0

def parseV6 (s : List Char) : Option Nat :=
  let (s', ell0) := match s with
    | ':' :: ':' :: r => (r, some 0)
    | _ => (s, none)
  if ell0.isSome && s'.isEmpty then some 0
  else match v6Loop (s'.length + 1) s' ell0 [] with
    | none => none
    | some (bs, ell) =>
      if bs.length < 16 then
        match ell with
        | none => none
        | some e => some (bytesVal (bs.take e ++ List.replicate (16 - bs.length) 0 ++ bs.drop e))
      else if ell.isSome then none
      else some (bytesVal bs)

def v4Mapped (v : Nat) : Nat := 0xffff * 4294967296 + v

/-- `(is4, 16-byte value)`: `netip.ParseAddr` restricted to results without zone (`net.ParseIP`, `net.ParseCIDR`
    reject zones; any `%` makes the parse fail or yields a zone) -/
def parseAddr (s : List Char) : Option (Bool × Nat) :=
  if s.contains '%' then none
  else match s.find? (fun c => c = '.' || c = ':') with
    | some '.' => (parseV4 s).map fun v => (true, v4Mapped v)
    | some ':' => (parseV6 s).map fun v => (false, v)
    | _ => none

/-- `net.ParseIP` -/
def parseIP (s : String) : Option Nat := (parseAddr s.toList).map (·.2)

/-! ## networks -/

/-- `IP.To4() != nil` on the 16-byte form -/
def isV4Mapped (a : Nat) : Bool := a / 4294967296 == 0xffff

structure Net where
  v4   : Bool     -- network number in 4-byte form (only addresses with a 4-byte form can be contained)
  pre  : Nat      -- the first `plen` bits of the network number
  plen : Nat
deriving DecidableEq, Repr

def Net.bits (n : Net) : Nat := if n.v4 then 32 else 128

/-- clear the low `k` bits -/
def maskLow (a k : Nat) : Nat := a / 2 ^ k * 2 ^ k

/-- `net.ParseCIDR` (the `*IPNet` part) -/
def parseCIDR (s : List Char) : Option Net :=
  match cutAt '/' s with
  | none => none
  | some (addr, mask) =>
    match parseAddr addr with
    | none => none
    | some (is4, a) =>
      if mask.isEmpty || !mask.all isDigit then none
      else
        let n := decVal mask
        let bits := if is4 then 32 else 128
        if n > bits then none
        else if is4 then some ⟨true, a % 4294967296 / 2 ^ (32 - n), n⟩
        else
          -- the masked network number decides whether the network is kept in 4-byte form
          let b := maskLow a (128 - n)
          if isV4Mapped b then some ⟨true, b % 4294967296 / 2 ^ (32 - (n - 96)), n - 96⟩
          else some ⟨false, a / 2 ^ (128 - n), n⟩

inductive Entry where
  | single (ip : Nat)
  | net (n : Net)
deriving DecidableEq, Repr

/-- one string of `trusted_proxies` (code with fixes/C09-1.patch) -/
def parseEntry (s : String) : Option Entry :=
  if s.toList.contains '/' then (parseCIDR s.toList).map .net
  else (parseIP s).map .single

/-- `IPNet.Contains` for a parsed (16-byte form) address -/
def Net.contains (n : Net) (a : Nat) : Bool :=
  if isV4Mapped a then n.v4 && a % 4294967296 / 2 ^ (32 - n.plen) == n.pre
  else !n.v4 && a / 2 ^ (128 - n.plen) == n.pre

/-- `ipHolder.Contains(net.ParseIP(..))`; an unparsable peer address is `none` -/
def Entry.contains : Entry → Option Nat → Bool
  | _, none => false
  | .single ip, some a => ip == a
  | .net n, some a => n.contains a

/-- `trustedProxySet.Contains` -/
def trusted (es : List Entry) (peer : Option Nat) : Bool := es.any (·.contains peer)

/-! ## `httpx.IPFromHostPort` -/

def lastIndexOf (c : Char) (s : List Char) : Option Nat :=
  (s.reverse.idxOf? c).map fun k => s.length - 1 - k

/-- `net.SplitHostPort`, host part only -/
def splitHost (hp : List Char) : Option (List Char) :=
  match lastIndexOf ':' hp with
  | none => none
  | some i =>
    match hp with
    | '[' :: _ =>
      match hp.idxOf? ']' with
      | none => none
      | some e =>
        if e + 1 = hp.length then none
        else if e + 1 ≠ i then none
        else
          let host := (hp.take e).drop 1
          if (hp.drop 1).contains '[' || (hp.drop (e + 1)).contains ']' then none else some host
    | _ =>
      let host := hp.take i
      if host.contains ':' then none
      else if hp.contains '[' || hp.contains ']' then none else some host

def ipFromHostPort (remoteAddr : String) : String :=
  match splitHost remoteAddr.toList with
  | some h => String.ofList h
  | none => ""

/-- the trust decision of the middleware: `trusted_proxies` strings × `RemoteAddr` -/
def trustedPeer (proxies : List String) (remoteAddr : String) : Bool :=
  trusted (proxies.filterMap parseEntry) (parseIP (ipFromHostPort remoteAddr))

/-! ## the unpatched entry parser (kept to state the defect) -/

inductive EntryU where
  | single (ip : Option Nat)
  | net (n : Net)
deriving DecidableEq, Repr

def parseEntryUnpatched (s : String) : Option EntryU :=
  if s.toList.contains '/' then (parseCIDR s.toList).map .net
  else some (.single (parseIP s))

/-- `simpleIP(x).Contains(y)` is `net.IP.Equal`, and two `nil`s are equal -/
def EntryU.contains : EntryU → Option Nat → Bool
  | .single ip, a => ip == a
  | .net _, none => false
  | .net n, some a => n.contains a

def trustedPeerUnpatched (proxies : List String) (remoteAddr : String) : Bool :=
  (proxies.filterMap parseEntryUnpatched).any (·.contains (parseIP (ipFromHostPort remoteAddr)))

end Heimdall.Fwd
