/-!
# Rule pipelines (C01): what `ruleImpl.Execute` and the composites do

Bug-compatible model of `internal/rules`:
`rule_impl.go` (`ruleImpl.Execute`), `composite_subject_creator.go`, `composite_subject_handler.go`,
`conditional_subject_handler.go`, `composite_error_handler.go`, `conditional_error_handler.go`,
`cel_execution_condition.go`, the three error handlers of `mechanisms/errorhandlers`, and the part of
`rule_factory_impl.go` that decides which pipelines a loaded rule has (rejection, stage-wise inheritance).

Mechanisms are *parameters*: an authenticator / authorizer / contextualizer / finalizer is the outcome it has for
the request at hand (returned subject, returned error, panic) together with its flags.  Everything the code does
*around* the mechanisms is modelled step by step.  Everything lives in `Heimdall.Pipeline` so that it cannot clash
with the error model of other properties.
-/
namespace Heimdall.Pipeline

/-- the sentinel errors of `internal/heimdall/errors.go` -/
inductive Kind where
  | argument | authentication | authorization | communication | timeout | configuration | internal | noRule
deriving DecidableEq, Repr, Inhabited

/-- What `errors.Is` / `errors.As` can observe of a Go error value: the heimdall sentinels reachable through
`Is`/`Unwrap` (error chains, `%w` wraps, joined errors) and the status code of a reachable `*heimdall.RedirectError`.
A foreign error (CEL runtime error, anything else) has no sentinel. -/
structure Err where
  kinds : List Kind
  redirect : Option Nat := none
deriving DecidableEq, Repr, Inhabited

/-- `errors.Is(e, sentinel k)` -/
def Err.is (e : Err) (k : Kind) : Bool := e.kinds.contains k

def Err.foreign : Err := ⟨[], none⟩
def Err.ofKind (k : Kind) : Err := ⟨[k], none⟩
def Err.ofKinds (ks : List Kind) : Err := ⟨ks, none⟩

/-- the error type constants of `cellib/errors.go` usable in `if` conditions of error handlers -/
inductive CelErrType where
  | authentication | authorization | communication | internal | precondition
deriving DecidableEq, Repr, Inhabited

def CelErrType.kinds : CelErrType → List Kind
  | .authentication => [.authentication]
  | .authorization => [.authorization]
  | .communication => [.communication, .timeout]
  | .internal => [.internal, .configuration]
  | .precondition => [.argument]

/-- `if` conditions (CEL expressions) by what they depend on -/
inductive Cond where
  /-- no `if` given: `defaultExecutionCondition` -/
  | always
  /-- an expression that does not depend on subject or error (`true`, `Request.Method == "GET"`, …) -/
  | lit (b : Bool)
  /-- `Subject.ID == "s"` -/
  | subjectIs (s : String)
  /-- `type(Error) == <error type>` -/
  | errorIs (t : CelErrType)
  /-- an expression whose evaluation fails at run time -/
  | broken
deriving DecidableEq, Repr, Inhabited

/-- result of `CanExecuteOnSubject` / `CanExecuteOnError`: `(true, nil)`, `(false, nil)`, `(false, err)`;
the error is the raw CEL error, a foreign error -/
inductive CondOut where
  | yes | no | fails
deriving DecidableEq, Repr, Inhabited

/-- `celExecutionCondition.CanExecuteOnSubject`: only `Request` and `Subject` are bound -/
def Cond.onSubject : Cond → String → CondOut
  | .always, _ => .yes
  | .lit b, _ => if b then .yes else .no
  | .subjectIs s, sub => if s = sub then .yes else .no
  | .errorIs _, _ => .fails
  | .broken, _ => .fails

/-- `celExecutionCondition.CanExecuteOnError`: only `Request` and `Error` are bound -/
def Cond.onError : Cond → Err → CondOut
  | .always, _ => .yes
  | .lit b, _ => if b then .yes else .no
  | .subjectIs _, _ => .fails
  | .errorIs t, e => if t.kinds.any e.is then .yes else .no
  | .broken, _ => .fails

/-- outcome of an authenticator for the request at hand: a subject, an error (the sentinels visible in it; mechanisms
never return a `RedirectError`), or a panic (the sentinels visible in the panic value, `[]` for a value that is not
an `error`) -/
inductive AuthOut where
  | ok (subject : String)
  | err (ks : List Kind)
  | panic (v : List Kind)
deriving DecidableEq, Repr, Inhabited

structure Authenticator where
  id : String
  out : AuthOut
  /-- `IsFallbackOnErrorAllowed()` -/
  fallback : Bool
deriving DecidableEq, Repr, Inhabited

/-- outcome of an authorizer / contextualizer / finalizer -/
inductive StepOut where
  | ok
  | err (ks : List Kind)
  | panic (v : List Kind)
deriving DecidableEq, Repr, Inhabited

/-- a `conditionalSubjectHandler` around an authorizer, contextualizer or finalizer -/
structure Handler where
  id : String
  cond : Cond
  out : StepOut
  /-- `ContinueOnError()` -/
  continueOnError : Bool
deriving DecidableEq, Repr, Inhabited

/-- What the `to` template of a redirect error handler does for the request at hand.  The template may read whatever
the client sent (`{{ .Request.Header "X-Login-Url" }}`, query parameters, parts of the URL), so this is an outcome
for the request, like the outcome of a mechanism: `template.Render` returns an error (`{{ fail … }}`, a missing
function argument, …), or it returns a string — *any* string: a URL, the empty string (header absent), blanks, several
lines (multi-line templates, a decoded `%0A` of a query parameter), something no URL parser accepts. -/
inductive Rendered where
  | fails
  | value (s : String)
deriving DecidableEq, Repr, Inhabited

inductive EHKind where
  /-- `default_error_handler.go` -/
  | default
  /-- `redirect_error_handler.go`: `to` = what the `to` template renders to for this request; `code` as configured
  (0 = not set) -/
  | redirect (to : Rendered) (code : Nat)
  /-- `www_authenticate_error_handler.go` -/
  | wwwAuthenticate
deriving DecidableEq, Repr, Inhabited

/-- a `conditionalErrorHandler` around one of the three real error handlers -/
structure ErrorHandler where
  cond : Cond
  kind : EHKind
deriving DecidableEq, Repr, Inhabited

/-- `x.IfThenElse(conf.Code != 0, conf.Code, http.StatusFound)` -/
def redirectCode (code : Nat) : Nat := if code = 0 then 302 else code

/-- a loaded rule (`ruleImpl`): the rule factory guarantees at least one authenticator -/
structure Rule where
  auth : Authenticator
  auths : List Authenticator
  /-- authorizers and contextualizers (`ruleImpl.sh`) -/
  handlers : List Handler
  /-- finalizers (`ruleImpl.fi`) -/
  finalizers : List Handler
  errorHandlers : List ErrorHandler
  /-- `ruleImpl.backend != nil` (`forward_to` present) -/
  hasBackend : Bool
deriving DecidableEq, Repr, Inhabited

def Rule.authenticators (r : Rule) : List Authenticator := r.auth :: r.auths

/-- the request context as far as this property is concerned: the pipeline error recorded by an error handler
(`RequestContext.err`) and, for the correspondence check only, the ids of the executed mechanisms -/
structure Ctx where
  pipelineErr : Option Err := none
  trace : List String := []
deriving DecidableEq, Repr, Inhabited

def Ctx.visit (c : Ctx) (id : String) : Ctx := { c with trace := c.trace ++ [id] }
def Ctx.setPipelineError (c : Ctx) (e : Err) : Ctx := { c with pipelineErr := some e }

/-- a Go call that either returns or panics; the context travels with both -/
inductive Run (α : Type) where
  | done (a : α) (c : Ctx)
  | panic (v : List Kind) (c : Ctx)
deriving Repr

/-- `compositeSubjectCreator.Execute` on the non-empty list `a :: rest`: the first subject wins; an error lets the
next authenticator try only if it is an argument error or the authenticator allows fallback (`idx < len(ca)` is
always true); after the last one the last error is returned. -/
def createSubject : Authenticator → List Authenticator → Ctx → Run (Except Err String)
  | a, rest, c =>
    let c := c.visit a.id
    match a.out with
    | .ok s => .done (.ok s) c
    | .panic v => .panic v c
    | .err ks =>
      if ks.contains .argument || a.fallback then
        match rest with
        | [] => .done (.error (.ofKinds ks)) c
        | b :: bs => createSubject b bs c
      else .done (.error (.ofKinds ks)) c

/-- `conditionalSubjectHandler.Execute`: `(false, err)` from the condition is returned as is (a foreign error),
`(false, nil)` skips the mechanism, `(true, nil)` runs it; `none` = `nil` -/
def Handler.execute (h : Handler) (s : String) (c : Ctx) : Run (Option Err) :=
  match h.cond.onSubject s with
  | .fails => .done (some .foreign) c
  | .no => .done none c
  | .yes =>
    match h.out with
    | .ok => .done none (c.visit h.id)
    | .err ks => .done (some (.ofKinds ks)) (c.visit h.id)
    | .panic v => .panic v (c.visit h.id)

/-- `compositeSubjectHandler.Execute`: the first error of a step that is not marked continue-on-error ends the
stage -/
def runHandlers : List Handler → String → Ctx → Run (Option Err)
  | [], _, c => .done none c
  | h :: hs, s, c =>
    match h.execute s c with
    | .panic v c => .panic v c
    | .done none c => runHandlers hs s c
    | .done (some e) c => if h.continueOnError then runHandlers hs s c else .done (some e) c

/-- `Execute` of the three real error handlers: returned error and context.  The redirect handler does not look at
the rendered value: whatever string came out of the template — empty, blank, several lines, not a URL — becomes the
`RedirectTo` of a `RedirectError` that is recorded as pipeline error (the error translators put it into the
`Location` header as it is); only a rendering *error* makes the handler fail, with `ErrInternal` and nothing
recorded. -/
def EHKind.run : EHKind → Err → Ctx → Option Err × Ctx
  | .default, cause, c => (none, c.setPipelineError cause)
  | .redirect (.value _) code, _, c => (none, c.setPipelineError ⟨[], some (redirectCode code)⟩)
  | .redirect .fails _, _, c => (some (.ofKind .internal), c)
  | .wwwAuthenticate, _, c => (none, c.setPipelineError (.ofKind .authentication))

/-- `compositeErrorHandler.Execute` over `conditionalErrorHandler`s: the first applicable handler decides; a
condition that cannot be evaluated or a failing handler returns that error; with no applicable handler the
original error is returned. -/
def runErrorHandlers : List ErrorHandler → Err → Ctx → Option Err × Ctx
  | [], cause, c => (some cause, c)
  | h :: hs, cause, c =>
    match h.cond.onError cause with
    | .fails => (some .foreign, c)
    | .no => runErrorHandlers hs cause c
    | .yes => h.kind.run cause c

/-- what `ruleImpl.Execute` returns: `(rule.Backend, error)`; `backend = false` is the nil backend -/
structure ExecOut where
  backend : Bool
  err : Option Err
deriving DecidableEq, Repr, Inhabited

def Rule.onError (r : Rule) (e : Err) (c : Ctx) : Run ExecOut :=
  let (x, c') := runErrorHandlers r.errorHandlers e c
  .done ⟨false, x⟩ c'

/-- `ruleImpl.Execute`: authenticators, then authorizers/contextualizers, then finalizers; the first failing stage
hands its error to the error pipeline and the result of *that* is returned with a nil backend. -/
def Rule.execute (r : Rule) (c : Ctx) : Run ExecOut :=
  match createSubject r.auth r.auths c with
  | .panic v c => .panic v c
  | .done (.error e) c => r.onError e c
  | .done (.ok s) c =>
    match runHandlers r.handlers s c with
    | .panic v c => .panic v c
    | .done (some e) c => r.onError e c
    | .done none c =>
      match runHandlers r.finalizers s c with
      | .panic v c => .panic v c
      | .done (some e) c => r.onError e c
      | .done none c => .done ⟨r.hasBackend, none⟩ c

/-! ## Loading: which pipelines a rule ends up with (`rule_factory_impl.go`) -/

/-- a rule (or the default rule) as written in the configuration -/
structure RuleDoc where
  auth : List Authenticator
  handlers : List Handler
  finalizers : List Handler
  errorHandlers : List ErrorHandler
  hasBackend : Bool
deriving DecidableEq, Repr, Inhabited

inductive Mode where
  | decision | proxy
deriving DecidableEq, Repr, Inhabited

def mkRule (auth : List Authenticator) (hs fs : List Handler) (ehs : List ErrorHandler) (backend : Bool) :
    Option Rule :=
  match auth with
  | [] => none
  | a :: as => some ⟨a, as, hs, fs, ehs, backend⟩

/-- `initWithDefaultRule`: a default rule needs an authenticator; it never has a backend -/
def loadDefault (d : RuleDoc) : Option Rule := mkRule d.auth d.handlers d.finalizers d.errorHandlers false

def orElse {α : Type} (own dflt : List α) : List α := if own.isEmpty then dflt else own

/-- `CreateRule` (after the rule-set validation `execute: gt=0`): proxy mode requires `forward_to`; every empty
stage is inherited from the default rule, if there is one; a rule without authenticator is rejected. -/
def loadRule (mode : Mode) (dflt : Option Rule) (d : RuleDoc) : Option Rule :=
  if d.auth.isEmpty && d.handlers.isEmpty && d.finalizers.isEmpty then none
  else if mode = .proxy && !d.hasBackend then none
  else match dflt with
    | none => mkRule d.auth d.handlers d.finalizers d.errorHandlers d.hasBackend
    | some dr =>
      mkRule (orElse d.auth dr.authenticators) (orElse d.handlers dr.handlers) (orElse d.finalizers dr.finalizers)
        (orElse d.errorHandlers dr.errorHandlers) d.hasBackend

/-- the repository as seen by one request: the rule whose route matches the request (if any) and the default rule -/
structure Repo where
  rule : Option Rule
  dflt : Option Rule
deriving DecidableEq, Repr, Inhabited

/-- configuration + rule set → repository; `none` = rejected at load time -/
def load (mode : Mode) (dflt rule : Option RuleDoc) : Option Repo :=
  match dflt with
  | none =>
    match rule with
    | none => some ⟨none, none⟩
    | some d => (loadRule mode none d).map fun r => ⟨some r, none⟩
  | some dd =>
    match loadDefault dd with
    | none => none
    | some dr =>
      match rule with
      | none => some ⟨none, some dr⟩
      | some d => (loadRule mode (some dr) d).map fun r => ⟨some r, some dr⟩

/-- `repository.FindRule`: the matching rule, else the default rule, else "no rule found" -/
def Repo.find (repo : Repo) (routeMatches : Bool) : Option Rule :=
  if routeMatches then
    match repo.rule with
    | some r => some r
    | none => repo.dflt
  else repo.dflt

end Heimdall.Pipeline
