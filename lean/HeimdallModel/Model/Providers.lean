/-!
# Rule providers (`internal/rules/provider/{filesystem,httpendpoint,cloudblob,kubernetes}`) and the rule-set processor

What a provider does with one notification / poll result: which of `OnCreated` / `OnUpdated` / `OnDeleted` it calls
on the rule-set processor, and how it updates the content hash it remembers per source (`Provider.states`,
`BucketState`).  Sources are values of an arbitrary type `σ` with decidable equality (file names, endpoint URLs, blob
ids, (object key, uid) pairs).  A content *is* its digest (`Hash`; SHA-256 / MD5 are assumed collision free); `0` stands
for an empty or absent digest.

The processor (`ruleSetProcessor` + repository, C06) is modelled by what the providers can observe of it: it accepts
or rejects a call, and an accepted call changes the list of loaded rule sets (`Active.apply`: `AddRuleSet` appends,
`UpdateRuleSet` replaces all rules of the source, `DeleteRuleSet` removes them; a rejected call changes nothing,
`c06_atomic_reject`).  Which calls are rejected is an input (`rej`).

Behaviour modelled here is the one of `/repo` **with the patches `fixes/C18-*.patch` applied** (see design/C18.md).
-/
namespace Heimdall.Prov

abbrev Hash := Nat

inductive Call (σ : Type) where
  | created (s : σ) (h : Hash)
  | updated (s : σ) (h : Hash)
  | deleted (s : σ)
deriving DecidableEq, Repr

def Call.src {σ} : Call σ → σ
  | .created s _ => s
  | .updated s _ => s
  | .deleted s => s

variable {σ : Type} [DecidableEq σ]

/-- rule sets loaded in the repository, in the order of `knownRules` -/
abbrev Active (σ : Type) := List (σ × Hash)

def without (l : List (σ × Hash)) (s : σ) : List (σ × Hash) := l.filter (fun p => !decide (p.1 = s))

/-- effect of an accepted processor call on the repository -/
def Active.apply (a : Active σ) : Call σ → Active σ
  | .created s h => a ++ [(s, h)]
  | .updated s h => without a s ++ [(s, h)]
  | .deleted s => without a s

/-- the rule sets loaded for source `s` (more than one only after a duplicated `OnCreated`) -/
def loaded (a : Active σ) (s : σ) : List Hash := (a.filter (fun p => p.1 = s)).map (·.2)

/-- `Provider.states` / `BucketState`: digest of the content last applied, per source -/
abbrev Book (σ : Type) := List (σ × Hash)

def Book.get (b : Book σ) (s : σ) : Option Hash := (b.find? (fun p => p.1 = s)).map (·.2)
def Book.put (b : Book σ) (s : σ) (h : Hash) : Book σ := without b s ++ [(s, h)]
def Book.del (b : Book σ) (s : σ) : Book σ := without b s
def Book.keys (b : Book σ) : List σ := b.map (·.1)

structure St (σ : Type) where
  book   : Book σ
  active : Active σ
deriving Repr

def St.init : St σ := ⟨[], []⟩

/-- one processor call with its answer -/
abbrev Trace (σ : Type) := List (Call σ × Bool)

/-- state after a step, the processor calls made (with `true` = accepted) and whether the step reported an error -/
structure Out (σ : Type) where
  st    : St σ
  calls : Trace σ
  err   : Bool

def Out.quiet (st : St σ) : Out σ := ⟨st, [], false⟩
def Out.failed (st : St σ) : Out σ := ⟨st, [], true⟩

/-- call the processor; only if it accepts, the repository changes and the book is updated by `upd` -/
def emit (rej : List σ) (st : St σ) (c : Call σ) (upd : Book σ → Book σ) : Out σ :=
  if rej.contains c.src then ⟨st, [(c, false)], true⟩
  else ⟨⟨upd st.book, st.active.apply c⟩, [(c, true)], false⟩

/-! ## file_system (`ruleSetsChanged`, `ruleSetCreatedOrUpdated`, `ruleSetDeleted`) -/

/-- what `loadRuleSet` finds when it opens the file named in the notification -/
inductive FileState where
  | missing                 -- `os.ErrNotExist`
  | empty                   -- `ErrEmptyRuleSet` (no YAML document)
  | invalid                 -- unreadable, not parseable, or fails validation
  | valid (h : Hash)
deriving DecidableEq, Repr

inductive FsOp where
  | create | write | chmod | remove | rename
deriving DecidableEq, Repr

structure FsEvent (σ : Type) where
  ops  : List FsOp          -- fsnotify.Op is a bit set
  name : σ
  file : FileState
  rej  : List σ
deriving Repr

def fsDeleted (rej : List σ) (st : St σ) (name : σ) : Out σ :=
  match st.book.get name with
  | none => .quiet st
  | some _ => emit rej st (.deleted name) (·.del name)

def fsCreatedOrUpdated (rej : List σ) (st : St σ) (name : σ) : FileState → Out σ
  | .valid h =>
    match st.book.get name with
    | none => emit rej st (.created name h) (·.put name h)
    | some h' =>
      if h' = 0 then emit rej st (.created name h) (·.put name h)          -- `len(hash) == 0`
      else if h' ≠ h then emit rej st (.updated name h) (·.put name h)
      else .quiet st
  | .empty => fsDeleted rej st name
  | .missing => fsDeleted rej st name
  | .invalid => .failed st

def fsStep (st : St σ) (e : FsEvent σ) : Out σ :=
  if e.ops.contains .create || e.ops.contains .write || e.ops.contains .chmod then
    fsCreatedOrUpdated e.rej st e.name e.file
  else if e.ops.contains .remove || e.ops.contains .rename then
    fsDeleted e.rej st e.name
  else .quiet st

/-- `loadInitialRuleSet`: the files of the directory in `os.ReadDir` order; the first failure aborts `Start` -/
def fsInit (rej : List σ) (st : St σ) : List (σ × FileState) → Out σ
  | [] => .quiet st
  | (n, f) :: rest =>
    let o := fsCreatedOrUpdated rej st n f
    if o.err then o
    else
      let o' := fsInit rej o.st rest
      ⟨o'.st, o.calls ++ o'.calls, o'.err⟩

/-- kind of an entry of the configured directory as `os.ReadDir` reports it (symbolic links are not followed there) -/
inductive EntryKind where
  | regular | symlink | directory
deriving DecidableEq, Repr

/-- `sources()`: every entry of the configured directory but the sub directories.  A symbolic link is an entry of its
own kind whatever it points to; it is followed when the file is opened, so its `FileState` is the one of its target
(`missing` if it dangles, `invalid` if it points to a directory) -/
def fsSources (entries : List (σ × EntryKind × FileState)) : List (σ × FileState) :=
  entries.filterMap fun (n, k, f) => if k = .directory then none else some (n, f)

/-- `Start`: initial load of everything `sources()` returns -/
def fsStart (rej : List σ) (entries : List (σ × EntryKind × FileState)) : Out σ :=
  fsInit rej St.init (fsSources entries)

/-! ### rule files replaced while `Start` is loading them

`Start` runs on one goroutine: `sources()` lists the directory, then every listed file is opened and handed to
`ruleSetCreatedOrUpdated` in turn; only after the last one the watch is registered and the `watchFiles` goroutine is
started.  While the load is inside a processor call (creating the rules of a big rule set takes time) files may be
replaced.  Nobody else handles them at that time: a file the load has opened already keeps the version that was read
(until its next notification), a file opened later is read in its new state, a file that is not in the listing is not
opened at all.  In particular no second `ruleSetCreatedOrUpdated` runs next to the one of the initial load. -/

/-- the last state the changes `chg` (in the order they happen) leave file `n` in, if they touch it -/
def fsLatest (chg : List (σ × FileState)) (n : σ) : Option FileState :=
  (chg.reverse.find? fun p => p.1 = n).map (·.2)

/-- what the initial load gets to read when the files `chg` are replaced while it is inside the processor call for its
`held`-th source (counted from 0): the sources up to that one as they were, the later ones in their new state -/
def fsReadDuring (srcs : List (σ × FileState)) (held : Nat) (chg : List (σ × FileState)) : List (σ × FileState) :=
  srcs.take (held + 1) ++ (srcs.drop (held + 1)).map fun p => (p.1, (fsLatest chg p.1).getD p.2)

/-- the source whose processor call is the first one of the initial load: the first file holding a rule set, provided
the load gets that far (`none`: `Start` makes no call at all) -/
def fsFirstCall : List (σ × FileState) → Nat → Option Nat
  | [], _ => none
  | (_, .valid _) :: _, i => some i
  | (_, .invalid) :: _, _ => none
  | _ :: rest, i => fsFirstCall rest (i + 1)

/-- `Start` while the files `chg` are replaced during the processor call for the `held`-th source -/
def fsStartDuring (rej : List σ) (entries : List (σ × EntryKind × FileState)) (held : Nat)
    (chg : List (σ × FileState)) : Out σ :=
  fsInit rej St.init (fsReadDuring (fsSources entries) held chg)

/-! ## http_endpoint (`watchChanges`, `ruleSetsUpdated`) -/

inductive HttpOutcome where
  | valid (h : Hash)        -- 200, known content type, parseable
  | empty                   -- 200 with an empty body / empty document
  | invalid                 -- 200 but not parseable, invalid, or unsupported content type
  | truncated (h : Hash)      -- 200 announcing content `h` of which only a proper prefix arrives (connection lost
                            -- mid-body, aborted chunked transfer): reading fails inside the decoder, `ErrInternal`
  | status (code : Nat)     -- any status but 200 (`ErrCommunication`)
  | network                 -- no response (`ErrCommunication` / `ErrCommunicationTimeout`)
  | cancelled               -- `context.Canceled`
deriving DecidableEq, Repr

structure HttpEvent (σ : Type) where
  id      : σ
  outcome : HttpOutcome
  rej     : List σ
deriving Repr

/-- An answer that arrived but is not complete is *content* that cannot be used, not the absence of the source: the
response is there (status 200, headers) and what follows is not a rule set.  Of every 200 answer the code under test
takes whatever the decoder makes of the bytes that arrive; a body that ends before its announced end makes the decoder
fail whatever the bytes received so far look like (also where they would be a complete document by themselves) -/
def HttpOutcome.incomplete : HttpOutcome → Bool
  | .truncated _ => true
  | _ => false

/-- `ruleSetsUpdated`; `rs = none` is the rule set without rules built after a failed fetch -/
def httpUpdated (rej : List σ) (st : St σ) (id : σ) (rs : Option Hash) : Out σ :=
  match st.book.get id, rs with
  | some _, none => emit rej st (.deleted id) (·.del id)
  | some h', some h => if h' ≠ h then emit rej st (.updated id h) (·.put id h) else .quiet st
  | none, some h => emit rej st (.created id h) (·.put id h)
  | none, none => .quiet st

def httpStep (st : St σ) (e : HttpEvent σ) : Out σ :=
  match e.outcome with
  | .cancelled => .quiet st
  | .invalid => .failed st
  | .truncated _ => .failed st       -- decoding error, not a communication error: nothing is called, nothing forgotten
  | .valid h => httpUpdated e.rej st e.id (some h)
  | .empty => httpUpdated e.rej st e.id none
  | .status _ => httpUpdated e.rej st e.id none
  | .network => httpUpdated e.rej st e.id none

/-! ## cloud_blob (`watchChanges`, `ruleSetsUpdated`, `FetchRuleSets`) -/

inductive BlobState where
  | valid (h : Hash)
  | empty
  | invalid
  | truncated (h : Hash)      -- the blob holds content `h`, attributes and listing are fine, but the GET of the object
                            -- breaks off mid-body: the decoder fails on the read error, the blob counts as unusable
deriving DecidableEq, Repr

def BlobState.incomplete : BlobState → Bool
  | .truncated _ => true
  | _ => false

/-- result of one poll of a bucket -/
inductive BlobFetch (σ : Type) where
  | cancelled
  | comm                                        -- `ErrCommunication(Timeout)`: no rule sets, poll goes on
  | internal                                    -- bucket cannot be opened / listed: poll aborted
  | listing (items : List (σ × BlobState))      -- blobs under the prefix, in listing order
  | single (id : σ) (blob : Option BlobState)   -- url names one blob; `none` = it does not exist
deriving Repr

/-- one poll of one configured bucket.  The provider keeps one `BucketState` per bucket id and the id is part of the
source of every rule set loaded from the bucket: `bucket` tells which sources belong to the polled bucket -/
structure BlobEvent (σ : Type) where
  bucket : σ → Bool
  fetch  : BlobFetch σ
  rej    : List σ

/-- `FetchRuleSets`: the rule sets handed to `ruleSetsUpdated`; `(id, none)` stands for a blob that exists but cannot be
used (its rule set, if loaded, is neither removed nor replaced).  `none` = nothing usable at all, poll aborted. -/
def blobRuleSets : BlobFetch σ → Option (List (σ × Option Hash))
  | .cancelled => none
  | .internal => none
  | .comm => some []
  | .listing items => some (items.filterMap fun (id, b) =>
      match b with
      | .valid h => some (id, some h)
      | .empty => none
      | .invalid => some (id, none)
      | .truncated _ => some (id, none))
  | .single id (some (.valid h)) => some [(id, some h)]
  | .single _ (some .empty) => some []
  | .single _ (some .invalid) => none
  | .single _ (some (.truncated _)) => none
  | .single _ none => some []

def seqOut (o : Out σ) (f : St σ → Out σ) : Out σ :=
  let o' := f o.st
  ⟨o'.st, o.calls ++ o'.calls, o.err || o'.err⟩

/-- first loop of `ruleSetsUpdated`: rule sets known but no longer present are removed -/
def blobRemove (rej : List σ) (st : St σ) (current : List σ) : List σ → Out σ
  | [] => .quiet st
  | id :: rest =>
    if current.contains id then blobRemove rej st current rest
    else seqOut (emit rej st (.deleted id) (·.del id)) (fun st' => blobRemove rej st' current rest)

/-- second loop: `old` are the ids known when the poll started (`newIDs = currentIDs \ oldIDs`) -/
def blobApply (rej : List σ) (old : List σ) (st : St σ) : List (σ × Option Hash) → Out σ
  | [] => .quiet st
  | (_, none) :: rest => blobApply rej old st rest
  | (id, some h) :: rest =>
    let o :=
      if !old.contains id then emit rej st (.created id h) (·.put id h)
      else if st.book.get id ≠ some h then emit rej st (.updated id h) (·.put id h)
      else .quiet st
    seqOut o (fun st' => blobApply rej old st' rest)

def blobStep (st : St σ) (e : BlobEvent σ) : Out σ :=
  match blobRuleSets e.fetch with
  | none => match e.fetch with
    | .cancelled => .quiet st
    | _ => .failed st
  | some rss =>
    -- `getBucketState`: what is remembered for this bucket; other buckets are not looked at
    let old := st.book.keys.filter e.bucket
    if rss.isEmpty && old.isEmpty then .quiet st
    else
      seqOut (blobRemove e.rej st (rss.map (·.1)) old) (fun st' => blobApply e.rej old st' rss)

/-! ## kubernetes (informer + `filter`, `addRuleSet`, `updateRuleSet`, `deleteRuleSet`) -/

/-- a `RuleSet` resource as far as the provider looks at it; the rule-set source is (key, uid) -/
structure KObj (κ : Type) where
  key : κ          -- namespace/name
  uid : Nat
  gen : Nat        -- metadata.generation
  cls : Bool       -- spec.authClassName is the one of this instance
  h   : Hash       -- spec.rules
deriving DecidableEq, Repr

def KObj.src {κ} (o : KObj κ) : κ × Nat := (o.key, o.uid)

inductive KEvent (κ : Type) where
  | added (o : KObj κ)
  | modified (o : KObj κ)
  | deleted (o : KObj κ)
  | relist (os : List (KObj κ))      -- the watch broke; the next list shows what exists now
deriving Repr

structure KSt (κ : Type) where
  store  : List (KObj κ)             -- the informer's cache, one object per key
  active : Active (κ × Nat)
deriving Repr

structure KOut (κ : Type) where
  st    : KSt κ
  calls : Trace (κ × Nat)

variable {κ : Type} [DecidableEq κ]

/-- k8s calls never touch a book -/
def kEmit (rej : List κ) (a : Active (κ × Nat)) (c : Call (κ × Nat)) : Active (κ × Nat) × Trace (κ × Nat) :=
  if rej.contains c.src.1 then (a, [(c, false)]) else (a.apply c, [(c, true)])

def kSeq (x : Active (κ × Nat) × Trace (κ × Nat)) (f : Active (κ × Nat) → Active (κ × Nat) × Trace (κ × Nat)) :
    Active (κ × Nat) × Trace (κ × Nat) :=
  let y := f x.1
  (y.1, x.2 ++ y.2)

def kOnAdd (rej : List κ) (a : Active (κ × Nat)) (o : KObj κ) :=
  if o.cls then kEmit rej a (.created o.src o.h) else (a, [])

def kOnDelete (rej : List κ) (a : Active (κ × Nat)) (o : KObj κ) :=
  if o.cls then kEmit rej a (.deleted o.src) else (a, [])

/-- `FilteringResourceEventHandler.OnUpdate` around `updateRuleSet` -/
def kOnUpdate (rej : List κ) (a : Active (κ × Nat)) (old new : KObj κ) :=
  match new.cls, old.cls with
  | true, true =>
    if old.uid ≠ new.uid then
      kSeq (kEmit rej a (.deleted old.src)) (fun a' => kEmit rej a' (.created new.src new.h))
    else if old.gen = new.gen then (a, [])
    else kEmit rej a (.updated new.src new.h)
  | true, false => kEmit rej a (.created new.src new.h)
  | false, true => kEmit rej a (.deleted old.src)
  | false, false => (a, [])

def kFind (store : List (KObj κ)) (k : κ) : Option (KObj κ) := store.find? (fun o => o.key = k)
def kDrop (store : List (KObj κ)) (k : κ) : List (KObj κ) := store.filter (fun o => !decide (o.key = k))
def kPut (store : List (KObj κ)) (o : KObj κ) : List (KObj κ) := kDrop store o.key ++ [o]

/-- what the informer does with one object: `processDeltas` for an Added/Updated/Replaced delta (`upsert`) or for a
Deleted delta carrying the last state the watch or the cache knows (`remove`) -/
inductive KPrim (κ : Type) where
  | upsert (o : KObj κ)
  | remove (o : KObj κ)
deriving Repr

def kPrim (rej : List κ) (st : KSt κ) : KPrim κ → KOut κ
  | .upsert o =>
    match kFind st.store o.key with
    | some old => let r := kOnUpdate rej st.active old o; ⟨⟨kPut st.store o, r.1⟩, r.2⟩
    | none => let r := kOnAdd rej st.active o; ⟨⟨kPut st.store o, r.1⟩, r.2⟩
  | .remove o =>
    match kFind st.store o.key with
    | none => ⟨st, []⟩
    | some _ => let r := kOnDelete rej st.active o; ⟨⟨kDrop st.store o.key, r.1⟩, r.2⟩

/-- the deltas a notification is turned into; after a broken watch the new list is replayed and every cached object it
does not contain is deleted with its cached state (`DeletedFinalStateUnknown`) -/
def kPrims (st : KSt κ) : KEvent κ → List (KPrim κ)
  | .added o => [.upsert o]
  | .modified o => [.upsert o]
  | .deleted o => [.remove o]
  | .relist os =>
    os.map .upsert ++ (st.store.filter (fun o => !(os.map (·.key)).contains o.key)).map .remove

def kFold (rej : List κ) (st : KSt κ) : List (KPrim κ) → KOut κ
  | [] => ⟨st, []⟩
  | p :: rest => let x := kPrim rej st p; let y := kFold rej x.st rest; ⟨y.st, x.calls ++ y.calls⟩

def kStep (rej : List κ) (st : KSt κ) (e : KEvent κ) : KOut κ := kFold rej st (kPrims st e)

/-! ## histories -/

def run (step : St σ → ε → Out σ) (st : St σ) : List ε → St σ
  | [] => st
  | e :: es => run step (step st e).st es

def kRun (st : KSt κ) : List (List κ × KEvent κ) → KSt κ
  | [] => st
  | (rej, e) :: es => kRun (kStep rej st e).st es

end Heimdall.Prov
