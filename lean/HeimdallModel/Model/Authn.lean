/-!
# Authentication with fallback (property C04): what the authenticators and their composite do

Model of `internal/rules/composite_subject_creator.go`, of the six authenticators of
`internal/rules/mechanisms/authenticators` (`anonymous`, `unauthorized`, `basic_auth`, `jwt`,
`oauth2_introspection`, `generic`) and of the extractors of `…/authenticators/extractors`.

* `Err`, `Err.is` — error values as `errorchain` builds them and `errors.Is` against a heimdall sentinel.
* `Req`, `Strategy.get`, `extract` — where authentication data is looked for in a request and which error the
  extractors report (string level: header scheme prefix, trimming, first query / cookie value, body parameter shapes).
  `decoderFor`, `Payload`, `Req.body` — which decoder reads the body (`contenttype.NewDecoder`: what the `Content-Type`
  *contains*) and what the extractors see of it.
* `TokenAnswer`, `EndpointAuth`, `authenticationFailed` — the endpoint's own authentication (`auth:` of an endpoint):
  the error `Endpoint.CreateRequest` reports when heimdall cannot authenticate its request to the endpoint.
* `Shape`, `BasicSite` / `JwtSite` / `IntroSite` / `GenSite` — the error values the authenticators construct (the
  vocabulary of the verdicts); `Gen/AuthnSites.lean` is regenerated from the source on every run: what `Execute`
  constructs is compared exactly, what the rest of each file constructs must be free of argument errors.
* `World` — what lies outside heimdall: which strings are JWS compact serialisations, what the verification of a
  parsed token / the introspection endpoint / the identity endpoint says about a credential, what a Basic value
  decodes to. A finite table with "unknown ⇒ rejected" defaults, so that every hypothesis about it is decidable.
* `Authn.execute` — the decision ladder of each authenticator type; `Authn.fallback` — `IsFallbackOnErrorAllowed()`.
* `composite`, `consulted` — the loop of `compositeSubjectCreator.Execute`.

Core Lean only (the driver executable links this file). Everything lives in `Heimdall.Authn`.
-/
namespace Heimdall.Authn

/-! ## error values -/

/-- the sentinel errors of `internal/heimdall/errors.go` -/
inductive Kind where
  | argument | authentication | authorization | communication | timeout | configuration | internal | noRule
deriving DecidableEq, Repr, Inhabited

def Kind.all : List Kind :=
  [.argument, .authentication, .authorization, .communication, .timeout, .configuration, .internal, .noRule]

/-- error values as the authenticators build them -/
inductive Err where
  /-- one of the sentinels `heimdall.ErrXxx` -/
  | kind (k : Kind)
  /-- an error of a library (go-jose, base64, net/http, `oauth2.ErrAssertion`, …): never `Is` a heimdall sentinel -/
  | foreign
  /-- `errorchain.New(e₀).CausedBy(e₁)…`: `Is` looks at the head element, `Unwrap` yields the rest -/
  | chain (es : List Err)
deriving Repr, Inhabited

mutual
  /-- `errors.Is(e, sentinel k)` -/
  def Err.is : Err → Kind → Bool
    | .kind k', k => k' == k
    | .foreign, _ => false
    | .chain es, k => Err.isAny es k
  def Err.isAny : List Err → Kind → Bool
    | [], _ => false
    | e :: es, k => e.is k || Err.isAny es k
end

/-- the sentinels an error value matches (what the correspondence check observes of an error) -/
def Err.kinds (e : Err) : List Kind := Kind.all.filter e.is

mutual
  def Err.decEq : (a b : Err) → Decidable (a = b)
    | .kind k, .kind k' => if h : k = k' then isTrue (by rw [h]) else isFalse (by intro h'; cases h'; exact h rfl)
    | .foreign, .foreign => isTrue rfl
    | .chain es, .chain es' =>
      match Err.decEqList es es' with
      | isTrue h => isTrue (by rw [h])
      | isFalse h => isFalse (by intro h'; cases h'; exact h rfl)
    | .kind _, .foreign => isFalse (by intro h; cases h)
    | .kind _, .chain _ => isFalse (by intro h; cases h)
    | .foreign, .kind _ => isFalse (by intro h; cases h)
    | .foreign, .chain _ => isFalse (by intro h; cases h)
    | .chain _, .kind _ => isFalse (by intro h; cases h)
    | .chain _, .foreign => isFalse (by intro h; cases h)
  def Err.decEqList : (as bs : List Err) → Decidable (as = bs)
    | [], [] => isTrue rfl
    | [], _ :: _ => isFalse (by intro h; cases h)
    | _ :: _, [] => isFalse (by intro h; cases h)
    | a :: as, b :: bs =>
      match Err.decEq a b, Err.decEqList as bs with
      | isTrue h, isTrue h' => isTrue (by rw [h, h'])
      | isFalse h, _ => isFalse (by intro h'; cases h'; exact h rfl)
      | _, isFalse h => isFalse (by intro h'; cases h'; exact h rfl)
end

instance : DecidableEq Err := Err.decEq

instance : DecidableEq (Except Err String) := fun a b =>
  match a, b with
  | .ok x, .ok y => if h : x = y then isTrue (by rw [h]) else isFalse (by intro h'; cases h'; exact h rfl)
  | .error x, .error y => if h : x = y then isTrue (by rw [h]) else isFalse (by intro h'; cases h'; exact h rfl)
  | .ok _, .error _ => isFalse (by intro h; cases h)
  | .error _, .ok _ => isFalse (by intro h; cases h)

/-! ## text -/

/-- `strings.HasPrefix(s, p)` -/
def hasPrefix (s p : String) : Bool := p.toList.isPrefixOf s.toList

/-- `strings.TrimPrefix(s, p)` -/
def trimPrefix (s p : String) : String :=
  if hasPrefix s p then String.ofList (s.toList.drop p.toList.length) else s

/-- `unicode.IsSpace` -/
def isSpace (c : Char) : Bool :=
  c == ' ' || c == '\t' || c == '\n' || c == '\r' || c.toNat == 0x0B || c.toNat == 0x0C || c.toNat == 0x85 ||
  c.toNat == 0xA0 || c.toNat == 0x1680 || (0x2000 ≤ c.toNat && c.toNat ≤ 0x200A) || c.toNat == 0x2028 ||
  c.toNat == 0x2029 || c.toNat == 0x202F || c.toNat == 0x205F || c.toNat == 0x3000

/-- `strings.TrimSpace` -/
def trimSpace (s : String) : String :=
  String.ofList ((s.toList.dropWhile isSpace).reverse.dropWhile isSpace).reverse

/-- `httpguts.IsTokenRune` / `validHeaderFieldByte`: the characters of an HTTP token -/
def isTokenChar (c : Char) : Bool :=
  c.isAlphanum || "!#$%&'*+-.^_`|~".toList.contains c

/-- `textproto.CanonicalMIMEHeaderKey`: first letter and every letter after a `-` in upper case, the others in lower
case; a name that is no HTTP token is left as it is -/
def canonicalKey (name : String) : String :=
  let rec go (upper : Bool) : List Char → List Char
    | [] => []
    | c :: cs => (if upper then c.toUpper else c.toLower) :: go (c == '-') cs
  if name.toList.all isTokenChar then String.ofList (go true name.toList) else name

/-! ## requests -/

/-- a value of the decoded request body (`map[string]any` of the JSON / form decoder) -/
inductive BVal where
  /-- a string -/
  | str (s : String)
  /-- `[]string` (form-urlencoded bodies) -/
  | strs (l : List String)
  /-- `[]any` (JSON arrays); `none` stands for an element that is not a string -/
  | anys (l : List (Option String))
  /-- anything else (number, object, null, …) -/
  | other
deriving DecidableEq, Repr, Inhabited

/-- `Request().Body()` -/
inductive Body where
  /-- no body, no decoder for the content type, or undecodable: `Body()` is a string -/
  | none
  /-- a decoded body -/
  | map (m : List (String × BVal))
deriving DecidableEq, Repr, Inhabited

/-- the body decoders of `internal/rules/mechanisms/contenttype` -/
inductive Format where
  | json | form | yaml
deriving DecidableEq, Repr, Inhabited

/-- The octets of the request body as each of the three decoders reads them (go-json, `url.ParseQuery`, yaml.v3 into
`map[string]any`); `none`: the decoder reports an error (or there is no body). What the decoders make of the octets
lies outside heimdall; *which* of them is asked is decided by `decoderFor` on the `Content-Type` of the request. -/
structure Payload where
  json : Option (List (String × BVal)) := none
  form : Option (List (String × BVal)) := none
  yaml : Option (List (String × BVal)) := none
deriving DecidableEq, Repr, Inhabited

def Payload.readBy (p : Payload) : Format → Option (List (String × BVal))
  | .json => p.json
  | .form => p.form
  | .yaml => p.yaml

/-- `sub` occurs in `s` as a contiguous piece -/
def hasInfix : List Char → List Char → Bool
  | [], sub => sub.isEmpty
  | c :: cs, sub => sub.isPrefixOf (c :: cs) || hasInfix cs sub

/-- `strings.Contains(s, sub)` -/
def contains (s sub : String) : Bool := hasInfix s.toList sub.toList

/-- `contenttype.NewDecoder(contentType)`: the decoder is chosen by what the value of the `Content-Type` header
*contains* — `json` (so `application/json; charset=utf-8`, `application/vnd.api+json`, `application/problem+json`,
`text/json`, a list of media types one of which names JSON), else `application/x-www-form-urlencoded`, else `yaml`;
compared case-sensitively; anything else has no decoder -/
def decoderFor (contentType : String) : Option Format :=
  if contains contentType "json" then some .json
  else if contains contentType "application/x-www-form-urlencoded" then some .form
  else if contains contentType "yaml" then some .yaml
  else none

/-- what the extractors can see of a request -/
structure Req where
  /-- `req.Host` -/
  host : String := ""
  /-- header lines in order (names in any spelling; a name may occur several times), `Content-Type` among them -/
  headers : List (String × String) := []
  /-- decoded query parameters in order -/
  query : List (String × String) := []
  /-- cookies in order -/
  cookies : List (String × String) := []
  /-- the body as the decoders read it -/
  payload : Payload := {}
deriving DecidableEq, Repr, Inhabited

/-- `Request().Header(name)`: header names are compared in canonical form, `Host` is the host of the request, all
values of the header are joined by `,` -/
def Req.header (r : Req) (name : String) : String :=
  let key := canonicalKey name
  if key == "Host" then r.host
  else ",".intercalate ((r.headers.filter (fun p => canonicalKey p.1 == key)).map (·.2))

/-- `Request().Body()`: the body read by the decoder the `Content-Type` header (all its lines joined by `,`) selects;
a string — nothing an extractor can use — if there is no such decoder or it fails -/
def Req.body (r : Req) : Body :=
  match decoderFor (r.header "Content-Type") with
  | none => .none
  | some f =>
    match r.payload.readBy f with
    | none => .none
    | some m => .map m

/-- the first value stored under `name`, `""` if there is none (`url.Values.Get`, `http.Request.Cookie`) -/
def firstValue (l : List (String × String)) (name : String) : String :=
  match l.find? (fun p => p.1 == name) with
  | some p => p.2
  | none => ""

/-- where authentication data is taken from (`extractors.*ExtractStrategy`) -/
inductive Strategy where
  | header (name scheme : String)
  | query (name : String)
  | cookie (name : String)
  | body (name : String)
deriving DecidableEq, Repr, Inhabited

/-- the error every extractor reports: `errorchain.NewWithMessage(heimdall.ErrArgument, …)` -/
def argErr : Err := .chain [.kind .argument]

/-- `BodyParameterExtractStrategy.GetAuthData` on the decoded value -/
def BVal.get : BVal → Except Err String
  | .str s => .ok (trimSpace s)
  | .strs [s] => .ok (trimSpace s)
  | .strs _ => .error argErr
  | .anys [some s] => .ok (trimSpace s)
  | .anys _ => .error argErr
  | .other => .error argErr

/-- the entry of the decoded body stored under `name` -/
def Req.bodyParam (r : Req) (name : String) : Option BVal :=
  match r.body with
  | .none => none
  | .map m => (m.find? (fun p => p.1 == name)).map (·.2)

/-- `GetAuthData` of the four extractors -/
def Strategy.get : Strategy → Req → Except Err String
  | .header name scheme, r =>
    let v := r.header name
    if v = "" then .error argErr
    else if scheme ≠ "" && !hasPrefix v (scheme ++ " ") then .error argErr
    else .ok (trimSpace (trimPrefix v scheme))
  | .query name, r =>
    let v := firstValue r.query name
    if v = "" then .error argErr else .ok (trimSpace v)
  | .cookie name, r =>
    let v := firstValue r.cookies name
    if v = "" then .error argErr else .ok (trimSpace v)
  | .body name, r =>
    match r.bodyParam name with
    | none => .error argErr
    | some v => v.get

/-- the loop of `CompositeExtractStrategy.GetAuthData`: the first value found, else the collected errors -/
def extractFrom : List Strategy → Req → List Err → Except Err String
  | [], _, errs => .error (.chain errs)
  | s :: ss, r, errs =>
    match s.get r with
    | .ok v => .ok v
    | .error e => extractFrom ss r (errs ++ [e])

/-- `CompositeExtractStrategy.GetAuthData` (the Go code panics on an empty list of strategies; the model then
yields an empty chain — see `Authn.wf`) -/
def extract (ss : List Strategy) (r : Req) : Except Err String := extractFrom ss r []

/-! ## the error values the authenticators construct -/

/-- an element of an error chain in the source: a sentinel, or an error value obtained at run time -/
inductive Elem where
  | k (k : Kind)
  | dyn
deriving DecidableEq, Repr, Inhabited

/-- `errorchain.New…(e₀).CausedBy(e₁)…` as written in the source -/
abbrev Shape := List Elem

/-- the value built at run time, `cause` standing for the run-time error -/
def Shape.build (s : Shape) (cause : Err) : Err :=
  .chain (s.map fun | .k k => .kind k | .dyn => cause)

/-- no argument error is written into the expression (what a run-time cause contributes is a separate question) -/
def Shape.argFree (s : Shape) : Bool := !s.contains (.k .argument)

/-- What the extractor reports about one source file: the error chain constructor expressions, in source order,
of the *entry method* (`Execute` of an authenticator, `GetAuthData` of an extractor — where credentials are looked
for and missing ones are reported) and of the rest of the file (helpers that run after a credential was found,
constructors). -/
structure FileFacts where
  entry : List Shape
  others : List Shape
  /-- what is handed to `CausedBy` calls that are not part of such an expression -/
  loose : List Elem
deriving DecidableEq, Repr

/-- What the property needs of an authenticator's source file:
* the first error value `Execute` constructs with a run-time cause is the model's "no credentials" value (the
  extractor's error attached to an authentication error) — if the model has one for this authenticator;
* the error values of `Execute` into which an argument error is written are exactly the model's, in order
  (`jwt`: the parse failure; all others: none);
* *whatever else* `Execute` and the rest of the file construct — any number of expressions in any order, so
  argument-free guards and unrelated edits of the verification helpers do not disturb the tie — writes no argument
  error. -/
def FileFacts.authenticatorOk (f : FileFacts) (entry : List Shape) : Bool :=
  (f.entry.find? (·.contains .dyn)) == (entry.find? (·.contains .dyn)) &&
  f.entry.filter (fun s => !s.argFree) == entry.filter (fun s => !s.argFree) &&
  (entry.isEmpty || !f.entry.isEmpty) &&
  f.others.all Shape.argFree && f.loose.isEmpty

/-- What the property needs of an extractor's source file: every error it constructs is exactly the argument error
(any number of them), and there is at least one. -/
def FileFacts.extractorOk (f : FileFacts) : Bool :=
  !f.entry.isEmpty && f.entry.all (· == [.k .argument]) && f.others.isEmpty && f.loose.isEmpty

/-- What the property needs of the composite extractor's source file: the error it reports when no strategy yields a
value consists of nothing but the errors collected from the strategies (`dyn`) and argument errors — it never masks
them with another sentinel; besides that only guards that fail closed with a configuration / internal (or argument)
error and hand on no run-time error are admitted (e.g. for an empty list of strategies). -/
def FileFacts.compositeExtractorOk (f : FileFacts) : Bool :=
  let collected (e : Elem) : Bool := e == .dyn || e == .k .argument
  let guard (e : Elem) : Bool := e == .k .argument || e == .k .configuration || e == .k .internal
  f.entry.any (fun s => s.contains .dyn) &&
  f.entry.all (fun s => !s.isEmpty && (if s.contains .dyn then s.all collected else s.all guard)) &&
  f.others.isEmpty && f.loose.all collected

/-- `basic_auth_authenticator.go` -/
inductive BasicSite where
  | noHeader | decode | malformed | invalid
deriving DecidableEq, Repr, Inhabited

def BasicSite.all : List BasicSite := [.noHeader, .decode, .malformed, .invalid]

def BasicSite.shape : BasicSite → Shape
  | .noHeader => [.k .authentication, .dyn]
  | .decode => [.k .authentication]
  | .malformed => [.k .authentication]
  | .invalid => [.k .authentication]

/-- `jwt_authenticator.go` (the places where a request can fail) -/
inductive JwtSite where
  | issuersRequired | noToken | parse | nonCanonical | subject | metadataFailed | noJwksUri | claimsUnreadable | noKeyVerifies
  | keyNotFound | keyInvalid | jwksTimeout | jwksUnreachable | template | requestFailed | jwksStatus | jwksUnparsable
  | algMismatch | algNotAllowed | signature | assertion | payloadMarshal
deriving DecidableEq, Repr, Inhabited

def JwtSite.all : List JwtSite :=
  [.issuersRequired, .noToken, .parse, .nonCanonical, .subject, .metadataFailed, .noJwksUri, .claimsUnreadable, .noKeyVerifies,
   .keyNotFound, .keyInvalid, .jwksTimeout, .jwksUnreachable, .template, .requestFailed, .jwksStatus, .jwksUnparsable,
   .algMismatch, .algNotAllowed, .signature, .assertion, .payloadMarshal]

def JwtSite.shape : JwtSite → Shape
  | .issuersRequired => [.k .configuration]
  | .noToken => [.k .authentication, .dyn]
  | .parse => [.k .authentication, .k .argument, .dyn]
  | .nonCanonical => [.k .authentication, .k .argument, .dyn]
  | .subject => [.k .internal, .dyn]
  | .metadataFailed => [.k .internal, .dyn]
  | .noJwksUri => [.k .internal]
  | .claimsUnreadable => [.k .internal, .dyn]
  | .noKeyVerifies => [.k .authentication]
  | .keyNotFound => [.k .authentication]
  | .keyInvalid => [.k .authentication, .dyn]
  | .jwksTimeout => [.k .timeout, .dyn]
  | .jwksUnreachable => [.k .communication, .dyn]
  | .template => [.k .internal, .dyn]
  | .requestFailed => [.k .internal, .dyn]
  | .jwksStatus => [.k .communication]
  | .jwksUnparsable => [.k .internal, .dyn]
  | .algMismatch => [.k .authentication]
  | .algNotAllowed => [.k .authentication, .dyn]
  | .signature => [.k .authentication, .dyn]
  | .assertion => [.k .authentication, .dyn]
  | .payloadMarshal => [.k .internal, .dyn]

/-- the sites reached only after a token was found in the request and parsed. `signature` is the failure of
`token.Claims(key, …)`: the signature does not verify (an error of go-jose), *or it verifies and the payload cannot be
decoded into `oauth2.Claims`* — a date outside of the years 1..9999 or no number at all, an audience / scopes value of
a wrong JSON type (a configuration error of the claim type), a string member of another type (an error of the JSON
library). Likewise `IntroSite.unmarshal` for an introspection response and `GenSite.lifespan` for a session. These
causes are run-time errors of called packages: `World.wf` demands that they contain no argument error. -/
def JwtSite.verifies : JwtSite → Bool
  | .issuersRequired | .noToken | .parse | .nonCanonical => false
  | _ => true

/-- `oauth2_introspection_authenticator.go`; `assertion` stands for the validation of a fresh and of a cached
introspection response alike -/
inductive IntroSite where
  | issuersRequired | noToken | subject | metadataFailed | noEndpoint | assertion | template | requestFailed
  | timeout | unreachable | status | unmarshal
deriving DecidableEq, Repr, Inhabited

def IntroSite.all : List IntroSite :=
  [.issuersRequired, .noToken, .subject, .metadataFailed, .noEndpoint, .assertion, .template, .requestFailed,
   .timeout, .unreachable, .status, .unmarshal]

def IntroSite.shape : IntroSite → Shape
  | .issuersRequired => [.k .configuration]
  | .noToken => [.k .authentication, .dyn]
  | .subject => [.k .internal, .dyn]
  | .metadataFailed => [.k .internal, .dyn]
  | .noEndpoint => [.k .internal]
  | .assertion => [.k .authentication, .dyn]
  | .template => [.k .internal, .dyn]
  | .requestFailed => [.k .internal, .dyn]
  | .timeout => [.k .timeout, .dyn]
  | .unreachable => [.k .communication, .dyn]
  | .status => [.k .communication]
  | .unmarshal => [.k .internal, .dyn]

def IntroSite.verifies : IntroSite → Bool
  | .issuersRequired | .noToken => false
  | _ => true

/-- `generic_authenticator.go` -/
inductive GenSite where
  | noData | subject | lifespan | sessionAssert | timeout | unreachable | payloadRender | template | requestFailed
  | status | read
deriving DecidableEq, Repr, Inhabited

def GenSite.all : List GenSite :=
  [.noData, .subject, .lifespan, .sessionAssert, .timeout, .unreachable, .payloadRender, .template, .requestFailed,
   .status, .read]

def GenSite.shape : GenSite → Shape
  | .noData => [.k .authentication, .dyn]
  | .subject => [.k .internal, .dyn]
  | .lifespan => [.k .internal, .dyn]
  | .sessionAssert => [.k .authentication, .dyn]
  | .timeout => [.k .timeout, .dyn]
  | .unreachable => [.k .communication, .dyn]
  | .payloadRender => [.k .internal, .dyn]
  | .template => [.k .internal, .dyn]
  | .requestFailed => [.k .internal, .dyn]
  | .status => [.k .communication]
  | .read => [.k .internal, .dyn]

def GenSite.verifies : GenSite → Bool
  | .noData => false
  | _ => true

/-- `unauthorized_authenticator.go`: "denied by authenticator" -/
def unauthorizedShape : Shape := [.k .authentication]

/-- the error values `Execute` of each authenticator constructs itself, in source order (compared with
`Gen/AuthnSites.lean` on every run) -/
def Facts.basicEntry : List Shape := BasicSite.all.map (·.shape)
def Facts.jwtEntry : List Shape :=
  [JwtSite.noToken.shape, JwtSite.parse.shape, JwtSite.nonCanonical.shape, JwtSite.subject.shape]
def Facts.introspectionEntry : List Shape := [IntroSite.noToken.shape, IntroSite.subject.shape]
def Facts.genericEntry : List Shape := [GenSite.noData.shape, GenSite.subject.shape]
def Facts.unauthorizedEntry : List Shape := [unauthorizedShape]
/-- the condition under which `compositeSubjectCreator.Execute` goes on to the next authenticator -/
structure Guard where
  /-- `errors.Is(err, heimdall.ErrArgument)` is one of the alternatives -/
  onArgument : Bool
  /-- `a.IsFallbackOnErrorAllowed()` is one of the alternatives -/
  onFallbackFlag : Bool
  /-- number of further alternatives / conditions -/
  otherConditions : Nat
deriving DecidableEq, Repr

def compositeGuard : Guard := ⟨true, true, 0⟩

/-! ## what a JWT is -/

/-- the signature algorithms of `supportedAlgorithms()` (`supported_algorithms.go`) -/
inductive Alg where
  | ES256 | ES384 | ES512 | EdDSA | PS256 | PS384 | PS512 | RS256 | RS384 | RS512 | HS256 | HS384 | HS512
deriving DecidableEq, Repr, Inhabited

def supportedAlgs : List Alg :=
  [.ES256, .ES384, .ES512, .EdDSA, .PS256, .PS384, .PS512, .RS256, .RS384, .RS512, .HS256, .HS384, .HS512]

/-- the value of a character of the URL-safe base64 alphabet -/
def b64urlValue (c : Char) : Option Nat :=
  if 'A' ≤ c ∧ c ≤ 'Z' then some (c.toNat - 'A'.toNat)
  else if 'a' ≤ c ∧ c ≤ 'z' then some (c.toNat - 'a'.toNat + 26)
  else if '0' ≤ c ∧ c ≤ '9' then some (c.toNat - '0'.toNat + 52)
  else if c == '-' then some 62
  else if c == '_' then some 63
  else none

/-- `base64.RawURLEncoding.Strict().DecodeString` succeeds: URL-safe alphabet only (no padding, no line breaks), no
dangling character, and the unused bits of the last character are zero — the segment is the one and only encoding
of its octets (RFC 4648, 3.5). The lenient decoder `jwt.ParseSigned` uses accepts more (CR / LF anywhere, any
trailing bits); `assertCanonicalSerialization` then refuses exactly the difference. -/
def isB64url (s : List Char) : Bool :=
  s.all (fun c => (b64urlValue c).isSome) &&
  match s.length % 4, s.getLast? with
  | 1, _ => false
  | 2, some c => (b64urlValue c).any (· % 16 == 0)
  | 3, some c => (b64urlValue c).any (· % 4 == 0)
  | _, _ => true

/-- `strings.Split(s, ".")` -/
def splitDots : List Char → List (List Char)
  | [] => [[]]
  | c :: cs =>
    match splitDots cs with
    | [] => [[c]]
    | p :: ps => if c == '.' then [] :: p :: ps else (c :: p) :: ps

/-- the string is a canonically spelled JWS compact serialisation: three strictly base64url encoded parts separated
by dots -/
def isCompactJWS (tok : String) : Bool :=
  match splitDots tok.toList with
  | [h, p, s] => isB64url h && isB64url p && isB64url s
  | _ => false

/-! ## the endpoint's own authentication

The identity / JWKS / introspection / metadata endpoint of an authenticator may demand that heimdall authenticates
itself (`auth:` of the endpoint: `api_key`, `basic_auth`, `oauth2_client_credentials`). `Endpoint.CreateRequest` applies
the strategy after the request instance was created — i.e. *after the credential of the client was found* — and
reports its failure as "failed to authenticate request". Only `oauth2_client_credentials` can fail at request time:
it asks the authorization server for a token (`clientcredentials.Config.Token`). -/

/-- how the authorization server answers heimdall's token request (`clientcredentials.Config.fetchToken`) -/
inductive TokenAnswer where
  /-- `200` with a token (or a token found in the cache) -/
  | token
  /-- no answer: connection refused / reset -/
  | unreachable
  /-- no answer in time -/
  | timedOut
  /-- a status code other than `200` and `400` -/
  | status (code : Nat)
  /-- the body of the response cannot be read -/
  | unreadable
  /-- `400`: an error document naming the error code `error` (RFC 6749, 5.2: `invalid_request`, `invalid_client`,
  `invalid_grant`, `unauthorized_client`, `unsupported_grant_type`, `invalid_scope`, or any other string), or a body
  that is no JSON (`none`) -/
  | badRequest (error : Option String)
  /-- `200` with a body that is no JSON -/
  | undecodable
  /-- `200` with an error document -/
  | errorDocument (error : String)
deriving DecidableEq, Repr, Inhabited

/-- the error `Config.Token` returns. The error document of the authorization server (`*TokenErrorResponse`) is an
error value of its own type: it matches no heimdall sentinel, whatever code it names. -/
def TokenAnswer.failure : TokenAnswer → Option Err
  | .token => none
  | .unreachable => some (.chain [.kind .communication, .foreign])
  | .timedOut => some (.chain [.kind .timeout, .foreign])
  | .status _ => some (.chain [.kind .communication])
  | .unreadable => some (.chain [.kind .internal, .foreign])
  | .badRequest (some _) => some (.chain [.kind .communication, .foreign])
  | .badRequest none => some (.chain [.kind .communication])
  | .undecodable => some (.chain [.kind .internal, .foreign])
  | .errorDocument _ => some (.chain [.kind .communication, .foreign])

/-- `auth:` of an endpoint -/
inductive EndpointAuth where
  /-- no `auth:` -/
  | noAuth
  /-- `api_key` (header, cookie or query): cannot fail at request time -/
  | apiKey
  /-- `basic_auth`: cannot fail at request time -/
  | basicAuth
  /-- `oauth2_client_credentials`, with the answer of the authorization server to the token request -/
  | clientCredentials (answer : TokenAnswer)
deriving DecidableEq, Repr, Inhabited

/-- `AuthStrategy.Apply(ctx, req)` fails with this error -/
def EndpointAuth.failure : EndpointAuth → Option Err
  | .clientCredentials a => a.failure
  | _ => none

/-- `Endpoint.CreateRequest`: `errorchain.NewWithMessage(ErrInternal, "failed to authenticate request").CausedBy(err)` -/
def authenticationFailed (e : Err) : Err := .chain [.kind .internal, e]

/-- `MetadataEndpoint.Get`: `errorchain.NewWithMessage(ErrInternal, "failed creating oauth2 server metadata
request").CausedBy(err)` around the error of `CreateRequest` -/
def metadataRequestFailed (e : Err) : Err := .chain [.kind .internal, e]

/-! ## the world outside heimdall -/

/-- what the check of a credential that was found says -/
inductive Verdict (σ : Type) where
  /-- accepted; the subject id extracted -/
  | ok (sub : String)
  /-- the place where it fails and the run-time error handed to `CausedBy` there (if the site has one) -/
  | fail (site : σ) (cause : Err)
deriving Repr, Inhabited

/-- A finite description of everything outside heimdall that the authenticators consult. Keys of the verdict tables:
(authenticator key, credential). Anything not listed is garbage: not decodable, not a JWT, rejected. -/
structure World where
  /-- Basic credentials: the base64 text ↦ the decoded text split at `:` -/
  basic : List (String × List String) := []
  /-- the signature algorithm named by the (decodable, JSON) protected header of a string of compact JWS form;
  absent: the header is no JSON object or names no signature algorithm go-jose knows (e.g. `none`) -/
  headerAlg : List (String × Alg) := []
  jwt : List ((String × String) × Verdict JwtSite) := []
  intro : List ((String × String) × Verdict IntroSite) := []
  gen : List ((String × String) × Verdict GenSite) := []
deriving Repr, Inhabited

def lookup {β : Type} (l : List ((String × String) × β)) (id tok : String) : Option β :=
  (l.find? (fun p => p.1.1 == id && p.1.2 == tok)).map (·.2)

/-- `jwt.ParseSigned(tok, supportedAlgorithms())` and `assertCanonicalSerialization(tok)` both succeed: canonical
compact JWS form and a supported signature algorithm. (A failure of either constructs the same error value:
authentication error, argument error, cause.) -/
def World.parsesJWT (w : World) (tok : String) : Bool :=
  isCompactJWS tok &&
  match w.headerAlg.find? (fun p => p.1 == tok) with
  | some p => supportedAlgs.contains p.2
  | none => false

def World.basicDecode (w : World) (data : String) : Option (List String) :=
  (w.basic.find? (fun p => p.1 == data)).map (·.2)

def World.jwtVerdict (w : World) (id tok : String) : Verdict JwtSite :=
  (lookup w.jwt id tok).getD (.fail .signature .foreign)

def World.introVerdict (w : World) (id tok : String) : Verdict IntroSite :=
  (lookup w.intro id tok).getD (.fail .assertion .foreign)

def World.genVerdict (w : World) (id tok : String) : Verdict GenSite :=
  (lookup w.gen id tok).getD (.fail .status .foreign)

def Verdict.wf {σ : Type} (verifies : σ → Bool) : Verdict σ → Bool
  | .ok _ => true
  | .fail s c => verifies s && !c.is .argument

/-- The verdicts only name places that are reached after a credential was found, and the run-time errors handed to
`CausedBy` there (errors of go-jose, net/http, the `oauth2`, `subject`, `endpoint`, `template`, `pkix` packages)
contain no argument error — `Gen.argumentMentionsElsewhere = 0` is the extracted fact behind the latter. -/
def World.wf (w : World) : Bool :=
  w.jwt.all (fun p => p.2.wf JwtSite.verifies) && w.intro.all (fun p => p.2.wf IntroSite.verifies) &&
  w.gen.all (fun p => p.2.wf GenSite.verifies)

/-! ## the authenticators -/

inductive Typ where
  /-- `anonymous` with its configured subject (`""`: not configured) -/
  | anonymous (subject : String)
  | unauthorized
  /-- `basic_auth` with the expected user id and password -/
  | basic (user pass : String)
  /-- `jwt` with its `jwt_source` (default: Bearer header, `access_token` query and body parameter) -/
  | jwt (sources : List Strategy)
  /-- `oauth2_introspection` with its `token_source` (same default) -/
  | introspection (sources : List Strategy)
  /-- `generic` with its `authentication_data_source` -/
  | generic (sources : List Strategy)
deriving DecidableEq, Repr, Inhabited

/-- an authenticator as it stands in a rule's pipeline -/
structure Authn where
  id : String
  typ : Typ
  /-- `allow_fallback_on_error` of the mechanism definition, if it is given there -/
  allowFallback : Option Bool := none
  /-- `allow_fallback_on_error` given in the rule's step configuration, if any (`WithConfig`) -/
  override : Option Bool := none
  /-- the name under which the world knows this authenticator *as configured in this step*: the mechanism id,
  extended if the rule overrides its assertions (the check of a credential then depends on the step) -/
  key : String := id
deriving DecidableEq, Repr, Inhabited

/-- `IsFallbackOnErrorAllowed()` -/
def Authn.fallback (a : Authn) : Bool :=
  match a.typ with
  | .anonymous _ => false
  | .unauthorized => false
  | _ => a.override.getD (a.allowFallback.getD false)

/-- the default sources of the `jwt` and `oauth2_introspection` authenticators -/
def defaultSources : List Strategy :=
  [.header "Authorization" "Bearer", .query "access_token", .body "access_token"]

/-- the sources of an authenticator that looks for credentials -/
def Typ.sources : Typ → Option (List Strategy)
  | .basic _ _ => some [.header "Authorization" "Basic"]
  | .jwt ss => some ss
  | .introspection ss => some ss
  | .generic ss => some ss
  | _ => none

/-- `CompositeExtractStrategy.GetAuthData` panics on an empty list of strategies; such configurations are outside
the model -/
def Authn.wf (a : Authn) : Bool :=
  match a.typ.sources with
  | some ss => !ss.isEmpty
  | none => true

def Verdict.outcome {σ : Type} (shape : σ → Shape) : Verdict σ → Except Err String
  | .ok sub => .ok sub
  | .fail s c => .error ((shape s).build c)

/-- `basic_auth` after the header value was found: base64 decoding, splitting at `:`, comparison -/
def basicCheck (user pass : String) : Option (List String) → Except Err String
  | none => .error (BasicSite.decode.shape.build .foreign)
  | some [u, p] => if u = user && p = pass then .ok u else .error (BasicSite.invalid.shape.build .foreign)
  | some _ => .error (BasicSite.malformed.shape.build .foreign)

/-- `Execute` of the six authenticators: the subject id or the error -/
def Authn.execute (w : World) (a : Authn) (r : Req) : Except Err String :=
  match a.typ with
  | .anonymous s => .ok (if s = "" then "anonymous" else s)
  | .unauthorized => .error (unauthorizedShape.build .foreign)
  | .basic user pass =>
    match (Strategy.header "Authorization" "Basic").get r with
    | .error e => .error (BasicSite.noHeader.shape.build e)
    | .ok data => basicCheck user pass (w.basicDecode data)
  | .jwt ss =>
    match extract ss r with
    | .error e => .error (JwtSite.noToken.shape.build e)
    | .ok tok =>
      if w.parsesJWT tok then (w.jwtVerdict a.key tok).outcome JwtSite.shape
      else .error (JwtSite.parse.shape.build .foreign)
  | .introspection ss =>
    match extract ss r with
    | .error e => .error (IntroSite.noToken.shape.build e)
    | .ok tok => (w.introVerdict a.key tok).outcome IntroSite.shape
  | .generic ss =>
    match extract ss r with
    | .error e => .error (GenSite.noData.shape.build e)
    | .ok tok => (w.genVerdict a.key tok).outcome GenSite.shape

/-! ## the composite -/

/-- what `compositeSubjectCreator.Execute` returns -/
inductive Result where
  /-- `(sub, nil)` -/
  | subject (id : String)
  /-- `(nil, err)` -/
  | failure (e : Err)
  /-- `(nil, nil)`: only for an empty list of authenticators (the rule factory rejects such rules) -/
  | nothing
deriving DecidableEq, Repr, Inhabited

/-- one iteration as the loop sees it: what `Execute` returned and `IsFallbackOnErrorAllowed()` -/
structure Step where
  out : Except Err String
  fallback : Bool

/-- the `if` that decides between `continue` and `break` -/
def Step.goesOn (s : Step) : Bool :=
  match s.out with
  | .ok _ => false
  | .error e => e.is .argument || s.fallback

/-- the loop; `last` is the value of the variable `err` so far -/
def compositeFrom : List Step → Result → Result
  | [], last => last
  | s :: ss, _ =>
    match s.out with
    | .ok sub => .subject sub
    | .error e => if e.is .argument || s.fallback then compositeFrom ss (.failure e) else .failure e

/-- `compositeSubjectCreator.Execute` -/
def composite (ss : List Step) : Result := compositeFrom ss .nothing

/-- how many authenticators the loop executes (always the first `consulted ss` ones, each once, in order) -/
def consulted : List Step → Nat
  | [] => 0
  | s :: ss => if s.goesOn then consulted ss + 1 else 1

def Authn.step (w : World) (r : Req) (a : Authn) : Step := ⟨a.execute w r, a.fallback⟩

/-- the authenticators of a rule run on a request -/
def run (w : World) (r : Req) (chain : List Authn) : Result := composite (chain.map (Authn.step w r))

def runConsulted (w : World) (r : Req) (chain : List Authn) : Nat := consulted (chain.map (Authn.step w r))

end Heimdall.Authn
