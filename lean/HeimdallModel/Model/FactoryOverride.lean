import HeimdallModel.Model.Factory
/-!
# Rule-level overrides as typed values; a variant is a function of (prototype, override VALUE)  (C14)

`mechanismsFactory.Create…(id, config)` looks the prototype up and, when the step carries a `config`, hands the
decoded YAML/JSON value to `prototype.WithConfig`.  What `WithConfig` returns depends on two things only: the
prototype and the *value* of that `config` — with its types.  `"1"` and `1`, `"[a b]"` and `["a", "b"]`,
`{X-A: "1 X-B:2"}` and `{X-A: "1", X-B: "2"}` are different values although `fmt.Sprint` / `%v` print them alike
(`Val.render`): the decoders are strict (mapstructure without weak typing), so the first of each pair is a legal
string / template and the second is refused or means something else.

* `Val`                — the decoded value tree (`nil`, `bool`, `int`, `string`, `[]any`, `map[string]any`; the
                          entries of a map are kept sorted by key — Go maps have no order).
* `Val.render`         — what `fmt.Sprint` prints for it.  Not injective.
* `MType`, `Shown`     — the mechanism types of the check's catalogue and what an instance of them shows when it
                          runs (the subject it creates, whether it allows fallback, its `values`, the headers it
                          sets, its realm).
* `CelEnv`, `decExpressions` — the `expressions` of the cel and remote authorizers: a list of `{expression, message}`
                          maps whose `expression` strings must be boolean CEL expressions.  The static type of an
                          expression text comes from a table (`CelEnv`, filled by the driver with `Cel.check` of the
                          expression the text spells, `Model/FactoryCel.lean`); accepted iff that type is `bool`.
* `overlay Γ t proto v` — `WithConfig`: `none` = refused (unknown key, wrong type, unparsable duration / template,
                          a type that cannot be reconfigured), otherwise what the variant shows.  **Bug-compatible**
                          with the strict decoders and with the constructors' defaults (`subject: ""` gives
                          `anonymous`, `realm: ""` gives `Please authenticate`), with one exception named at
                          `Flds.templates` (empty entries of template maps: the model has the proposed fix).
* `Typed`              — the typed catalogue and the table of the override values in use; `Typed.create` is
                          `Create…` on values, `Typed.variant` the same through the tag that names the value in a
                          step, `Typed.catalogue` the abstract catalogue the rule factory model works with.
* `Typed.memoAll`      — a factory that remembers variants under `(kind, id, key value)`: harmless iff `key` is
                          injective (`Props/C14.lean`), wrong for `key = Val.render`.

Text is `List Char` (kernel friendly: the examples of `Props/C14.lean` are decided by evaluation); the driver
converts.  Core Lean only.
-/
namespace Heimdall.Factory

abbrev Text := List Char

open Lean in
/-- `t!"ab"` is the character list `['a', 'b']`, expanded when the file is read -/
macro:max "t!" s:str : term => do
  let cs := s.getString.toList.map fun c => Syntax.mkCharLit c
  `(([$(cs.toArray),*] : List Char))

mutual
/-- a decoded `config` value -/
inductive Val where
  | null
  | bool (b : Bool)
  | num (n : Int)
  | str (s : Text)
  | list (es : Vals)
  | obj (fs : Flds)
deriving Repr, DecidableEq
/-- the elements of a list -/
inductive Vals where
  | nil
  | cons (v : Val) (rest : Vals)
deriving Repr, DecidableEq
/-- the entries of a map, sorted by key -/
inductive Flds where
  | nil
  | cons (k : Text) (v : Val) (rest : Flds)
deriving Repr, DecidableEq
end

instance : Inhabited Val := ⟨.null⟩

def Flds.get : Flds → Text → Option Val
  | .nil, _ => none
  | .cons k v rest, q => if k = q then some v else rest.get q

def Flds.keys : Flds → List Text
  | .nil => []
  | .cons k _ rest => k :: rest.keys

def Flds.isEmpty : Flds → Bool
  | .nil => true
  | _ => false

/-! ## `fmt.Sprint` -/

def digit (n : Nat) : Char :=
  match n with
  | 0 => '0' | 1 => '1' | 2 => '2' | 3 => '3' | 4 => '4' | 5 => '5' | 6 => '6' | 7 => '7' | 8 => '8' | _ => '9'

/-- decimal digits, most significant first (`fuel` ≥ number of digits) -/
def digits : Nat → Nat → Text → Text
  | 0, _, acc => acc
  | fuel + 1, n, acc => if n / 10 = 0 then digit (n % 10) :: acc else digits fuel (n / 10) (digit (n % 10) :: acc)

def natText (n : Nat) : Text := digits (n + 1) n []

def intText : Int → Text
  | .ofNat n => natText n
  | .negSucc n => '-' :: natText (n + 1)

mutual
/-- `fmt.Sprint(v)` / `%v` of a decoded value -/
def Val.render : Val → Text
  | .null => t!"<nil>"
  | .bool true => t!"true"
  | .bool false => t!"false"
  | .num n => intText n
  | .str s => s
  | .list es => '[' :: (es.render ++ [']'])
  | .obj fs => t!"map[" ++ fs.render ++ [']']
def Vals.render : Vals → Text
  | .nil => []
  | .cons v .nil => v.render
  | .cons v rest => v.render ++ ' ' :: rest.render
def Flds.render : Flds → Text
  | .nil => []
  | .cons k v .nil => k ++ ':' :: v.render
  | .cons k v rest => k ++ ':' :: v.render ++ ' ' :: rest.render
end

/-! ## Strict decoding of the fields the mechanisms of the catalogue accept on the rule level -/

def isDigit (c : Char) : Bool := '0' ≤ c && c ≤ '9'

/-- the unit of a duration component -/
def isUnit (u : Text) : Bool := [t!"ns", t!"us", t!"µs", t!"ms", t!"s", t!"m", t!"h"].contains u

/-- `time.ParseDuration` on the fragment the generator uses: one or more `<digits><unit>` groups (no sign, no
fraction); `"0"` -/
def durationGroups : Nat → Text → Bool
  | 0, _ => false
  | fuel + 1, s =>
    let ds := s.takeWhile isDigit
    let r := s.dropWhile isDigit
    let u := r.takeWhile (fun c => !isDigit c)
    let r' := r.dropWhile (fun c => !isDigit c)
    !ds.isEmpty && isUnit u && (r'.isEmpty || durationGroups fuel r')

def isDuration (s : Text) : Bool := s = t!"0" || durationGroups s.length s

/-- a Go template on the fragment the generator uses: plain text and the action `{{ .Subject.ID }}`
(`skip`: characters of an action still to be passed over) -/
def templateFrom : Nat → Text → Bool
  | _, [] => true
  | skip + 1, _ :: rest => templateFrom skip rest
  | 0, c :: rest =>
    if c = '{' && rest.head? = some '{' then
      if (t!"{ .Subject.ID }}").isPrefixOf rest then templateFrom 16 rest else false
    else templateFrom 0 rest

def isTemplate (s : Text) : Bool := templateFrom 0 s

/-- a `string` field: absent or `null` leaves it empty, a string sets it, anything else is refused -/
def decText : Option Val → Option Text
  | none => some []
  | some .null => some []
  | some (.str s) => some s
  | _ => none

/-- a `*bool` field -/
def decFlag : Option Val → Option (Option Bool)
  | none => some none
  | some .null => some none
  | some (.bool b) => some (some b)
  | _ => none

/-- a `*time.Duration` field: a duration string or an integer (nanoseconds); only whether it decodes matters here -/
def decDuration : Option Val → Bool
  | none => true
  | some .null => true
  | some (.num _) => true
  | some (.str s) => isDuration s
  | _ => false

/-- the entries of a `map[string]template.Template`: every value has to be a non-empty string that parses as a
template.  **This is the behaviour with `fixes/C14-1.patch`**: the unpatched code accepts an entry that is `""` (the
template decode hook turns it into a nil template) or `null` (`headers: {X-A: ""}`, `values: {v: null}`) when the rule
set is loaded and panics with a nil dereference when the mechanism is executed.  The generator produces these two
values only on request (`VERIF_C14_NIL_TEMPLATES=1`); everything else is bug-compatible. -/
def Flds.templates : Flds → Option (List (Text × Text))
  | .nil => some []
  | .cons k (.str s) rest => if !s.isEmpty && isTemplate s then (rest.templates).map ((k, s) :: ·) else none
  | .cons _ _ _ => none

def decTemplates : Option Val → Option (List (Text × Text))
  | none => some []
  | some .null => some []
  | some (.obj fs) => fs.templates
  | _ => none

/-- `ErrorUnused: true` -/
def knownKeys (fs : Flds) (keys : List Text) : Bool := fs.keys.all keys.contains

/-- What the CEL parser and type checker say about an expression text: `none` — it does not compile (syntax error,
undeclared variable or function, no matching overload; also: a text the table does not list), `some t` — its static
result type. -/
abbrev CelEnv := Text → Option CelTy

/-- the entries of a `[]Expression` (`validate:"dive"`): maps with the keys `expression` (`required`: a non-empty
string) and `message` (a string, or unset); `compileExpressions` then hands every `expression` to
`cellib.CompileExpression`, which lets it through iff its static type is `bool` -/
def Vals.expressions (Γ : CelEnv) : Vals → Option (List Text)
  | .nil => some []
  | .cons (.obj fs) rest =>
    if knownKeys fs [t!"expression", t!"message"] && (decText (fs.get t!"message")).isSome then
      match fs.get t!"expression" with
      | some (.str src) =>
        if !src.isEmpty && ((Γ src).map compiles).getD false then (rest.expressions Γ).map (src :: ·) else none
      | _ => none
    else none
  | .cons _ _ => none

/-- the `expressions` key: absent / `null` — none given; a list — its entries; anything else is refused -/
def decExpressions (Γ : CelEnv) : Option Val → Option (List Text)
  | none => some []
  | some .null => some []
  | some (.list es) => es.expressions Γ
  | _ => none

/-! ## The mechanism types of the check's catalogue -/

inductive MType
  | generic          -- `generic` authenticator
  | anonymous        -- `anonymous` authenticator
  | remote           -- `remote` authorizer
  | cel              -- `cel` authorizer
  | genericCtx       -- `generic` contextualizer
  | header           -- `header` finalizer
  | redirect         -- `redirect` error handler
  | dflt             -- `default` error handler
  | wwwAuthenticate  -- `www_authenticate` error handler
  deriving DecidableEq, Repr, Inhabited

/-- what an instance shows when it runs -/
structure Shown where
  /-- anonymous authenticator: the subject it creates -/
  subject : Text := []
  /-- generic authenticator: `allow_fallback_on_error` -/
  fallback : Bool := true
  /-- remote authorizer, generic contextualizer: `values` (name, template) -/
  values : List (Text × Text) := []
  /-- header finalizer: `headers` (name, template) -/
  headers : List (Text × Text) := []
  /-- www_authenticate error handler -/
  realm : Text := []
  /-- cel and remote authorizers: the expressions they verify (source text) -/
  expressions : List Text := []
  deriving DecidableEq, Repr, Inhabited

/-- `values.Values.Merge`: the override's entries win, the others stay -/
def mergeValues (old new : List (Text × Text)) : List (Text × Text) :=
  new ++ old.filter fun e => !new.any fun n => n.1 == e.1

/-- **`prototype.WithConfig(config)`** for a prototype of type `t` showing `p`: `none` — refused.  `Γ` types the
CEL expressions the value may carry. -/
def overlay (Γ : CelEnv) (t : MType) (p : Shown) : Val → Option Shown
  | .obj fs =>
    if fs.isEmpty then some p               -- `len(config) == 0`: the prototype itself, for every type
    else match t with
    | .redirect => none                     -- "reconfiguration … is not supported"
    | .dflt => none
    | .anonymous =>                         -- built by the constructor from the override alone
      if knownKeys fs [t!"subject"] then
        (decText (fs.get t!"subject")).map fun s => { p with subject := if s.isEmpty then t!"anonymous" else s }
      else none
    | .wwwAuthenticate =>
      if knownKeys fs [t!"realm"] then
        (decText (fs.get t!"realm")).map fun s => { p with realm := if s.isEmpty then t!"Please authenticate" else s }
      else none
    | .generic =>
      if knownKeys fs [t!"cache_ttl", t!"allow_fallback_on_error"] && decDuration (fs.get t!"cache_ttl") then
        (decFlag (fs.get t!"allow_fallback_on_error")).map fun f => { p with fallback := f.getD p.fallback }
      else none
    | .remote =>                            -- `expressions`: the own ones if at least one is given
      if knownKeys fs [t!"cache_ttl", t!"values", t!"expressions"] && decDuration (fs.get t!"cache_ttl") then
        match decTemplates (fs.get t!"values"), decExpressions Γ (fs.get t!"expressions") with
        | some vs, some es =>
          some { p with values := mergeValues p.values vs, expressions := if es.isEmpty then p.expressions else es }
        | _, _ => none
      else none
    | .cel =>                               -- built by the constructor from the override alone: `required,gt=0`
      if knownKeys fs [t!"expressions"] then
        match decExpressions Γ (fs.get t!"expressions") with
        | some (e :: es) => some { p with expressions := e :: es }
        | _ => none
      else none
    | .genericCtx =>
      if knownKeys fs [t!"cache_ttl", t!"values", t!"continue_pipeline_on_error"] &&
          decDuration (fs.get t!"cache_ttl") && (decFlag (fs.get t!"continue_pipeline_on_error")).isSome then
        (decTemplates (fs.get t!"values")).map fun vs => { p with values := mergeValues p.values vs }
      else none
    | .header =>                            -- `headers` is `required,gt=0`
      if knownKeys fs [t!"headers"] then
        match decTemplates (fs.get t!"headers") with
        | some (h :: hs) => some { p with headers := h :: hs }
        | _ => none
      else none
  | _ => none                               -- a `config` that is not a map never reaches `WithConfig` (C19)

/-! ## The typed catalogue -/

/-- a catalogue entry: its type, what the prototype shows, and the override tags of the older streams of the check
(payloads fixed per type, acceptance declared by the generator) with what the variant shows -/
structure TMech where
  type : MType
  proto : Shown
  legacy : List (Nat × Shown) := []
  deriving Repr, Inhabited

/-- the typed catalogue of a case and the override values in use: `ovr n` is the value tag `n` names in a step
(`tags` = the tags in use) -/
structure Typed where
  mech : Kind → String → Option TMech
  ovr : Nat → Option Val := fun _ => none
  tags : List Nat := []
  /-- the static types of the CEL expression texts in use -/
  cel : CelEnv := fun _ => none

/-- **`mechanismsFactory.Create…(id, config)`** on values: nothing but the catalogue entry and the value matter -/
def Typed.create (T : Typed) (k : Kind) (id : String) (conf : Option Val) : Option Shown :=
  match T.mech k id with
  | none => none
  | some m =>
    match conf with
    | none => some m.proto
    | some v => overlay T.cel m.type m.proto v

/-- a `Create…` call -/
abbrev Request := Kind × String × Option Val

/-- a history of `Create…` calls on one factory -/
def Typed.createAll (T : Typed) (h : List Request) : List (Option Shown) :=
  h.map fun r => T.create r.1 r.2.1 r.2.2

/-- the same through the tag a step carries -/
def Typed.variant (T : Typed) (k : Kind) (id : String) (cfg : Option Nat) : Option Shown :=
  match T.mech k id with
  | none => none
  | some m =>
    match cfg with
    | none => some m.proto
    | some n =>
      match m.legacy.lookup n with
      | some s => some s
      | none => if T.tags.contains n then (T.ovr n).bind (overlay T.cel m.type m.proto) else none

/-- the abstract catalogue the rule factory model works with: a mechanism accepts exactly the override tags whose
value its `WithConfig` accepts -/
def Typed.catalogue (T : Typed) : Catalogue := fun k id =>
  (T.mech k id).map fun m => (m.legacy.map (·.1) ++ T.tags).filter fun n => (T.variant k id (some n)).isSome

/-! ## A factory with a memo (what the code does *not* do) -/

abbrev MemoKey := Kind × String × Text

def memoFind : List (MemoKey × Shown) → MemoKey → Option Shown
  | [], _ => none
  | (k, s) :: rest, q => if k = q then some s else memoFind rest q

/-- `Create…` behind a memo of the variants created so far, keyed by kind, id and `key config` -/
def Typed.memoCreate (T : Typed) (key : Val → Text) (memo : List (MemoKey × Shown)) (r : Request) :
    List (MemoKey × Shown) × Option Shown :=
  match T.mech r.1 r.2.1 with
  | none => (memo, none)
  | some m =>
    match r.2.2 with
    | none => (memo, some m.proto)
    | some v =>
      match memoFind memo (r.1, r.2.1, key v) with
      | some s => (memo, some s)
      | none =>
        match overlay T.cel m.type m.proto v with
        | some s => (((r.1, r.2.1, key v), s) :: memo, some s)
        | none => (memo, none)

def Typed.memoAll (T : Typed) (key : Val → Text) : List (MemoKey × Shown) → List Request → List (Option Shown)
  | _, [] => []
  | memo, r :: rs =>
    let step := T.memoCreate key memo r
    step.2 :: T.memoAll key step.1 rs

end Heimdall.Factory
