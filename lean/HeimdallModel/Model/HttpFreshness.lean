/-!
# Storage decision of the HTTP response cache (C10)

Model of `internal/httpcache/round_tripper.go` `cacheResponse` together with the part of
`github.com/pquerna/cachecontrol` it relies on (`CachableResponse` with `PrivateCache: true`): is the response
storable at all, when does it expire, and which TTL reaches `cache.Set`.  Times are whole seconds; `expires` and
`date` are absolute.

Fixed behaviour (`fixes/C10-1.patch`): nothing is stored unless the TTL is positive (before, `time.Until(expires)`
went to `Set` unguarded: `max-age=0`, an `Expires` in the past and a negative `default_ttl` produced entries that
the in-memory cache kept forever), and an `Expires` header that is not a date counts as "already expired"
(RFC 7234 section 5.3) instead of "no expiry information, use `default_ttl`".
-/
namespace Heimdall.Validity

inductive ExpiresHdr
  | absent
  | invalid              -- present, but not an HTTP date (e.g. `Expires: 0`)
  | valid (t : Int)
deriving DecidableEq, Repr

inductive Method
  | get | head | post | other
deriving DecidableEq, Repr

/-- one request/response exchange with the remote endpoint, as far as caching is concerned -/
structure Exchange where
  method         : Method
  reqAuth        : Bool           -- request carries an `Authorization` header
  reqNoStore     : Bool           -- request `Cache-Control: no-store`
  status         : Nat
  noStore        : Bool
  isPublic       : Bool
  mustRevalidate : Bool
  maxAge         : Option Int     -- `max-age=n` (n ≥ 0; a negative value does not parse and is modelled as `badCC`)
  sMaxAge        : Option Int
  badCC          : Bool           -- the response `Cache-Control` header does not parse
  expires        : ExpiresHdr
  date           : Option Int
deriving DecidableEq, Repr

/-- status codes that are cacheable by default (RFC 7231 section 6.1) -/
def cacheableStatus (s : Nat) : Bool :=
  s == 200 || s == 203 || s == 204 || s == 206 || s == 300 || s == 301 || s == 404 || s == 405 || s == 410
    || s == 414 || s == 501

def Exchange.hasFreshness (x : Exchange) : Bool :=
  x.maxAge.isSome || x.expires != .absent

/-- `cachecontrol.CachableResponse` returns no reason against storing (private cache) -/
def Exchange.storable (x : Exchange) : Bool :=
  !x.badCC
  && x.method != .other
  && !x.reqNoStore
  && (x.method != .post || x.hasFreshness)
  && (!x.reqAuth || x.mustRevalidate || x.isPublic || x.sMaxAge.isSome)
  && !x.noStore
  && (x.expires != .absent || x.maxAge.isSome || cacheableStatus x.status || x.isPublic)

/-- seconds until the expiration time computed by `cachecontrol` (`none` = it returns the zero time) -/
def Exchange.expiresIn (x : Exchange) (now : Int) : Option Int :=
  match x.maxAge with
  | some a => some a
  | none =>
    match x.expires with
    | .valid e => some (e - x.date.getD now)
    | _ => none

/-- the TTL that reaches `cache.Set` (the round tripper calls `Set` only if it is positive), `dttl` is the
`default_ttl` of the endpoint's `http_cache` settings -/
def httpTTL (dttl : Int) (now : Int) (x : Exchange) : Int :=
  if !x.storable then 0 else
  match x.expiresIn now with
  | some l => l
  | none => if x.expires = .invalid then 0 else if 0 < dttl then dttl else 0

end Heimdall.Validity
