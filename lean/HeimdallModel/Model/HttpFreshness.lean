/-!
# Storage decision of the HTTP response cache (C10)

Model of `internal/httpcache/round_tripper.go` `cacheResponse` together with the part of
`github.com/pquerna/cachecontrol` it relies on (`CachableResponse` with `PrivateCache: true`): is the response
storable at all, when does it expire, and which TTL reaches `cache.Set`.  Times are whole seconds; `expires` and
`date` are absolute.

Fixed behaviour (`fixes/C10-1.patch`, `C10-4.patch`, `C10-6.patch`): nothing is stored unless the TTL is positive (before, `time.Until(expires)`
went to `Set` unguarded: `max-age=0`, an `Expires` in the past and a negative `default_ttl` produced entries that
the in-memory cache kept forever), and an `Expires` header that is not a date counts as "already expired"
(RFC 7234 section 5.3) instead of "no expiry information, use `default_ttl`".
-/
namespace Heimdall.Validity

inductive ExpiresHdr
  | absent
  | invalid              -- present, but not an HTTP date (e.g. `Expires: 0`)
  | valid (t : Int)
deriving DecidableEq, Repr

inductive Method
  | get | head | post | other
deriving DecidableEq, Repr

/-- one request/response exchange with the remote endpoint, as far as caching is concerned -/
structure Exchange where
  method         : Method
  hasBody        : Bool           -- the request carries a body
  reqAuth        : Bool           -- request carries an `Authorization` header
  reqNoStore     : Bool           -- request `Cache-Control: no-store`
  status         : Nat
  noStore        : Bool
  noCache        : Bool           -- response `Cache-Control: no-cache`
  isPublic       : Bool
  mustRevalidate : Bool
  vary           : Bool           -- the response has a `Vary` header
  maxAge         : Option Int     -- `max-age=n` (n ≥ 0; a negative value does not parse and is modelled as `badCC`)
  sMaxAge        : Option Int
  badCC          : Bool           -- the response `Cache-Control` header does not parse
  expires        : ExpiresHdr
  date           : Option Int     -- `Date` header (absolute)
  age            : Option Int     -- `Age` header (seconds)
  lastModified   : Option Int     -- `Last-Modified` header (absolute)
deriving DecidableEq, Repr

/-- status codes that are cacheable by default (RFC 7231 section 6.1) -/
def cacheableStatus (s : Nat) : Bool :=
  s == 200 || s == 203 || s == 204 || s == 206 || s == 300 || s == 301 || s == 404 || s == 405 || s == 410
    || s == 414 || s == 501

/-- `isCacheable` of the round tripper: only `GET` / `HEAD` requests without a body are looked up in and stored to
the cache (the entry is keyed by URL, method and `Authorization` only); everything else goes straight to the
remote endpoint -/
def Exchange.viaCache (x : Exchange) : Bool :=
  (x.method == .get || x.method == .head) && !x.hasBody

/-- `cachecontrol` returns no reason against storing (private cache), and the round tripper's own refusals
(`Vary`, `no-cache`) do not apply -/
def Exchange.storable (x : Exchange) : Bool :=
  x.viaCache
  && !x.badCC
  && !x.reqNoStore
  && (!x.reqAuth || x.mustRevalidate || x.isPublic || x.sMaxAge.isSome)
  && !x.noStore
  && !x.noCache
  && !x.vary
  && (x.expires != .absent || x.maxAge.isSome || cacheableStatus x.status || x.isPublic)

/-- seconds until the explicit expiration time of the response (`max-age`, else `Expires − Date`); `none` = the
response carries no explicit expiration time. The heuristic lifetime `cachecontrol` derives from `Last-Modified` in
that case is not used (fix C10-4): `lastModified` plays no role. -/
def Exchange.expiresIn (x : Exchange) (now : Int) : Option Int :=
  match x.maxAge with
  | some a => some a
  | none =>
    match x.expires with
    | .valid e => some (e - x.date.getD now)
    | _ => none

/-- age of the response when it is received (RFC 7234 section 4.2.3): the larger of the `Age` header and the time
since `Date` (fix C10-6) -/
def Exchange.initialAge (x : Exchange) (now : Int) : Int :=
  max (max 0 (x.age.getD 0)) (match x.date with
    | some d => max 0 (now - d)
    | none => 0)

/-- the TTL that reaches `cache.Set` (the round tripper calls `Set` only if it is positive), `dttl` is the
`default_ttl` of the endpoint's `http_cache` settings: the only lifetime a response without explicit expiration
time can get; an `Expires` value that is not a date means "already expired" -/
def httpTTL (dttl : Int) (now : Int) (x : Exchange) : Int :=
  if !x.storable then 0 else
  match x.expiresIn now with
  | some l => l - x.initialAge now
  | none => if x.expires = .invalid then 0 else if 0 < dttl then dttl - x.initialAge now else 0

end Heimdall.Validity
