import HeimdallModel.Model.Repo
/-!
# The request view of the three entry points (property C13)

What the pipeline is shown of a request, and what the upstream side is handed, by

* the decision service and the proxy service — `internal/handler/requestcontext` (shared), `…/decision/request_context.go`,
  `…/proxy/request_context.go`, behind the `trustedproxy` middleware, fed by Go's `net/http` server, and
* the Envoy ext_authz gRPC service — `internal/handler/envoyextauth/grpcv3/request_context.go`, fed with the
  `CheckRequest` an Envoy proxy builds.

The model is operational: a *logical request* (`LReq`, the bytes of the HTTP message) is turned into the two carriers
(`toHTTP`: what `net/http` hands to a handler; `toCheck`: the `CheckRequest` as documented by
`envoy.service.auth.v3.AttributeContext.HttpRequest`), the request contexts are built from the carriers as the Go code
does (Go maps are association lists), and a run (`serve`) goes through the request context's `Request()` *cell*
(`Ctx.withReq`): the rule lookup stores the captured path values in the object it was handed, the rule execution
and the mechanisms ask the context again.

`Impl` selects per repaired defect between the behaviour of the original code (`Impl.original`) and the behaviour
after the proposed patches `fixes/C13-1 … C13-5` (`Impl.fixed`); theorems are about `Impl.fixed`, the witnesses of the
defects about `Impl.original`.

Byte strings are `List Char` (one character per byte), converted to `String` only where the routing model
(`Model/Repo.lean`) is called.
-/
namespace Heimdall.EntryView
open Heimdall

abbrev Bytes := List Char

/-- a byte-string literal: `b!"ab"` is the list `['a', 'b']` (built at elaboration time, so that the kernel can
    compute with it) -/
macro:max "b!" s:str : term => do
  let cs := s.getString.toList.map fun c => Lean.Syntax.mkCharLit c
  `(([$(cs.toArray),*] : List Char))

/-! ## ASCII helpers (Go: `strings`, `net/textproto`) -/

def toLowerA : Char → Char
  | 'A' => 'a' | 'B' => 'b' | 'C' => 'c' | 'D' => 'd' | 'E' => 'e' | 'F' => 'f' | 'G' => 'g' | 'H' => 'h'
  | 'I' => 'i' | 'J' => 'j' | 'K' => 'k' | 'L' => 'l' | 'M' => 'm' | 'N' => 'n' | 'O' => 'o' | 'P' => 'p'
  | 'Q' => 'q' | 'R' => 'r' | 'S' => 's' | 'T' => 't' | 'U' => 'u' | 'V' => 'v' | 'W' => 'w' | 'X' => 'x'
  | 'Y' => 'y' | 'Z' => 'z' | c => c

def toUpperA : Char → Char
  | 'a' => 'A' | 'b' => 'B' | 'c' => 'C' | 'd' => 'D' | 'e' => 'E' | 'f' => 'F' | 'g' => 'G' | 'h' => 'H'
  | 'i' => 'I' | 'j' => 'J' | 'k' => 'K' | 'l' => 'L' | 'm' => 'M' | 'n' => 'N' | 'o' => 'O' | 'p' => 'P'
  | 'q' => 'Q' | 'r' => 'R' | 's' => 'S' | 't' => 'T' | 'u' => 'U' | 'v' => 'V' | 'w' => 'W' | 'x' => 'X'
  | 'y' => 'Y' | 'z' => 'Z' | c => c

/-- `strings.ToLower` on ASCII -/
def lower (s : Bytes) : Bytes := s.map toLowerA

def isAlnum (c : Char) : Bool := ('a' ≤ c && c ≤ 'z') || ('A' ≤ c && c ≤ 'Z') || ('0' ≤ c && c ≤ '9')

/-- `httpguts.isTokenTable` = `textproto.validHeaderFieldByte` -/
def isTokenChar (c : Char) : Bool :=
  isAlnum c || c = '!' || c = '#' || c = '$' || c = '%' || c = '&' || c = '\'' || c = '*' || c = '+' || c = '-' ||
  c = '.' || c = '^' || c = '_' || c = '`' || c = '|' || c = '~'

def isToken (s : Bytes) : Bool := !s.isEmpty && s.all isTokenChar

/-- the canonicalisation loop of `textproto.canonicalMIMEHeaderKey` -/
def canonGo (upper : Bool) : Bytes → Bytes
  | [] => []
  | c :: t =>
    let c' := if upper then toUpperA c else toLowerA c
    c' :: canonGo (c' == '-') t

/-- `textproto.CanonicalMIMEHeaderKey` = `http.CanonicalHeaderKey`: anything that is not a token is left unchanged -/
def canonKey (s : Bytes) : Bytes := if s.all isTokenChar then canonGo true s else s

def isSpaceA (c : Char) : Bool := c = ' ' || c = '\t' || c = '\n' || c = '\r'

/-- `textproto.TrimString` -/
def trimA (s : Bytes) : Bytes := ((s.dropWhile isSpaceA).reverse.dropWhile isSpaceA).reverse

/-- `strings.Cut(s, sep)` for a one-byte separator: (before, after, found) -/
def cut (sep : Char) : Bytes → Bytes × Bytes × Bool
  | [] => ([], [], false)
  | c :: t => if c = sep then ([], t, true) else
    let r := cut sep t
    (c :: r.1, r.2.1, r.2.2)

/-- `strings.LastIndexByte(s, sep)` as a split: what stands before the last `sep` and what after it; `none`: no `sep` -/
def cutLast (sep : Char) (s : Bytes) : Option (Bytes × Bytes) :=
  let r := cut sep s.reverse
  if r.2.2 then some (r.2.1.reverse, r.1.reverse) else none

/-- `strings.Split(s, sep)` for a one-byte separator -/
def splitOn (sep : Char) : Bytes → List Bytes
  | [] => [[]]
  | c :: t =>
    if c = sep then [] :: splitOn sep t else
    match splitOn sep t with
    | [] => [[c]]
    | p :: ps => (c :: p) :: ps

/-- `strings.Join(parts, sep)` -/
def join (sep : Bytes) : List Bytes → Bytes
  | [] => []
  | [a] => a
  | a :: b :: t => a ++ sep ++ join sep (b :: t)

/-- `strings.Contains` -/
def containsSub (needle : Bytes) : Bytes → Bool
  | [] => needle.isEmpty
  | s@(_ :: t) => needle.isPrefixOf s || containsSub needle t

/-! ## Go maps with string keys as association lists -/

def lookup {α : Type} (k : Bytes) : List (Bytes × α) → Option α
  | [] => none
  | (k', v) :: t => if k' = k then some v else lookup k t

/-- `http.Header.Add` / the header reader of `net/textproto` (the key is canonical already) -/
def addTo (m : List (Bytes × List Bytes)) (k v : Bytes) : List (Bytes × List Bytes) :=
  match m with
  | [] => [(k, [v])]
  | (k', vs) :: t => if k' = k then (k', vs ++ [v]) :: t else (k', vs) :: addTo t k v

/-- header field lines grouped under `key name`, values in the order of the lines -/
def group (key : Bytes → Bytes) (lines : List (Bytes × Bytes)) : List (Bytes × List Bytes) :=
  lines.foldl (fun m l => addTo m (key l.1) l.2) []

/-- `m[k] = v` -/
def setKey (m : List (Bytes × Bytes)) (k v : Bytes) : List (Bytes × Bytes) :=
  match m with
  | [] => [(k, v)]
  | (k', v') :: t => if k' = k then (k, v) :: t else (k', v') :: setKey t k v

def comma : Bytes := [',']

/-! ## `net/url`: paths -/

def hexDigit (n : Nat) : Char := b!"0123456789ABCDEF".getD n '0'

def pctEncode (c : Char) : Bytes := ['%', hexDigit (c.toNat / 16), hexDigit (c.toNat % 16)]

/-- `shouldEscape(c, encodePath)` -/
def shouldEscapePath (c : Char) : Bool :=
  !(isAlnum c || c = '-' || c = '_' || c = '.' || c = '~' ||
    c = '$' || c = '&' || c = '+' || c = ',' || c = '/' || c = ':' || c = ';' || c = '=' || c = '@')

/-- `escape(s, encodePath)` -/
def escapePath (s : Bytes) : Bytes := s.flatMap fun c => if shouldEscapePath c then pctEncode c else [c]

/-- an octet that may stand in a path as it is: what `validEncoded(s, encodePath)` accepts, and the octets
    `escapedPath` of `requestcontext/extract_url.go` leaves alone (`A-Za-z0-9-_.~!$&'()*+,;=:@/[]%`) -/
def pathCharOK (c : Char) : Bool :=
  c = '!' || c = '$' || c = '&' || c = '\'' || c = '(' || c = ')' || c = '*' || c = '+' || c = ',' || c = ';' ||
  c = '=' || c = ':' || c = '@' || c = '[' || c = ']' || c = '%' || !shouldEscapePath c

/-- `validEncoded(s, encodePath)` -/
def validEncodedPath (s : Bytes) : Bool := s.all pathCharOK

/-- the path *as received*: octets that may not stand in a path are percent-encoded (upper-case hex), every
    escape the client wrote is kept as written (the loop of `escapedPath` in `requestcontext/extract_url.go`;
    `Heimdall.receivedPathL` of `Base/UrlEscape.lean` is the same function, compared by the driver on every case) -/
def receivedL (s : Bytes) : Bytes := s.flatMap fun c => if pathCharOK c then [c] else pctEncode c

/-- `url.PathUnescape` with the error discarded (`path, _ = url.PathUnescape(rawPath)`) -/
def unescapeOrEmpty (s : Bytes) : Bytes := (pathUnescapeL s).getD []

/-- the `Path`, `RawPath`, `RawQuery` fields of a `url.URL` -/
structure GoURL where
  path     : Bytes
  rawPath  : Bytes
  rawQuery : Bytes
deriving Repr, DecidableEq

/-- `url.ParseRequestURI(target)` for an origin-form target: query cut off at the first `?`, then `setPath`.
    `none` is the parse error (the server answers 400 itself) -/
def goParseTarget (target : Bytes) : Option GoURL :=
  let r := cut '?' target
  match pathUnescapeL r.1 with
  | none => none
  | some path => some { path, rawPath := if r.1 = escapePath path then [] else r.1, rawQuery := r.2.1 }

/-- `URL.EscapedPath()` -/
def GoURL.escapedPath (u : GoURL) : Bytes :=
  if !u.rawPath.isEmpty && validEncodedPath u.rawPath && pathUnescapeL u.rawPath = some u.path then u.rawPath
  else if u.path = ['*'] then ['*'] else escapePath u.path

/-! ## The logical request and its two carriers -/

/-- the HTTP message a client sends: request line, `Host`, the other header field lines in order, the body -/
structure LReq where
  method  : Bytes
  tls     : Bool
  host    : Bytes
  rawPath : Bytes                 -- path as written in the request line
  query   : Bytes                 -- query as written in the request line (no `?`); empty: none
  headers : List (Bytes × Bytes)  -- field lines other than `Host`
  body    : Option Bytes
deriving Repr

def LReq.scheme (lr : LReq) : Bytes := if lr.tls then b!"https" else b!"http"

/-- the request target of the request line -/
def LReq.target (lr : LReq) : Bytes := if lr.query.isEmpty then lr.rawPath else lr.rawPath ++ '?' :: lr.query

/-- what `net/http`'s server hands to the handler chain -/
structure HttpReq where
  method : Bytes
  host   : Bytes
  tls    : Bool
  url    : GoURL
  header : List (Bytes × List Bytes)   -- `http.Header`: canonical name ↦ values
  body   : Option Bytes                -- `none`: `http.NoBody`
deriving Repr

def toHTTP (lr : LReq) : Option HttpReq :=
  match goParseTarget lr.target with
  | none => none
  | some url => some
    { method := lr.method, host := lr.host, tls := lr.tls, url,
      header := group canonKey lr.headers,
      body := match lr.body with
        | none => none
        | some b => if b.isEmpty then none else some b }

/-! ### The configured log level and the middleware that depends on it -/

/-- `log.level`: the level of the logger the services are created with (`logging.NewLogger`); the `logger`
    middleware / interceptor puts it into the context of every request, where `zerolog.Ctx` finds it -/
inductive LogLevel where
  | trace | debug | info | warn | error | disabled
deriving Repr, DecidableEq

/-- `drainBody` of `net/http/httputil` (called by `DumpRequest(req, true)`): the body is read *to its end* into a
    buffer — there is no bound on its length — and closed; the caller gets the bytes (for the dump) and a new reader
    over the very same bytes, which is put back into the request. `http.NoBody` (`none`) is left alone. -/
def drainBody : Option Bytes → Bytes × Option Bytes
  | none => ([], none)
  | some b => (b, some b)

/-- the `dump` middleware (`internal/handler/middleware/http/dump`), part of the chains of the decision and of the
    proxy service (the Envoy gRPC service has no such stage): at level `trace` the request is dumped into the log —
    with its body, which `DumpRequest` drains and restores — and handed on; at every other level the middleware is a
    no-op. What it hands to the next handler is the request it was given: same bytes, whatever their number. -/
def dumpMiddleware (level : LogLevel) (r : HttpReq) : HttpReq :=
  if level = .trace then { r with body := (drainBody r.body).2 } else r

/-- `envoy.service.auth.v3.AttributeContext.HttpRequest` -/
structure CheckReq where
  method  : Bytes
  scheme  : Bytes
  host    : Bytes
  path    : Bytes
  query   : Bytes
  headers : List (Bytes × Bytes)
  body    : Bytes
  rawBody : Bytes
deriving Repr

/-- The `CheckRequest` of an Envoy ext_authz filter for the logical request, as the API documents it:
    `path` is "the request target, as it appears in the first line of the HTTP request. This includes the URL path and
    query-string. No decoding is performed", `query` "is always empty"; header keys are lower-cased and the values of
    "multiple headers [that] share the same key" are merged (comma); the body is delivered in `raw_body` if
    `pack_as_bytes` is set and in `body` otherwise. -/
def toCheck (packAsBytes : Bool) (lr : LReq) : CheckReq :=
  { method := lr.method, scheme := lr.scheme, host := lr.host, path := lr.target, query := [],
    headers := (group lower lr.headers).map fun kv => (kv.1, join comma kv.2),
    body := if packAsBytes then [] else lr.body.getD [],
    rawBody := if packAsBytes then lr.body.getD [] else [] }

/-! ## What is visible of a request -/

structure URLv where
  scheme   : Bytes
  host     : Bytes
  path     : Bytes
  rawPath  : Bytes
  rawQuery : Bytes
deriving Repr, DecidableEq

/-! ### `URL.Hostname()` and `URL.Port()` (`net/url`), reachable as `Request.URL.Hostname()` / `Request.URL.Port()` in CEL
expressions and as `{{ .Request.URL.Hostname }}` / `{{ .Request.URL.Port }}` in templates -/

def isDigitA (c : Char) : Bool := '0' ≤ c && c ≤ '9'

/-- `host[1 : len(host)-1]` if the host is written in brackets (an IPv6 literal) -/
def stripBrackets (h : Bytes) : Bytes :=
  if h.head? = some '[' && h.getLast? = some ']' then (h.drop 1).dropLast else h

/-- `splitHostPort` of `net/url`: the part after the last colon is the port if it consists of digits only
    (`validOptionalPort`; no digit at all is allowed: `name:` has the empty port), whatever the digits are — a port
    that is the default one of the scheme (`:80`, `:443`) is a port like any other; brackets around the host are
    removed -/
def splitHostPort (hostPort : Bytes) : Bytes × Bytes :=
  match cutLast ':' hostPort with
  | some (h, p) => if p.all isDigitA then (stripBrackets h, p) else (stripBrackets hostPort, [])
  | none => (stripBrackets hostPort, [])

/-- `URL.Hostname()` -/
def URLv.hostname (u : URLv) : Bytes := (splitHostPort u.host).1

/-- `URL.Port()` -/
def URLv.port (u : URLv) : Bytes := (splitHostPort u.host).2

/-- the mutable part of a `heimdall.Request`: what `Request()` allocates -/
structure ReqObj where
  method   : Bytes
  url      : URLv
  captures : Option (List (Bytes × Bytes))     -- `URL.Captures`; `none`: nil map
deriving Repr, DecidableEq

inductive DecKind where
  | json | form | yaml
deriving Repr, DecidableEq

/-- the decoders of `mechanisms/contenttype` (goccy/go-json, `url.ParseQuery`, yaml.v3) are trusted libraries:
    `none` = decoding error, `some r` = the decoded structure in canonical JSON rendering -/
abbrev Decoder := DecKind → Bytes → Option Bytes

/-- `Request.Body()` -/
inductive BodyV where
  | raw (b : Bytes)          -- a Go string
  | decoded (json : Bytes)   -- a `map[string]any`
deriving Repr, DecidableEq

/-- `contenttype.NewDecoder` -/
def decoderFor (contentType : Bytes) : Option DecKind :=
  if containsSub b!"json" contentType then some .json
  else if containsSub b!"application/x-www-form-urlencoded" contentType then some .form
  else if containsSub b!"yaml" contentType then some .yaml
  else none

/-- the decoding part shared by both `Body()` implementations: an unknown content type or a decoding error yield
    the bytes as string -/
def decodeBody (D : Decoder) (contentType raw : Bytes) : BodyV :=
  match decoderFor contentType with
  | none => .raw raw
  | some k =>
    match D k raw with
    | none => .raw raw
    | some j => .decoded j

/-- `RequestFunctions`: the part of the view that is computed by the request context and that templates and CEL
    expressions can reach (`Header`, `Cookie`, `Body`); the `Headers()` map is kept apart -/
structure Funcs where
  header  : Bytes → Bytes
  cookie  : Bytes → Bytes
  body    : BodyV

/-! ### Cookies -/

def validCookieValueByte (c : Char) : Bool := 0x20 ≤ c.toNat && c.toNat < 0x7f && c ≠ '"' && c ≠ ';' && c ≠ '\\'

/-- `http.parseCookieValue(raw, true)` -/
def parseCookieValue (raw : Bytes) : Option Bytes :=
  let raw := if raw.length > 1 && raw.head? = some '"' && raw.getLast? = some '"' then (raw.drop 1).dropLast else raw
  if raw.all validCookieValueByte then some raw else none

/-- one `;`-separated part of a `Cookie` line, as `http.readCookies(h, filter)` treats it -/
def cookiePart (filter : Bytes) (part : Bytes) : Option Bytes :=
  let part := trimA part
  if part.isEmpty then none else
  let r := cut '=' part
  let name := trimA r.1
  if !isToken name then none
  else if name ≠ filter then none
  else parseCookieValue r.2.1

/-- `(*http.Request).Cookie(name)` on the given `Cookie` lines: the first valid cookie of that name, else "" -/
def stdCookie (lines : List Bytes) (name : Bytes) : Bytes :=
  if name.isEmpty then [] else
  (((lines.flatMap fun l => splitOn ';' (trimA l)).filterMap (cookiePart name)).head?).getD []

/-- `strings.TrimSpace` on ASCII -/
def isSpaceGo (c : Char) : Bool := isSpaceA c || c = '\x0b' || c = '\x0c'

def trimSpace (s : Bytes) : Bytes := ((s.dropWhile isSpaceGo).reverse.dropWhile isSpaceGo).reverse

/-- the cookie lookup of the original grpcv3 request context: split at `;`, cut at `=`, trim -/
def naiveCookie (line : Bytes) (name : Bytes) : Bytes :=
  (((splitOn ';' line).filterMap fun part =>
    let r := cut '=' part
    if r.2.2 && trimSpace r.1 = name then some (trimSpace r.2.1) else none).head?).getD []

/-! ## Variants of the implementation -/

/-- one flag per repaired defect of the Envoy gRPC request context (`true`: behaviour after the patch) -/
structure Impl where
  cachesView   : Bool   -- C13-1: `Request()` creates the view once
  splitsTarget : Bool   -- C13-2: `path` attribute = request target; path decoded, raw path kept
  canonHeader  : Bool   -- C13-3: `Header(name)` canonicalises the name, `Host` is the request host
  stdCookies   : Bool   -- C13-4: cookies parsed as `net/http` does
  bodyFallback : Bool   -- C13-5: `body` attribute used when `raw_body` is empty; no body ⇒ ""
  encodesPath  : Bool   -- C13-6 (proposed): octets that may not stand in a path are percent-encoded in the raw path
deriving Repr, DecidableEq

/-- the code of /repo: `fixes/C13-1 … C13-5` applied -/
def Impl.fixed : Impl := ⟨true, true, true, true, true, false⟩
/-- … with the proposed `fixes/C13-6` as well -/
def Impl.next : Impl := ⟨true, true, true, true, true, true⟩
def Impl.original : Impl := ⟨false, false, false, false, false, false⟩

inductive EP where
  | decision | proxy | envoy
deriving Repr, DecidableEq

/-! ## The HTTP request context (`internal/handler/requestcontext`, behind `trustedproxy`) -/

def hostKey : Bytes := b!"Host"

/-- headers removed by the `trustedproxy` middleware when the peer is not a trusted proxy (none is configured) -/
def untrustedHeaders : List Bytes :=
  [b!"Forwarded", b!"X-Forwarded-For", b!"X-Forwarded-Proto", b!"X-Forwarded-Host", b!"X-Forwarded-Uri",
   b!"X-Forwarded-Path", b!"X-Forwarded-Method"]

def stripUntrusted (h : List (Bytes × List Bytes)) : List (Bytes × List Bytes) :=
  h.filter fun kv => !untrustedHeaders.contains kv.1

/-- `escapedPath(uri)` of `extract_url.go`: `EscapedPath()` if Go found the default encoding (`RawPath` empty),
    otherwise the received spelling with the forbidden octets encoded -/
def httpEscapedPath (u : GoURL) : Bytes := if u.rawPath.isEmpty then u.escapedPath else receivedL u.rawPath

/-- `extractMethod` + `extractURL`; the `X-Forwarded-*` headers they would read have been removed -/
def httpObj (r : HttpReq) : ReqObj :=
  let rawPath := httpEscapedPath r.url
  { method := r.method,
    url := { scheme := if r.tls then b!"https" else b!"http", host := r.host,
             path := unescapeOrEmpty rawPath, rawPath, rawQuery := r.url.rawQuery },
    captures := none }

def httpHeader (r : HttpReq) (h : List (Bytes × List Bytes)) (name : Bytes) : Bytes :=
  let key := canonKey name
  if key = hostKey then r.host else join comma ((lookup key h).getD [])

def httpFuncs (D : Decoder) (r : HttpReq) : Funcs :=
  let h := stripUntrusted r.header
  { header := httpHeader r h,
    cookie := stdCookie ((lookup b!"Cookie" h).getD []),
    body := match r.body with
      | none => .raw []
      | some b => decodeBody D (httpHeader r h b!"Content-Type") b }

/-- `Headers()`: the host and every header, values joined -/
def httpHeadersMap (r : HttpReq) : List (Bytes × Bytes) :=
  (hostKey, r.host) :: (stripUntrusted r.header).map fun kv => (canonKey kv.1, join comma kv.2)

/-! ## The Envoy gRPC request context (`internal/handler/envoyextauth/grpcv3/request_context.go`) -/

/-- `canonicalizeHeaders` -/
def envoyHeaders (c : CheckReq) : List (Bytes × Bytes) := c.headers.map fun kv => (canonKey kv.1, kv.2)

def envoyURL (I : Impl) (c : CheckReq) : URLv :=
  if I.splitsTarget then
    let r := cut '?' c.path
    let rawPath := if I.encodesPath then receivedL r.1 else r.1
    { scheme := c.scheme, host := c.host, path := unescapeOrEmpty rawPath, rawPath,
      rawQuery := if c.query.isEmpty then r.2.1 else c.query }
  else
    { scheme := c.scheme, host := c.host, path := c.path, rawPath := [], rawQuery := c.query }

def envoyObj (I : Impl) (c : CheckReq) : ReqObj := { method := c.method, url := envoyURL I c, captures := none }

def envoyHeader (I : Impl) (c : CheckReq) (name : Bytes) : Bytes :=
  if I.canonHeader then
    let key := canonKey name
    if key = hostKey then c.host else (lookup key (envoyHeaders c)).getD []
  else (lookup name (envoyHeaders c)).getD []

def envoyCookie (I : Impl) (c : CheckReq) (name : Bytes) : Bytes :=
  match lookup b!"Cookie" (envoyHeaders c) with
  | none => []
  | some line => if I.stdCookies then stdCookie [line] name else naiveCookie line name

def envoyBody (I : Impl) (D : Decoder) (c : CheckReq) : BodyV :=
  let raw := if I.bodyFallback && c.rawBody.isEmpty then c.body else c.rawBody
  if I.bodyFallback && raw.isEmpty then .raw []
  else decodeBody D (envoyHeader I c b!"Content-Type") raw

def envoyFuncs (I : Impl) (D : Decoder) (c : CheckReq) : Funcs :=
  { header := envoyHeader I c, cookie := envoyCookie I c, body := envoyBody I D c }

/-! ## The request context as a state: the `Request()` cell and what is collected for the upstream side -/

/-- what the pipeline collects for the upstream side -/
structure Ups where
  headers : List (Bytes × List Bytes) := []   -- `upstreamHeaders` (`http.Header`)
  cookies : List (Bytes × Bytes) := []        -- `upstreamCookies` (`map[string]string`)
deriving Repr, DecidableEq

/-- `AddHeaderForUpstream`: `http.Header.Add` canonicalises the name -/
def Ups.addHeader (u : Ups) (name v : Bytes) : Ups := { u with headers := addTo u.headers (canonKey name) v }

/-- `AddCookieForUpstream` -/
def Ups.addCookie (u : Ups) (name v : Bytes) : Ups := { u with cookies := setKey u.cookies name v }

structure Ctx where
  caches : Bool                  -- does `Request()` keep the object it created?
  fresh  : ReqObj                -- what `Request()` allocates
  cell   : Option ReqObj := none -- the cached object (`hmdlReq`)
  ups    : Ups := {}

/-- A piece of Go code that calls `ctx.Request()` once and works on the object it got (reads, writes through the
    pointer). With a caching context the object is the context's own, so the writes are seen by the next caller;
    otherwise the object is dropped. -/
def Ctx.withReq {α : Type} (c : Ctx) (f : ReqObj → ReqObj × α) : Ctx × α :=
  if c.caches then
    let r := f (c.cell.getD c.fresh)
    ({ c with cell := some r.1 }, r.2)
  else (c, (f c.fresh).2)

/-- a sequence of such pieces of code, each one only writing -/
def Ctx.runBlocks (c : Ctx) : List (ReqObj → ReqObj) → Ctx
  | [] => c
  | f :: fs => ((c.withReq fun o => (f o, ())).1).runBlocks fs

/-- the object the next caller of `Request()` is handed -/
def Ctx.current (c : Ctx) : ReqObj := if c.caches then c.cell.getD c.fresh else c.fresh

/-! ## Mechanisms that read the request view -/

inductive Probe where
  | method | scheme | host | path | query
  | hostname | port                 -- `Request.URL.Hostname()`, `Request.URL.Port()`
  | capture (name : Bytes)
  | header (name : Bytes)
  | cookie (name : Bytes)
  | body
deriving Repr, DecidableEq

/-- `json.Marshal` of a Go string of printable ASCII (what the template function `toJson` yields): quote and
    backslash are escaped, and so are `<`, `>`, `&` (HTML-safe encoding) -/
def jsonQuote (s : Bytes) : Bytes :=
  '"' :: (s.flatMap fun c =>
    if c = '"' || c = '\\' then ['\\', c]
    else if c = '<' then b!"\\u003c" else if c = '>' then b!"\\u003e"
    else if c = '&' then b!"\\u0026" else [c]) ++ ['"']

def BodyV.render : BodyV → Bytes
  | .raw b => jsonQuote b
  | .decoded j => j

/-- the value a template sees: `{{ .Request.Method }}`, `{{ index .Request.URL.Captures "n" }}`,
    `{{ .Request.Header "n" }}`, `{{ .Request.Body | toJson }}` … -/
def Probe.tmpl (o : ReqObj) (F : Funcs) : Probe → Bytes
  | .method => o.method
  | .scheme => o.url.scheme
  | .host => o.url.host
  | .hostname => o.url.hostname
  | .port => o.url.port
  | .path => o.url.path
  | .query => o.url.rawQuery
  | .capture n => (lookup n (o.captures.getD [])).getD []
  | .header n => F.header n
  | .cookie n => F.cookie n
  | .body => F.body.render

/-- the value a CEL expression sees: `Request.URL.Captures["n"]` on a missing key is an evaluation error (`none`) -/
def Probe.cel (o : ReqObj) (F : Funcs) : Probe → Option Bytes
  | .capture n => lookup n (o.captures.getD [])
  | .body => none
  | p => some (p.tmpl o F)

/-- `url.QueryEscape` (the template function `urlenc`) -/
def urlenc (s : Bytes) : Bytes :=
  s.flatMap fun c =>
    if isAlnum c || c = '-' || c = '_' || c = '.' || c = '~' then [c] else if c = ' ' then ['+'] else pctEncode c

structure Cond where
  probe : Probe
  eq    : Bytes
deriving Repr, DecidableEq

inductive Tri where
  | yes | no | fails
deriving Repr, DecidableEq

/-- a CEL expression `<probe> == "<literal>"` -/
def Cond.eval (o : ReqObj) (F : Funcs) (c : Cond) : Tri :=
  match c.probe.cel o F with
  | none => .fails
  | some v => if v = c.eq then .yes else .no

structure Item where
  name   : Bytes
  probes : List Probe
deriving Repr, DecidableEq

/-- a template `{{ p1 | urlenc }}|{{ p2 | urlenc }}…` -/
def Item.render (o : ReqObj) (F : Funcs) (it : Item) : Bytes :=
  join ['|'] (it.probes.map fun p => urlenc (p.tmpl o F))

inductive FinKind where
  | header | cookie
deriving Repr, DecidableEq

/-- a `header` or `cookie` finalizer with an optional `if` condition -/
structure Fin where
  kind  : FinKind
  cond  : Option Cond
  items : List Item
deriving Repr, DecidableEq

/-- the pipeline of a rule: an authenticator (`anonymous`, or — `authn = false` — `unauthorized`, which rejects every
    request), a `cel` authorizer with the given expressions (if any), optionally (`comm`) a `generic` contextualizer
    whose endpoint nobody listens on, finalizers -/
structure Pipe where
  authz : List Cond
  fins  : List Fin
  authn : Bool := true
  comm  : Bool := false
deriving Repr, DecidableEq

inductive Dec where
  | ok | norule | argument | authentication | authorization | communication | internal
deriving Repr, DecidableEq

/-- `serve.<service>.respond.with.<class>.code` (0: not configured); one block for the decision and the proxy
    service, the Envoy gRPC service is configured by the block of the decision service -/
structure Respond where
  accepted       : Nat := 0
  argument       : Nat := 0
  authentication : Nat := 0
  authorization  : Nat := 0
  communication  : Nat := 0
  internal       : Nat := 0
  norule         : Nat := 0
deriving Repr, DecidableEq

def orDefault (configured dflt : Nat) : Nat := if configured = 0 then dflt else configured

/-- the HTTP status an error class is answered with — status of the response of the decision and the proxy service
    (`errorhandler.New(With…ErrorCode(…))` of `decision/service.go`, `proxy/service.go`), status of the
    `DeniedHttpResponse` of the Envoy gRPC service (`grpcv3/service.go`) -/
def Respond.code (r : Respond) : Dec → Nat
  | .ok => 200
  | .norule => orDefault r.norule 404
  | .argument => orDefault r.argument 400
  | .authentication => orDefault r.authentication 401
  | .authorization => orDefault r.authorization 403
  | .communication => orDefault r.communication 502
  | .internal => orDefault r.internal 500

/-- `celAuthorizer.Execute`: expressions in order; `false` ⇒ authorization error, evaluation error ⇒ internal error -/
def runAuthz (o : ReqObj) (F : Funcs) : List Cond → Option Dec
  | [] => none
  | c :: cs =>
    match c.eval o F with
    | .yes => runAuthz o F cs
    | .no => some .authorization
    | .fails => some .internal

/-- `headerFinalizer.Execute` / `cookieFinalizer.Execute`: every entry is rendered and handed to the context -/
def Fin.apply (o : ReqObj) (F : Funcs) (f : Fin) (u : Ups) : Ups :=
  f.items.foldl (fun u it =>
    match f.kind with
    | .header => u.addHeader it.name (it.render o F)
    | .cookie => u.addCookie it.name (it.render o F)) u

/-- `compositeSubjectHandler` over `conditionalSubjectHandler`s: a condition that cannot be evaluated ends the
    pipeline with that (foreign) error -/
def runFins (F : Funcs) : List Fin → Ctx → Ctx × Option Dec
  | [], c => (c, none)
  | f :: fs, c =>
    -- the condition and the finalizer each call `ctx.Request()`
    let o := c.current
    match (f.cond.map fun cd => cd.eval o F : Option Tri) with
    | some .fails => (c, some .internal)
    | some .no => runFins F fs c
    | _ => runFins F fs { c with ups := f.apply o F c.ups }

/-! ## A run: `ruleExecutor.Execute` → `repository.FindRule` → `ruleImpl.Execute` → `Finalize` -/

def str (b : Bytes) : String := String.ofList b

def ReqObj.toReqView (o : ReqObj) : ReqView :=
  { method := str o.method, scheme := str o.url.scheme, host := str o.url.host, rawPath := str o.url.rawPath,
    path := str o.url.path }

def toBytesPairs (l : List (String × String)) : List (Bytes × Bytes) := l.map fun kv => (kv.1.toList, kv.2.toList)

/-! ### `serve.<service>.buffer_limit` and the `net/http` server in front of the handler chain -/

/-- `serve.decision.buffer_limit` / `serve.proxy.buffer_limit` in bytes (`read` and `write`; the defaults are 4 KiB
    each, 0: not configured); the Envoy gRPC service takes the sizes of its connection buffers from the block of the
    decision service -/
structure Limits where
  read  : Nat := 0
  write : Nat := 0
deriving Repr, DecidableEq

/-- How many bytes the `net/http` server of the decision and of the proxy service reads for the request line and the
    header block of one request: `http.Server.MaxHeaderBytes = buffer_limit.read` (`decision/service.go`,
    `proxy/service.go`; 0: `http.DefaultMaxHeaderBytes`, 1 MiB) plus the 4096 bytes of slack `net/http` adds
    (`initialReadLimitSize`). Once the header block has been read the limit is lifted (`setInfiniteReadLimit`): nothing
    bounds the body. -/
def headerBudget (l : Limits) : Nat := (if l.read = 0 then 1048576 else l.read) + 4096

/-- the number of bytes of the request line and the header block of the message, blank line included:
    `METHOD SP target SP HTTP/1.1 CRLF`, `Host: host CRLF`, `name: value CRLF` …, `CRLF` — the body is not part of it -/
def LReq.headLength (lr : LReq) : Nat :=
  lr.method.length + 1 + lr.target.length + 11 + (6 + lr.host.length + 2) +
  lr.headers.foldr (fun l n => l.1.length + 2 + l.2.length + 2 + n) 0 + 2

/-- Does the server in front of the handler chain hand the request to the chain? The servers of the decision and the
    proxy service answer a request whose request line and header block exceed the budget themselves
    (`431 Request Header Fields Too Large`; no middleware, no rule runs); the gRPC server of the Envoy service receives
    the request as a message (its own limit, 4 MiB per message, is not configured by `buffer_limit`). -/
def reachesChain (l : Limits) (ep : EP) (lr : LReq) : Bool := ep = .envoy || lr.headLength ≤ headerBudget l

structure Cfg where
  repo       : Repo
  hasDefault : Bool
  pipes      : List ((String × String) × Pipe)   -- (rule-set source, rule id) ↦ pipeline
  defaultPipe : Pipe
  D          : Decoder
  respond    : Respond := {}
  /-- `log.level`. Only the `dump` middleware of the HTTP based services (`dumpMiddleware`) looks at it; the pipeline
      code consults the logger too (`conditionalSubjectHandler.Execute` dumps the subject at trace level, the rule
      executor and the access log write lines at debug / info), but only to write log lines: no other function of the
      model reads this field — that *is* the model of the code's behaviour, and the correspondence check varies the
      level to validate it -/
  logLevel   : LogLevel := .disabled
  /-- `serve.<service>.buffer_limit`. Only the admission of the request by the `net/http` server (`reachesChain`, `listen`)
      looks at it: the middleware chains, the request contexts (`Body()` reads the body to its end) and the pipeline
      do not — no other function of the model reads this field, and the correspondence check varies the limits
      (with bodies far longer than `read`) to validate that -/
  limits     : Limits := {}

def Cfg.pipeOf (cfg : Cfg) (key : String × String) : Pipe :=
  ((cfg.pipes.find? fun kv => kv.1 == key).map (·.2)).getD { authz := [], fins := [] }

/-- what a mechanism executed after the authenticator is shown -/
structure Seen where
  obj    : ReqObj
  stable : Bool          -- a second `ctx.Request()` returns the same object

/-- result of the rule execution, before `Finalize` -/
structure Ran where
  dec       : Dec
  isDefault : Bool := false
  seen      : Option Seen := none
  ctx       : Ctx

/-- the slash handling of the rule as `ruleImpl.Execute` applies it to the object it was handed -/
def prelude (esh : SlashHandling) (o : ReqObj) : ReqObj × Bool :=
  let o1 := if esh = .on then { o with url := { o.url with rawPath := [] } } else o
  if esh = .off && containsEncodedSlashL o1.url.rawPath then (o1, false)
  else ({ o1 with captures := o1.captures.map fun caps =>
            caps.map fun kv => (kv.1, (unescapeCapture esh (str kv.2)).toList) }, true)

/-- the mechanisms of the pipeline after the authenticator; each one calls `ctx.Request()` -/
def runPipe (F : Funcs) (pipe : Pipe) (isDefault : Bool) (c : Ctx) : Ran :=
  -- the `unauthorized` authenticator ends the pipeline before any other mechanism runs
  if !pipe.authn then { dec := .authentication, isDefault, ctx := c } else
  let o := c.current
  let seen : Seen := { obj := o, stable := c.caches }
  match runAuthz o F pipe.authz with
  | some d => { dec := d, isDefault, seen := some seen, ctx := c }
  | none =>
    if pipe.comm then { dec := .communication, isDefault, seen := some seen, ctx := c } else
    match runFins F pipe.fins c with
    | (c4, some d) => { dec := d, isDefault, seen := some seen, ctx := c4 }
    | (c4, none) => { dec := .ok, isDefault, seen := some seen, ctx := c4 }

def execute (cfg : Cfg) (F : Funcs) (c0 : Ctx) : Ran :=
  -- ruleExecutor.Execute: `request := ctx.Request()` (logging only)
  let c1 := (c0.withReq fun o => (o, ())).1
  -- repository.FindRule: `request := ctx.Request()`, lookup, `request.URL.Captures = entry.Parameters`
  let r2 := c1.withReq fun o =>
    match cfg.repo.findRule cfg.hasDefault o.toReqView with
    | .rule v ps => ({ o with captures := some (toBytesPairs (lastWins ps)) }, Found?.rule v ps)
    | f => (o, f)
  let c2 := r2.1
  match r2.2 with
  | .none => { dec := .norule, ctx := c2 }
  | .default =>
    -- ruleImpl.Execute of the default rule: `request := ctx.Request()`, slash handling `off`
    let r3 := c2.withReq (prelude .off)
    if !r3.2 then { dec := .argument, isDefault := true, ctx := r3.1 }
    else runPipe F cfg.defaultPipe true r3.1
  | .rule v _ =>
    -- ruleImpl.Execute: `request := ctx.Request()`, slash handling, decoding of the captures in place
    let r3 := c2.withReq (prelude v.esh)
    if !r3.2 then { dec := .argument, ctx := r3.1 }
    else runPipe F (cfg.pipeOf (v.src, v.rid)) false r3.1

/-- what the caller of the entry point observes -/
structure Outcome where
  dec       : Dec
  status    : Nat                      -- HTTP status of the answer (Envoy: of the denied response; 200 for OK)
  seen      : Option Seen
  upHeaders : List (Bytes × Bytes)     -- header name ↦ value handed to the upstream side
  upCookies : List (Bytes × Bytes)
  upSees    : List (Bytes × Bytes)     -- the headers the upstream application is shown (a Go map)
  upBody    : Bytes                    -- the payload the upstream application receives

/-- The headers the upstream application is shown: the header lines of the client, a header handed over by the
    pipeline *replacing* the lines of that name. This is `proxyReq.Out.Header.Set` on the clone of the incoming
    headers in the proxy service, what an API gateway does with the response headers of the decision service, and
    what Envoy does with the `OkHttpResponse.headers` options (`append` not set). -/
def overrideHeaders (client handed : List (Bytes × Bytes)) : List (Bytes × Bytes) :=
  handed ++ client.filter fun kv => !handed.any fun h => h.1 = kv.1

/-- the status of a positive answer: `respond.with.accepted.code` applies to the decision service; the proxy relays
    the answer of the upstream (200 here), Envoy is told OK -/
def okStatus (R : Respond) (ep : EP) : Nat := if ep = .decision then orDefault R.accepted 200 else 200

/-- `Finalize` of the three request contexts. The decision and the proxy service hand over the first value of
    each header (`uh.Get(k)`), the Envoy service all values joined by a comma; the proxy service needs an upstream,
    which the default rule does not have. The payload of an allowed request reaches the upstream application as the
    entry point holds it: the proxy service forwards the body of the request it was handed by its middleware chain
    (`httputil.ReverseProxy`), the API gateway in front of the decision service and the Envoy proxy forward the body
    they received themselves. -/
def finalize (R : Respond) (client : List (Bytes × Bytes)) (payload : Bytes) (ep : EP) (r : Ran) : Outcome :=
  let refused (d : Dec) : Outcome :=
    { dec := d, status := R.code d, seen := r.seen, upHeaders := [], upCookies := [], upSees := [], upBody := [] }
  match r.dec with
  | .ok =>
    if ep = .proxy && r.isDefault then refused .internal
    else
      let handed := r.ctx.ups.headers.map fun kv =>
        (kv.1, if ep = .envoy then join comma kv.2 else kv.2.head?.getD [])
      { dec := .ok, status := okStatus R ep, seen := r.seen, upHeaders := handed, upCookies := r.ctx.ups.cookies,
        upSees := overrideHeaders client handed, upBody := payload }
  | d => refused d

/-- the request context an entry point creates for the logical request, with its view functions;
    `none`: `net/http` rejects the request itself -/
structure Entry where
  ctx        : Ctx
  funcs      : Funcs
  headersMap : List (Bytes × Bytes)     -- `Request.Headers()`
  client     : List (Bytes × Bytes)     -- the header lines of the client as the entry point holds them
  payload    : Bytes                    -- the bytes of the request body as the entry point holds them

/-- The request context of an entry point whose services run with log level `level`. The HTTP based services build it
    from the request their middleware chain hands on (`dumpMiddleware`); the Envoy proxy keeps the body of the request
    it asks about and forwards that. -/
def mkCtx (I : Impl) (D : Decoder) (level : LogLevel) (packAsBytes : Bool) (ep : EP) (lr : LReq) : Option Entry :=
  match ep with
  | .envoy =>
    let c := toCheck packAsBytes lr
    some { ctx := { caches := I.cachesView, fresh := envoyObj I c }, funcs := envoyFuncs I D c,
           headersMap := envoyHeaders c, client := envoyHeaders c, payload := lr.body.getD [] }
  | _ => (toHTTP lr).map fun r0 =>
    let r := dumpMiddleware level r0
    { ctx := { caches := true, fresh := httpObj r }, funcs := httpFuncs D r, headersMap := httpHeadersMap r,
      client := (stripUntrusted r.header).map fun kv => (canonKey kv.1, join comma kv.2),
      payload := r.body.getD [] }

/-- one logical request through one entry point -/
def serve (I : Impl) (cfg : Cfg) (packAsBytes : Bool) (ep : EP) (lr : LReq) : Option Outcome :=
  (mkCtx I cfg.D cfg.logLevel packAsBytes ep lr).map fun e =>
    finalize cfg.respond e.client e.payload ep (execute cfg e.funcs e.ctx)

/-- one logical request sent to the listener of one entry point: `none` = the `net/http` server refuses the message
    because of the size of its head (431), otherwise what the handler chain answers (`serve`) -/
def listen (I : Impl) (cfg : Cfg) (packAsBytes : Bool) (ep : EP) (lr : LReq) : Option (Option Outcome) :=
  if reachesChain cfg.limits ep lr then some (serve I cfg packAsBytes ep lr) else none

/-! ## A trusted proxy in front of the HTTP decision service (`serve.decision.trusted_proxies`)

The HTTP decision service is made for gateways that *delegate* the decision (Traefik `forwardAuth`, NGINX
`auth_request`, …): the gateway sends a request of its own to the service and describes the request of the client — the
logical request — in `X-Forwarded-Method`, `X-Forwarded-Proto`, `X-Forwarded-Host` and `X-Forwarded-Uri`. The
`trustedproxy` middleware keeps these headers if the peer is one of the configured trusted proxies (and hands the
request on exactly as it came), `extractMethod` / `extractURL` of `requestcontext` then read the view from them. -/

/-- `http.Header.Get`: the first value stored under the (canonical) key, "" if there is none -/
def headerGet (h : List (Bytes × List Bytes)) (key : Bytes) : Bytes := ((lookup key h).getD []).head?.getD []

/-- a request target in origin form (`/…`, but not `//…`, which `url.Parse` reads as an authority): the domain on
    which `goParseRef` models `url.Parse` -/
def originForm (s : Bytes) : Bool := s.head? = some '/' && !(b!"//".isPrefixOf s)

/-- `url.Parse(ref)` for a reference in origin form: the fragment is cut off at the first `#`, the rest is parsed like
    a request target (`parse(…, viaRequest = false)` differs from `ParseRequestURI` in the treatment of a leading `//` and
    of references without a leading slash only: outside `originForm`) -/
def goParseRef (s : Bytes) : Option GoURL := goParseTarget (cut '#' s).1

/-- the `trustedproxy` middleware: headers of a peer that is no trusted proxy are removed, the request of a trusted
    one is handed on as it came -/
def trustedProxyMiddleware (trusted : Bool) (r : HttpReq) : HttpReq :=
  if trusted then r else { r with header := stripUntrusted r.header }

/-- `extractMethod` + `extractURL` on the request the middleware chain hands on: every `X-Forwarded-*` header that is
    present and not empty replaces the corresponding part of the carrier; the path of `X-Forwarded-Uri` is taken in
    the received spelling (`escapedPath`), its query as written; an empty raw path / query falls back to the carrier's -/
def httpObjFwd (r : HttpReq) : ReqObj :=
  let m := headerGet r.header b!"X-Forwarded-Method"
  let proto := headerGet r.header b!"X-Forwarded-Proto"
  let host := headerGet r.header b!"X-Forwarded-Host"
  let uri := headerGet r.header b!"X-Forwarded-Uri"
  let fwd : Bytes × Bytes :=
    if uri.isEmpty then ([], []) else
    match goParseRef uri with
    | some u => (httpEscapedPath u, u.rawQuery)
    | none => ([], [])
  let rawPath := if fwd.1.isEmpty then httpEscapedPath r.url else fwd.1
  { method := if m.isEmpty then r.method else m,
    url := { scheme := if proto.isEmpty then (if r.tls then b!"https" else b!"http") else proto,
             host := if host.isEmpty then r.host else host,
             path := unescapeOrEmpty rawPath, rawPath,
             rawQuery := if fwd.2.isEmpty then r.url.rawQuery else fwd.2 },
    captures := none }

/-- the view functions of the HTTP request context over the header map `h` the middleware chain hands on -/
def httpFuncsOn (D : Decoder) (r : HttpReq) (h : List (Bytes × List Bytes)) : Funcs :=
  { header := httpHeader r h,
    cookie := stdCookie ((lookup b!"Cookie" h).getD []),
    body := match r.body with
      | none => .raw []
      | some b => decodeBody D (httpHeader r h b!"Content-Type") b }

/-- How a gateway delegates the decision: the request it sends to the decision service has a method (`none`: the
    method of the client's request), a request target of its own (`/decide`, …) and travels over a transport of its own
    (TLS or not); the `Host` line, the other header lines and the body of the client's request are passed on. -/
structure Gateway where
  method : Option Bytes
  tls    : Bool
  path   : Bytes
deriving Repr

def fwdMethod : Bytes := b!"X-Forwarded-Method"
def fwdProto : Bytes := b!"X-Forwarded-Proto"
def fwdHost : Bytes := b!"X-Forwarded-Host"
def fwdUri : Bytes := b!"X-Forwarded-Uri"

/-- the HTTP message the gateway sends to the decision service for the logical request `lr` -/
def forwardAuth (g : Gateway) (lr : LReq) : LReq :=
  { method := g.method.getD lr.method, tls := g.tls, host := lr.host, rawPath := g.path, query := [],
    headers := (fwdMethod, lr.method) :: (fwdProto, lr.scheme) :: (fwdHost, lr.host) :: (fwdUri, lr.target) ::
      lr.headers,
    body := lr.body }

/-- the request context of the decision service for the message of a trusted gateway -/
def mkCtxFwd (D : Decoder) (level : LogLevel) (g : Gateway) (lr : LReq) : Option Entry :=
  (toHTTP (forwardAuth g lr)).map fun r0 =>
    let r := dumpMiddleware level (trustedProxyMiddleware true r0)
    { ctx := { caches := true, fresh := httpObjFwd r }, funcs := httpFuncsOn D r r.header,
      headersMap := (hostKey, r.host) :: r.header.map fun kv => (canonKey kv.1, join comma kv.2),
      client := r.header.map fun kv => (canonKey kv.1, join comma kv.2),
      payload := r.body.getD [] }

/-- one logical request delegated to the decision service by a trusted gateway -/
def serveFwd (cfg : Cfg) (g : Gateway) (lr : LReq) : Option Outcome :=
  (mkCtxFwd cfg.D cfg.logLevel g lr).map fun e =>
    finalize cfg.respond e.client e.payload .decision (execute cfg e.funcs e.ctx)

end Heimdall.EntryView
