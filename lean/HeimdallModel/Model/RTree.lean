import HeimdallModel.Model.Trie
/-!
# The routing tree (`internal/x/radixtree`) at byte level

`RTree V` mirrors the Go struct `radixtree.Tree[V]` field by field (the two position flags `isWildcard` /
`isCatchAll` are not stored: a node's kind is the link it hangs on; the structural correspondence run compares the
Go flags with the position).  Strings are byte strings; node paths are kept as `List Char`, wildcard names and
captured values as `String`.

* `findNode` / `find`   — `Tree.findNode` / `Tree.Find`
* `addNode` / `add`     — `Tree.addNode` (prefix splitting, `inStaticToken`, escapes, wildcard-key checks, priorities
                          and the re-ordering of static children) followed by the tail of `Tree.Add`
                          (values constraint, `WithBacktracking`, append)
* `delNode` / `delete`  — `Tree.delNode` with `deleteChild` (merging with a single grandchild, pruning)
* `clone`               — `Tree.Clone` (a deep copy; values are immutable here, so the identity)

The Go code updates the tree in place and leaves a partially updated tree behind when `Add` / `Delete` fail; callers
(the rule repository, the harness) only ever apply them to a clone that is thrown away on failure, so the model
returns no tree in that case.
-/
namespace Heimdall

structure RTree (V : Type) where
  path     : List Char
  priority : Nat
  statics  : List (Char × RTree V)
  wild     : Option (RTree V)
  catchAll : Option (RTree V)
  values   : List V
  keys     : List String
  bt       : Bool

namespace RTree

variable {V : Type}

/-- `radixtree.New` -/
def empty : RTree V := ⟨[], 0, [], none, none, [], [], false⟩

def notSlash (c : Char) : Bool := c != '/'

/-- `path[:nextSeparator(path)]` -/
def segOf (cs : List Char) : List Char := cs.takeWhile notSlash
/-- `path[nextSeparator(path):]` -/
def afterSeg (cs : List Char) : List Char := cs.dropWhile notSlash

theorem afterSeg_length_le (cs : List Char) : (afterSeg cs).length ≤ cs.length := by
  induction cs with
  | nil => simp [afterSeg]
  | cons c cs ih =>
    unfold afterSeg at *
    rw [List.dropWhile_cons]
    split
    · exact Nat.le_succ_of_le ih
    · exact Nat.le_refl _

/-- the loop over `n.values` in `findNode` -/
def tryValues (m : V → List String → List String → Bool) (values : List V) (keys caps : List String)
    (bt : Bool) : Res V :=
  match values.find? (fun v => m v keys caps) with
  | some v => (some ⟨v, keys, caps⟩, false)
  | none => (none, bt)

/-! ## lookup -/

/-- `found != nil → return …; !backtrack → return nil,false`: a decided result is final, otherwise go on -/
def thenTry (r : Res V) (k : Unit → Res V) : Res V := if done r then r else k ()

mutual
/-- `Tree.findNode`; the pair (node, index) of the Go result is replaced by the value and the node's keys
    (all `Tree.Find` reads through them) -/
def findNode (m : V → List String → List String → Bool) : RTree V → List Char → List String → Res V
  | ⟨_, _, _, _, _, values, keys, bt⟩, [], caps =>
    if values.isEmpty then (none, true) else tryValues m values keys caps bt
  | ⟨_, _, statics, wild, catchAll, _, _, _⟩, c :: cs, caps =>
    thenTry (findStatic m statics c (c :: cs) caps) fun _ =>
    thenTry (findWild m wild (c :: cs) caps) fun _ =>
    match catchAll with
    | none => (none, true)
    | some ca => tryValues m ca.values ca.keys (caps ++ [String.ofList (c :: cs)]) ca.bt
/-- the loop over `n.staticIndices`: the first child whose index is the first byte decides;
    `(none, true)` = go on with the wildcard child -/
def findStatic (m : V → List String → List String → Bool) :
    List (Char × RTree V) → Char → List Char → List String → Res V
  | [], _, _, _ => (none, true)
  | (i, ch) :: rest, c, cs, caps =>
    if i = c then
      if ch.path.isPrefixOf cs then findNode m ch (cs.drop ch.path.length) caps else (none, true)
    else findStatic m rest c cs caps
/-- `if n.wildcardChild != nil { … }`: the bytes up to the next `/` are captured, unless there are none -/
def findWild (m : V → List String → List String → Bool) :
    Option (RTree V) → List Char → List String → Res V
  | none, _, _ => (none, true)
  | some w, cs, caps =>
    if (segOf cs).isEmpty then (none, true)
    else findNode m w (afterSeg cs) (caps ++ [String.ofList (segOf cs)])
end

/-- `Tree.Find` -/
def find (m : V → List String → List String → Bool) (t : RTree V) (path : String) :
    Option (V × List (String × String)) :=
  match (findNode m t path.toList []).1 with
  | some f => some (f.value, paramsOf f.keys f.caps)
  | none => none

/-! ## Add -/

def commonPrefixLen : List Char → List Char → Nat
  | a :: as, b :: bs => if a = b then commonPrefixLen as bs + 1 else 0
  | _, _ => 0

/-- `splitCommonPrefix` applied to the child itself: the node that takes the child's place and the number of
    consumed bytes -/
def splitCommonPrefix (child : RTree V) (tok : List Char) : RTree V × Nat :=
  if child.path.isPrefixOf tok then (child, child.path.length)
  else
    let i := commonPrefixLen child.path tok
    match child.path.drop i with
    | [] => (child, child.path.length) -- unreachable: then the path would be a prefix
    | c :: r =>
      (⟨tok.take i, child.priority, [(c, { child with path := c :: r })], none, none, [], [], false⟩, i)

/-- first static edge with the given index: the edges before it, its child, the edges after it -/
def splitAtIdx : List (Char × RTree V) → Char → Option (List (Char × RTree V) × RTree V × List (Char × RTree V))
  | [], _ => none
  | (i, ch) :: rest, c =>
    if i = c then some ([], ch, rest)
    else match splitAtIdx rest c with
      | none => none
      | some (pre, x, post) => some ((i, ch) :: pre, x, post)

/-- `sortStaticChildren(i)`: `x` sits behind the (reversed) edges `revPre`; it moves in front of every directly
    preceding edge of strictly smaller priority -/
def bubble (x : Char × RTree V) : List (Char × RTree V) → List (Char × RTree V) → List (Char × RTree V)
  | [], post => x :: post
  | y :: revPre, post =>
    if x.2.priority > y.2.priority then bubble x revPre (y :: post)
    else (y :: revPre).reverse ++ x :: post

def isEscape (tok : List Char) : Bool :=
  match tok with
  | '\\' :: c :: _ => c = '*' || c = ':' || c = '\\'
  | _ => false

/-- `if len(n.values) == 0 { n.backtrackingEnabled = true }` -/
def touchBt (n : RTree V) : RTree V := if n.values.isEmpty then { n with bt := true } else n

/-- the end of `addNode` (`len(path) == 0`) followed by the tail of `Tree.Add` -/
def addLeaf (canAdd : List V → V → Bool) (v : V) (bt : Bool) (n : RTree V) (keys : List String) :
    Except AddErr (RTree V) :=
  if ¬ keys.isEmpty ∧ ¬ n.keys.isEmpty ∧ n.keys ≠ keys then .error .ambiguousKeys
  else if ¬ canAdd n.values v then .error .constraint
  else .ok { n with keys := if keys.isEmpty then n.keys else keys, bt := bt, values := n.values ++ [v] }

/-- the catch-all child `addNode` works on (created on demand with the given name) -/
def catchOf (n : RTree V) (name : List Char) : RTree V :=
  match n.catchAll with
  | some ca => ca
  | none => ⟨name, 0, [], none, none, [], [], false⟩

/-- `n` with its catch-all child replaced (`backtrackingEnabled` is touched when the child was created) -/
def setCatch (n ca' : RTree V) : RTree V :=
  match n.catchAll with
  | some _ => { n with catchAll := some ca' }
  | none => { touchBt n with catchAll := some ca' }

/-- `case '*'` of `addNode` (`path = '*' :: ptail`, reached with `!inStaticToken`) followed by the tail of
    `Tree.Add` on the catch-all child it returns -/
def addCatchAll (canAdd : List V → V → Bool) (v : V) (bt : Bool) (n : RTree V) (ptail : List Char)
    (keys : List String) : Except AddErr (RTree V) :=
  let ca := catchOf n (segOf ptail)
  let keys' := keys ++ [String.ofList (segOf ptail)]
  if ¬ (afterSeg ptail).isEmpty then .error .invalidPath
  else if ptail ≠ ca.path then .error .ambiguousKeys
  else if ¬ ca.keys.isEmpty ∧ ca.keys ≠ keys' then .error .ambiguousKeys
  else if ¬ canAdd ca.values v then .error .constraint
  else .ok (setCatch n { ca with keys := keys', bt := bt, values := ca.values ++ [v] })

/-- the wildcard child `addNode` descends into (created on demand) -/
def wildOf (n : RTree V) : RTree V :=
  match n.wild with
  | some w => w
  | none => ⟨"wildcard".toList, 0, [], none, none, [], [], false⟩

/-- `n` with its wildcard child replaced (`backtrackingEnabled` is touched when the child was created) -/
def setWild (n w' : RTree V) : RTree V :=
  match n.wild with
  | some _ => { n with wild := some w' }
  | none => { touchBt n with wild := some w' }

/-- the static token at the head of `token :: ptail`: its index byte, its text and the number of dropped bytes
    (1 for the backslash of an escaped `*`, `:` or `\` at the start of a token, else 0) -/
def staticTok (inStatic : Bool) (token : Char) (ptail : List Char) : Char × List Char × Nat :=
  let thisToken : List Char := if token = '/' then ['/'] else token :: segOf ptail
  if !inStatic && isEscape thisToken then ((thisToken.drop 1).headD token, thisToken.drop 1, 1)
  else (token, thisToken, 0)

/-- `remainingPath` -/
def remOf (token : Char) (ptail : List Char) : List Char := if token = '/' then ptail else afterSeg ptail

/-- `Tree.addNode` + the tail of `Tree.Add` applied to the node `addNode` returns.
    The recursion follows the Go code: into the wildcard child with the rest after the token, into the (possibly
    split) static child with the rest after the common prefix, into a fresh static child with the rest after the
    token.  Every step consumes at least one byte (for a static child because its index is the first byte of its
    path; a tree violating that makes the Go code loop, the model answers `invalidPath`). -/
def addNode (canAdd : List V → V → Bool) (v : V) (bt : Bool) (n : RTree V) (path : List Char)
    (keys : List String) (inStatic : Bool) : Except AddErr (RTree V) :=
  match path with
  | [] => addLeaf canAdd v bt n keys
  | token :: ptail =>
    if !inStatic && token = '*' then addCatchAll canAdd v bt n ptail keys
    else if !inStatic && token = ':' then
      match addNode canAdd v bt (wildOf n) (afterSeg ptail) (keys ++ [String.ofList (segOf ptail)]) false with
      | .error e => .error e
      | .ok w' => .ok (setWild n w')
    else
      let st := staticTok inStatic token ptail
      match splitAtIdx n.statics st.1 with
      | some (pre, child, post) =>
        let sp := splitCommonPrefix child st.2.1
        let child2 := { sp.1 with priority := sp.1.priority + 1 }
        let rest := (token :: ptail).drop (sp.2 + st.2.2)
        if _hs : ¬ rest.length < (token :: ptail).length then .error .invalidPath else
        match addNode canAdd v bt child2 rest keys (st.1 != '/') with
        | .error e => .error e
        | .ok child' => .ok { n with statics := bubble (st.1, child') pre.reverse post }
      | none =>
        match addNode canAdd v bt ⟨st.2.1, 0, [], none, none, [], [], false⟩ (remOf token ptail) keys
            (st.1 != '/') with
        | .error e => .error e
        | .ok child' => .ok { touchBt n with statics := n.statics ++ [(st.1, child')] }
termination_by path.length
decreasing_by
  · have := afterSeg_length_le ptail
    simp only [List.length_cons]; omega
  · exact Decidable.not_not.mp _hs
  · have := afterSeg_length_le ptail
    unfold remOf
    simp only [List.length_cons]; split <;> omega

/-- `Tree.Add(path, value, WithBacktracking(bt))` with the values constraint `canAdd` -/
def add (canAdd : List V → V → Bool) (t : RTree V) (expr : String) (v : V) (bt : Bool) :
    Except AddErr (RTree V) :=
  addNode canAdd v bt t expr.toList [] false

/-! ## Delete -/

/-- `delEdge` -/
def delEdge : List (Char × RTree V) → Char → List (Char × RTree V)
  | [], _ => []
  | (i, ch) :: rest, c => if i = c then rest else (i, ch) :: delEdge rest c

/-- in-place update of the child behind the first edge with index `c` -/
def setEdge : List (Char × RTree V) → Char → RTree V → List (Char × RTree V)
  | [], _, _ => []
  | (i, ch) :: rest, c, x => if i = c then (i, x) :: rest else (i, ch) :: setEdge rest c x

def hasNoChildren (t : RTree V) : Bool := t.statics.isEmpty && t.wild.isNone && t.catchAll.isNone

/-- the link of a node to one of its children -/
inductive Link where
  | static
  | wild
  | catchAll
deriving DecidableEq, Repr

/-- first half of `deleteChild`: a child with exactly one static edge, not a `/` edge, and a path other than `/`
    is replaced by that grandchild with the concatenated path -/
def mergeChild (child : RTree V) : RTree V × Bool :=
  match child.statics with
  | [(i, gc)] =>
    if i ≠ '/' ∧ child.path ≠ ['/'] then ({ gc with path := child.path ++ gc.path }, true) else (child, false)
  | _ => (child, false)

/-- `n.deleteChild(child, token)`, `child` (already updated by `delNode`) hanging on `link` -/
def deleteChild (n : RTree V) (link : Link) (child : RTree V) (token : Char) : RTree V :=
  let (c1, merged) := mergeChild child
  let n1 : RTree V := match link with
    | .static => { n with statics := setEdge n.statics token c1 }
    | .wild => { n with wild := some c1 }
    | .catchAll => { n with catchAll := some c1 }
  if merged && !c1.values.isEmpty then n1
  else if hasNoChildren c1 then
    match link, merged with
    | .wild, false => { n1 with wild := none }
    | .catchAll, false => { n1 with catchAll := none }
    | _, _ => { n1 with statics := delEdge n1.statics token }
  else n1

/-- `delNode` at the end of the path: drop the matching values; an emptied node forgets its wildcard names and
    allows backtracking; `none` when nothing was dropped -/
def delLeaf (p : V → Bool) (n : RTree V) : Option (RTree V) :=
  if n.values.isEmpty then none else
  let vs := n.values.filter (fun v => !p v)
  if vs.length = n.values.length then none
  else if vs.isEmpty then some { n with values := [], keys := [], bt := true }
  else some { n with values := vs }

/-- what `delNode` does with the updated child: `deleteChild` if it has no values left, else it stays -/
def finishChild (n : RTree V) (link : Link) (ch' : RTree V) (token : Char) : RTree V :=
  if ch'.values.isEmpty then deleteChild n link ch' token
  else match link with
    | .static => { n with statics := setEdge n.statics token ch' }
    | .wild => { n with wild := some ch' }
    | .catchAll => { n with catchAll := some ch' }

/-- the static token at the head of `token :: ptail` as `delNode` sees it: index byte and the path the child's
    path is compared with (without the backslash of an escaped `*`, `:` or `\\` at the start of a token) -/
def delTok (inStatic : Bool) (token : Char) (ptail : List Char) : Char × List Char :=
  if !inStatic && isEscape (token :: ptail) then (ptail.headD token, ptail) else (token, token :: ptail)

mutual
/-- `Tree.delNode`; `none` = `false` -/
def delNode (p : V → Bool) : RTree V → List Char → Bool → Option (RTree V)
  | n, [], _ => delLeaf p n
  | ⟨path, prio, statics, wild, catchAll, values, keys, bt⟩, token :: ptail, inStatic =>
    let n : RTree V := ⟨path, prio, statics, wild, catchAll, values, keys, bt⟩
    if !inStatic && token = ':' then
      (delWild p wild (afterSeg ptail)).map fun w' => finishChild n .wild w' token
    else if !inStatic && token = '*' then
      match catchAll with
      | none => none
      | some ca => (delLeaf p ca).map fun ca' => finishChild n .catchAll ca' token
    else
      (delStatic p statics (delTok inStatic token ptail).1 (delTok inStatic token ptail).2).map fun ch' =>
        finishChild n .static ch' (delTok inStatic token ptail).1
/-- the loop over `n.staticIndices` in `delNode`: the updated child behind the first edge with index `c` -/
def delStatic (p : V → Bool) : List (Char × RTree V) → Char → List Char → Option (RTree V)
  | [], _, _ => none
  | (i, ch) :: rest, c, cs =>
    if i = c then
      if ch.path.isPrefixOf cs then delNode p ch (cs.drop ch.path.length) (c != '/') else none
    else delStatic p rest c cs
/-- `case ':'` of `delNode`: into the wildcard child with whatever follows the token -/
def delWild (p : V → Bool) : Option (RTree V) → List Char → Option (RTree V)
  | none, _ => none
  | some w, cs => delNode p w cs false
end

/-- `Tree.Delete(path, matcher)`; `none` = `ErrFailedToDelete` -/
def delete (t : RTree V) (expr : String) (p : V → Bool) : Option (RTree V) := delNode p t expr.toList false

/-- `Tree.Clone`: a deep copy of a value that is never mutated -/
def clone (t : RTree V) : RTree V := t

/-- `Tree.Empty` -/
def isEmpty (t : RTree V) : Bool := t.values.isEmpty && hasNoChildren t

end RTree
end Heimdall
