import HeimdallModel.Model.ProxyFwd
/-!
# C15 — what the property demands of a forwarded request

The specification speaks about the client's request, the rule's `forward_to` configuration and what the pipeline
produced on one side, and about what the upstream reads on the other.  It uses the vocabulary of `net/url` and of HTTP
header maps (percent-decoding, canonical header names, the values of a name) but none of heimdall's functions.

Every clause is an executable check `Case → UpReq → Bool` guarded by an explicit applicability condition, so that the
same definitions are (i) the statements proved about the model in `Props/C15.lean` and (ii) the oracle the check
evaluates on what the real upstream test server received.
-/
namespace Heimdall.ProxyFwd.Spec
open Heimdall Heimdall.ProxyFwd

/-- the client's header lines under their canonical names -/
def clientHeaders (c : Case) : Hdrs := canonHeaders c.req.headers

def peerTrusted (c : Case) : Bool := isTrusted c.trusted c.req.peer

/-- forwarding headers are believed only when they come from a trusted peer -/
def believed (c : Case) (k : Bytes) : List Bytes := if peerTrusted c then values (clientHeaders c) k else []

def firstOr (vs : List Bytes) (d : Bytes) : Bytes :=
  match vs with
  | v :: _ => if v ≠ [] then v else d
  | [] => d

/-! ## Original URL -/

/-- no trusted peer asks heimdall to look at another URL than the one of the request line -/
def plainUrl (c : Case) : Bool := believed c hXFUri = []

def origRawPath (c : Case) : Bytes := before '?' c.req.target
def origQuery (c : Case) : Bytes := after '?' c.req.target
def origScheme (c : Case) : Bytes := firstOr (believed c hXFProto) b!"http"

/-- the request line is one heimdall gets to see at all -/
def wellFormed (c : Case) : Bool := modelledTarget c.req.target && (pathUnescapeL (origRawPath c)).isSome

/-- The spelling of the original path that is forwarded.  It is the client's own spelling whenever that is a valid
encoding and the rule does not ask for decoding (`allow_encoded_slashes: on`); otherwise it is the canonical encoding
of the decoded path. -/
def seenPath (c : Case) : Bytes :=
  if c.rule.slashes ≠ .on && validEncodedPath (origRawPath c) then origRawPath c
  else escapePath ((pathUnescapeL (origRawPath c)).getD [])

/-- strip the configured prefix, then add the configured prefix -/
def rewrittenPath (c : Case) : Bytes :=
  match c.rule.rewrite with
  | none => seenPath c
  | some r => r.add ++ cutPrefix r.strip (seenPath c)

def expectedPath (c : Case) : Bytes := orSlash (rewrittenPath c)

def addPrefix (c : Case) : Bytes := (c.rule.rewrite.map (·.add)).getD []

/-- the prefix to add can be decoded -/
def addDecodable (c : Case) : Bool := (pathUnescapeL (addPrefix c)).isSome

/-- the prefix to add is itself properly encoded (with `allow_encoded_slashes: on`: in canonical encoding) -/
def addEncoded (c : Case) : Bool :=
  addDecodable c &&
  (addPrefix c).all (if c.rule.slashes = .on then fun ch => ch = '%' || !shouldEscapePath ch else validPathChar)

def stripNames (c : Case) : List Bytes := (c.rule.rewrite.map (·.stripQ)).getD []

/-- the raw pair `name=value` carries a listed name -/
def named (names : List Bytes) (pair : Bytes) : Bool :=
  match queryUnescape (before '=' pair) with
  | some k => names.contains k
  | none => false

/-- the non-empty `&`-separated pieces of a query, as written -/
def queryPairs (q : Bytes) : List Bytes := (splitOn '&' q).filter (· ≠ [])

def expectedScheme (c : Case) : Bytes :=
  match c.rule.rewrite with
  | some r => if r.scheme ≠ [] then r.scheme else origScheme c
  | none => origScheme c

def expectedMethod (c : Case) : Bytes := firstOr (believed c hXFMethod) c.req.method

/-! ## Headers -/

/-- first value the pipeline produced under the canonical name `k` -/
def pipeValue (c : Case) (k : Bytes) : Option Bytes :=
  ((c.pipe.headers.filter fun x => canonicalKey x.1 = k).head?).map (·.2)

def priorFor (c : Case) : Bytes := commaJoin (believed c hXFFor)
def priorForwarded (c : Case) : Bytes := commaJoin (believed c hForwarded)

/-- a trusted peer used the `X-Forwarded-*` family, so that family is continued; otherwise `Forwarded` is -/
def xFamily (c : Case) : Bool :=
  priorFor c ≠ [] || firstOr (believed c hXFProto) [] ≠ [] || firstOr (believed c hXFHost) [] ≠ []

/-- names heimdall itself writes after the pipeline's headers for this request -/
def continued (c : Case) (k : Bytes) : Bool :=
  if xFamily c then k = hXFFor || k = hXFProto || k = hXFHost else k = hForwarded


def expectedHost (c : Case) : Bytes := firstOr ((pipeValue c hHost).toList) c.rule.host

def extend (prior elem : Bytes) : Bytes := if prior = [] then elem else prior ++ b!", " ++ elem

/-- header names whose lines are written by Go's HTTP client itself -/
def transportOwned (k : Bytes) : Bool :=
  k = hHost || k = hUserAgent || k = hAcceptEncoding || k = b!"Content-Length" || k = b!"Transfer-Encoding" ||
  k = b!"Trailer"

/-- The values the upstream must read under header name `k`; `none`: this specification leaves the name alone
(lines owned by the HTTP client library; `Cookie` when the pipeline produced cookies). -/
def expectedValues (c : Case) (k : Bytes) : Option (List Bytes) :=
  if transportOwned k then none
  else if xFamily c && k = hXFFor then some [extend (priorFor c) c.req.peer]
  else if xFamily c && k = hXFProto then some [firstOr (believed c hXFProto) b!"http"]
  else if xFamily c && k = hXFHost then some [firstOr (believed c hXFHost) c.req.host]
  else if !xFamily c && k = hForwarded then
    some [extend (priorForwarded c) (forwardedElem c.req.peer c.req.host)]
  else if k = hCookie && c.pipe.cookies ≠ [] then none
  else match pipeValue c k with
    | some v => some [v]
    | none => if untrustedHeaders.contains k then some [] else some (values (clientHeaders c) k)

/-- every header name that occurs anywhere in the case or in what was observed, and the names heimdall handles -/
def namesOf (c : Case) (up : UpReq) : List Bytes :=
  (clientHeaders c).map (·.1) ++ c.pipe.headers.map (fun x => canonicalKey x.1) ++ up.headers.map (·.1) ++
    untrustedHeaders

/-! ## The clauses -/

structure Clause where
  name : String
  /-- the clause says something about this case -/
  applies : Case → Bool
  /-- … namely this, about a forwarded request -/
  holds : Case → UpReq → Bool

def clauses : List Clause := [
  { name := "host: sent to forward_to.host, Host header from the pipeline or forward_to.host",
    applies := fun _ => true,
    holds := fun c up => up.host = expectedHost c },
  { name := "path: exactly the original spelling with strip_path_prefix removed and add_path_prefix added",
    applies := fun c => plainUrl c && addEncoded c,
    holds := fun c up => up.path = expectedPath c },
  { name := "path: decoding once what is sent gives the decoded rewritten path (no double encoding)",
    applies := fun c => plainUrl c && addDecodable c,
    holds := fun c up => pathUnescapeL up.path = pathUnescapeL (expectedPath c) && (pathUnescapeL up.path).isSome },
  { name := "query: untouched without strip_query_parameters",
    applies := fun c => plainUrl c && stripNames c = [],
    holds := fun c up => up.query = origQuery c },
  { name := "query: exactly the listed parameters removed, everything else as written and in order",
    applies := fun c => plainUrl c,
    holds := fun c up => queryPairs up.query = (queryPairs (origQuery c)).filter (fun p => !named (stripNames c) p) },
  { name := "query: no listed parameter reaches the upstream in any spelling, the others keep values and order (as url.ParseQuery reads them)",
    applies := fun c => plainUrl c,
    holds := fun c up => parseQueryPairs up.query =
      (parseQueryPairs (origQuery c)).filter (fun kv => !(stripNames c).contains kv.1) },
  { name := "method and body untouched",
    applies := fun _ => true,
    holds := fun c up => up.method = expectedMethod c && up.body = c.req.body },
  { name := "headers: pipeline wins, X-Forwarded-Method/-Uri/-Path not passed, X-Forwarded-For/Forwarded extended, rest as sent",
    applies := fun _ => true,
    holds := fun c up => (namesOf c up).all fun k =>
      match expectedValues c k with
      | some vs => values up.headers k = vs
      | none => true }]

/-- requests that must reach the upstream -/
def mustForward (c : Case) : Bool :=
  wellFormed c && plainUrl c && !(c.rule.slashes = .off && containsEncodedSlashL (seenPath c)) &&
  (expectedScheme c = b!"http" || expectedScheme c = b!"https")

/-- requests that must be refused because of an encoded slash -/
def mustRefuse (c : Case) : Bool :=
  wellFormed c && plainUrl c && c.rule.slashes = .off && containsEncodedSlashL (seenPath c)

/-- names of the clauses the outcome violates -/
def violations (c : Case) : Outcome → List String
  | .unmodelled => []
  | .rejected st =>
    (if mustForward c then ["accepted: a well-formed request the rule allows is forwarded"] else []) ++
    (if mustRefuse c && st ≠ 400 then ["refused: an encoded slash is answered with 400 when the rule says off"] else [])
  | .forwarded tls dial up =>
    (if mustRefuse c then ["refused: an encoded slash is answered with 400 when the rule says off"] else []) ++
    (if dial ≠ c.rule.host then ["host: sent to forward_to.host"] else []) ++
    (if tls ≠ (expectedScheme c = b!"https") then ["scheme: original scheme unless rewritten"] else []) ++
    (clauses.filter fun cl => cl.applies c && !cl.holds c up).map (·.name)

/-- names of the clauses that say something about this case (for the evidence) -/
def applicable (c : Case) : Outcome → List String
  | .forwarded _ _ _ => (clauses.filter fun cl => cl.applies c).map (·.name)
  | .rejected _ => if mustRefuse c then ["refused"] else if mustForward c then ["accepted"] else ["rejected-other"]
  | .unmodelled => []

end Heimdall.ProxyFwd.Spec
