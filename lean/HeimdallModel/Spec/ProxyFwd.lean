import HeimdallModel.Model.ProxyFwd
/-!
# C15 — what the property demands of a forwarded request

The specification speaks about the client's request, the rule's `forward_to` configuration and what the pipeline
produced on one side, and about what the upstream reads on the other.  It uses the vocabulary of `net/url` and of HTTP
header maps (percent-decoding, canonical header names, the values of a name, the comma separated elements of a value)
but none of heimdall's functions.

Every clause is an executable check `Case → UpReq → Bool` guarded by an explicit applicability condition, so that the
same definitions are (i) the statements proved about the model in `Props/C15.lean` and (ii) the oracle the check
evaluates on what the real upstream test server received.
-/
namespace Heimdall.ProxyFwd.Spec
open Heimdall Heimdall.ProxyFwd

/-- the client's header lines under their canonical names -/
def clientHeaders (c : Case) : Hdrs := canonHeaders c.req.headers

def peerTrusted (c : Case) : Bool := isTrusted c.trusted c.req.peer

/-- forwarding headers are believed only when they come from a trusted peer -/
def believed (c : Case) (k : Bytes) : List Bytes := if peerTrusted c then values (clientHeaders c) k else []

def firstOr (vs : List Bytes) (d : Bytes) : Bytes :=
  match vs with
  | v :: _ => if v ≠ [] then v else d
  | [] => d

/-! ## Original URL -/

/-- the URI a trusted proxy says the request was made for (`X-Forwarded-Uri`), if any -/
def believedUri (c : Case) : Bytes := firstOr (believed c hXFUri) []

/-- that URI is used when its path can be decoded; otherwise the request line counts -/
def usesForwardedUri (c : Case) : Bool :=
  believedUri c ≠ [] && (pathUnescapeL (before '?' (believedUri c))).isSome

/-- the original request target -/
def origTarget (c : Case) : Bytes := if usesForwardedUri c then believedUri c else c.req.target

def origRawPath (c : Case) : Bytes := before '?' (origTarget c)

/-- the original query: the one of the forwarded URI when that URI has one, else the one of the request line -/
def origQuery (c : Case) : Bytes :=
  if after '?' (origTarget c) ≠ [] then after '?' (origTarget c) else after '?' c.req.target

/-- the scheme the request arrived with: what a trusted proxy says, else the listener's -/
def origScheme (c : Case) : Bytes := firstOr (believed c hXFProto) (listenerProto c.req.tls)

/-- the request is one heimdall gets to see at all, and lies in the modelled input space (origin form) -/
def wellFormed (c : Case) : Bool :=
  modelledTarget c.req.target && (pathUnescapeL (before '?' c.req.target)).isSome &&
  (believedUri c = [] || modelledForwardedUri (believedUri c))

/-- The spelling of the original path that is forwarded, unit by unit: every `%XX` of the client stays as written and
every octet that may stand in a path stays; an octet that may not (`"`, `<`, `|`, non-ASCII …) is percent-encoded.  Only
when the rule asks for decoding (`allow_encoded_slashes: on`) it is the canonical encoding of the decoded path. -/
def seenPath (c : Case) : Bytes :=
  if c.rule.slashes ≠ .on then escapeInvalid (origRawPath c)
  else escapePath ((pathUnescapeL (origRawPath c)).getD [])

/-- strip the configured prefix, then add the configured prefix -/
def rewrittenPath (c : Case) : Bytes :=
  match c.rule.rewrite with
  | none => seenPath c
  | some r => r.add ++ cutPrefix r.strip (seenPath c)

def expectedPath (c : Case) : Bytes := orSlash (rewrittenPath c)

def addPrefix (c : Case) : Bytes := (c.rule.rewrite.map (·.add)).getD []
def stripPrefix (c : Case) : Bytes := (c.rule.rewrite.map (·.strip)).getD []

/-- the prefix to add can be decoded -/
def addDecodable (c : Case) : Bool := (pathUnescapeL (addPrefix c)).isSome

/-- the prefix to add is itself properly encoded (with `allow_encoded_slashes: on`: in canonical encoding) -/
def addEncoded (c : Case) : Bool :=
  addDecodable c &&
  (addPrefix c).all (if c.rule.slashes = .on then fun ch => ch = '%' || !shouldEscapePath ch else validPathChar)

def stripNames (c : Case) : List Bytes := (c.rule.rewrite.map (·.stripQ)).getD []

/-- the raw piece `name=value` carries a listed name -/
def named (names : List Bytes) (pair : Bytes) : Bool :=
  match queryUnescape (before '=' pair) with
  | some k => names.contains k
  | none => false

/-- the pieces of the original query that stay -/
def keptPieces (c : Case) : List Bytes := (splitOn '&' (origQuery c)).filter (fun p => !named (stripNames c) p)

def expectedScheme (c : Case) : Bytes :=
  match c.rule.rewrite with
  | some r => if r.scheme ≠ [] then r.scheme else origScheme c
  | none => origScheme c

def expectedMethod (c : Case) : Bytes := firstOr (believed c hXFMethod) c.req.method

/-! ## Headers -/

/-- all values the pipeline produced under the canonical name `k`, in order -/
def pipeValues (c : Case) (k : Bytes) : List Bytes :=
  (c.pipe.headers.filter fun x => canonicalKey x.1 = k).map (·.2)

/-- the pipeline produced at most one value under every name -/
def pipeSingleValued (c : Case) : Bool := c.pipe.headers.all fun x => (pipeValues c (canonicalKey x.1)).length ≤ 1

def priorFor (c : Case) : Bytes := commaJoin (believed c hXFFor)
def priorForwarded (c : Case) : Bytes := commaJoin (believed c hForwarded)

/-- a trusted peer used the `X-Forwarded-*` family, so that family is continued; otherwise `Forwarded` is -/
def xFamily (c : Case) : Bool :=
  priorFor c ≠ [] || firstOr (believed c hXFProto) [] ≠ [] || firstOr (believed c hXFHost) [] ≠ []

/-- the forwarding header heimdall continues for this request -/
def continuedName (c : Case) : Bytes := if xFamily c then hXFFor else hForwarded

/-- names heimdall itself writes after the pipeline's headers for this request -/
def continued (c : Case) (k : Bytes) : Bool :=
  if xFamily c then k = hXFFor || k = hXFProto || k = hXFHost else k = hForwarded

def expectedHost (c : Case) : Bytes := firstOr (pipeValues c hHost) c.rule.host

/-- elements of a list-valued header received so far -/
def priorElems (prior : Bytes) : List Bytes := if prior = [] then [] else listElems prior

/-- the address of the peer and the `Host` of the request can stand in a list-valued header as they are -/
def addrSafe (c : Case) : Bool :=
  (c.req.peer ++ c.req.host).all fun ch => ch ≠ ',' && ch ≠ ';' && ch ≠ ' ' && ch ≠ '\t' && ch ≠ '"'

/-- `X-Forwarded-For` resp. `Forwarded` is extended by the peer address: one line, whose elements are the elements
received from a trusted peer followed by one element that names the peer (`<peer>` resp. `…for=<peer>…`) -/
def extendedByPeer (c : Case) (up : UpReq) : Bool :=
  match values up.headers (continuedName c) with
  | [v] =>
    if xFamily c then listElems v = priorElems (priorFor c) ++ [c.req.peer]
    else
      (listElems v).dropLast = priorElems (priorForwarded c) &&
      match (listElems v).getLast? with
      | some e => ((splitOn ';' e).map trimOWS).contains (b!"for=" ++ c.req.peer)
      | none => false
  | _ => false

/-- header names whose lines are written by Go's HTTP client itself from other sources -/
def transportOwned (k : Bytes) : Bool :=
  k = hHost || k = b!"Content-Length" || k = b!"Transfer-Encoding" || k = b!"Trailer"

/-- hop-by-hop for this request (RFC 7230 6.1): the standard names and every name the client lists in `Connection` -/
def hopByHop (c : Case) (k : Bytes) : Bool := isHop (clientHeaders c) k

/-- what the client sent under `k` and is meant for the upstream: nothing for hop-by-hop and forwarding headers -/
def endToEnd (c : Case) (k : Bytes) : List Bytes :=
  if hopByHop c k || untrustedHeaders.contains k then [] else values (clientHeaders c) k

/-- The values the upstream must read under header name `k`; `none`: this specification leaves the name alone
(lines owned by the HTTP client library; the continued forwarding header, see `extendedByPeer`; `Cookie` when the
pipeline produced cookies; `Te`, `Connection`, `Upgrade`, which the proxy library manages). -/
def expectedValues (c : Case) (k : Bytes) : Option (List Bytes) :=
  if transportOwned k || k = continuedName c || k = hTe || k = hConnection || k = hUpgrade then none
  else if xFamily c && k = hXFProto then some [firstOr (believed c hXFProto) (listenerProto c.req.tls)]
  else if xFamily c && k = hXFHost then some [firstOr (believed c hXFHost) c.req.host]
  else if k = hCookie && c.pipe.cookies ≠ [] then none
  else if k = hUserAgent then
    -- written from its first value, and only if that is not empty
    some (match (if pipeValues c k ≠ [] then pipeValues c k else endToEnd c k) with
      | v :: _ => if v = [] then [] else [v]
      | [] => [])
  else if k = hAcceptEncoding then
    -- the HTTP client adds its own line when the request does not name an encoding
    (match (if pipeValues c k ≠ [] then pipeValues c k else endToEnd c k) with
      | v :: rest => if v = [] then none else some (v :: rest)
      | [] => none)
  else if pipeValues c k ≠ [] then some (pipeValues c k)
  else some (endToEnd c k)

/-- every header name that occurs anywhere in the case or in what was observed, and the names heimdall handles -/
def namesOf (c : Case) (up : UpReq) : List Bytes :=
  (clientHeaders c).map (·.1) ++ c.pipe.headers.map (fun x => canonicalKey x.1) ++ up.headers.map (·.1) ++
    untrustedHeaders ++ connectionNamed (clientHeaders c) ++ hopHeaders

/-- `k` is a name under which the pipeline produced more than one value -/
def repeatedPipeName (c : Case) (k : Bytes) : Bool := (pipeValues c k).length ≥ 2

/-- `k` is the forwarding header heimdall continues and the pipeline produced it as well -/
def pipeContinued (c : Case) (k : Bytes) : Bool := continued c k && pipeValues c k ≠ []

/-- a header value as the upstream reads it: surrounding blanks and tabs are not part of a field value (RFC 7230 3.2.4) -/
def asRead (vs : List Bytes) : List Bytes := vs.map trimOWS

def headerOK (c : Case) (up : UpReq) (k : Bytes) : Bool :=
  match expectedValues c k with
  | some vs => values up.headers k = asRead vs
  | none => true

/-- `k` is a name the pipeline produced a header for and under which the upstream therefore reads nothing but what
the pipeline produced.  Left out: the lines owned by the HTTP client library, the forwarding headers heimdall continues
(`devContinued`), `Te`/`Connection`/`Upgrade`, which the proxy library manages, and `Cookie` when the pipeline produced
cookies as well (they are appended). -/
def pipelineOwned (c : Case) (k : Bytes) : Bool :=
  pipeValues c k ≠ [] && !transportOwned k && !continued c k && k ≠ hTe && k ≠ hConnection && k ≠ hUpgrade &&
  !(k = hCookie && c.pipe.cookies ≠ [])

/-- **Nothing the client sent under `k` reaches the upstream**: every value the upstream reads under `k` is one the
pipeline produced under that name — whatever it rendered to, the empty value included — or, for `Accept-Encoding`, the
line the HTTP client adds itself.  This is the property's sentence "every header produced by the pipeline replaces any
same-named header sent by the client" read as a safety statement; it does not depend on how many values the pipeline
produced. -/
def clientReplaced (c : Case) (up : UpReq) (k : Bytes) : Bool :=
  (values up.headers k).all fun w => (asRead (pipeValues c k)).contains w || (k = hAcceptEncoding && w = b!"gzip")

/-! ## The clauses -/

def devRepeated : String := "known-deviation: every value the pipeline produced under one name is forwarded"
def devContinued : String :=
  "known-deviation: a header the pipeline produced under the name of the continued forwarding header is forwarded"
def devHost : String :=
  "known-deviation: X-Forwarded-For / Forwarded extended by the peer address whatever the Host of the request contains"

/-- the clauses the implementation is known not to meet (recorded findings, `design/C15.md`) -/
def deviations : List String := [devRepeated, devContinued, devHost]

structure Clause where
  name : String
  /-- the clause says something about this case -/
  applies : Case → Bool
  /-- … namely this, about a forwarded request -/
  holds : Case → UpReq → Bool

def clauses : List Clause := [
  { name := "host: Host header from the pipeline or forward_to.host",
    applies := fun _ => true,
    holds := fun c up => up.host = expectedHost c },
  { name := "path: exactly the original spelling with strip_path_prefix removed and add_path_prefix added",
    applies := fun c => addEncoded c,
    holds := fun c up => up.path = expectedPath c },
  { name := "path: decoding once what is sent gives the decoded rewritten path (no double encoding)",
    applies := fun c => addDecodable c,
    holds := fun c up => pathUnescapeL up.path = pathUnescapeL (expectedPath c) && (pathUnescapeL up.path).isSome },
  { name := "path: an encoded slash of the original path stays encoded unless the rule says on",
    applies := fun c => addEncoded c && c.rule.slashes ≠ .on && stripPrefix c = [] && containsEncodedSlashL (origRawPath c),
    holds := fun _ up => containsEncodedSlashL up.path },
  { name := "query: untouched without strip_query_parameters",
    applies := fun c => stripNames c = [],
    holds := fun c up => up.query = origQuery c },
  { name := "query: exactly the listed parameters removed, every other piece as written and in order",
    applies := fun _ => true,
    holds := fun c up => if keptPieces c = [] then up.query = [] else splitOn '&' up.query = keptPieces c },
  { name := "query: no listed parameter reaches the upstream in any spelling, the others keep values and order (as url.ParseQuery reads them)",
    applies := fun _ => true,
    holds := fun c up => parseQueryPairs up.query =
      (parseQueryPairs (origQuery c)).filter (fun kv => !(stripNames c).contains kv.1) },
  { name := "method and body untouched",
    applies := fun _ => true,
    holds := fun c up => up.method = expectedMethod c && up.body = c.req.body },
  { name := "headers: X-Forwarded-For / Forwarded extended by the peer address",
    applies := fun c => addrSafe c,
    holds := fun c up => extendedByPeer c up },
  { name := "headers: pipeline wins, X-Forwarded-Method/-Uri/-Path and hop-by-hop headers not passed, rest as sent",
    applies := fun _ => true,
    holds := fun c up => (namesOf c up).all fun k => repeatedPipeName c k || pipeContinued c k || headerOK c up k },
  { name := "headers: no value the client sent reaches the upstream under a name the pipeline produced, whatever the pipeline rendered",
    applies := fun _ => true,
    holds := fun c up => (namesOf c up).all fun k => !pipelineOwned c k || clientReplaced c up k },
  { name := devRepeated,
    applies := fun _ => true,
    holds := fun c up => (namesOf c up).all fun k => !repeatedPipeName c k || pipeContinued c k || headerOK c up k },
  { name := devContinued,
    applies := fun _ => true,
    holds := fun c up => (namesOf c up).all fun k => !pipeContinued c k || values up.headers k = asRead (pipeValues c k) },
  { name := devHost,
    applies := fun c => !addrSafe c,
    holds := fun c up => extendedByPeer c up }]

/-- the pipeline did not produce a header under the name of a forwarding header heimdall continues -/
def pipeAvoidsContinued (c : Case) : Bool := untrustedHeaders.all fun k => !pipeContinued c k

/-- requests that must reach the upstream -/
def mustForward (c : Case) : Bool :=
  wellFormed c && !(c.rule.slashes = .off && containsEncodedSlashL (origRawPath c)) &&
  (expectedScheme c = b!"http" || expectedScheme c = b!"https")

/-- requests that must be refused because of an encoded slash -/
def mustRefuse (c : Case) : Bool :=
  wellFormed c && c.rule.slashes = .off && containsEncodedSlashL (origRawPath c)

/-- names of the clauses the outcome violates -/
def violations (c : Case) : Outcome → List String
  | .unmodelled => []
  | .rejected st =>
    (if mustForward c then ["accepted: a well-formed request the rule allows is forwarded"] else []) ++
    (if mustRefuse c && st ≠ 400 then ["refused: an encoded slash is answered with 400 when the rule says off"] else [])
  | .forwarded tls dial up =>
    (if mustRefuse c then ["refused: an encoded slash is answered with 400 when the rule says off"] else []) ++
    (if dial ≠ c.rule.host then ["host: sent to forward_to.host"] else []) ++
    (if tls != decide (expectedScheme c = b!"https") then ["scheme: original scheme unless rewritten"] else []) ++
    (clauses.filter fun cl => cl.applies c && !cl.holds c up).map (·.name)

/-- names of the clauses that say something about this case (for the evidence) -/
def applicable (c : Case) : Outcome → List String
  | .forwarded _ _ _ => (clauses.filter fun cl => cl.applies c).map (·.name)
  | .rejected _ => if mustRefuse c then ["refused"] else if mustForward c then ["accepted"] else ["rejected-other"]
  | .unmodelled => []

end Heimdall.ProxyFwd.Spec
