import HeimdallModel.Gen.ConfigSchema
/-!
# C20, schema part: what the JSON schema applied to the configuration file accepts, what the loader supports

The tables of `Gen/ConfigSchema.lean` are regenerated from `schema/config.schema.json`, the mechanism registries and
the `koanf` tags of `internal/config` on every run. A configuration is usable from the environment when the loader
supports what it uses; it is usable from a file when in addition the schema accepts it. The property demands that the
schema accepts exactly what the loader supports.
-/
namespace Heimdall.Config.Schema
open Heimdall.Gen.ConfigSchema

/-- the file validation accepts a mechanism (or cache) of this category and type -/
def schemaAcceptsType (cat typ : String) : Bool := schemaMechTypes.contains (cat, typ)

/-- a factory is registered for this category and type -/
def loaderSupportsType (cat typ : String) : Bool := loaderMechTypes.contains (cat, typ)

def row? (path : String) : Option (String × Bool × List String × List String) :=
  optionTable.find? (fun r => r.1 == path)

/-- the schema names `key` as a property of the struct at `path` -/
def schemaNamesOption (path key : String) : Bool :=
  match row? path with
  | some r => r.2.2.1.contains key
  | none => false

/-- the file validation lets `key` pass at `path` (named, or the schema does not restrict names there) -/
def schemaAcceptsOption (path key : String) : Bool :=
  match row? path with
  | some r => !r.2.1 || r.2.2.1.contains key
  | none => false

/-- the loader reads `key` into the struct at `path` -/
def loaderReadsOption (path key : String) : Bool :=
  match row? path with
  | some r => r.2.2.2.contains key
  | none => false

/-- the generated tables agree: same mechanism types; every property the schema names is read by the loader;
    every property the loader reads passes the schema -/
def tablesAgree : Bool :=
  schemaMechTypes.all (fun t => loaderMechTypes.contains t)
  && loaderMechTypes.all (fun t => schemaMechTypes.contains t)
  && optionTable.all (fun r =>
      r.2.2.1.all (fun k => r.2.2.2.contains k) && r.2.2.2.all (fun k => !r.2.1 || r.2.2.1.contains k))

/-! ## options inside a mechanism's `config` (measured table)

`mechOptionTable` is measured on the running code on every check run: per mechanism type and place below its `config`,
which option names the real file validation lets pass and which names the real type factory reads (the factory refuses
every other name when the mechanism is created, whatever source the configuration came from). -/

abbrev MechRow := String × String × String × Bool × List String × Bool × List String

namespace MechRow
def cat (r : MechRow) : String := r.1
def typ (r : MechRow) : String := r.2.1
def place (r : MechRow) : String := r.2.2.1
/-- the file validation refuses names it does not list at this place -/
def schemaClosed (r : MechRow) : Bool := r.2.2.2.1
def schemaNames (r : MechRow) : List String := r.2.2.2.2.1
/-- the type factory refuses names it does not read at this place; `false`: it takes no notice of what stands there -/
def loaderClosed (r : MechRow) : Bool := r.2.2.2.2.2.1
def loaderNames (r : MechRow) : List String := r.2.2.2.2.2.2

/-- the file validation lets the option name pass -/
def schemaAccepts (r : MechRow) (key : String) : Bool := !r.schemaClosed || r.schemaNames.contains key
/-- the type factory reads the option -/
def loaderReads (r : MechRow) (key : String) : Bool := r.loaderClosed && r.loaderNames.contains key
/-- the type factory refuses the name (the mechanism is not created, from a file and from variables alike) -/
def loaderRefuses (r : MechRow) (key : String) : Bool := r.loaderClosed && !r.loaderNames.contains key
end MechRow

def mechRow? (cat typ place : String) : Option MechRow :=
  mechOptionTable.find? (fun r => r.cat == cat && r.typ == typ && r.place == place)

/-- what the property demands of one measured row: where the factory checks names and the schema does too, both know the
    same names (where the schema leaves the names open the factory still refuses what it does not read, from both
    sources alike); where the factory takes no notice of the config (its factory function ignores the parameter), the
    schema accepts no option at all – nothing is accepted and then ignored -/
def mechRowOk (r : MechRow) : Bool :=
  if r.loaderClosed then
    !r.schemaClosed || (r.loaderNames.all (fun k => r.schemaNames.contains k) && r.schemaNames.all (fun k => r.loaderNames.contains k))
  else
    r.schemaClosed && r.schemaNames.isEmpty && ignoresConfig.contains (r.cat, r.typ)

/-- the measured table agrees, and it was measured for every mechanism type that has a factory -/
def mechTablesAgree : Bool :=
  mechMeasured && mechOptionTable.all mechRowOk
  && loaderMechTypes.all (fun t => t.1 == "cache" || (mechRow? t.1 t.2 "").isSome)

/-- a mechanism declaration of the catalogue as far as names go: category, type, and the options it uses
    (place below `config`, name) -/
structure MechDecl where
  cat : String
  typ : String
  options : List (String × String)

namespace MechDecl
/-- the type factory creates the mechanism: the type has a factory and no option name is refused -/
def factoryAccepts (d : MechDecl) : Bool :=
  loaderSupportsType d.cat d.typ && d.options.all fun o =>
    match mechRow? d.cat d.typ o.1 with
    | some r => !r.loaderRefuses o.2
    | none => false
/-- the file validation lets the declaration pass -/
def validationAccepts (d : MechDecl) : Bool :=
  schemaAcceptsType d.cat d.typ && d.options.all fun o =>
    match mechRow? d.cat d.typ o.1 with
    | some r => r.schemaAccepts o.2
    | none => false
/-- variables are not validated: the declaration is usable when the factory creates the mechanism -/
def usableFromEnv (d : MechDecl) : Bool := d.factoryAccepts
/-- a file has to pass the validation first -/
def usableFromFile (d : MechDecl) : Bool := d.validationAccepts && d.factoryAccepts
/-- every option stands at a measured place where the factory checks names (what is handed to a factory that ignores
    its config is no option of the mechanism) -/
def effective (d : MechDecl) : Bool :=
  d.options.all fun o =>
    match mechRow? d.cat d.typ o.1 with
    | some r => r.loaderClosed
    | none => false
end MechDecl

end Heimdall.Config.Schema
