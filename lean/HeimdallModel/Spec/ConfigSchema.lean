import HeimdallModel.Gen.ConfigSchema
/-!
# C20, schema part: what the JSON schema applied to the configuration file accepts, what the loader supports

The tables of `Gen/ConfigSchema.lean` are regenerated from `schema/config.schema.json`, the mechanism registries and
the `koanf` tags of `internal/config` on every run. A configuration is usable from the environment when the loader
supports what it uses; it is usable from a file when in addition the schema accepts it. The property demands that the
schema accepts exactly what the loader supports.
-/
namespace Heimdall.Config.Schema
open Heimdall.Gen.ConfigSchema

/-- the file validation accepts a mechanism (or cache) of this category and type -/
def schemaAcceptsType (cat typ : String) : Bool := schemaMechTypes.contains (cat, typ)

/-- a factory is registered for this category and type -/
def loaderSupportsType (cat typ : String) : Bool := loaderMechTypes.contains (cat, typ)

def row? (path : String) : Option (String × Bool × List String × List String) :=
  optionTable.find? (fun r => r.1 == path)

/-- the schema names `key` as a property of the struct at `path` -/
def schemaNamesOption (path key : String) : Bool :=
  match row? path with
  | some r => r.2.2.1.contains key
  | none => false

/-- the file validation lets `key` pass at `path` (named, or the schema does not restrict names there) -/
def schemaAcceptsOption (path key : String) : Bool :=
  match row? path with
  | some r => !r.2.1 || r.2.2.1.contains key
  | none => false

/-- the loader reads `key` into the struct at `path` -/
def loaderReadsOption (path key : String) : Bool :=
  match row? path with
  | some r => r.2.2.2.contains key
  | none => false

/-- the generated tables agree: same mechanism types; every property the schema names is read by the loader;
    every property the loader reads passes the schema -/
def tablesAgree : Bool :=
  schemaMechTypes.all (fun t => loaderMechTypes.contains t)
  && loaderMechTypes.all (fun t => schemaMechTypes.contains t)
  && optionTable.all (fun r =>
      r.2.2.1.all (fun k => r.2.2.2.contains k) && r.2.2.2.all (fun k => !r.2.1 || r.2.2.1.contains k))

end Heimdall.Config.Schema
